/*
 * vtrace — syscall-level crash / pause supervisor (ptrace, x86_64 Linux).
 *
 *   vtrace --root R [--root R2 ...] [--log FILE] [--with-stat] [mode] -- cmd args...
 *
 * Runs `cmd` and every thread / process it creates under ptrace and numbers
 * the *relevant* system calls 1,2,3,... in ONE global order (the order of
 * their syscall-ENTRY stops as seen by this supervisor) across all threads
 * and processes of the tracee tree.
 *
 * Relevant = open/openat/openat2/creat, write/pwrite64/writev/pwritev/pwritev2,
 * sendfile/copy_file_range/splice (by their output fd),
 * rename/renameat/renameat2, unlink/unlinkat, mkdir/mkdirat, rmdir,
 * truncate/ftruncate, fsync/fdatasync, close — when the path (or the path the
 * fd was opened on / bound to) lies under one of the --root prefixes — plus
 * bind/connect on AF_UNIX paths under a root and listen on an fd bound to one.
 *
 * --with-stat (default off: numbering without it is unchanged): path-taking calls of the stat
 * family — stat, lstat, newfstatat, statx, access, faccessat, faccessat2, readlink, readlinkat —
 * on a (non-empty) path under a root are relevant too.  They modify nothing; they give pause /
 * kill points inside stretches in which the tracee only inspects the file system.
 *
 * Modes (at most one):
 *   (none)                          run to completion
 *   --kill-at K                     SIGKILL the whole traced tree at ENTRY of call K (K never executes)
 *   --kill-at K --tear M            K must be write/pwrite64 with len > M >= 0: the length register is
 *                                   rewritten to M, the call executes, the tree is killed at its EXIT
 *   --pause-at K --ready F --resume G
 *                                   hold ONLY the calling thread at entry of call K, create file F,
 *                                   keep servicing every other thread; release when file G exists
 *
 * --log FILE: numbered trace, one line per relevant call, in K order:
 *     K tid name ARG [ARG2] [flags=...] [len=N] ret=R
 *   ARG is a path or `fd->path`; in paths the bytes space, backslash, and
 *   everything outside 0x21..0x7e are written as \xHH.  ret=? : the call had not
 *   returned when the trace was written (killed / still paused).  The file is
 *   written at the end (and rewritten at the pause point) followed by one line
 *     # end <exit S | signal S | killed-at K | torn-at K M | pause-at K ...>
 *
 * Exit status: 99 killed at K as requested (also for --tear)
 *              the tracee's own exit status (128+sig when it died of a signal)
 *                 when it ended before call K (or no kill was requested)
 *              95 --tear impossible at call K (not write/pwrite64, or len <= M); tree killed
 *              96 usage error, 97 internal error (ptrace/exec failed)
 *
 * Not observed: writes through mmap and io_uring.
 * fd -> path keeps the path used at open time (a later rename is not followed).
 */
#define _GNU_SOURCE
#include <errno.h>
#include <fcntl.h>
#include <signal.h>
#include <stdarg.h>
#include <stddef.h>
#include <stdint.h>
#include <stdio.h>
#include <stdlib.h>
#include <string.h>
#include <time.h>
#include <unistd.h>
#include <limits.h>
#include <sched.h>
#include <sys/ptrace.h>
#include <sys/socket.h>
#include <sys/stat.h>
#include <sys/syscall.h>
#include <sys/types.h>
#include <sys/uio.h>
#include <sys/un.h>
#include <sys/user.h>
#include <sys/wait.h>
#include <linux/ptrace.h>

#ifndef SYS_openat2
#define SYS_openat2 437
#endif
#ifndef SYS_pwritev2
#define SYS_pwritev2 328
#endif
#ifndef SYS_close_range
#define SYS_close_range 436
#endif
#ifndef SYS_clone3
#define SYS_clone3 435
#endif
#ifndef SYS_statx
#define SYS_statx 332
#endif
#ifndef SYS_faccessat2
#define SYS_faccessat2 439
#endif

#define EX_KILLED 99
#define EX_NOTEAR 95
#define EX_USAGE 96
#define EX_INTERNAL 97

/* ------------------------------------------------------------ options --- */

static const char *roots[64];
static int nroots;
static const char *logpath;
static long kill_at, pause_at;
static long tear = -1;
static const char *ready_file, *resume_file;
static int verbose;
static int with_stat;

static void die(int code, const char *fmt, ...)
{
    va_list ap;
    va_start(ap, fmt);
    fprintf(stderr, "vtrace: ");
    vfprintf(stderr, fmt, ap);
    fprintf(stderr, "\n");
    va_end(ap);
    exit(code);
}

/* ----------------------------------------------------------- fd tables --- */

struct fdent {
    int fd;
    int cloexec;
    char *path;
};
struct fdtab {
    int refs;
    int n, cap;
    struct fdent *e;
};

static struct fdtab *fdtab_new(void)
{
    struct fdtab *t = calloc(1, sizeof *t);
    t->refs = 1;
    return t;
}
static struct fdtab *fdtab_copy(struct fdtab *s)
{
    struct fdtab *t = fdtab_new();
    for (int i = 0; i < s->n; i++) {
        if (t->n == t->cap) {
            t->cap = t->cap ? t->cap * 2 : 8;
            t->e = realloc(t->e, t->cap * sizeof *t->e);
        }
        t->e[t->n] = s->e[i];
        t->e[t->n].path = strdup(s->e[i].path);
        t->n++;
    }
    return t;
}
static void fdtab_unref(struct fdtab *t)
{
    if (!t || --t->refs > 0)
        return;
    for (int i = 0; i < t->n; i++)
        free(t->e[i].path);
    free(t->e);
    free(t);
}
static struct fdent *fd_lookup(struct fdtab *t, int fd)
{
    for (int i = 0; i < t->n; i++)
        if (t->e[i].fd == fd)
            return &t->e[i];
    return NULL;
}
static void fd_del(struct fdtab *t, int fd)
{
    for (int i = 0; i < t->n; i++)
        if (t->e[i].fd == fd) {
            free(t->e[i].path);
            t->e[i] = t->e[--t->n];
            return;
        }
}
static void fd_put(struct fdtab *t, int fd, const char *path, int cloexec)
{
    fd_del(t, fd);
    if (t->n == t->cap) {
        t->cap = t->cap ? t->cap * 2 : 8;
        t->e = realloc(t->e, t->cap * sizeof *t->e);
    }
    t->e[t->n].fd = fd;
    t->e[t->n].cloexec = cloexec;
    t->e[t->n].path = strdup(path);
    t->n++;
}

/* -------------------------------------------------------------- threads --- */

enum { ST_RUNNING = 0, ST_WAIT_PARENT, ST_HELD };

struct thr {
    pid_t tid, tgid;
    struct fdtab *fds;
    int known;          /* linkage (tgid, fds) established */
    int expect_stop;    /* initial SIGSTOP still to be swallowed */
    int state;
    int insys;          /* between entry and exit stop */
    long nr;            /* syscall number of the call in flight */
    unsigned long long a[6];
    long k;             /* relevant-call number of the call in flight, 0 if none */
    char *p1;           /* resolved path recorded at entry (open*, bind) */
    struct thr *next;
};
static struct thr *threads;
static int nthreads;

static struct thr *thr_find(pid_t tid)
{
    for (struct thr *t = threads; t; t = t->next)
        if (t->tid == tid)
            return t;
    return NULL;
}
static struct thr *thr_add(pid_t tid)
{
    struct thr *t = calloc(1, sizeof *t);
    t->tid = tid;
    t->next = threads;
    threads = t;
    nthreads++;
    return t;
}
static void thr_del(pid_t tid)
{
    for (struct thr **pp = &threads; *pp; pp = &(*pp)->next)
        if ((*pp)->tid == tid) {
            struct thr *t = *pp;
            *pp = t->next;
            fdtab_unref(t->fds);
            free(t->p1);
            free(t);
            nthreads--;
            return;
        }
}

/* ---------------------------------------------------------------- trace --- */

struct rec {
    pid_t tid;
    char *text;   /* everything between tid and ret= */
    int done;
    long long ret;
};
static struct rec *recs;
static long nrecs, caprecs;
static char endline[256] = "running";

static long rec_new(pid_t tid, const char *text)
{
    if (nrecs == caprecs) {
        caprecs = caprecs ? caprecs * 2 : 256;
        recs = realloc(recs, caprecs * sizeof *recs);
    }
    recs[nrecs].tid = tid;
    recs[nrecs].text = strdup(text);
    recs[nrecs].done = 0;
    recs[nrecs].ret = 0;
    return ++nrecs;
}

static void write_log(void)
{
    if (!logpath)
        return;
    char tmp[PATH_MAX];
    snprintf(tmp, sizeof tmp, "%s.tmp%d", logpath, (int)getpid());
    FILE *f = fopen(tmp, "w");
    if (!f) {
        fprintf(stderr, "vtrace: cannot write %s: %s\n", tmp, strerror(errno));
        return;
    }
    for (long i = 0; i < nrecs; i++) {
        if (recs[i].done)
            fprintf(f, "%ld %d %s ret=%lld\n", i + 1, (int)recs[i].tid, recs[i].text, recs[i].ret);
        else
            fprintf(f, "%ld %d %s ret=?\n", i + 1, (int)recs[i].tid, recs[i].text);
    }
    fprintf(f, "# end %s\n", endline);
    fclose(f);
    rename(tmp, logpath);
}

/* ---------------------------------------------------------------- paths --- */

static int read_mem(pid_t tid, unsigned long long addr, void *buf, size_t len)
{
    struct iovec l = {buf, len}, r = {(void *)(uintptr_t)addr, len};
    ssize_t n = process_vm_readv(tid, &l, 1, &r, 1, 0);
    if (n == (ssize_t)len)
        return 0;
    /* fall back to word reads (e.g. across an unmapped page boundary) */
    size_t got = n > 0 ? (size_t)n : 0;
    while (got < len) {
        errno = 0;
        long w = ptrace(PTRACE_PEEKDATA, tid, (void *)(uintptr_t)(addr + got), 0);
        if (errno)
            return -1;
        size_t c = len - got < sizeof w ? len - got : sizeof w;
        memcpy((char *)buf + got, &w, c);
        got += c;
    }
    return 0;
}

/* reads a NUL-terminated string; page-wise so that it never crosses into an unmapped page needlessly */
static int read_str(pid_t tid, unsigned long long addr, char *buf, size_t cap)
{
    size_t got = 0;
    if (!addr)
        return -1;
    while (got < cap - 1) {
        size_t chunk = 4096 - ((addr + got) & 4095);
        if (chunk > cap - 1 - got)
            chunk = cap - 1 - got;
        struct iovec l = {buf + got, chunk}, r = {(void *)(uintptr_t)(addr + got), chunk};
        ssize_t n = process_vm_readv(tid, &l, 1, &r, 1, 0);
        if (n <= 0) {
            /* word-wise fallback */
            errno = 0;
            long w = ptrace(PTRACE_PEEKDATA, tid, (void *)(uintptr_t)((addr + got) & ~7ULL), 0);
            if (errno)
                return -1;
            size_t off = (addr + got) & 7;
            n = 8 - off;
            if ((size_t)n > chunk)
                n = chunk;
            memcpy(buf + got, (char *)&w + off, n);
        }
        for (ssize_t i = 0; i < n; i++)
            if (buf[got + i] == 0)
                return 0;
        got += n;
    }
    buf[cap - 1] = 0;
    return 0;
}

/* lexical clean-up of an absolute path: //, /./, /../ */
static void clean_path(char *p)
{
    char out[PATH_MAX];
    size_t o = 0;
    const char *s = p;
    while (*s) {
        while (*s == '/')
            s++;
        if (!*s)
            break;
        const char *e = s;
        while (*e && *e != '/')
            e++;
        size_t n = e - s;
        if (n == 1 && s[0] == '.') {
        } else if (n == 2 && s[0] == '.' && s[1] == '.') {
            while (o > 0 && out[o - 1] != '/')
                o--;
            if (o > 0)
                o--;
        } else if (o + n + 2 < sizeof out) {
            out[o++] = '/';
            memcpy(out + o, s, n);
            o += n;
        }
        s = e;
    }
    if (o == 0)
        out[o++] = '/';
    out[o] = 0;
    strcpy(p, out);
}

static int under_root(const char *p)
{
    for (int i = 0; i < nroots; i++) {
        size_t n = strlen(roots[i]);
        while (n > 1 && roots[i][n - 1] == '/')
            n--;
        if (strncmp(p, roots[i], n) == 0 && (p[n] == 0 || p[n] == '/' || (n == 1 && roots[i][0] == '/')))
            return 1;
    }
    return 0;
}

/* resolves (dirfd, user pointer) to an absolute cleaned path in out[PATH_MAX]; -1 when unreadable */
static int resolve(struct thr *t, int dirfd, unsigned long long uptr, char *out)
{
    char raw[PATH_MAX];
    if (read_str(t->tid, uptr, raw, sizeof raw) < 0)
        return -1;
    if (raw[0] == '/') {
        snprintf(out, PATH_MAX, "%s", raw);
    } else {
        char base[PATH_MAX];
        struct fdent *e = dirfd == AT_FDCWD ? NULL : fd_lookup(t->fds, dirfd);
        if (e) {
            snprintf(base, sizeof base, "%s", e->path);
        } else {
            char lnk[64];
            if (dirfd == AT_FDCWD)
                snprintf(lnk, sizeof lnk, "/proc/%d/cwd", (int)t->tid);
            else
                snprintf(lnk, sizeof lnk, "/proc/%d/fd/%d", (int)t->tid, dirfd);
            ssize_t n = readlink(lnk, base, sizeof base - 1);
            if (n < 0)
                return -1;
            base[n] = 0;
        }
        if (snprintf(out, PATH_MAX, "%s/%s", base, raw) >= PATH_MAX)
            return -1;
    }
    clean_path(out);
    return 0;
}

static void esc(const char *s, char *out, size_t cap)
{
    size_t o = 0;
    for (; *s && o + 5 < cap; s++) {
        unsigned char c = (unsigned char)*s;
        if (c <= 0x20 || c >= 0x7f || c == '\\')
            o += snprintf(out + o, cap - o, "\\x%02x", c);
        else
            out[o++] = (char)c;
    }
    out[o] = 0;
}

static void flags_str(unsigned long long fl, char *out, size_t cap)
{
    static const struct { unsigned long long v; const char *n; } tab[] = {
        {O_CREAT, "O_CREAT"}, {O_EXCL, "O_EXCL"}, {O_TRUNC, "O_TRUNC"}, {O_APPEND, "O_APPEND"},
        {O_DIRECTORY, "O_DIRECTORY"}, {O_CLOEXEC, "O_CLOEXEC"}, {O_NONBLOCK, "O_NONBLOCK"},
        {O_SYNC & ~O_DSYNC, "O_SYNC"}, {O_DSYNC, "O_DSYNC"}, {O_NOFOLLOW, "O_NOFOLLOW"}, {O_PATH, "O_PATH"},
        {O_NOCTTY, "O_NOCTTY"}, {0100000 /* O_LARGEFILE */, "O_LARGEFILE"}, {O_NOATIME, "O_NOATIME"},
        {O_TMPFILE & ~O_DIRECTORY, "O_TMPFILE"},
    };
    size_t o = 0;
    switch (fl & O_ACCMODE) {
    case O_RDONLY: o += snprintf(out + o, cap - o, "O_RDONLY"); break;
    case O_WRONLY: o += snprintf(out + o, cap - o, "O_WRONLY"); break;
    case O_RDWR: o += snprintf(out + o, cap - o, "O_RDWR"); break;
    default: o += snprintf(out + o, cap - o, "O_ACC3"); break;
    }
    fl &= ~(unsigned long long)O_ACCMODE;
    for (size_t i = 0; i < sizeof tab / sizeof tab[0]; i++)
        if (tab[i].v && (fl & tab[i].v) == tab[i].v) {
            o += snprintf(out + o, cap - o, "|%s", tab[i].n);
            fl &= ~tab[i].v;
        }
    if (fl)
        snprintf(out + o, cap - o, "|0x%llx", fl);
}

/* --------------------------------------------------------- kill / finish --- */

static pid_t root_pid;
static int root_status = -1; /* exit code of the root process once known */

static void kill_tree(void)
{
    for (struct thr *t = threads; t; t = t->next) {
        if (t->tgid > 0)
            kill(t->tgid, SIGKILL);
        kill(t->tid, SIGKILL); /* not yet linked threads / processes */
    }
    if (root_pid > 0)
        kill(root_pid, SIGKILL);
    /* reap everything that is traced or ours */
    for (;;) {
        int st;
        pid_t w = waitpid(-1, &st, __WALL);
        if (w < 0) {
            if (errno == EINTR)
                continue;
            break;
        }
        if (WIFSTOPPED(st)) {
            /* a thread we had not heard of yet (or one racing with the kill): make sure it dies */
            kill(w, SIGKILL);
            ptrace(PTRACE_CONT, w, 0, 0);
        }
    }
}

static void finish(int code)
{
    write_log();
    exit(code);
}

static volatile sig_atomic_t got_term;
static void on_term(int sig) { got_term = sig; }

/* ------------------------------------------------------- syscall decoding --- */

/* The relevant call (if any) entered by thread t.  Fills text[] and returns 1 when relevant. */
static int classify(struct thr *t, char *text, size_t cap, unsigned long long *wlen, int *tearable)
{
    char p[PATH_MAX], p2[PATH_MAX], e1[PATH_MAX * 4 / 2], e2[PATH_MAX * 4 / 2], fl[256];
    unsigned long long *a = t->a;
    struct fdent *fe;
    *wlen = 0;
    *tearable = 0;
    free(t->p1);
    t->p1 = NULL;
    switch (t->nr) {
    case SYS_open:
    case SYS_creat:
    case SYS_openat:
    case SYS_openat2: {
        int dirfd = AT_FDCWD;
        unsigned long long uptr = a[0], flags = a[1];
        const char *name = "open";
        if (t->nr == SYS_creat) {
            flags = O_CREAT | O_WRONLY | O_TRUNC;
            name = "creat";
        } else if (t->nr == SYS_openat) {
            dirfd = (int)a[0]; uptr = a[1]; flags = a[2];
            name = "openat";
        } else if (t->nr == SYS_openat2) {
            dirfd = (int)a[0]; uptr = a[1];
            flags = 0;
            read_mem(t->tid, a[2], &flags, sizeof flags);
            name = "openat2";
        }
        if (resolve(t, dirfd, uptr, p) < 0)
            return 0;
        /* remember for the exit stop even when not under a root: no (fd table only holds relevant paths) */
        if (!under_root(p))
            return 0;
        t->p1 = strdup(p);
        esc(p, e1, sizeof e1);
        flags_str(flags, fl, sizeof fl);
        snprintf(text, cap, "%s %s flags=%s", name, e1, fl);
        return 1;
    }
    case SYS_write:
    case SYS_pwrite64:
    case SYS_writev:
    case SYS_pwritev:
    case SYS_pwritev2: {
        fe = fd_lookup(t->fds, (int)a[0]);
        if (!fe)
            return 0;
        const char *name = t->nr == SYS_write ? "write" : t->nr == SYS_pwrite64 ? "pwrite64" :
                           t->nr == SYS_writev ? "writev" : t->nr == SYS_pwritev ? "pwritev" : "pwritev2";
        unsigned long long len = a[2];
        if (t->nr == SYS_write || t->nr == SYS_pwrite64) {
            *tearable = 1;
        } else {
            /* sum of the iovec lengths */
            unsigned long long cnt = a[2] > 1024 ? 1024 : a[2];
            len = 0;
            for (unsigned long long i = 0; i < cnt; i++) {
                struct iovec iv;
                if (read_mem(t->tid, a[1] + i * sizeof iv, &iv, sizeof iv) < 0)
                    break;
                len += iv.iov_len;
            }
        }
        *wlen = len;
        esc(fe->path, e1, sizeof e1);
        if (t->nr == SYS_pwrite64 || t->nr == SYS_pwritev || t->nr == SYS_pwritev2)
            snprintf(text, cap, "%s %d->%s len=%llu off=%lld", name, (int)a[0], e1, len, (long long)a[3]);
        else
            snprintf(text, cap, "%s %d->%s len=%llu", name, (int)a[0], e1, len);
        return 1;
    }
    case SYS_sendfile:
    case SYS_copy_file_range:
    case SYS_splice: {
        int ofd = t->nr == SYS_sendfile ? (int)a[0] : (int)a[2];
        unsigned long long len = t->nr == SYS_sendfile ? a[3] : a[4];
        fe = fd_lookup(t->fds, ofd);
        if (!fe)
            return 0;
        *wlen = len;
        esc(fe->path, e1, sizeof e1);
        snprintf(text, cap, "%s %d->%s len=%llu", t->nr == SYS_sendfile ? "sendfile" :
                 t->nr == SYS_splice ? "splice" : "copy_file_range", ofd, e1, len);
        return 1;
    }
    case SYS_rename:
    case SYS_renameat:
    case SYS_renameat2: {
        int d1 = AT_FDCWD, d2 = AT_FDCWD;
        unsigned long long u1 = a[0], u2 = a[1];
        const char *name = "rename";
        if (t->nr != SYS_rename) {
            d1 = (int)a[0]; u1 = a[1]; d2 = (int)a[2]; u2 = a[3];
            name = t->nr == SYS_renameat ? "renameat" : "renameat2";
        }
        if (resolve(t, d1, u1, p) < 0 || resolve(t, d2, u2, p2) < 0)
            return 0;
        if (!under_root(p) && !under_root(p2))
            return 0;
        esc(p, e1, sizeof e1);
        esc(p2, e2, sizeof e2);
        snprintf(text, cap, "%s %s %s", name, e1, e2);
        return 1;
    }
    case SYS_unlink:
    case SYS_rmdir:
    case SYS_mkdir:
    case SYS_truncate:
    case SYS_unlinkat:
    case SYS_mkdirat: {
        int dirfd = AT_FDCWD;
        unsigned long long uptr = a[0];
        const char *name = t->nr == SYS_unlink ? "unlink" : t->nr == SYS_rmdir ? "rmdir" :
                           t->nr == SYS_mkdir ? "mkdir" : t->nr == SYS_truncate ? "truncate" :
                           t->nr == SYS_unlinkat ? "unlinkat" : "mkdirat";
        if (t->nr == SYS_unlinkat || t->nr == SYS_mkdirat) {
            dirfd = (int)a[0];
            uptr = a[1];
        }
        if (resolve(t, dirfd, uptr, p) < 0 || !under_root(p))
            return 0;
        esc(p, e1, sizeof e1);
        if (t->nr == SYS_truncate)
            snprintf(text, cap, "%s %s len=%llu", name, e1, a[1]);
        else if (t->nr == SYS_unlinkat && (a[2] & AT_REMOVEDIR))
            snprintf(text, cap, "%s %s flags=AT_REMOVEDIR", name, e1);
        else
            snprintf(text, cap, "%s %s", name, e1);
        return 1;
    }
    case SYS_ftruncate:
    case SYS_fsync:
    case SYS_fdatasync:
    case SYS_close:
    case SYS_listen: {
        fe = fd_lookup(t->fds, (int)a[0]);
        if (!fe)
            return 0;
        const char *name = t->nr == SYS_ftruncate ? "ftruncate" : t->nr == SYS_fsync ? "fsync" :
                           t->nr == SYS_fdatasync ? "fdatasync" : t->nr == SYS_close ? "close" : "listen";
        esc(fe->path, e1, sizeof e1);
        if (t->nr == SYS_ftruncate)
            snprintf(text, cap, "%s %d->%s len=%llu", name, (int)a[0], e1, a[1]);
        else
            snprintf(text, cap, "%s %d->%s", name, (int)a[0], e1);
        return 1;
    }
    case SYS_stat:
    case SYS_lstat:
    case SYS_access:
    case SYS_readlink:
    case SYS_newfstatat:
    case SYS_statx:
    case SYS_faccessat:
    case SYS_faccessat2:
    case SYS_readlinkat: {
        if (!with_stat)
            return 0;
        int dirfd = AT_FDCWD;
        unsigned long long uptr = a[0];
        const char *name = t->nr == SYS_stat ? "stat" : t->nr == SYS_lstat ? "lstat" :
                           t->nr == SYS_access ? "access" : t->nr == SYS_readlink ? "readlink" :
                           t->nr == SYS_newfstatat ? "newfstatat" : t->nr == SYS_statx ? "statx" :
                           t->nr == SYS_faccessat ? "faccessat" : t->nr == SYS_faccessat2 ? "faccessat2" : "readlinkat";
        if (t->nr == SYS_newfstatat || t->nr == SYS_statx || t->nr == SYS_faccessat ||
            t->nr == SYS_faccessat2 || t->nr == SYS_readlinkat) {
            dirfd = (int)a[0];
            uptr = a[1];
        }
        /* an empty path (AT_EMPTY_PATH) is a call on the descriptor itself, not on a path */
        char c0 = 0;
        if (!uptr || read_mem(t->tid, uptr, &c0, 1) < 0 || c0 == 0)
            return 0;
        if (resolve(t, dirfd, uptr, p) < 0 || !under_root(p))
            return 0;
        esc(p, e1, sizeof e1);
        snprintf(text, cap, "%s %s", name, e1);
        return 1;
    }
    case SYS_bind:
    case SYS_connect: {
        struct sockaddr_un sa;
        size_t len = a[2];
        if (len < sizeof(sa_family_t) + 1)
            return 0;
        if (len > sizeof sa)
            len = sizeof sa;
        memset(&sa, 0, sizeof sa);
        if (read_mem(t->tid, a[1], &sa, len) < 0 || sa.sun_family != AF_UNIX || sa.sun_path[0] == 0)
            return 0;
        char sp[sizeof sa.sun_path + 1];
        size_t pl = len - offsetof(struct sockaddr_un, sun_path);
        memcpy(sp, sa.sun_path, pl);
        sp[pl] = 0;
        if (sp[0] == '/') {
            snprintf(p, sizeof p, "%s", sp);
        } else {
            char lnk[64], base[PATH_MAX];
            snprintf(lnk, sizeof lnk, "/proc/%d/cwd", (int)t->tid);
            ssize_t n = readlink(lnk, base, sizeof base - 1);
            if (n < 0)
                return 0;
            base[n] = 0;
            if (snprintf(p, sizeof p, "%s/%s", base, sp) >= (int)sizeof p)
                return 0;
        }
        clean_path(p);
        if (!under_root(p))
            return 0;
        if (t->nr == SYS_bind)
            t->p1 = strdup(p);
        esc(p, e1, sizeof e1);
        snprintf(text, cap, "%s %d %s", t->nr == SYS_bind ? "bind" : "connect", (int)a[0], e1);
        return 1;
    }
    }
    return 0;
}

/* bookkeeping at syscall exit (fd table) */
static void at_exit_stop(struct thr *t, long long ret)
{
    unsigned long long *a = t->a;
    switch (t->nr) {
    case SYS_open:
    case SYS_creat:
    case SYS_openat:
    case SYS_openat2:
        if (ret >= 0) {
            if (t->p1) {
                unsigned long long flags = t->nr == SYS_open ? a[1] : t->nr == SYS_openat ? a[2] : 0;
                if (t->nr == SYS_openat2)
                    read_mem(t->tid, a[2], &flags, sizeof flags);
                fd_put(t->fds, (int)ret, t->p1, (flags & O_CLOEXEC) != 0);
            } else {
                fd_del(t->fds, (int)ret); /* stale entry: number reused by an irrelevant file */
            }
        }
        break;
    case SYS_bind:
        if (ret == 0 && t->p1)
            fd_put(t->fds, (int)a[0], t->p1, 1);
        break;
    case SYS_close:
        /* the descriptor is gone whatever close returned (EINTR/EIO included), except EBADF */
        if (ret != -EBADF)
            fd_del(t->fds, (int)a[0]);
        break;
    case SYS_close_range:
        if (ret == 0 && !(a[2] & 4 /* CLOSE_RANGE_CLOEXEC */)) {
            for (int i = t->fds->n - 1; i >= 0; i--)
                if ((unsigned)t->fds->e[i].fd >= (unsigned)a[0] && (unsigned)t->fds->e[i].fd <= (unsigned)a[1])
                    fd_del(t->fds, t->fds->e[i].fd);
        }
        break;
    case SYS_dup:
    case SYS_dup2:
    case SYS_dup3:
        if (ret >= 0) {
            struct fdent *fe = fd_lookup(t->fds, (int)a[0]);
            if (t->nr != SYS_dup && (int)a[0] == (int)ret)
                break;
            if (fe) {
                char *cp = strdup(fe->path);
                fd_put(t->fds, (int)ret, cp, t->nr == SYS_dup3 && (a[2] & O_CLOEXEC));
                free(cp);
            } else {
                fd_del(t->fds, (int)ret);
            }
        }
        break;
    case SYS_fcntl:
        if (ret >= 0 && ((int)a[1] == F_DUPFD || (int)a[1] == F_DUPFD_CLOEXEC)) {
            struct fdent *fe = fd_lookup(t->fds, (int)a[0]);
            if (fe) {
                char *cp = strdup(fe->path);
                fd_put(t->fds, (int)ret, cp, (int)a[1] == F_DUPFD_CLOEXEC);
                free(cp);
            } else {
                fd_del(t->fds, (int)ret);
            }
        } else if (ret == 0 && (int)a[1] == F_SETFD) {
            struct fdent *fe = fd_lookup(t->fds, (int)a[0]);
            if (fe)
                fe->cloexec = (a[2] & FD_CLOEXEC) != 0;
        }
        break;
    case SYS_socket:
    case SYS_accept:
    case SYS_accept4:
    case SYS_epoll_create1:
    case SYS_eventfd2:
    case SYS_memfd_create:
    case SYS_inotify_init1:
    case SYS_timerfd_create:
    case SYS_signalfd4:
    case SYS_pidfd_open:
        if (ret >= 0)
            fd_del(t->fds, (int)ret); /* number reused by something we do not track */
        break;
    case SYS_pipe:
    case SYS_pipe2:
    case SYS_socketpair:
        if (ret == 0) {
            int pfd[2];
            unsigned long long ptr = t->nr == SYS_socketpair ? a[3] : a[0];
            if (read_mem(t->tid, ptr, pfd, sizeof pfd) == 0) {
                fd_del(t->fds, pfd[0]);
                fd_del(t->fds, pfd[1]);
            }
        }
        break;
    }
}

/* ------------------------------------------------------------------ main --- */

static void resume(struct thr *t, int sig)
{
    if (ptrace(PTRACE_SYSCALL, t->tid, 0, (void *)(long)sig) < 0 && errno != ESRCH && verbose)
        fprintf(stderr, "vtrace: PTRACE_SYSCALL %d: %s\n", (int)t->tid, strerror(errno));
}

static pid_t read_tgid(pid_t tid)
{
    char path[64], line[256];
    snprintf(path, sizeof path, "/proc/%d/status", (int)tid);
    FILE *f = fopen(path, "r");
    pid_t tg = 0;
    if (!f)
        return 0;
    while (fgets(line, sizeof line, f))
        if (strncmp(line, "Tgid:", 5) == 0) {
            tg = (pid_t)atol(line + 5);
            break;
        }
    fclose(f);
    return tg;
}

static void touch(const char *p)
{
    int fd = open(p, O_CREAT | O_WRONLY | O_TRUNC, 0644);
    if (fd >= 0)
        close(fd);
    else
        fprintf(stderr, "vtrace: cannot create %s: %s\n", p, strerror(errno));
}

int main(int argc, char **argv)
{
    int i = 1;
    for (; i < argc; i++) {
        const char *o = argv[i];
        if (!strcmp(o, "--")) {
            i++;
            break;
        }
#define NEEDARG() do { if (i + 1 >= argc) die(EX_USAGE, "%s needs an argument", o); } while (0)
        if (!strcmp(o, "--root")) {
            NEEDARG();
            if (nroots >= 62)
                die(EX_USAGE, "too many roots");
            const char *r = argv[++i];
            if (r[0] != '/')
                die(EX_USAGE, "--root must be absolute: %s", r);
            char *c = strdup(r);
            clean_path(c);
            roots[nroots++] = c;
            char real[PATH_MAX];
            if (realpath(r, real) && strcmp(real, c) != 0)
                roots[nroots++] = strdup(real);
        } else if (!strcmp(o, "--log")) {
            NEEDARG();
            logpath = argv[++i];
        } else if (!strcmp(o, "--kill-at")) {
            NEEDARG();
            kill_at = atol(argv[++i]);
            if (kill_at < 1)
                die(EX_USAGE, "--kill-at K: K >= 1");
        } else if (!strcmp(o, "--tear")) {
            NEEDARG();
            tear = atol(argv[++i]);
            if (tear < 0)
                die(EX_USAGE, "--tear M: M >= 0");
        } else if (!strcmp(o, "--pause-at")) {
            NEEDARG();
            pause_at = atol(argv[++i]);
            if (pause_at < 1)
                die(EX_USAGE, "--pause-at K: K >= 1");
        } else if (!strcmp(o, "--ready")) {
            NEEDARG();
            ready_file = argv[++i];
        } else if (!strcmp(o, "--resume")) {
            NEEDARG();
            resume_file = argv[++i];
        } else if (!strcmp(o, "--verbose")) {
            verbose = 1;
        } else if (!strcmp(o, "--with-stat")) {
            with_stat = 1;
        } else {
            die(EX_USAGE, "unknown option %s\nusage: vtrace --root R [--root R2] [--log FILE] [--with-stat] [--kill-at K [--tear M] | --pause-at K --ready F --resume G] -- cmd args...", o);
        }
    }
    if (i >= argc)
        die(EX_USAGE, "no command given (use -- cmd args...)");
    if (nroots == 0)
        die(EX_USAGE, "at least one --root is needed");
    if (tear >= 0 && !kill_at)
        die(EX_USAGE, "--tear needs --kill-at");
    if (kill_at && pause_at)
        die(EX_USAGE, "--kill-at and --pause-at exclude each other");
    if (pause_at && (!ready_file || !resume_file))
        die(EX_USAGE, "--pause-at needs --ready F and --resume G");

    struct sigaction sa;
    memset(&sa, 0, sizeof sa);
    sa.sa_handler = on_term;
    sigaction(SIGTERM, &sa, NULL);
    sigaction(SIGINT, &sa, NULL);
    sigaction(SIGHUP, &sa, NULL);

    pid_t child = fork();
    if (child < 0)
        die(EX_INTERNAL, "fork: %s", strerror(errno));
    if (child == 0) {
        if (ptrace(PTRACE_TRACEME, 0, 0, 0) < 0) {
            fprintf(stderr, "vtrace: PTRACE_TRACEME: %s\n", strerror(errno));
            _exit(EX_INTERNAL);
        }
        raise(SIGSTOP);
        execvp(argv[i], argv + i);
        fprintf(stderr, "vtrace: exec %s: %s\n", argv[i], strerror(errno));
        _exit(127);
    }
    root_pid = child;
    int st;
    if (waitpid(child, &st, __WALL) < 0 || !WIFSTOPPED(st))
        die(EX_INTERNAL, "child did not stop");
    long opts = PTRACE_O_TRACESYSGOOD | PTRACE_O_TRACECLONE | PTRACE_O_TRACEFORK | PTRACE_O_TRACEVFORK |
                PTRACE_O_TRACEEXEC | PTRACE_O_EXITKILL;
    if (ptrace(PTRACE_SETOPTIONS, child, 0, (void *)opts) < 0) {
        kill(child, SIGKILL);
        die(EX_INTERNAL, "PTRACE_SETOPTIONS: %s", strerror(errno));
    }
    struct thr *t0 = thr_add(child);
    t0->tgid = child;
    t0->fds = fdtab_new();
    t0->known = 1;
    resume(t0, 0);

    long counter = 0;
    struct thr *paused = NULL;   /* thread held by --pause-at */
    int pause_done = 0;
    struct thr *tearing = NULL;  /* thread executing the torn write */
    long tear_k = 0;

    for (;;) {
        if (got_term) {
            snprintf(endline, sizeof endline, "supervisor got signal %d", (int)got_term);
            kill_tree();
            finish(EX_INTERNAL);
        }
        pid_t w;
        if (paused) {
            w = waitpid(-1, &st, __WALL | WNOHANG);
            if (w == 0) {
                if (access(resume_file, F_OK) == 0) {
                    struct thr *p = paused;
                    paused = NULL;
                    pause_done = 1;
                    p->state = ST_RUNNING;
                    snprintf(endline, sizeof endline, "running (pause-at %ld released)", pause_at);
                    resume(p, 0);
                    continue;
                }
                struct timespec ts = {0, 1000000};
                nanosleep(&ts, NULL);
                continue;
            }
        } else {
            w = waitpid(-1, &st, __WALL);
        }
        if (w < 0) {
            if (errno == EINTR)
                continue;
            if (errno == ECHILD)
                break;
            die(EX_INTERNAL, "waitpid: %s", strerror(errno));
        }
        struct thr *t = thr_find(w);
        if (WIFEXITED(st) || WIFSIGNALED(st)) {
            if (w == root_pid)
                root_status = WIFEXITED(st) ? WEXITSTATUS(st) : 128 + WTERMSIG(st);
            if (t) {
                if (t == paused)
                    paused = NULL;
                if (t == tearing)
                    tearing = NULL;
                thr_del(w);
            }
            continue;
        }
        if (!WIFSTOPPED(st))
            continue;
        int sig = WSTOPSIG(st);
        unsigned ev = (unsigned)st >> 16;

        if (!t && ev == PTRACE_EVENT_EXEC) {
            /* exec by a non-leader thread whose leader we no longer list: the thread takes over the leader's id */
            unsigned long msg = 0;
            ptrace(PTRACE_GETEVENTMSG, w, 0, &msg);
            struct thr *o = thr_find((pid_t)msg);
            if (o) {
                o->tid = w;
                t = o;
            }
        }
        if (!t) {
            /* a new thread/process reporting before its creator's event stop */
            t = thr_add(w);
            t->known = 0;
            if (sig == SIGSTOP && ev == 0) {
                t->state = ST_WAIT_PARENT; /* keep it stopped until we learn who made it */
                continue;
            }
            /* unexpected: link it by /proc and go on */
            t->tgid = read_tgid(w);
            t->fds = fdtab_new();
            t->known = 1;
        }

        if (ev == PTRACE_EVENT_CLONE || ev == PTRACE_EVENT_FORK || ev == PTRACE_EVENT_VFORK) {
            unsigned long msg = 0;
            ptrace(PTRACE_GETEVENTMSG, w, 0, &msg);
            pid_t nt = (pid_t)msg;
            unsigned long long cflags = 0;
            if (t->nr == SYS_clone)
                cflags = t->a[0];
            else if (t->nr == SYS_clone3)
                read_mem(w, t->a[0], &cflags, sizeof cflags);
            struct thr *c = thr_find(nt);
            int waiting = 0;
            if (c) {
                waiting = c->state == ST_WAIT_PARENT;
            } else {
                c = thr_add(nt);
                c->expect_stop = 1;
            }
            if (cflags & CLONE_THREAD) {
                c->tgid = t->tgid;
                c->fds = t->fds;
                c->fds->refs++;
            } else if (cflags & CLONE_FILES) {
                c->tgid = nt;
                c->fds = t->fds;
                c->fds->refs++;
            } else {
                c->tgid = nt;
                c->fds = fdtab_copy(t->fds);
            }
            c->known = 1;
            if (waiting) {
                c->state = ST_RUNNING;
                resume(c, 0);
            }
            resume(t, 0);
            continue;
        }
        if (ev == PTRACE_EVENT_EXEC) {
            unsigned long msg = 0;
            ptrace(PTRACE_GETEVENTMSG, w, 0, &msg);
            pid_t old = (pid_t)msg;
            if (old && old != w) {
                /* a non-leader thread exec'ed: it now carries the leader's id */
                struct thr *o = thr_find(old);
                if (o) {
                    struct fdtab *keep = t->fds;
                    t->fds = o->fds;
                    o->fds = keep;
                    t->nr = o->nr;
                    memcpy(t->a, o->a, sizeof t->a);
                    t->k = o->k;
                    thr_del(old);
                }
            }
            /* every other thread of the group is gone */
            for (struct thr *x = threads; x;) {
                struct thr *nx = x->next;
                if (x != t && x->tgid == t->tgid && x->known)
                    thr_del(x->tid);
                x = nx;
            }
            /* private fd table from now on, close-on-exec descriptors dropped */
            if (t->fds->refs > 1) {
                struct fdtab *n = fdtab_copy(t->fds);
                fdtab_unref(t->fds);
                t->fds = n;
            }
            for (int j = t->fds->n - 1; j >= 0; j--)
                if (t->fds->e[j].cloexec)
                    fd_del(t->fds, t->fds->e[j].fd);
            t->insys = 1; /* the exit stop of execve follows */
            t->nr = SYS_execve;
            resume(t, 0);
            continue;
        }
        if (ev != 0) {
            resume(t, 0);
            continue;
        }

        if (sig == (SIGTRAP | 0x80)) {
            /* syscall stop: entry or exit? ask the kernel, fall back to the toggle */
            struct ptrace_syscall_info si;
            int op = -1;
            memset(&si, 0, sizeof si);
            if (ptrace(PTRACE_GET_SYSCALL_INFO, w, (void *)sizeof si, &si) > 0)
                op = si.op;
            int entry = op == PTRACE_SYSCALL_INFO_ENTRY ? 1 : op == PTRACE_SYSCALL_INFO_EXIT ? 0 : !t->insys;
            struct user_regs_struct regs;
            if (ptrace(PTRACE_GETREGS, w, 0, &regs) < 0) {
                resume(t, 0);
                continue;
            }
            if (entry) {
                t->insys = 1;
                t->nr = (long)regs.orig_rax;
                t->a[0] = regs.rdi; t->a[1] = regs.rsi; t->a[2] = regs.rdx;
                t->a[3] = regs.r10; t->a[4] = regs.r8; t->a[5] = regs.r9;
                t->k = 0;
                char text[PATH_MAX * 5];
                unsigned long long wlen = 0;
                int tearable = 0;
                if (!t->fds || !classify(t, text, sizeof text, &wlen, &tearable)) {
                    resume(t, 0);
                    continue;
                }
                if (tearing) {
                    /* a torn write is executing: nobody else gets past a relevant call any more */
                    t->state = ST_HELD;
                    continue;
                }
                long k = ++counter;
                rec_new(w, text);
                t->k = k;
                if (kill_at && k == kill_at) {
                    if (tear >= 0) {
                        if (!tearable || wlen <= (unsigned long long)tear) {
                            snprintf(endline, sizeof endline, "cannot-tear-at %ld %ld", k, tear);
                            kill_tree();
                            finish(EX_NOTEAR);
                        }
                        regs.rdx = (unsigned long long)tear;
                        if (ptrace(PTRACE_SETREGS, w, 0, &regs) < 0) {
                            snprintf(endline, sizeof endline, "setregs-failed-at %ld", k);
                            kill_tree();
                            finish(EX_INTERNAL);
                        }
                        tearing = t;
                        tear_k = k;
                        resume(t, 0);
                        continue;
                    }
                    /* make the call a no-op even if the kernel let it start, then kill */
                    regs.orig_rax = (unsigned long long)-1;
                    ptrace(PTRACE_SETREGS, w, 0, &regs);
                    snprintf(endline, sizeof endline, "killed-at %ld", k);
                    kill_tree();
                    finish(EX_KILLED);
                }
                if (pause_at && k == pause_at && !pause_done && !paused) {
                    paused = t;
                    t->state = ST_HELD;
                    snprintf(endline, sizeof endline, "pause-at %ld holding tid %d", k, (int)w);
                    write_log();
                    touch(ready_file);
                    continue;
                }
                resume(t, 0);
                continue;
            }
            /* exit stop */
            t->insys = 0;
            long long ret = (long long)regs.rax;
            if (t->fds)
                at_exit_stop(t, ret);
            if (t->k) {
                recs[t->k - 1].done = 1;
                recs[t->k - 1].ret = ret;
            }
            if (tearing == t && t->k == tear_k) {
                snprintf(endline, sizeof endline, "torn-at %ld %ld", tear_k, tear);
                kill_tree();
                finish(EX_KILLED);
            }
            t->k = 0;
            resume(t, 0);
            continue;
        }

        /* signal-delivery stop or group stop */
        if (sig == SIGSTOP && t->expect_stop) {
            t->expect_stop = 0;
            resume(t, 0);
            continue;
        }
        if (sig == SIGSTOP || sig == SIGTSTP || sig == SIGTTIN || sig == SIGTTOU) {
            siginfo_t info;
            if (ptrace(PTRACE_GETSIGINFO, w, 0, &info) < 0 && errno == EINVAL) {
                resume(t, 0); /* group stop: a TRACEME tracee cannot be kept stopped; let it run */
                continue;
            }
        }
        if (sig == SIGTRAP) {
            /* exec without TRACEEXEC or a stray trap: do not deliver */
            siginfo_t info;
            if (ptrace(PTRACE_GETSIGINFO, w, 0, &info) == 0 && info.si_code <= 0) {
                resume(t, sig); /* sent by kill()/tgkill(): a real signal */
                continue;
            }
            resume(t, 0);
            continue;
        }
        resume(t, sig);
    }

    if (root_status < 0)
        root_status = EX_INTERNAL;
    if (root_status >= 128)
        snprintf(endline, sizeof endline, "signal %d", root_status - 128);
    else
        snprintf(endline, sizeof endline, "exit %d", root_status);
    finish(root_status);
    return 0;
}
