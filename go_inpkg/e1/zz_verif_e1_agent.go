package agent

// Added to package agent by the verification overlay (never part of /repo):
// thin exported wrappers around unexported entry points, used by the E1
// harness (go/e1) to drive the real stop / signal path under the cooperative
// runtime.

import (
	"context"
	"syscall"

	"github.com/ErdemOzgen/blackdagger/internal/dag"
	"github.com/ErdemOzgen/blackdagger/internal/dag/scheduler"
)

// VerifSetup is the first step of Run: scheduler + graph.
func (a *Agent) VerifSetup() error { return a.setup() }

// VerifSchedule runs the DAG exactly as Run does (same context, same graph).
func (a *Agent) VerifSchedule(ctx context.Context, done chan *scheduler.Node) error {
	dagCtx := dag.NewContext(ctx, a.dag, a.dataStore.DAGStore(), a.requestID, a.logFile)
	return a.scheduler.Schedule(dagCtx, a.graph, done)
}

// VerifStop is what the /stop request does.
func (a *Agent) VerifStop() { a.signal(syscall.SIGTERM, true) }

func (a *Agent) VerifGraph() *scheduler.ExecutionGraph { return a.graph }

func (a *Agent) VerifScheduler() *scheduler.Scheduler { return a.scheduler }
