package scheduler

// Added to package scheduler by the verification overlay (never part of /repo).

// VerifCanceled reads the stop flag without synchronisation (the cooperative
// runtime runs one thread at a time).
func (sc *Scheduler) VerifCanceled() bool { return sc.canceled == 1 }
