// C09 — the scheduler daemon starts each DAG exactly at its scheduled minutes.
//
// In-package test file (added to internal/scheduler through the build overlay,
// see bin/vcheck build_overlay / HARNESS.md). It drives the real daemon pieces
// one simulated minute at a time:
//
//	New(cfg, logger, client)          real constructor: real entryReaderImpl (initDags over a real
//	                                  DAGs directory written as YAML files), real jobCreatorImpl/jobImpl
//	setFixedTime / now()              the daemon's own clock seam (also used by the repository's tests)
//	(*Scheduler).run(t)               one tick
//	(*Scheduler).nextTick(t)          the next tick instant
//	(*entryReaderImpl).Start(done)    the real directory watcher (fsnotify) in the DAG-set family
//
// The four lines of the real-time loop Scheduler.start() (t := now().Truncate(minute); on timer:
// run(t); t = nextTick(t); timer.Reset(t.Sub(now()))) are replayed by vc9Daemon.pump with the
// fixed clock: a timer armed with a non-positive duration fires at once, so the loop ticks while
// t <= now(). client.Client is a recording fake (Start/Stop/Restart recorded per tick,
// GetLatestStatus scripted from an environment model); IsSuspended/ToggleSuspend go to the real
// client and therefore to the real flag store.
//
// The reference (package zzverif/c09) is an independent cron matcher with its own calendar.
package scheduler

import (
	"bytes"
	"encoding/json"
	"fmt"
	"hash/fnv"
	"os"
	"path/filepath"
	"runtime"
	"sort"
	"strconv"
	"strings"
	"sync"
	"testing"
	"time"

	"github.com/ErdemOzgen/blackdagger/internal/client"
	"github.com/ErdemOzgen/blackdagger/internal/config"
	"github.com/ErdemOzgen/blackdagger/internal/dag"
	dagscheduler "github.com/ErdemOzgen/blackdagger/internal/dag/scheduler"
	"github.com/ErdemOzgen/blackdagger/internal/logger"
	dsclient "github.com/ErdemOzgen/blackdagger/internal/persistence/client"
	"github.com/ErdemOzgen/blackdagger/internal/persistence/model"
	ref "github.com/ErdemOzgen/blackdagger/internal/zzverif/c09"
	"github.com/ErdemOzgen/blackdagger/internal/zzverif/vlib"
)

// ---------------------------------------------------------------- logger ---

type vc9Logger struct{}

var _ logger.Logger = vc9Logger{}

func (vc9Logger) Debug(string, ...any)             {}
func (vc9Logger) Info(string, ...any)              {}
func (vc9Logger) Warn(string, ...any)              {}
func (vc9Logger) Error(string, ...any)             {}
func (vc9Logger) Fatal(string, ...any)             {}
func (vc9Logger) Debugf(string, ...any)            {}
func (vc9Logger) Infof(string, ...any)             {}
func (vc9Logger) Warnf(string, ...any)             {}
func (vc9Logger) Errorf(string, ...any)            {}
func (vc9Logger) Fatalf(string, ...any)            {}
func (l vc9Logger) With(...any) logger.Logger      { return l }
func (l vc9Logger) WithGroup(string) logger.Logger { return l }
func (vc9Logger) Write(string)                     {}

// ----------------------------------------------------- environment model ---

const (
	vc9Start = iota
	vc9Stop
	vc9Restart
)

var vc9KindName = [3]string{"start", "stop", "restart"}

// vc9DagState is the environment's record of one DAG's runs (what the history
// store / the run's socket would answer).
type vc9DagState struct {
	has     bool
	started time.Time
	forever bool
	until   time.Time // running while wall < until (unless forever)

	// what the daemon sees during the current tick: the state at the beginning of the tick
	snapHas, snapRun bool
	snapStarted      time.Time
	calls            [3]int
}

func (d *vc9DagState) running(wall time.Time) bool {
	return d.has && (d.forever || wall.Before(d.until))
}

type vc9World struct {
	mu    sync.Mutex
	st    map[string]*vc9DagState // by file name (base of DAG.Location)
	alien map[string]int          // calls for files the member does not know
}

func (w *vc9World) get(d *dag.DAG) *vc9DagState {
	return w.st[filepath.Base(d.Location)]
}

// vc9Client: recording fake. The embedded real client serves IsSuspended / ToggleSuspend (real
// flag store); everything the daemon uses to act on DAGs is overridden here.
type vc9Client struct {
	client.Client
	w *vc9World
}

func (c *vc9Client) GetLatestStatus(d *dag.DAG) (*model.Status, error) {
	c.w.mu.Lock()
	defer c.w.mu.Unlock()
	s := c.w.get(d)
	if s == nil || !s.snapHas {
		return model.NewStatusDefault(d), nil
	}
	st := dagscheduler.StatusSuccess
	pid := -1
	if s.snapRun {
		st = dagscheduler.StatusRunning
		pid = 4242
	}
	at := s.snapStarted
	return model.NewStatus(d, nil, st, pid, &at, nil), nil
}

// vc9SyncDef: the barrier definition. It carries a schedule so that a daemon which only keeps
// scheduled definitions in its table shows it too; operations issued for barrier files are ignored.
const vc9SyncDef = "schedule: \"59 23 31 12 *\"\nsteps:\n  - name: s1\n    command: \"true\"\n"

func (c *vc9Client) record(d *dag.DAG, kind int) error {
	if strings.HasPrefix(filepath.Base(d.Location), "zz_sync_") {
		return nil
	}
	c.w.mu.Lock()
	defer c.w.mu.Unlock()
	s := c.w.get(d)
	if s == nil {
		c.w.alien[vc9KindName[kind]+" "+filepath.Base(d.Location)]++
		return nil
	}
	s.calls[kind]++
	return nil
}

func (c *vc9Client) Start(d *dag.DAG, _ client.StartOptions) error { return c.record(d, vc9Start) }
func (c *vc9Client) StartAsync(d *dag.DAG, _ client.StartOptions)  { _ = c.record(d, vc9Start) }
func (c *vc9Client) Stop(d *dag.DAG) error                         { return c.record(d, vc9Stop) }
func (c *vc9Client) Restart(d *dag.DAG, _ client.RestartOptions) error {
	return c.record(d, vc9Restart)
}

// ------------------------------------------------------------- members ---

// vc9Def is the content of one definition file. Raw != "" means "written verbatim and not a
// loadable definition" (malformed YAML / invalid DAG); otherwise the YAML is emitted from the
// structured fields and the reference takes the expressions from here, never from the YAML.
type vc9Def struct {
	Raw      string   `json:"raw,omitempty"`
	Form     string   `json:"form,omitempty"` // string | list | map
	Starts   []string `json:"starts,omitempty"`
	Stops    []string `json:"stops,omitempty"`
	Restarts []string `json:"restarts,omitempty"`
	DagName  string   `json:"dag_name,omitempty"`
}

func vc9YAMLList(indent string, xs []string) string {
	var sb strings.Builder
	for _, x := range xs {
		fmt.Fprintf(&sb, "%s- %q\n", indent, x)
	}
	return sb.String()
}

func (d *vc9Def) yaml() string {
	if d.Raw != "" {
		return d.Raw
	}
	var sb strings.Builder
	if d.DagName != "" {
		fmt.Fprintf(&sb, "name: %q\n", d.DagName)
	}
	switch d.Form {
	case "string":
		fmt.Fprintf(&sb, "schedule: %q\n", d.Starts[0])
	case "list":
		sb.WriteString("schedule:\n" + vc9YAMLList("  ", d.Starts))
	case "map":
		sb.WriteString("schedule:\n")
		for _, kv := range []struct {
			k  string
			xs []string
		}{{"start", d.Starts}, {"stop", d.Stops}, {"restart", d.Restarts}} {
			switch len(kv.xs) {
			case 0:
			case 1:
				fmt.Fprintf(&sb, "  %s: %q\n", kv.k, kv.xs[0])
			default:
				fmt.Fprintf(&sb, "  %s:\n%s", kv.k, vc9YAMLList("    ", kv.xs))
			}
		}
	case "none":
	}
	sb.WriteString("steps:\n  - name: s1\n    command: \"true\"\n")
	return sb.String()
}

type vc9File struct {
	Name     string  `json:"name"`
	Kind     string  `json:"kind"`
	Pre      *vc9Def `json:"pre,omitempty"`  // nil: no such file at boot
	Post     *vc9Def `json:"post,omitempty"` // content after the "events" op (only when Changes)
	Changes  bool    `json:"changes,omitempty"`
	SuspPre  bool    `json:"susp_pre,omitempty"`
	SuspPost bool    `json:"susp_post,omitempty"`
}

type vc9Op struct {
	Op  string `json:"op"` // boot | down | adv | events
	Sec int    `json:"sec,omitempty"`
	N   int    `json:"n,omitempty"`
}

type vc9Member struct {
	Fam     string    `json:"fam"`
	Window  string    `json:"window"`
	Start   string    `json:"start"` // wall clock at boot, RFC3339
	Files   []vc9File `json:"files"`
	Hist    string    `json:"hist"`    // none | running | running-until | same-minute | prev-minute | older
	RunLen  int       `json:"run_len"` // seconds a started run stays running; <0: until stopped
	Ops     []vc9Op   `json:"ops"`
	Variant string    `json:"variant,omitempty"` // inplace | rename (how files are changed while running)
	// LoopAdv != nil: the member runs the real Scheduler.start() loop; entry i is the time (ms) by which the wall
	// clock moves forward while the loop handles its i-th tick (late / stalled handling); Ops is not used
	LoopAdv []int `json:"loop_adv_ms,omitempty"`
	Watch   bool  `json:"watch,omitempty"`
}

// ------------------------------------------------------------ reference ---

type vc9Sched struct {
	loadable                bool
	starts, stops, restarts []*ref.Expr
	never                   bool // some expression has no matching minute at all (e.g. 31 February)
	dow7                    bool
	bothDayFields           bool
}

func vc9Compile(d *vc9Def) vc9Sched {
	if d == nil || d.Raw != "" {
		return vc9Sched{}
	}
	s := vc9Sched{loadable: true}
	for i, xs := range [][]string{d.Starts, d.Stops, d.Restarts} {
		for _, x := range xs {
			e, err := ref.Parse(x)
			if err != nil {
				return vc9Sched{}
			}
			if e.UsesDow7 {
				s.dow7 = true
			}
			if !e.DomStar && !e.DowStar {
				s.bothDayFields = true
			}
			if vc9NeverMatches(e) {
				s.never = true
			}
			switch i {
			case 0:
				s.starts = append(s.starts, e)
			case 1:
				s.stops = append(s.stops, e)
			default:
				s.restarts = append(s.restarts, e)
			}
		}
	}
	return s
}

// vc9NeverMatches: no day of any year satisfies month and day fields (day-of-month rule only;
// with a restricted day-of-week the expression always has matching days).
func vc9NeverMatches(e *ref.Expr) bool {
	if e.Min == 0 || e.Hour == 0 {
		return true
	}
	if !e.DomStar && !e.DowStar {
		return false // union with weekdays
	}
	for mo := 1; mo <= 12; mo++ {
		if e.Mon>>uint(mo)&1 == 0 {
			continue
		}
		max := 31
		switch mo {
		case 2:
			max = 29
		case 4, 6, 9, 11:
			max = 30
		}
		for d := 1; d <= max; d++ {
			if e.Dom>>uint(d)&1 == 1 {
				return false
			}
		}
	}
	return true
}

func vc9CountMatch(es []*ref.Expr, c ref.Civil) int {
	n := 0
	for _, e := range es {
		if e.MatchCivil(c) {
			n++
		}
	}
	return n
}

// ------------------------------------------------------------- harness ---

type vc9H struct {
	res      *vlib.Result
	tier     string
	shard    int
	shards   int
	work     string
	idx      int
	verbose  bool
	states   map[uint64]struct{}
	syncSeq  int
	nsamples map[string]int
	excluded map[string]string
	baseG    int // goroutines while no daemon is up
}

func (h *vc9H) mine(i int) bool { return h.shards <= 1 || i%h.shards == h.shard }

type vc9Daemon struct {
	s          *Scheduler
	er         *entryReaderImpl
	t          time.Time
	done       chan any
	first      bool      // next tick is the first of this daemon instance
	prevTicked time.Time // last minute ticked by this instance
	bootMinute time.Time
	baseG      int // goroutines of this instance at rest: the smallest count seen at the beginning of a tick
}

// vc9Goroutines: the goroutine count at rest. The runtime's finalizer goroutine is counted while it runs
// a finalizer, so a single reading can be one too high; the smallest of a few readings is taken.
func vc9Goroutines() int {
	n := runtime.NumGoroutine()
	for i := 0; i < 2 && n > 2; i++ {
		runtime.Gosched()
		if m := runtime.NumGoroutine(); m < n {
			n = m
		}
	}
	return n
}

type vc9FileRT struct {
	spec     *vc9File
	cur      vc9Sched
	present  bool
	susp     bool
	dontCare bool // own calls not judged (edited into an unloadable file while running: the old definition may stay)
	changed  bool // an event touched this file
	st       *vc9DagState
	id       string
}

type vc9Run struct {
	h          *vc9H
	m          *vc9Member
	dir        string
	dags       string
	cli        *vc9Client
	world      *vc9World
	files      []*vc9FileRT
	d          *vc9Daemon
	hasBad     bool
	afterEvent bool
	lastTicked map[int64]bool // minutes ticked by any daemon instance so far
	dead       bool           // a tick of this member's daemon blocked for good: nothing more can be judged
	expected   int64          // calls the reference expected in this member
	vioSigs    map[string]bool
	cfgHash    uint64
	firing     []string
	watchDead  bool
	aborted    bool
}

func vc9Trunc(t time.Time) time.Time { return time.Unix(t.Unix()-((t.Unix()%60)+60)%60, 0).UTC() }

func (r *vc9Run) violate(sig, detail string) {
	if r.vioSigs[sig] {
		r.h.res.Count("vio-more:"+sig, 1)
		return
	}
	r.vioSigs[sig] = true
	r.h.res.Violate(sig, detail, r.m)
	if r.h.verbose {
		fmt.Printf("VIOLATION %s: %s\n", sig, detail)
	}
}

func (r *vc9Run) writeFile(name, content, how string) error {
	p := filepath.Join(r.dags, name)
	if how == "rename" {
		tmp := p + ".tmp"
		if err := os.WriteFile(tmp, []byte(content), 0o644); err != nil {
			return err
		}
		return os.Rename(tmp, p)
	}
	return os.WriteFile(p, []byte(content), 0o644)
}

func (r *vc9Run) setup() error {
	h := r.h
	r.dir = filepath.Join(h.work, fmt.Sprintf("m%d", h.idx))
	r.dags = filepath.Join(r.dir, "dags")
	for _, d := range []string{r.dags, filepath.Join(r.dir, "data"), filepath.Join(r.dir, "suspend")} {
		if err := os.MkdirAll(d, 0o755); err != nil {
			return err
		}
	}
	r.world = &vc9World{st: map[string]*vc9DagState{}, alien: map[string]int{}}
	ds := dsclient.NewDataStores(r.dags, filepath.Join(r.dir, "data"), filepath.Join(r.dir, "suspend"), dsclient.DataStoreOptions{})
	r.cli = &vc9Client{Client: client.New(ds, "/nonexistent/blackdagger", r.dir, vc9Logger{}), w: r.world}
	start, err := time.Parse(time.RFC3339, r.m.Start)
	if err != nil {
		return err
	}
	start = start.UTC()
	hsh := fnv.New64a()
	for i := range r.m.Files {
		f := &r.m.Files[i]
		rt := &vc9FileRT{spec: f, id: strings.TrimSuffix(f.Name, filepath.Ext(f.Name)), st: &vc9DagState{}}
		r.files = append(r.files, rt)
		r.world.st[f.Name] = rt.st
		if f.Pre != nil {
			rt.present = true
			rt.cur = vc9Compile(f.Pre)
			if err := r.writeFile(f.Name, f.Pre.yaml(), "inplace"); err != nil {
				return err
			}
			if !rt.cur.loadable {
				r.hasBad = true
			}
			fmt.Fprintf(hsh, "%s\x00%s\x00", f.Name, f.Pre.yaml())
		}
		if f.Changes && f.Post != nil && f.Post.Raw != "" {
			r.hasBad = true
		}
		if f.SuspPre {
			if err := r.cli.ToggleSuspend(rt.id, true); err != nil {
				return err
			}
			rt.susp = true
		}
		fmt.Fprintf(hsh, "%v%v%s", f.SuspPre, f.Changes, f.Kind)
		// cross-check of the reference's idea of "loadable" against the real loader, and the
		// documented deviation: robfig/cron's standard parser accepts day-of-week 0-6 only.
		if rt.present && rt.cur.loadable {
			if _, lerr := vc9Load(filepath.Join(r.dags, f.Name)); lerr != nil {
				if rt.cur.dow7 {
					h.res.Count("dow7_rejected_by_loader_members", 1)
					rt.cur = vc9Sched{}
				} else {
					r.violate("C09/load/valid-expression-rejected", fmt.Sprintf("file %s with %s is refused by dag.LoadMetadata: %v", f.Name, vlib.Short(f.Pre.yaml(), 200), lerr))
					rt.cur = vc9Sched{}
				}
			}
		}
		// prior history
		s := rt.st
		switch r.m.Hist {
		case "", "none":
		case "running":
			s.has, s.started, s.forever = true, start.Add(-10*time.Minute), true
		case "running-until":
			s.has, s.started, s.until = true, start.Add(-10*time.Minute), start.Add(150*time.Second)
		case "same-minute":
			s.has, s.started, s.until = true, vc9Trunc(start), vc9Trunc(start)
		case "prev-minute":
			s.has, s.started, s.until = true, vc9Trunc(start).Add(-time.Second), vc9Trunc(start).Add(-time.Second)
		case "older":
			s.has, s.started, s.until = true, start.Add(-time.Hour), start.Add(-time.Hour)
		default:
			return fmt.Errorf("unknown history %q", r.m.Hist)
		}
	}
	fmt.Fprintf(hsh, "%s/%d", r.m.Hist, r.m.RunLen)
	r.cfgHash = hsh.Sum64()
	setFixedTime(start)
	return nil
}

func vc9Load(p string) (d *dag.DAG, err error) {
	defer func() {
		if rec := recover(); rec != nil {
			err = fmt.Errorf("PANIC: %v", rec)
		}
	}()
	return dag.LoadMetadata(p)
}

func (r *vc9Run) boot() {
	cfg := &config.Config{DAGs: r.dags, WorkDir: r.dir, LogDir: filepath.Join(r.dir, "logs"), Executable: "/nonexistent/blackdagger"}
	s := New(cfg, vc9Logger{}, r.cli)
	er, ok := s.entryReader.(*entryReaderImpl)
	if !ok {
		r.h.res.CheckError("scheduler.New no longer builds an *entryReaderImpl")
		r.aborted = true
		return
	}
	d := &vc9Daemon{s: s, er: er, first: true}
	// Scheduler.start(): t := now().Truncate(time.Minute)
	d.t = now().Truncate(time.Minute)
	d.bootMinute = d.t
	r.d = d
	// a reboot re-reads the directory: whatever is unloadable now is simply not there
	for _, f := range r.files {
		if f.dontCare {
			f.dontCare = false
			f.cur = vc9Compile(f.spec.Post)
		}
	}
	if r.m.Watch {
		d.done = make(chan any)
		er.Start(d.done) // what Scheduler.Start does before entering the loop
		if !r.sync("boot") {
			return
		}
	}
	r.pump()
}

func (r *vc9Run) down() {
	if r.d == nil {
		return
	}
	if r.d.done != nil && r.dead {
		// the daemon of this member is wedged (reported as a violation): its goroutines cannot end; leave them behind
		close(r.d.done)
		time.Sleep(20 * time.Millisecond)
		r.h.baseG = runtime.NumGoroutine()
		r.d = nil
		return
	}
	if r.d.done != nil {
		close(r.d.done)
		wait := 30 * time.Second
		if vc9LockHeldSeen {
			wait = time.Second
		}
		deadline := time.Now().Add(wait)
		for vc9WatcherAlive() {
			if time.Now().After(deadline) {
				if !r.d.er.dagsLock.TryLock() {
					// the watcher cannot end because the DAG table's lock is held for good
					vc9LockHeldSeen = true
					r.violate("C09/hang/entry-table-lock-held/at-shutdown", fmt.Sprintf("the directory watcher did not end after the daemon was stopped: the lock of the DAG table is held for good. Member: %s", r.describe()))
					r.h.baseG = runtime.NumGoroutine()
					r.d = nil
					return
				}
				r.d.er.dagsLock.Unlock()
				r.h.res.CheckError("watcher goroutine did not end within 30 s after done was closed")
				break
			}
			time.Sleep(200 * time.Microsecond)
		}
		// fsnotify's reader goroutine ends a little later; ticks count goroutines, so wait for it
		for runtime.NumGoroutine() > r.h.baseG {
			if time.Now().After(deadline) {
				r.h.res.CheckError("goroutines of a stopped daemon still alive after 30 s: %d > %d", runtime.NumGoroutine(), r.h.baseG)
				break
			}
			time.Sleep(200 * time.Microsecond)
		}
	}
	r.d = nil
}

func vc9Stacks() string {
	buf := make([]byte, 1<<20)
	return string(buf[:runtime.Stack(buf, true)])
}

// vc9WatcherAlive: is a goroutine started by entryReaderImpl.Start still there? (The "created by"
// line is printed even for a goroutine whose frames cannot be listed because it is running on
// another thread.) A goroutine that is gone stays gone, so "not alive" is only reported after
// three dumps in a row agree.
func vc9WatcherAlive() bool {
	for i := 0; i < 3; i++ {
		if i > 0 {
			time.Sleep(time.Millisecond)
		}
		buf := make([]byte, 1<<16)
		for {
			n := runtime.Stack(buf, true)
			if n < len(buf) {
				buf = buf[:n]
				break
			}
			buf = make([]byte, 2*len(buf))
		}
		if bytes.Contains(buf, []byte("(*entryReaderImpl).watchDags")) || bytes.Contains(buf, []byte("created by github.com/ErdemOzgen/blackdagger/internal/scheduler.(*entryReaderImpl).Start")) {
			return true
		}
	}
	return false
}

// sync waits until the watcher has processed every event issued so far: it renames a fresh
// barrier definition (vc9SyncDef) into the directory and waits for it to show up in the daemon's table
// (events of one inotify watch are delivered in order and handled by one goroutine). A watcher
// goroutine that is gone is a verdict; a slow one (30 s) is a check error.
func (r *vc9Run) sync(when string) bool {
	h := r.h
	deadline := time.Now().Add(30 * time.Second)
	for attempt := 0; ; attempt++ {
		h.syncSeq++
		name := fmt.Sprintf("zz_sync_%d.yaml", h.syncSeq)
		if err := r.writeFile(name, vc9SyncDef, "rename"); err != nil {
			h.res.CheckError("sync file: %v", err)
			r.aborted = true
			return false
		}
		wait := time.Duration(20<<uint(attempt)) * time.Millisecond
		if wait > 2*time.Second {
			wait = 2 * time.Second
		}
		until := time.Now().Add(wait)
		for spins := 0; ; spins++ {
			locked := false
			lockWait := 20 * time.Second
			if vc9LockHeldSeen {
				lockWait = 2 * time.Second // already established once in this process: later members fail fast
			}
			for t0 := time.Now(); time.Since(t0) < lockWait; time.Sleep(200 * time.Microsecond) {
				if r.d.er.dagsLock.TryLock() {
					locked = true
					break
				}
			}
			if !locked {
				vc9LockHeldSeen = true
				// somebody (the watcher) holds the entry table's lock for good: every later tick would block in Read
				r.violate("C09/hang/entry-table-lock-held/"+r.eventClass(), fmt.Sprintf("the lock of the daemon's DAG table has been held for 20 s after a directory event: no tick can read the entries any more, nothing is scheduled. Member: %s", r.describe()))
				r.dead = true
				r.aborted = true
				return false
			}
			_, seen := r.d.er.dags[name]
			r.d.er.dagsLock.Unlock()
			if seen {
				return true
			}
			if spins > 20 && spins%50 == 0 && !vc9WatcherAlive() {
				// give a watcher that has not been scheduled yet a chance at boot: it is "alive" from the go statement on,
				// so not alive means it returned
				r.watchDead = true
				if when == "boot" {
					h.res.CheckError("watcher goroutine ended right after start (inotify unavailable?) %s", vc9Stacks())
					r.aborted = true
					return false
				}
				r.violate("C09/watcher/died/"+r.eventClass(), fmt.Sprintf("the directory watcher goroutine (entryReaderImpl.watchDags) returned while the daemon is running; files changed afterwards are never (re)loaded. Member: %s", r.describe()))
				return false
			}
			if time.Now().After(until) {
				break
			}
			if spins < 200 {
				runtime.Gosched()
			} else {
				time.Sleep(100 * time.Microsecond)
			}
		}
		if time.Now().After(deadline) {
			h.res.CheckError("watcher did not pick up a new file within 30 s (%s); member %s", when, r.describe())
			r.aborted = true
			return false
		}
	}
}

var vc9LockHeldSeen bool

func (r *vc9Run) eventClass() string {
	var ks []string
	for _, f := range r.files {
		if f.spec.Changes && f.spec.Post != nil && f.spec.Post.Raw != "" {
			ks = append(ks, "bad-file-"+map[bool]string{true: "edited", false: "added"}[f.spec.Pre != nil])
		}
	}
	if len(ks) == 0 {
		return "no-bad-file"
	}
	sort.Strings(ks)
	return ks[0]
}

func (r *vc9Run) describe() string {
	var parts []string
	for _, f := range r.m.Files {
		parts = append(parts, f.Name+":"+f.Kind)
	}
	return fmt.Sprintf("%s/%s start=%s hist=%s runlen=%d variant=%s files=[%s]", r.m.Fam, r.m.Window, r.m.Start, r.m.Hist, r.m.RunLen, r.m.Variant, strings.Join(parts, " "))
}

// pump replays the body of Scheduler.start() under the fixed clock.
func (r *vc9Run) pump() {
	d := r.d
	if d == nil || r.aborted {
		return
	}
	for guard := 0; !d.t.After(now()); guard++ {
		if guard > 100000 {
			r.violate("C09/tick/no-progress", "the tick loop does not advance: "+r.describe())
			return
		}
		t := d.t
		if t.Unix()%60 != 0 || t.Nanosecond() != 0 {
			r.violate("C09/tick/not-minute-aligned", fmt.Sprintf("tick instant %s is not a whole minute; %s", t.Format(time.RFC3339Nano), r.describe()))
		}
		if !d.first && !t.Equal(d.prevTicked.Add(time.Minute)) {
			ctx := "on-time"
			if vc9Trunc(now()).After(d.prevTicked.Add(time.Minute)) {
				ctx = "late-tick"
			}
			r.violate("C09/tick/missed-minute/"+ctx, fmt.Sprintf("after ticking %s the daemon's next tick is %s (wall clock %s): the minutes in between are never evaluated; %s",
				d.prevTicked.Format(time.RFC3339), t.Format(time.RFC3339), now().Format(time.RFC3339), r.describe()))
		}
		r.tick(t)
		d.prevTicked = t
		d.first = false
		nt := d.s.nextTick(t)
		if !nt.After(t) {
			r.violate("C09/tick/no-progress", fmt.Sprintf("nextTick(%s) = %s; %s", t.Format(time.RFC3339), nt.Format(time.RFC3339), r.describe()))
			return
		}
		d.t = nt
	}
	// the loop now sleeps until d.t; every minute up to the wall clock must have been evaluated
	if want := vc9Trunc(now()); !d.first && d.prevTicked.Before(want) {
		r.violate("C09/tick/missed-minute/late-tick", fmt.Sprintf("wall clock is %s, last evaluated minute %s, next tick planned for %s; %s",
			now().Format(time.RFC3339), d.prevTicked.Format(time.RFC3339), d.t.Format(time.RFC3339), r.describe()))
	}
}

// vc9TickCtx: what is known at the beginning of one evaluated minute.
type vc9TickCtx struct {
	t               time.Time
	wall            time.Time // wall clock when the handling began (status snapshot)
	effWall         time.Time // wall clock at which the issued operations take effect
	um              int64
	civ             ref.Civil
	late, reTick    bool
	firstOfInstance bool
}

// tickBegin takes the status snapshot the daemon will see while it handles minute t.
func (r *vc9Run) tickBegin(t time.Time) *vc9TickCtx {
	wall := now()
	um := t.Unix() / 60
	c := &vc9TickCtx{t: t, wall: wall, effWall: wall, um: um, civ: ref.FromUnixMin(um), late: vc9Trunc(wall).After(t),
		reTick: r.lastTicked[um], firstOfInstance: r.d.first}
	w := r.world
	w.mu.Lock()
	for _, f := range r.files {
		s := f.st
		s.snapHas, s.snapRun, s.snapStarted = s.has, s.running(wall), s.started
		s.calls = [3]int{}
	}
	w.mu.Unlock()
	return c
}

func (r *vc9Run) tick(t time.Time) {
	if r.dead {
		return
	}
	c := r.tickBegin(t)

	base := runtime.NumGoroutine()
	if r.d.baseG == 0 {
		r.d.baseG = vc9Goroutines()
	}
	if base < r.d.baseG {
		r.d.baseG = base
	}
	base = r.d.baseG // a reading taken while a finalizer runs is one too high; the instance's count at rest is constant
	ticked := make(chan struct{})
	go func() {
		defer close(ticked)
		defer func() {
			if rec := recover(); rec != nil {
				r.violate("C09/panic/run", fmt.Sprintf("Scheduler.run(%s) panicked: %v; %s", t.Format(time.RFC3339), rec, r.describe()))
			}
		}()
		r.d.s.run(t)
	}()
	select {
	case <-ticked:
	case <-time.After(60 * time.Second):
		// the daemon's tick never returned (e.g. the entry reader's lock is held for good): no DAG is scheduled any more
		r.violate("C09/hang/tick-blocked", fmt.Sprintf("Scheduler.run(%s) did not return within 60 s: the daemon schedules nothing any more; %s", t.Format(time.RFC3339), r.describe()))
		r.dead = true
		return
	}
	for spins := 0; runtime.NumGoroutine() > base; spins++ {
		runtime.Gosched()
		if spins > 1<<16 {
			time.Sleep(50 * time.Microsecond)
			if spins > 1<<16+1200000 {
				r.violate("C09/hang/invoke", fmt.Sprintf("the operations spawned by run(%s) did not return within 60 s; %s", t.Format(time.RFC3339), r.describe()))
				break
			}
		}
	}
	r.tickEnd(c)
}

// tickEnd compares the calls recorded while minute c.t was handled with the reference and applies
// their effects to the environment.
func (r *vc9Run) tickEnd(c *vc9TickCtx) {
	h := r.h
	t, wall, um, civ, late, reTick, firstOfInstance := c.t, c.wall, c.um, c.civ, c.late, c.reTick, c.firstOfInstance
	w := r.world
	h.res.Transitions++
	r.lastTicked[um] = true

	w.mu.Lock()
	defer w.mu.Unlock()
	var fired []string
	for _, f := range r.files {
		s := f.st
		got := s.calls
		var want [3]int
		judge := [3]bool{true, true, true}
		nStartMatch := 0
		if f.present && f.cur.loadable {
			nStartMatch = vc9CountMatch(f.cur.starts, civ)
			if f.susp {
				// the flag opts the DAG out of scheduled starts; the property says nothing about
				// stop/restart schedules of a suspended DAG
				judge[vc9Stop], judge[vc9Restart] = false, false
			} else {
				if nStartMatch > 0 && !s.snapRun && (!s.snapHas || vc9Trunc(s.snapStarted).Before(t)) {
					want[vc9Start] = 1
				}
				if s.snapRun {
					want[vc9Stop] = vc9CountMatch(f.cur.stops, civ)
				}
				want[vc9Restart] = vc9CountMatch(f.cur.restarts, civ)
			}
		}
		if f.dontCare {
			judge = [3]bool{}
		}
		for k := 0; k < 3; k++ {
			r.expected += int64(want[k])
			if got[k] > 0 {
				fired = append(fired, fmt.Sprintf("%s %s x%d", vc9KindName[k], f.spec.Name, got[k]))
			}
			if !judge[k] {
				if got[k] != 0 {
					h.res.Count("unjudged_calls:"+vc9KindName[k], int64(got[k]))
				}
				continue
			}
			if got[k] == want[k] {
				continue
			}
			what := "missed"
			if got[k] > want[k] {
				what = "spurious"
				if want[k] > 0 {
					what = "duplicate"
				}
			}
			ctx := r.context(f, k, what, nStartMatch, late, reTick, firstOfInstance, s, t, civ)
			r.violate(fmt.Sprintf("C09/%s/%s/%s", vc9KindName[k], what, ctx),
				fmt.Sprintf("tick %s (wall clock %s): %s calls for %s: got %d, reference %d. File: %s; suspended=%v; status seen by the daemon: has-run=%v running=%v started=%s. %s",
					t.Format(time.RFC3339), wall.Format(time.RFC3339), vc9KindName[k], f.spec.Name, got[k], want[k], vlib.Short(vc9Content(f), 160), f.susp, s.snapHas, s.snapRun, s.snapStarted.Format(time.RFC3339), r.describe()))
		}
		// effects of the issued operations on the environment (applied after the tick, in a fixed order)
		if got[vc9Stop] > 0 && s.has {
			s.forever, s.until = false, c.effWall
		}
		if got[vc9Restart] > 0 || got[vc9Start] > 0 {
			s.has, s.started = true, c.effWall
			if r.m.RunLen < 0 {
				s.forever = true
			} else {
				s.forever, s.until = false, c.effWall.Add(time.Duration(r.m.RunLen)*time.Second)
			}
		}
		// model state visited
		hc := 0
		switch {
		case !s.snapHas:
		case s.snapRun:
			hc = 1
		case vc9Trunc(s.snapStarted).Equal(t):
			hc = 2
		case vc9Trunc(s.snapStarted).After(t):
			hc = 3
		default:
			hc = 4
		}
		flags := 0
		for i, b := range []bool{late, reTick, firstOfInstance, f.susp, f.present, r.afterEvent} {
			if b {
				flags |= 1 << uint(i)
			}
		}
		key := r.cfgHash*1099511628211 ^ uint64(ref.CalClass(civ))<<20 ^ uint64(hc)<<8 ^ uint64(flags) ^ uint64(len(f.spec.Name))<<40 ^ vc9StrHash(f.spec.Name)
		h.states[key] = struct{}{}
	}
	for k, n := range w.alien {
		r.violate("C09/call/unknown-dag", fmt.Sprintf("tick %s: %d x %s — a file the member never made schedulable; %s", t.Format(time.RFC3339), n, k, r.describe()))
		delete(w.alien, k)
	}
	h.res.Validated++
	if len(fired) > 0 && len(r.firing) < 6 {
		r.firing = append(r.firing, t.Format("2006-01-02T15:04")+": "+strings.Join(fired, ", "))
	}
	if h.verbose {
		fmt.Printf("tick %s wall %s late=%v retick=%v calls=%v\n", t.Format(time.RFC3339), wall.Format(time.RFC3339), late, reTick, fired)
	}
}

func vc9StrHash(s string) uint64 {
	f := fnv.New64a()
	f.Write([]byte(s))
	return f.Sum64()
}

func vc9Content(f *vc9FileRT) string {
	d := f.spec.Pre
	if f.changed {
		d = f.spec.Post
	}
	if d == nil {
		return "(absent)"
	}
	return d.yaml()
}

// context names the class of a failing (file, tick) for the violation signature.
func (r *vc9Run) context(f *vc9FileRT, kind int, what string, nStartMatch int, late, reTick, first bool, s *vc9DagState, t time.Time, civ ref.Civil) string {
	switch {
	case f.changed:
		return "after-" + f.spec.Kind
	case r.afterEvent && r.hasBad:
		return "beside-bad-file-changed-while-running"
	case r.hasBad:
		return "beside-bad-file"
	case r.afterEvent:
		return "beside-changed-file"
	case f.cur.never:
		return "never-matching-expression"
	case kind == vc9Start && what == "duplicate" && nStartMatch > 1:
		return "overlapping-start-schedules"
	case reTick:
		return "restart-same-minute"
	case first:
		return "after-restart"
	case late:
		return "bunched-tick"
	case kind == vc9Start && s.snapHas && vc9Trunc(s.snapStarted).Equal(t):
		return "run-started-same-minute"
	case kind == vc9Start && s.snapHas && vc9Trunc(s.snapStarted).After(t):
		return "run-started-later-minute"
	case kind != vc9Restart && s.snapRun:
		return "while-running"
	case f.susp:
		return "suspended"
	case f.cur.bothDayFields:
		return "dom-dow-rule"
	case civ.Mo == 2 && civ.D == 29:
		return "leap-day"
	case civ.D == ref.DaysIn(civ.Y, civ.Mo) || civ.D == 1:
		return "month-boundary"
	}
	return "on-time-tick"
}

func (r *vc9Run) events() {
	how := r.m.Variant
	if how == "" {
		how = "rename"
	}
	for _, f := range r.files {
		sp := f.spec
		if sp.Changes {
			f.changed = true
			switch {
			case sp.Post == nil: // removed
				p := filepath.Join(r.dags, sp.Name)
				var err error
				if how == "rename" {
					err = os.Rename(p, p+".bak")
				} else {
					err = os.Remove(p)
				}
				if err != nil {
					r.h.res.CheckError("remove %s: %v", sp.Name, err)
				}
				f.present, f.cur = false, vc9Sched{}
			default:
				if err := r.writeFile(sp.Name, sp.Post.yaml(), how); err != nil {
					r.h.res.CheckError("write %s: %v", sp.Name, err)
				}
				nw := vc9Compile(sp.Post)
				if !nw.loadable && f.present && f.cur.loadable {
					f.dontCare = true // last good definition may stay in the daemon's table
				}
				if nw.loadable || !f.dontCare {
					f.cur = nw
				}
				f.present = true
			}
		}
		if sp.SuspPost != f.susp {
			if err := r.cli.ToggleSuspend(f.id, sp.SuspPost); err != nil {
				r.h.res.CheckError("ToggleSuspend %s: %v", f.id, err)
			}
			f.susp = sp.SuspPost
			f.changed = true
		}
	}
	r.afterEvent = true
	if r.d != nil && r.m.Watch {
		r.sync("events")
	}
}

// ------------------------------------------------- the real timer loop ---

// vc9LoopReader stands between the real Scheduler.start() loop and the real entry reader. Read is
// called by run(t) on the loop's goroutine at the beginning of every tick; the wrapper
//   - first lets the operations of the previous tick finish, judges them and applies their effects
//     (so the environment model is the same as in the tick-by-tick families),
//   - records the minute handed to run (the argument is t - 1 s),
//   - delegates to the real reader,
//   - and then moves the fixed wall clock forward by the member's amount for this tick: the handling
//     of the tick "takes" that long (stall, slow read, clock step).
type vc9LoopReader struct {
	r     *vc9Run
	inner entryReader
	base  int // goroutines when only the loop is running

	mu       sync.Mutex
	ticks    []time.Time
	adv      []time.Duration
	lastRead time.Time // real time at which the last Read returned
	pend     *vc9TickCtx
	overrun  bool
}

func (lr *vc9LoopReader) Start(done chan any) { lr.inner.Start(done) }

func (lr *vc9LoopReader) finishPending() {
	lr.mu.Lock()
	c := lr.pend
	lr.pend = nil
	lr.mu.Unlock()
	if c == nil {
		return
	}
	r := lr.r
	deadline := time.Now().Add(60 * time.Second)
	for spins := 0; runtime.NumGoroutine() > lr.base; spins++ {
		runtime.Gosched()
		if spins > 1<<14 {
			time.Sleep(50 * time.Microsecond)
			if time.Now().After(deadline) {
				r.violate("C09/hang/invoke", fmt.Sprintf("the operations spawned by run(%s) did not return within 60 s; %s", c.t.Format(time.RFC3339), r.describe()))
				break
			}
		}
	}
	c.effWall = now()
	r.tickEnd(c)
	r.d.first = false
}

func (lr *vc9LoopReader) Read(arg time.Time) ([]*entry, error) {
	r := lr.r
	lr.finishPending()
	t := arg.Add(time.Second)
	lr.mu.Lock()
	n := len(lr.ticks)
	lr.ticks = append(lr.ticks, t)
	if n >= 64 {
		lr.overrun = true
	}
	over := lr.overrun
	lr.mu.Unlock()
	if over {
		return nil, fmt.Errorf("verification harness: the loop ticked more than 64 times")
	}
	c := r.tickBegin(t)
	entries, err := lr.inner.Read(arg)
	var d time.Duration
	if n < len(r.m.LoopAdv) {
		d = time.Duration(r.m.LoopAdv[n]) * time.Millisecond
	}
	if d > 0 {
		setFixedTime(now().Add(d))
	}
	lr.mu.Lock()
	lr.adv = append(lr.adv, d)
	lr.pend = c
	lr.lastRead = time.Now()
	lr.mu.Unlock()
	return entries, err
}

// vc9LoopParked: is the goroutine running Scheduler.start blocked in its select?
func vc9LoopParked() bool {
	buf := make([]byte, 1<<16)
	for {
		n := runtime.Stack(buf, true)
		if n < len(buf) {
			buf = buf[:n]
			break
		}
		buf = make([]byte, 2*len(buf))
	}
	for _, g := range bytes.Split(buf, []byte("\n\n")) {
		if bytes.Contains(g, []byte("scheduler.(*Scheduler).start(")) {
			nl := bytes.IndexByte(g, '\n')
			return nl > 0 && bytes.Contains(g[:nl], []byte("[select"))
		}
	}
	return false
}

func vc9Dur(d time.Duration) string {
	if d == 0 {
		return "0s"
	}
	return d.String()
}

// runLoop runs the real Scheduler.start() under the fixed clock until its timer waits for a minute
// that lies in the (fixed) future, stops it, and checks which minutes were handed to run.
func (r *vc9Run) runLoop() {
	h := r.h
	res := h.res
	cfg := &config.Config{DAGs: r.dags, WorkDir: r.dir, LogDir: filepath.Join(r.dir, "logs"), Executable: "/nonexistent/blackdagger"}
	s := New(cfg, vc9Logger{}, r.cli)
	lr := &vc9LoopReader{r: r, inner: s.entryReader, lastRead: time.Now()}
	s.entryReader = lr
	r.d = &vc9Daemon{s: s, first: true}
	t0 := now()
	lr.base = vc9Goroutines() + 1
	finished := make(chan struct{})
	go func() {
		defer close(finished)
		s.start()
	}()

	// wait until the loop is quiescent: parked in its select while no tick is due
	lastN, lastProgress := 0, time.Now()
	verdictShort := false
	for {
		time.Sleep(5 * time.Millisecond)
		lr.mu.Lock()
		n, lastRead, over := len(lr.ticks), lr.lastRead, lr.overrun
		var lastTick time.Time
		if n > 0 {
			lastTick = lr.ticks[n-1]
		}
		inRead := lr.pend == nil && n > 0 && len(lr.adv) < n
		lr.mu.Unlock()
		if over {
			break
		}
		if n != lastN {
			lastN, lastProgress = n, time.Now()
		}
		if n == 0 || inRead || !vc9LoopParked() {
			if time.Since(lastProgress) > 10*time.Second {
				res.CheckError("the timer loop made no progress for 10 s without parking (%d ticks so far); %s", n, r.describe())
				r.aborted = true
				break
			}
			continue
		}
		idle := time.Since(lastRead)
		// a correct loop's next tick is lastTick + 1 min; it is due when that is not (or hardly) ahead of the wall clock
		due := !lastTick.Add(time.Minute).After(now().Add(500 * time.Millisecond))
		if !due && idle > 150*time.Millisecond {
			break
		}
		if due && idle > 2500*time.Millisecond {
			// parked although a minute is due: a due timer fires at once, so the loop waits for a later minute
			verdictShort = true
			break
		}
		if time.Since(lastProgress) > 10*time.Second {
			res.CheckError("the timer loop did not become quiescent within 10 s; %s", r.describe())
			r.aborted = true
			break
		}
	}
	s.Stop()
	select {
	case <-finished:
	case <-time.After(30 * time.Second):
		res.CheckError("Scheduler.start() did not return within 30 s after Stop(); %s", r.describe())
		r.aborted = true
		vc9LockHeldSeen = true // the goroutine cannot be reclaimed: later members of this shard would miscount goroutines
		return
	}
	lr.base--
	lr.finishPending()
	for deadline := time.Now().Add(10 * time.Second); runtime.NumGoroutine() > h.baseG && time.Now().Before(deadline); {
		time.Sleep(200 * time.Microsecond)
	}
	if r.aborted {
		return
	}

	// the minutes handed to run: the minute of the start, then every following minute up to the wall clock, each once
	wallEnd := now()
	ticks, adv := lr.ticks, lr.adv
	res.Count("loop_ticks", int64(len(ticks)))
	var seq []string
	for _, t := range ticks {
		seq = append(seq, t.Format("15:04:05"))
	}
	dropped := func(from, to time.Time) string { // operations the reference expects in the minutes from..to (inclusive)
		var out []string
		for m := from; !m.After(to); m = m.Add(time.Minute) {
			civ := ref.FromUnixMin(m.Unix() / 60)
			for _, f := range r.files {
				if !f.present || !f.cur.loadable || f.susp {
					continue
				}
				for k, es := range [][]*ref.Expr{f.cur.starts, f.cur.stops, f.cur.restarts} {
					if vc9CountMatch(es, civ) > 0 {
						out = append(out, fmt.Sprintf("%s %s@%s", vc9KindName[k], f.spec.Name, m.Format("15:04")))
					}
				}
			}
		}
		if len(out) == 0 {
			return "none of this member's schedules match those minutes"
		}
		return "schedules matching those minutes, never evaluated: " + strings.Join(out, ", ")
	}
	about := fmt.Sprintf("loop started at wall clock %s, wall clock moved during the handling of successive ticks by %v ms, wall clock at the end %s; minutes handed to run: %v; %s",
		t0.Format(time.RFC3339Nano), r.m.LoopAdv, wallEnd.Format(time.RFC3339Nano), seq, r.describe())
	if lr.overrun {
		r.violate("C09/loop/runaway", "the loop ticked more than 64 times without waiting: "+about)
		return
	}
	if len(ticks) == 0 {
		res.CheckError("the timer loop never ticked; %s", r.describe())
		return
	}
	if !ticks[0].Equal(vc9Trunc(t0)) {
		r.violate("C09/loop/first-tick-wrong", fmt.Sprintf("first minute handed to run is %s, want %s; %s", ticks[0].Format(time.RFC3339), vc9Trunc(t0).Format(time.RFC3339), about))
	}
	for i, t := range ticks {
		if t.Unix()%60 != 0 || t.Nanosecond() != 0 {
			r.violate("C09/loop/not-minute-aligned", fmt.Sprintf("run was handed %s; %s", t.Format(time.RFC3339Nano), about))
		}
		if i == 0 {
			continue
		}
		prev := ticks[i-1]
		ctx := "late-handling(d=" + vc9Dur(adv[i-1]) + ")"
		switch {
		case !t.After(prev):
			r.violate("C09/loop/minute-run-twice/"+ctx, fmt.Sprintf("after minute %s the loop handed %s to run again; %s", prev.Format("15:04"), t.Format("15:04"), about))
		case t.After(prev.Add(time.Minute)):
			r.violate("C09/loop/missed-minute/"+ctx, fmt.Sprintf("after minute %s (whose handling took %s) the loop went on with %s: minutes %s..%s were never handed to run; %s; %s",
				prev.Format("15:04"), vc9Dur(adv[i-1]), t.Format("15:04"), prev.Add(time.Minute).Format("15:04"), t.Add(-time.Minute).Format("15:04"), dropped(prev.Add(time.Minute), t.Add(-time.Minute)), about))
		}
	}
	last := ticks[len(ticks)-1]
	if last.Before(vc9Trunc(wallEnd)) {
		ctx := "late-handling(d=" + vc9Dur(adv[len(adv)-1]) + ")"
		how := "the loop is parked in its select"
		if !verdictShort {
			how = "the loop went quiescent"
		}
		r.violate("C09/loop/missed-minute/"+ctx, fmt.Sprintf("after minute %s (whose handling took %s) %s although the wall clock is already at %s: minutes %s..%s are not handed to run, the timer waits for a later minute; %s; %s",
			last.Format("15:04"), vc9Dur(adv[len(adv)-1]), how, wallEnd.Format("15:04:05"), last.Add(time.Minute).Format("15:04"), vc9Trunc(wallEnd).Format("15:04"), dropped(last.Add(time.Minute), vc9Trunc(wallEnd)), about))
	}
}

func (h *vc9H) run(m *vc9Member) {
	h.idx++
	if !h.mine(h.idx) {
		return
	}
	res := h.res
	if vc9LockHeldSeen {
		// a daemon of this process is wedged for good (reported as a violation): its watcher and inotify
		// instance cannot be released, later members would only measure that leak
		res.Cap("a daemon wedged (violation reported): the remaining members of this shard were skipped")
		res.Count("members_skipped_after_wedge", 1)
		return
	}
	res.Evaluations++
	res.Count("members:"+m.Fam, 1)
	r := &vc9Run{h: h, m: m, lastTicked: map[int64]bool{}, vioSigs: map[string]bool{}}
	defer func() {
		r.down()
		setFixedTime(time.Time{})
		os.RemoveAll(r.dir)
	}()
	if err := r.setup(); err != nil {
		res.CheckError("setup of member %s: %v", r.describe(), err)
		return
	}
	ticksBefore := res.Transitions
	if m.LoopAdv != nil {
		r.runLoop()
	}
	for _, op := range m.Ops {
		if m.LoopAdv != nil || r.aborted || r.watchDead {
			break
		}
		n := op.N
		if n <= 0 {
			n = 1
		}
		for i := 0; i < n && !r.aborted && !r.watchDead; i++ {
			switch op.Op {
			case "boot":
				r.down()
				r.boot()
			case "down":
				r.down()
			case "adv":
				setFixedTime(now().Add(time.Duration(op.Sec) * time.Second))
				r.pump()
			case "events":
				r.events()
			default:
				res.CheckError("unknown op %q", op.Op)
				return
			}
		}
	}
	if r.expected > 0 {
		res.Nontrivial(vlib.Hash(vc9JSON(m)))
	}
	res.Count("expected_calls", r.expected)
	res.Count("ticks:"+m.Fam, res.Transitions-ticksBefore)
	if len(r.firing) > 0 && h.nsamples[m.Fam] < 1 && len(res.Samples) < 6 {
		h.nsamples[m.Fam]++
		var files []string
		for _, f := range m.Files {
			c := "(absent at boot)"
			if f.Pre != nil {
				c = f.Pre.yaml()
			}
			files = append(files, f.Name+" ["+f.Kind+"]: "+vlib.Short(c, 140))
		}
		res.Sample(map[string]any{"family": m.Fam, "window": m.Window, "boot_wall_clock": m.Start, "history": m.Hist, "files": files,
			"ticks": res.Transitions - ticksBefore, "first_firing_ticks_and_calls": r.firing})
	}
}

func vc9JSON(v any) string {
	b, _ := json.Marshal(v)
	return string(b)
}

// ------------------------------------------------------------ families ---

type vc9Window struct {
	Name  string
	Start string
	Min   int
}

// every minute across hour, day, month (28/29/30/31), leap-day and year ends; all UTC
var vc9Windows = []vc9Window{
	{"hour-end", "2031-05-14T09:50:00Z", 40},
	{"noon", "2031-05-14T11:50:00Z", 25},
	{"day-end", "2031-05-14T23:40:00Z", 45},
	{"fri-sat", "2031-05-16T23:50:00Z", 20},
	{"feb28-mar1", "2031-02-28T23:30:00Z", 60},
	{"leap-feb28-29-mar1", "2032-02-28T23:00:00Z", 1560},
	{"apr30-may1", "2031-04-30T23:30:00Z", 60},
	{"jan31-feb1", "2031-01-31T23:30:00Z", 60},
	{"dec28-29", "2031-12-28T23:50:00Z", 25},
	{"year-end", "2031-12-31T23:00:00Z", 120},
}

var vc9ShortWindows = []vc9Window{
	{"hour-end", "2031-05-14T09:52:00Z", 16},
	{"leap-day-begins", "2032-02-28T23:52:00Z", 16},
	{"leap-day-ends", "2032-02-29T23:52:00Z", 16},
	{"year-end", "2031-12-31T23:52:00Z", 16},
}

var (
	vc9Minute = []string{"*", "*/15", "0", "5,35", "10-12", "58-59"}
	vc9Hour   = []string{"*", "0", "23", "*/12"}
	vc9Dom    = []string{"*", "1", "28-31", "29"}
	vc9Month  = []string{"*", "2", "12", "JAN"}
	vc9Dow    = []string{"*", "0", "7", "MON-FRI"}
)

func vc9AllExprs() []string {
	var out []string
	for _, mi := range vc9Minute {
		for _, h := range vc9Hour {
			for _, d := range vc9Dom {
				for _, mo := range vc9Month {
					for _, w := range vc9Dow {
						out = append(out, strings.Join([]string{mi, h, d, mo, w}, " "))
					}
				}
			}
		}
	}
	return out
}

// quick: all 16 day-of-month x day-of-week combinations under four (minute, hour, month) settings,
// plus the two minute-alphabet values not used there
func vc9QuickExprs() []string {
	var out []string
	for _, mhm := range [][3]string{{"*", "*", "*"}, {"0", "0", "2"}, {"58-59", "23", "12"}, {"*/15", "*/12", "JAN"}} {
		for _, d := range vc9Dom {
			for _, w := range vc9Dow {
				out = append(out, strings.Join([]string{mhm[0], mhm[1], d, mhm[2], w}, " "))
			}
		}
	}
	return append(out, "5,35 * * * *", "10-12 23 * * *", "5,35 */12 28-31 2 MON-FRI", "10-12 0 29 * 0")
}

const (
	vc9CompA = "17 3 * * *"
	vc9CompB = "23 4 * * *"
)

// the five ways an expression is put into a file
func vc9Forms(e string) []struct {
	Name   string
	Def    *vc9Def
	RunLen int
} {
	return []struct {
		Name   string
		Def    *vc9Def
		RunLen int
	}{
		{"string", &vc9Def{Form: "string", Starts: []string{e}}, 0},
		{"list", &vc9Def{Form: "list", Starts: []string{vc9CompA, e}}, 0},
		{"map-start", &vc9Def{Form: "map", Starts: []string{e}, Stops: []string{vc9CompA}, Restarts: []string{vc9CompB}}, 0},
		{"map-stop", &vc9Def{Form: "map", Starts: []string{"* * * * *"}, Stops: []string{e}}, -1},
		{"map-restart", &vc9Def{Form: "map", Starts: []string{vc9CompA}, Restarts: []string{e}}, 0},
	}
}

func vc9EveryMinute(n int) []vc9Op {
	return []vc9Op{{Op: "boot"}, {Op: "adv", Sec: 60, N: n - 1}}
}

func vc9Add(t string, d time.Duration) string {
	x, _ := time.Parse(time.RFC3339, t)
	return x.Add(d).UTC().Format(time.RFC3339)
}

var vc9GuardExprs = []string{"* * * * *", "*/15 * * * *", "58-59 23 * * *", "0 0 1 1 *", "0 0 29 2 *", "5,35 * * * MON-FRI"}

func vc9GuardForms(e string) []struct {
	Name string
	Def  *vc9Def
} {
	return []struct {
		Name string
		Def  *vc9Def
	}{
		{"string", &vc9Def{Form: "string", Starts: []string{e}}},
		{"map-all", &vc9Def{Form: "map", Starts: []string{e}, Stops: []string{e}, Restarts: []string{e}}},
	}
}

func (h *vc9H) famExpressions() {
	exprs := vc9QuickExprs()
	if h.tier == "thorough" {
		exprs = vc9AllExprs()
	}
	h.res.Bounds["expressions_in_all_forms_and_windows"] = len(exprs)
	for _, e := range exprs {
		for _, f := range vc9Forms(e) {
			for _, w := range vc9Windows {
				h.run(&vc9Member{Fam: "expr/" + f.Name, Window: w.Name, Start: w.Start, Hist: "none", RunLen: f.RunLen,
					Files: []vc9File{{Name: "a.yaml", Kind: "valid", Pre: f.Def}}, Ops: vc9EveryMinute(w.Min)})
			}
		}
	}
}

func (h *vc9H) famGuard() {
	exprs, wins, ks, deltas := vc9GuardExprs, vc9ShortWindows, []int{2, 3, 4, 5}, []int{0, 30}
	if h.tier != "thorough" {
		exprs, wins, ks = []string{"* * * * *", "*/15 * * * *", "58-59 23 * * *"}, vc9ShortWindows[:2], []int{2, 5}
	}
	for _, e := range exprs {
		for _, f := range vc9GuardForms(e) {
			for _, hist := range []string{"none", "running", "running-until", "same-minute", "prev-minute", "older"} {
				for _, rl := range []int{0, 150, -1} {
					for _, delta := range deltas {
						for _, w := range wins {
							start := vc9Add(w.Start, time.Duration(delta)*time.Second)
							files := []vc9File{{Name: "a.yaml", Kind: "valid", Pre: f.Def}}
							h.run(&vc9Member{Fam: "guard/" + f.Name, Window: w.Name, Start: start, Hist: hist, RunLen: rl, Files: files, Ops: vc9EveryMinute(w.Min)})
							// one late timer at every offset: the wall clock jumps k minutes at once
							for _, k := range ks {
								for o := 0; o <= 7; o++ {
									ops := []vc9Op{{Op: "boot"}}
									if o > 0 {
										ops = append(ops, vc9Op{Op: "adv", Sec: 60, N: o})
									}
									ops = append(ops, vc9Op{Op: "adv", Sec: 60 * k})
									if rest := w.Min - 1 - o - k; rest > 0 {
										ops = append(ops, vc9Op{Op: "adv", Sec: 60, N: rest})
									}
									h.run(&vc9Member{Fam: "late/" + f.Name, Window: fmt.Sprintf("%s+%dmin@%d", w.Name, k, o), Start: start, Hist: hist, RunLen: rl, Files: files, Ops: ops})
								}
							}
						}
					}
				}
			}
		}
	}
}

func (h *vc9H) famRestart() {
	exprs, wins := vc9GuardExprs, vc9ShortWindows
	if h.tier != "thorough" {
		exprs, wins = []string{"* * * * *", "58-59 23 * * *"}, vc9ShortWindows[:2]
	}
	for _, e := range exprs {
		for _, f := range vc9GuardForms(e) {
			for _, hist := range []string{"none", "running-until", "same-minute", "prev-minute"} {
				for _, rl := range []int{0, 150} {
					for _, w := range wins {
						start := vc9Add(w.Start, 5*time.Minute) // 3-minute window :57..:59 / :00..:02 around the boundary
						for o := 0; o <= 2; o++ {
							for _, sigma := range []int{0, 30} {
								for _, gap := range []int{0, 2} {
									ops := []vc9Op{{Op: "boot"}}
									if o > 0 {
										ops = append(ops, vc9Op{Op: "adv", Sec: 60, N: o})
									}
									if sigma > 0 {
										ops = append(ops, vc9Op{Op: "adv", Sec: sigma})
									}
									if gap > 0 {
										ops = append(ops, vc9Op{Op: "down"}, vc9Op{Op: "adv", Sec: 60 * gap})
									}
									ops = append(ops, vc9Op{Op: "boot"})
									if sigma > 0 {
										ops = append(ops, vc9Op{Op: "adv", Sec: 60 - sigma})
									} else {
										ops = append(ops, vc9Op{Op: "adv", Sec: 60})
									}
									ops = append(ops, vc9Op{Op: "adv", Sec: 60, N: 3})
									h.run(&vc9Member{Fam: "restart/" + f.Name, Window: fmt.Sprintf("%s/restart@%dm%ds/down%dm", w.Name, o, sigma, gap), Start: start, Hist: hist, RunLen: rl,
										Files: []vc9File{{Name: "a.yaml", Kind: "valid", Pre: f.Def}}, Ops: ops})
								}
							}
						}
					}
				}
			}
		}
	}
}

// expressions outside the product: no matching minute at all, and overlapping lists
func (h *vc9H) famExtras() {
	w := vc9ShortWindows[0]
	for _, e := range []string{"0 0 31 2 *", "0 0 30 2 *", "* * 31 4 *"} {
		forms := append(vc9Forms(e), struct {
			Name   string
			Def    *vc9Def
			RunLen int
		}{"map-all", &vc9Def{Form: "map", Starts: []string{e}, Stops: []string{e}, Restarts: []string{e}}, 0})
		for _, f := range forms {
			for _, hist := range []string{"none", "older", "running"} {
				h.run(&vc9Member{Fam: "never/" + f.Name, Window: w.Name, Start: w.Start, Hist: hist, RunLen: f.RunLen,
					Files: []vc9File{{Name: "a.yaml", Kind: "valid", Pre: f.Def}}, Ops: vc9EveryMinute(w.Min)})
			}
		}
	}
	for _, pair := range [][2]string{{"* * * * *", "* * * * *"}, {"*/15 * * * *", "0 * * * *"}, {"0 10 * * *", "0 10 14 5 *"}, {"58-59 * * * *", "* * * * *"}} {
		for _, def := range []*vc9Def{
			{Form: "list", Starts: []string{pair[0], pair[1]}},
			{Form: "map", Starts: []string{pair[0], pair[1]}},
		} {
			for _, hist := range []string{"none", "older"} {
				for _, rl := range []int{0, 150} {
					h.run(&vc9Member{Fam: "overlap/" + def.Form, Window: w.Name, Start: w.Start, Hist: hist, RunLen: rl,
						Files: []vc9File{{Name: "a.yaml", Kind: "valid", Pre: def}}, Ops: vc9EveryMinute(w.Min)})
				}
			}
		}
	}
}

// ---- DAG sets of 1-3 files with the real watcher

var vc9SetKinds = []string{"valid", "named-suspended", "suspended", "malformed", "invalid", "added", "added-malformed",
	"edited", "edited-to-malformed", "malformed-fixed", "removed", "suspended-while-running", "resumed-while-running",
	"unscheduled", "edited-to-unscheduled", "unscheduled-gets-schedule"}
var vc9SetKindsQuick3 = []string{"valid", "suspended", "malformed", "added", "added-malformed", "edited", "removed", "edited-to-unscheduled"}

var vc9BadYAML = []string{"schedule: \"* * * * *\"\nsteps: [\n", "schedule:\n  - \"* * * * *\"\n :\n  - x: [\n", "\tschedule: \"* * * * *\"\n"}
var vc9InvalidDAG = []string{
	"schedule: \"61 * * * *\"\nsteps:\n  - name: s1\n    command: \"true\"\n",
	"schedule:\n  foo: \"* * * * *\"\nsteps:\n  - name: s1\n    command: \"true\"\n",
	"schedule: 5\nsteps:\n  - name: s1\n    command: \"true\"\n",
}

// expressions by position: before / after an edit they differ in every minute of the window
var vc9PosExpr = [3][2]string{{"* * * * *", "1-59/2 * * * *"}, {"*/2 * * * *", "1-59/2 * * * *"}, {"57-59,1,3 * * * *", "0,2,4 * * * *"}}

func (h *vc9H) setFile(pos int, kind string) (vc9File, bool) {
	name := string(rune('a'+pos)) + "_" + strings.ReplaceAll(kind, "-", "_") + ".yaml"
	before := &vc9Def{Form: []string{"string", "list", "map"}[pos], Starts: []string{vc9PosExpr[pos][0]}}
	after := &vc9Def{Form: []string{"map", "string", "list"}[pos], Starts: []string{vc9PosExpr[pos][1]}}
	bad := &vc9Def{Raw: vc9BadYAML[pos]}
	inv := &vc9Def{Raw: vc9InvalidDAG[pos]}
	if why, ex := h.excluded[inv.Raw]; ex && kind == "invalid" {
		_ = why
		return vc9File{}, false
	}
	f := vc9File{Name: name, Kind: kind}
	switch kind {
	case "valid":
		f.Pre = before
	case "named-suspended":
		d := *before
		d.DagName = "display name " + string(rune('A'+pos))
		f.Pre, f.SuspPre, f.SuspPost = &d, true, true
	case "suspended":
		f.Pre, f.SuspPre, f.SuspPost = before, true, true
	case "malformed":
		f.Pre = bad
	case "invalid":
		f.Pre = inv
	case "added":
		f.Post, f.Changes = after, true
	case "added-malformed":
		f.Post, f.Changes = bad, true
	case "edited":
		f.Pre, f.Post, f.Changes = before, after, true
	case "edited-to-malformed":
		f.Pre, f.Post, f.Changes = before, bad, true
	case "malformed-fixed":
		f.Pre, f.Post, f.Changes = bad, after, true
	case "removed":
		f.Pre, f.Changes = before, true
	case "unscheduled":
		f.Pre = &vc9Def{Form: "none"}
	case "edited-to-unscheduled":
		// the schedule is edited away while the daemon runs: a valid definition that is never to be started again
		f.Pre, f.Post, f.Changes = before, &vc9Def{Form: "none"}, true
	case "unscheduled-gets-schedule":
		f.Pre, f.Post, f.Changes = &vc9Def{Form: "none"}, after, true
	case "suspended-while-running":
		f.Pre, f.SuspPost = before, true
	case "resumed-while-running":
		f.Pre, f.SuspPre = before, true
	}
	return f, true
}

func (h *vc9H) famSets() {
	// definitions that crash the loader cannot be members (the crash is C13's subject)
	h.excluded = map[string]string{}
	probe := filepath.Join(h.work, "probe.yaml")
	for _, raw := range append(append([]string{}, vc9BadYAML...), vc9InvalidDAG...) {
		_ = os.WriteFile(probe, []byte(raw), 0o644)
		_, err := vc9Load(probe)
		if err == nil {
			h.res.CheckError("a definition meant to be unloadable is accepted by dag.LoadMetadata: %q", raw)
		} else if strings.HasPrefix(err.Error(), "PANIC") {
			h.excluded[raw] = err.Error()
			h.res.Count("excluded_definitions_that_panic_the_loader", 1)
			h.res.Assume(fmt.Sprintf("definition %q panics dag.LoadMetadata (%v) and is left out of the DAG-set family: inside the daemon the panic happens on the watcher goroutine and ends the process (reported by C13)", raw, err))
		}
	}
	os.Remove(probe)
	ops := []vc9Op{{Op: "boot"}, {Op: "adv", Sec: 60, N: 2}, {Op: "adv", Sec: 30}, {Op: "events"}, {Op: "adv", Sec: 30}, {Op: "adv", Sec: 60, N: 3},
		{Op: "adv", Sec: 30}, {Op: "boot"}, {Op: "adv", Sec: 30}, {Op: "adv", Sec: 60}}
	emit := func(kinds []string, variant string) {
		var files []vc9File
		dynamic := false
		for pos, k := range kinds {
			f, ok := h.setFile(pos, k)
			if !ok {
				return
			}
			if f.Changes {
				dynamic = true
			}
			files = append(files, f)
		}
		if !dynamic && variant == "inplace" {
			return // the variant only says how files are changed
		}
		h.run(&vc9Member{Fam: fmt.Sprintf("set%d", len(kinds)), Window: "hour-end", Start: "2031-05-14T09:57:00Z", Hist: "none", RunLen: 0,
			Files: files, Ops: ops, Variant: variant, Watch: true})
	}
	for _, variant := range []string{"rename", "inplace"} {
		for _, a := range vc9SetKinds {
			emit([]string{a}, variant)
			for _, b := range vc9SetKinds {
				emit([]string{a, b}, variant)
			}
		}
	}
	k3, variants := vc9SetKindsQuick3, []string{"rename"}
	if h.tier == "thorough" {
		k3, variants = vc9SetKinds, []string{"rename", "inplace"}
	}
	h.res.Bounds["dag_set_kinds_for_3_file_sets"] = len(k3)
	for _, variant := range variants {
		for _, a := range k3 {
			for _, b := range k3 {
				for _, c := range k3 {
					emit([]string{a, b, c}, variant)
				}
			}
		}
	}
}

// a full leap year minute by minute
func (h *vc9H) famYear() {
	exprs := []string{"* * * * *", "0 0 29 2 *", "5,35 */12 28-31 * MON-FRI", "58-59 23 1 JAN 0"}
	if h.tier == "thorough" {
		all := vc9AllExprs()
		seen := map[string]bool{}
		for _, e := range exprs {
			seen[e] = true
		}
		for _, e := range []string{"*/15 * * * *", "0 0 1 * *", "0 23 28-31 * *", "10-12 0 29 * 0", "0 0 * * 0", "5,35 * * 2 MON-FRI", "0 */12 1 12 MON-FRI",
			"58-59 23 28-31 12 *", "0 0 28-31 2 0", "*/15 23 29 2 MON-FRI", "0 0 1 JAN *", "10-12 */12 * * MON-FRI"} {
			if !seen[e] {
				seen[e] = true
				exprs = append(exprs, e)
			}
		}
		for i := 7; len(exprs) < 40 && i < len(all); i += 41 {
			if e := all[i]; !seen[e] && !strings.HasSuffix(e, " 7") {
				seen[e] = true
				exprs = append(exprs, e)
			}
		}
	}
	h.res.Bounds["full_leap_year_expressions"] = len(exprs)
	for i, e := range exprs {
		def := &vc9Def{Form: "string", Starts: []string{e}}
		if i%5 == 4 {
			def = &vc9Def{Form: "map", Starts: []string{e}, Stops: []string{e}, Restarts: []string{e}}
		}
		h.run(&vc9Member{Fam: "leap-year", Window: "2032", Start: "2032-01-01T00:00:00Z", Hist: "none", RunLen: 0,
			Files: []vc9File{{Name: "a.yaml", Kind: "valid", Pre: def}}, Ops: vc9EveryMinute(366 * 1440)})
	}
}

// the real Scheduler.start() loop with late / stalled handling of a chosen tick
func (h *vc9H) famLoop() {
	D := []int{0, 30000, 60000, 150000, 300000}
	base, _ := time.Parse(time.RFC3339, "2031-05-14T09:58:00Z")
	at := func(j int) string { // expression matching only the j-th minute after the base minute
		x := base.Add(time.Duration(j) * time.Minute)
		return fmt.Sprintf("%d %d * * *", x.Minute(), x.Hour())
	}
	str := func(e string) *vc9Def { return &vc9Def{Form: "string", Starts: []string{e}} }
	type set struct {
		name   string
		files  []vc9File
		hist   string
		runLen int
	}
	sets := []set{
		{"every-minute", []vc9File{{Name: "a.yaml", Kind: "valid", Pre: str("* * * * *")}}, "none", 0},
		{"one-dag-per-later-minute", []vc9File{{Name: "at1.yaml", Kind: "valid", Pre: str(at(1))}, {Name: "at2.yaml", Kind: "valid", Pre: &vc9Def{Form: "list", Starts: []string{at(2)}}},
			{Name: "at3.yaml", Kind: "valid", Pre: &vc9Def{Form: "map", Starts: []string{at(3)}}}}, "none", 0},
		{"start-stop-restart", []vc9File{{Name: "a.yaml", Kind: "valid", Pre: &vc9Def{Form: "map", Starts: []string{"* * * * *"}, Stops: []string{"*/2 * * * *"}, Restarts: []string{at(1), at(4)}}}}, "none", -1},
		{"mixed-set", []vc9File{{Name: "a.yaml", Kind: "valid", Pre: str("* * * * *")}, {Name: "b.yaml", Kind: "suspended", Pre: str("* * * * *"), SuspPre: true, SuspPost: true},
			{Name: "c.yaml", Kind: "malformed", Pre: &vc9Def{Raw: vc9BadYAML[0]}}, {Name: "d.yaml", Kind: "valid", Pre: &vc9Def{Form: "map", Restarts: []string{at(2)}}}}, "none", 0},
		{"every-minute/ran-a-minute-ago", []vc9File{{Name: "a.yaml", Kind: "valid", Pre: str("* * * * *")}}, "prev-minute", 150},
	}
	emit := func(pattern string, start time.Time, adv []int) {
		for _, st := range sets {
			h.run(&vc9Member{Fam: "loop/" + st.name, Window: pattern, Start: start.Format(time.RFC3339Nano), Hist: st.hist, RunLen: st.runLen,
				Files: st.files, LoopAdv: append([]int{}, adv...)})
		}
	}
	// the first tick is handled late
	for _, off := range []time.Duration{0, 30 * time.Second} {
		for _, d := range D {
			emit(fmt.Sprintf("stall-tick1/start+%s/d=%dms", off, d), base.Add(off), []int{d})
		}
	}
	// the 2nd / 3rd tick is handled late: the loop starts 100 ms before a minute boundary, so its second timer is
	// armed with 100 real ms and fires while the wall clock is still 100 ms short of the minute; every further on-time
	// tick moves the clock by exactly one minute, which again arms the following timer with 100 ms
	for k := 2; k <= 3; k++ {
		for _, d := range D {
			adv := []int{0}
			for i := 2; i < k; i++ {
				adv = append(adv, 60000)
			}
			emit(fmt.Sprintf("stall-tick%d/d=%dms", k, d), base.Add(-100*time.Millisecond), append(adv, d))
		}
	}
	n := 20
	if h.tier == "thorough" {
		// every sequence of delays for up to three successive overdue ticks
		var rec func(start time.Time, off time.Duration, adv []int, wall, cursor time.Time)
		rec = func(start time.Time, off time.Duration, adv []int, wall, cursor time.Time) {
			for _, d := range D {
				a := append(append([]int{}, adv...), d)
				w := wall.Add(time.Duration(d) * time.Millisecond)
				c := cursor.Add(time.Minute)
				if len(a) < 3 && !c.After(w) {
					rec(start, off, a, w, c)
					continue
				}
				if len(a) > 1 {
					emit(fmt.Sprintf("stall-seq/start+%s/%v", off, a), start, a)
					n++
				}
			}
		}
		for _, off := range []time.Duration{0, 30 * time.Second} {
			rec(base.Add(off), off, nil, base.Add(off), base)
		}
	}
	h.res.Bounds["real_loop_delay_patterns_x_schedule_sets"] = fmt.Sprintf("%d x %d", n, len(sets))
}

type vc9NoEntries struct{}

func (vc9NoEntries) Start(chan any)                   {}
func (vc9NoEntries) Read(time.Time) ([]*entry, error) { return nil, nil }

// nextTick on its own: the instant after any instant is the next whole minute
func (h *vc9H) famNextTick() {
	h.idx++
	if !h.mine(h.idx) {
		return
	}
	s := newScheduler(newSchedulerArgs{EntryReader: vc9NoEntries{}, Logger: vc9Logger{}})
	bad := 0
	n := int64(0)
	for _, w := range vc9Windows {
		st, _ := time.Parse(time.RFC3339, w.Start)
		for i := 0; i < w.Min; i++ {
			for _, off := range []time.Duration{0, 1, time.Second, 30 * time.Second, 59 * time.Second, time.Minute - 1} {
				x := st.Add(time.Duration(i)*time.Minute + off)
				for _, wallAhead := range []time.Duration{0, 3 * time.Minute} {
					setFixedTime(x.Add(wallAhead))
					got := s.nextTick(x)
					want := time.Unix((x.Unix()/60+1)*60, 0).UTC()
					n++
					if !got.Equal(want) && bad == 0 {
						bad++
						ctx := "wall-clock-equals-tick"
						if wallAhead > 0 {
							ctx = "wall-clock-ahead-of-tick"
						}
						h.res.Violate("C09/nextTick/wrong-instant/"+ctx, fmt.Sprintf("nextTick(%s) with wall clock %s = %s, want %s", x.Format(time.RFC3339Nano), now().Format(time.RFC3339), got.Format(time.RFC3339Nano), want.Format(time.RFC3339)),
							map[string]any{"fam": "nextTick"})
					}
				}
			}
		}
	}
	setFixedTime(time.Time{})
	h.res.Count("nextTick_evaluations", n)
	h.res.Evaluations++
}

// ------------------------------------------------------------ entry point ---

func TestVerifC09(t *testing.T) {
	out := os.Getenv("VERIF_OUT")
	if out == "" {
		t.Skip("run through bin/vcheck C09")
	}
	os.Setenv("TZ", "UTC")
	time.Local = time.UTC
	res := vlib.New("c09")
	h := &vc9H{res: res, tier: os.Getenv("VERIF_TIER"), states: map[uint64]struct{}{}, nsamples: map[string]int{}, excluded: map[string]string{}}
	h.shard, _ = strconv.Atoi(os.Getenv("VERIF_SHARD"))
	h.shards, _ = strconv.Atoi(os.Getenv("VERIF_SHARDS"))
	h.work = os.Getenv("VERIF_WORKDIR")
	if h.work == "" {
		d, err := os.MkdirTemp("/dev/shm", "verif-c09-")
		if err != nil {
			t.Fatal(err)
		}
		h.work = d
	}
	h.work = filepath.Join(h.work, "c09")
	h.baseG = runtime.NumGoroutine()
	_ = os.MkdirAll(h.work, 0o755)
	defer os.RemoveAll(h.work)

	if rp := os.Getenv("VERIF_REPLAY"); rp != "" {
		var art struct {
			Replay json.RawMessage `json:"replay"`
		}
		b, err := os.ReadFile(rp)
		if err == nil {
			err = json.Unmarshal(b, &art)
		}
		if err != nil {
			t.Fatalf("replay: %v", err)
		}
		var m vc9Member
		if err := json.Unmarshal(art.Replay, &m); err != nil {
			t.Fatalf("replay: %v", err)
		}
		h.shards, h.verbose = 1, true
		if m.Fam == "nextTick" {
			h.famNextTick()
		} else {
			h.run(&m)
		}
		fmt.Printf("replayed %s: %d violation(s)\n", m.Fam, len(res.Violations))
		res.States = int64(len(h.states))
		res.Write(out)
		return
	}

	h.famNextTick()
	h.famYear()
	h.famLoop()
	h.famSets()
	h.famExtras()
	h.famRestart()
	h.famGuard()
	h.famExpressions()

	res.States = int64(len(h.states))
	res.Rule = "member = (definition files written as real YAML, prior-run history, run length, boot wall clock, sequence of wall-clock advances / daemon restarts / file changes); distinct = distinct member; non-trivial = the reference expects at least one Start/Stop/Restart call during the member"
	res.Bounds["calendar_windows"] = len(vc9Windows)
	res.Bounds["late_timer_minutes"] = "2..5 at every offset 0..7 of a 16-minute window"
	res.Bounds["restart_offsets"] = "minute 0,1,2 of a 3-minute window x {at the minute, 30 s into it} x {no downtime, 2 minutes down}"
	res.Assume("tick-by-tick families: the body of Scheduler.start() (run(t); t = nextTick(t); timer.Reset(t.Sub(now()))) is replayed by the harness with the daemon's own fixed-clock seam — a timer armed with a non-positive duration fires at once, so the loop ticks while t <= now(); run(t) and nextTick(t) are the real functions. The loop family runs the real Scheduler.start() (real timer, real select, real Stop()) under the fixed clock, with a wrapper around the real entry reader that records the minute of every run/Read and moves the fixed clock while a chosen tick is handled; only timers that are already due, or due within 100 real ms, are waited for — a wait for a future minute ends the member. Scheduler.Start()'s signal handling and context cancellation are not explored")
	res.Assume("loop family: the loop counts as quiescent when its goroutine is parked in the select of start() and no Read happened for 150 real ms while no minute is due, or for 2.5 real s while a minute is due (a due timer fires at once, so the latter means the timer waits for a later minute); 10 s without either is a check error")
	res.Assume("status seen by the daemon during one tick is the status at the beginning of that tick (client.Start blocks in cmd.Wait and the child process publishes its status only after its own start-up, while all entries of a tick probe within microseconds); effects of the issued calls on the environment are applied after the tick")
	res.Assume("UTC only (TZ=UTC); daylight-saving transitions are outside the family")
	res.Assume("day-of-week 7: robfig/cron's standard parser documents 0-6 and refuses 7, so a definition using 7 is an unloadable file here (no calls expected, other files unaffected); counted in dow7_rejected_by_loader_members")
	res.Assume("stop and restart calls of a suspended DAG are not judged (the property only says a suspended DAG is not started); after a running daemon sees a file edited into an unloadable one its own calls are not judged until the next daemon restart (the last good definition may stay), other files are")
	res.Assume("the watcher family adds zz_sync_N.yaml barrier files (scheduled for 31 Dec 23:59, operations on them ignored) to the directory to learn that the watcher has processed all earlier events; minutes that pass while no daemon process is up are not expected to be caught up")
	res.Write(out)
}
