package scheduler

// Added to package scheduler through the build overlay by the C13 harness.
// Runs what the scheduler daemon does with a DAGs directory: newEntryReader
// (=> initDags => dag.LoadMetadata of every file) followed by one Read tick
// (=> Schedule.Parsed.Next for every admitted schedule, CreateJob).

import (
	"sort"
	"time"

	"github.com/ErdemOzgen/blackdagger/internal/client"
	"github.com/ErdemOzgen/blackdagger/internal/dag"
	"github.com/ErdemOzgen/blackdagger/internal/logger"
)

func VerifEntryReader(dagsDir string, lg logger.Logger, cli client.Client, now time.Time) (admitted []*dag.DAG, entries int, err error) {
	er := newEntryReader(newEntryReaderArgs{
		DagsDir:    dagsDir,
		JobCreator: &jobCreatorImpl{WorkDir: dagsDir, Client: cli},
		Logger:     lg,
		Client:     cli,
	})
	es, err := er.Read(now)
	names := make([]string, 0, len(er.dags))
	for k := range er.dags {
		names = append(names, k)
	}
	sort.Strings(names)
	for _, k := range names {
		admitted = append(admitted, er.dags[k])
	}
	return admitted, len(es), err
}
