package dag

// Added to package dag through the build overlay by the C13 harness (never
// part of the repository).  Gives the harness (a) the key structure of the
// unexported definition types by reflection, so that newly added fields are
// picked up by the enumerator without editing it, and (b) the very cron
// parser the loader uses.

import (
	"reflect"
	"unicode"
)

// VerifNode describes one field of the definition types.
type VerifNode struct {
	Key    string       // YAML key: Go field name with the leading capitals lowered
	Go     string       // Go field name
	Kind   string       // string|int|float|bool|any|struct|list|map
	Ptr    bool         // the Go type is a pointer to Kind
	Fields []*VerifNode // Kind == struct
	Elem   *VerifNode   // Kind == list | map (element / value type)
}

// VerifSchema returns the structure of `definition` (and, nested in it,
// stepDef, funcDef, callFuncDef, ...), obtained by reflection.
func VerifSchema() *VerifNode {
	return verifWalk("", "", reflect.TypeOf(definition{}), 0)
}

// VerifParseCron parses an expression with the parser the loader uses.
func VerifParseCron(expr string) error {
	_, err := cronParser.Parse(expr)
	return err
}

func verifKey(goName string) string {
	r := []rune(goName)
	n := 0
	for n < len(r) && unicode.IsUpper(r[n]) {
		n++
	}
	switch {
	case n == 0:
		return goName
	case n == len(r) || n == 1:
	default:
		n-- // "HTTPServer" -> "httpServer"
	}
	for i := 0; i < n; i++ {
		r[i] = unicode.ToLower(r[i])
	}
	return string(r)
}

func verifWalk(key, goName string, t reflect.Type, depth int) *VerifNode {
	n := &VerifNode{Key: key, Go: goName}
	if t.Kind() == reflect.Ptr {
		n.Ptr = true
		t = t.Elem()
	}
	if depth > 12 {
		n.Kind = "any"
		return n
	}
	switch t.Kind() {
	case reflect.String:
		n.Kind = "string"
	case reflect.Bool:
		n.Kind = "bool"
	case reflect.Int, reflect.Int8, reflect.Int16, reflect.Int32, reflect.Int64,
		reflect.Uint, reflect.Uint8, reflect.Uint16, reflect.Uint32, reflect.Uint64:
		n.Kind = "int"
	case reflect.Float32, reflect.Float64:
		n.Kind = "float"
	case reflect.Interface:
		n.Kind = "any"
	case reflect.Slice, reflect.Array:
		n.Kind = "list"
		n.Elem = verifWalk("", "", t.Elem(), depth+1)
	case reflect.Map:
		n.Kind = "map"
		n.Elem = verifWalk("", "", t.Elem(), depth+1)
	case reflect.Struct:
		n.Kind = "struct"
		for i := 0; i < t.NumField(); i++ {
			f := t.Field(i)
			if f.PkgPath != "" { // unexported: mapstructure ignores it
				continue
			}
			n.Fields = append(n.Fields, verifWalk(verifKey(f.Name), f.Name, f.Type, depth+1))
		}
	default:
		n.Kind = "any"
	}
	return n
}
