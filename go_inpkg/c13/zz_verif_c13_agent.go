package agent

// Added to package agent through the build overlay by the C13 harness.
// Serves the live-status request of an agent that has been set up for a DAG
// (scheduler + execution graph built exactly as Run does) but runs nothing.

import "net/http"

func VerifServeStatus(a *Agent, w http.ResponseWriter, r *http.Request) error {
	if err := a.setup(); err != nil {
		return err
	}
	a.HandleHTTP(w, r)
	return nil
}
