package jsondb

// VerifC18Stop ends the cache-eviction goroutine of a history store that a
// harness created for one replayed history (thousands per process).
func (s *JSONDB) VerifC18Stop() { s.cache.Stop() }
