package local

import "github.com/ErdemOzgen/blackdagger/internal/persistence"

// VerifC18StopDAGStore ends the cache-eviction goroutine of a DAG store that a
// harness created for one replayed history (thousands per process).
func VerifC18StopDAGStore(d persistence.DAGStore) {
	if impl, ok := d.(*dagStoreImpl); ok {
		impl.metaCache.Stop()
	}
}
