package scheduler

// Added to package scheduler through the build overlay by the C08 harness.
// Builds the daemon's real job object (jobCreatorImpl.CreateJob, exactly what
// entryReader hands to the cron loop) for one DAG and one scheduled minute and
// calls its Start method — the guards of job.go run unchanged.  The answer is
// classified against the sentinel errors of this package.

import (
	"errors"
	"time"

	"github.com/ErdemOzgen/blackdagger/internal/client"
	"github.com/ErdemOzgen/blackdagger/internal/dag"
)

// VerifC08JobStart returns the error of jobImpl.Start and its class:
// "started" (nil: the executable was invoked and exited 0), "already-running"
// (errJobRunning), "already-finished" (errJobFinished) or "other".
func VerifC08JobStart(d *dag.DAG, executable, workDir string, next time.Time, cli client.Client) (class string, err error) {
	j := jobCreatorImpl{Executable: executable, WorkDir: workDir, Client: cli}.CreateJob(d, next)
	err = j.Start()
	switch {
	case err == nil:
		return "started", nil
	case errors.Is(err, errJobRunning):
		return "already-running", err
	case errors.Is(err, errJobFinished):
		return "already-finished", err
	}
	return "other", err
}
