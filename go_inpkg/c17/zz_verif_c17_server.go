package server

// Added to package server through the build overlay by the C17 harness
// (/verif/go/c17).  Thin accessors only: nothing here changes what the server
// does.

import "net/http"

// VerifSetBasePath sets the field that New fills from NewServerArgs.BasePath
// (frontend.New does not forward a base path, so the harness sets it on the
// object frontend.New returned).
func VerifSetBasePath(svr *Server, basePath string) { svr.funcsConfig.BasePath = basePath }

// VerifAddHandler appends one more Handler; Serve calls its Configure after
// the ones frontend.New registered.
func VerifAddHandler(svr *Server, h Handler) { svr.handlers = append(svr.handlers, h) }

// VerifPort returns the TCP port the running server listens on (0 until
// Serve got that far).  Single-word reads only; the harness polls it.
func VerifPort(svr *Server) int {
	s := svr.server
	if s == nil {
		return 0
	}
	return s.Port
}

// VerifHandler returns the handler the running server serves.  Call it only
// after a connection to VerifPort succeeded.
func VerifHandler(svr *Server) http.Handler {
	s := svr.server
	if s == nil {
		return nil
	}
	return s.GetHandler()
}
