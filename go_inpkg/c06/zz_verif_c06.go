package jsondb

// VerifC06Stop ends the cache-eviction goroutine of a history store created by
// the C06 harness (one search creates several stores per transition; without
// this every one of them would leave a goroutine and a timer behind).
func (s *JSONDB) VerifC06Stop() { s.cache.Stop() }
