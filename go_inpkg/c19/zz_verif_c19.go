package dag

// Added to internal/dag through the build overlay by the C19 harness
// (/verif/go/c19). Nothing here changes behaviour: it only lets the harness
// reflect over the unexported YAML definition structs and run the real
// unmarshal+decode step.

import "reflect"

// VerifDefinitionType is the type of the intermediate YAML definition.
func VerifDefinitionType() reflect.Type { return reflect.TypeOf(definition{}) }

// VerifDecode runs the loader's own unmarshalData + decode and hands back the
// *definition (as any) so the harness can check, by reflection, that a planted
// payload really sits in the leaf it was meant for.
func VerifDecode(data []byte) (any, error) {
	raw, err := unmarshalData(data)
	if err != nil {
		return nil, err
	}
	return decode(raw)
}
