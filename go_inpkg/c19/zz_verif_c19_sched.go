package scheduler

// Added to internal/scheduler through the build overlay by the C19 harness
// (/verif/go/c19). It only gives the harness a handle on the daemon's real
// entry reader: construction (newEntryReader -> initDags), the real
// Start(done) that launches the directory watcher, and a bounded,
// TryLock-based look into the reader's table. No behaviour is changed.

import (
	"time"

	"github.com/ErdemOzgen/blackdagger/internal/client"
	"github.com/ErdemOzgen/blackdagger/internal/dag"
	"github.com/ErdemOzgen/blackdagger/internal/logger"
)

// VerifHotReader is a running entry reader (start-up scan done, watcher started).
type VerifHotReader struct {
	er   *entryReaderImpl
	done chan any
}

// VerifStartEntryReader builds the entry reader exactly as scheduler.New does
// and starts its watcher with the real Start(done).
func VerifStartEntryReader(dagsDir, workDir string, lg logger.Logger, cli client.Client) *VerifHotReader {
	er := newEntryReader(newEntryReaderArgs{
		Client:     cli,
		DagsDir:    dagsDir,
		JobCreator: &jobCreatorImpl{WorkDir: workDir, Client: cli, Executable: "/bin/false"},
		Logger:     lg,
	})
	r := &VerifHotReader{er: er, done: make(chan any)}
	er.Start(r.done)
	return r
}

// Stop makes watchDags return (its deferred Close releases the inotify instance).
func (r *VerifHotReader) Stop() { close(r.done) }

// Entry looks the file name up in the reader's table. It never blocks for
// longer than lockWait: locked=false means the table's lock could not be
// taken in that time.
func (r *VerifHotReader) Entry(name string, lockWait time.Duration) (d *dag.DAG, present, locked bool) {
	for t0 := time.Now(); ; time.Sleep(100 * time.Microsecond) {
		if r.er.dagsLock.TryLock() {
			d, present = r.er.dags[name]
			r.er.dagsLock.Unlock()
			return d, present, true
		}
		if time.Since(t0) > lockWait {
			return nil, false, false
		}
	}
}
