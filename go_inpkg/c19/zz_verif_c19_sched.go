package scheduler

// Added to internal/scheduler through the build overlay by the C19 harness
// (/verif/go/c19). It only gives the harness a handle on the daemon's real
// entry reader: construction (newEntryReader -> initDags), the real
// Start(done) that launches the directory watcher, and a bounded,
// TryLock-based look into the reader's table. No behaviour is changed.

import (
	"errors"
	"fmt"
	"sort"
	"time"

	"github.com/ErdemOzgen/blackdagger/internal/client"
	"github.com/ErdemOzgen/blackdagger/internal/dag"
	"github.com/ErdemOzgen/blackdagger/internal/logger"
)

// VerifHotReader is a running entry reader (start-up scan done, watcher started).
type VerifHotReader struct {
	er   *entryReaderImpl
	done chan any
}

// VerifStartEntryReader builds the entry reader exactly as scheduler.New does
// and starts its watcher with the real Start(done).
func VerifStartEntryReader(dagsDir, workDir string, lg logger.Logger, cli client.Client) *VerifHotReader {
	er := newEntryReader(newEntryReaderArgs{
		Client:     cli,
		DagsDir:    dagsDir,
		JobCreator: &jobCreatorImpl{WorkDir: workDir, Client: cli, Executable: "/bin/false"},
		Logger:     lg,
	})
	r := &VerifHotReader{er: er, done: make(chan any)}
	er.Start(r.done)
	return r
}

// Stop makes watchDags return (its deferred Close releases the inotify instance).
func (r *VerifHotReader) Stop() { close(r.done) }

// Entry looks the file name up in the reader's table. It never blocks for
// longer than lockWait: locked=false means the table's lock could not be
// taken in that time.
func (r *VerifHotReader) Entry(name string, lockWait time.Duration) (d *dag.DAG, present, locked bool) {
	for t0 := time.Now(); ; time.Sleep(100 * time.Microsecond) {
		if r.er.dagsLock.TryLock() {
			d, present = r.er.dags[name]
			r.er.dagsLock.Unlock()
			return d, present, true
		}
		if time.Since(t0) > lockWait {
			return nil, false, false
		}
	}
}

// VerifReadAndRefuse builds the entry reader as scheduler.New does (start-up
// scan), lets it compute its next-run table with the real Read(now), and then
// asks every job -- the ones Read created for scheduled definitions and one
// created with the real job creator for every definition of the table -- to
// stop (the definition is not running) and to start (the history holds a run
// that started after `now`): both must be refused by the job itself, so
// nothing is ever started. Returns "" or what went differently.
func VerifReadAndRefuse(dagsDir, workDir string, lg logger.Logger, cli client.Client, now time.Time) string {
	er := newEntryReader(newEntryReaderArgs{
		Client:     cli,
		DagsDir:    dagsDir,
		JobCreator: &jobCreatorImpl{WorkDir: workDir, Client: cli, Executable: "/bin/false"},
		Logger:     lg,
	})
	ents, err := er.Read(now)
	if err != nil {
		return "entryReader.Read: " + err.Error()
	}
	var jobs []job
	for _, e := range ents {
		jobs = append(jobs, e.Job)
	}
	er.dagsLock.Lock()
	var names []string
	for n := range er.dags {
		names = append(names, n)
	}
	sort.Strings(names)
	for _, n := range names {
		jobs = append(jobs, er.jobCreator.CreateJob(er.dags[n], now))
	}
	er.dagsLock.Unlock()
	for _, j := range jobs {
		if err := j.Stop(); !errors.Is(err, errJobIsNotRunning) {
			return "job.Stop was not refused with errJobIsNotRunning: " + fmt.Sprint(err)
		}
		if err := j.Start(); !errors.Is(err, errJobFinished) {
			return "job.Start was not refused with errJobFinished: " + fmt.Sprint(err)
		}
	}
	return ""
}
