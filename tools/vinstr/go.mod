module vinstr

go 1.22
