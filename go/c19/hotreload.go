package main

// The scheduler daemon's hot reload: the real entry reader is constructed
// (start-up scan), its real watcher is started with Start(done), and the
// member's document is delivered WHILE the reader runs:
//
//	create      written to a name outside the directory, renamed into it
//	write       an existing (minimal) definition rewritten in place
//	UpdateSpec  the API's save path (DAGStore.UpdateSpec validates, then
//	            writes the file) followed by the watcher's reload
//
// "The watcher has processed the event" is learnt the way the C09 harness
// does: a fresh schedule-less definition is renamed into the directory and
// the reader's table is polled (TryLock, bounded) until it contains it;
// events of one inotify watch are delivered in order and handled by one
// goroutine. Every wait is bounded by 30 s; a cap hit is a CheckError.

import (
	"fmt"
	"os"
	"path/filepath"
	"strings"
	"time"

	"github.com/ErdemOzgen/blackdagger/internal/scheduler"
	"github.com/ErdemOzgen/blackdagger/internal/zzverif/venv"
)

const hotWait = 30 * time.Second

// harnessErr: the harness (not the code under test) could not do its job.
type harnessErr struct{ msg string }

func (e *harnessErr) Error() string { return e.msg }

var hotNS = map[string]int64{} // time spent per phase (reported as counters)

func phase(name string, t0 *time.Time) { hotNS[name] += int64(time.Since(*t0)); *t0 = time.Now() }

var (
	hotBroken string // set after the first harness failure: later hot-reload members fail fast
	syncSeq   int
)

var skeleton = []byte("steps:\n- name: s0\n  command: \"true\"\n")

// inotifyFDs counts the inotify instances this process holds.
func inotifyFDs() int {
	ents, err := os.ReadDir("/proc/self/fd")
	if err != nil {
		return -1
	}
	n := 0
	for _, e := range ents {
		if l, err := os.Readlink("/proc/self/fd/" + e.Name()); err == nil && strings.Contains(l, "inotify") {
			n++
		}
	}
	return n
}

func renameInto(in *inst, name string, data []byte) error {
	tmp := filepath.Join(in.Root, "tmp-"+name)
	if err := os.WriteFile(tmp, data, 0o644); err != nil {
		return err
	}
	return os.Rename(tmp, filepath.Join(in.DAGs, name))
}

// syncReader returns once the reader has processed every directory event issued so far.
func syncReader(in *inst, r *scheduler.VerifHotReader, when string) error {
	deadline := time.Now().Add(hotWait)
	for attempt := 0; ; attempt++ {
		syncSeq++
		name := fmt.Sprintf("zz_sync_%d.yaml", syncSeq)
		if err := renameInto(in, name, skeleton); err != nil {
			return &harnessErr{"sync file: " + err.Error()}
		}
		wait := time.Duration(2<<uint(min(attempt, 10))) * time.Millisecond
		if wait > 2*time.Second {
			wait = 2 * time.Second
		}
		until := time.Now().Add(wait)
		for spins := 0; ; spins++ {
			_, seen, locked := r.Entry(name, hotWait)
			if !locked {
				return &harnessErr{fmt.Sprintf("hot reload (%s): the lock of the reader's table was not released within %s", when, hotWait)}
			}
			if seen {
				return nil
			}
			if time.Now().After(deadline) {
				return &harnessErr{fmt.Sprintf("hot reload (%s): the watcher did not pick up a renamed-in file within %s (inotify unavailable / polling fallback?)", when, hotWait)}
			}
			if time.Now().After(until) {
				break // the watch may not have been established yet when the file was renamed in: try a fresh one
			}
			if spins < 50 {
				time.Sleep(50 * time.Microsecond)
			} else {
				time.Sleep(500 * time.Microsecond)
			}
		}
	}
}

func hotReload(in *inst, how string) (err error) {
	if hotBroken != "" {
		return &harnessErr{"hot-reload member skipped after an earlier harness failure: " + hotBroken}
	}
	defer func() {
		if he, ok := err.(*harnessErr); ok {
			hotBroken = he.msg
		}
	}()
	name := in.Name + ".yaml"
	if how == "create" {
		_ = os.Remove(in.File)
	} else if werr := os.WriteFile(in.File, skeleton, 0o644); werr != nil {
		return &harnessErr{werr.Error()}
	}
	fds := inotifyFDs()
	pt := time.Now()
	r := scheduler.VerifStartEntryReader(in.DAGs, in.Root, venv.Quiet, in.client())
	defer func() {
		// stop the watcher and wait until its inotify instance is released (no leak across members)
		pt = time.Now()
		defer phase("stop", &pt)
		r.Stop()
		for t0 := time.Now(); inotifyFDs() > fds; time.Sleep(200 * time.Microsecond) {
			if time.Since(t0) > hotWait {
				if err == nil || !isHarnessErr(err) {
					err = &harnessErr{fmt.Sprintf("the watcher's inotify instance was not released within %s after done was closed", hotWait)}
				}
				return
			}
		}
	}()
	// the watcher goroutine creates its inotify instance first and adds the directory right after
	for t0 := time.Now(); inotifyFDs() <= fds; time.Sleep(50 * time.Microsecond) {
		if time.Since(t0) > hotWait {
			return &harnessErr{fmt.Sprintf("the watcher did not create an inotify instance within %s (limit reached -> polling fallback?)", hotWait)}
		}
	}
	phase("start", &pt)
	if serr := syncReader(in, r, "boot"); serr != nil {
		return serr
	}
	phase("boot-sync", &pt)
	before, _, _ := r.Entry(name, hotWait)
	var derr error
	switch how {
	case "create":
		derr = renameInto(in, name, in.Data_)
	case "write":
		derr = os.WriteFile(in.File, in.Data_, 0o644)
	case "UpdateSpec":
		err = in.store().UpdateSpec(in.Name, in.Data_) // a refused document is never written: nothing to reload
	}
	if derr != nil {
		return &harnessErr{"delivering the document: " + derr.Error()}
	}
	if serr := syncReader(in, r, how); serr != nil {
		return serr
	}
	phase("deliver+sync", &pt)
	after, _, locked := r.Entry(name, hotWait)
	if !locked {
		return &harnessErr{"table lock not released after the reload"}
	}
	in.Reloaded = after != nil && after != before
	return err
}

func isHarnessErr(err error) bool { _, ok := err.(*harnessErr); return ok }

var hotEntries = []entry{
	{Name: "scheduler.hot-reload(create)", Hot: true, Fn: func(in *inst) error { return hotReload(in, "create") }},
	{Name: "scheduler.hot-reload(write)", Hot: true, Fn: func(in *inst) error { return hotReload(in, "write") }},
	{Name: "scheduler.hot-reload(UpdateSpec)", Hot: true, Fn: func(in *inst) error { return hotReload(in, "UpdateSpec") }},
}

func init() { entries = append(entries, hotEntries...) }
