package main

// The non-executing entry points through which a definition is loaded for
// listing, display or validation, and the executing loader used as positive
// control.

import (
	"fmt"
	"path/filepath"

	"github.com/ErdemOzgen/blackdagger/internal/client"
	"github.com/ErdemOzgen/blackdagger/internal/config"
	"github.com/ErdemOzgen/blackdagger/internal/dag"
	fdag "github.com/ErdemOzgen/blackdagger/internal/frontend/dag"
	"github.com/ErdemOzgen/blackdagger/internal/frontend/gen/restapi/operations"
	"github.com/ErdemOzgen/blackdagger/internal/frontend/gen/restapi/operations/dags"
	"github.com/ErdemOzgen/blackdagger/internal/persistence"
	dsclient "github.com/ErdemOzgen/blackdagger/internal/persistence/client"
	"github.com/ErdemOzgen/blackdagger/internal/persistence/local"
	"github.com/ErdemOzgen/blackdagger/internal/scheduler"
	"github.com/ErdemOzgen/blackdagger/internal/zzverif/venv"
)

// inst is the scratch installation of one member: <root>/dags/<name>.yaml holds the document.
type inst struct {
	Root, DAGs, Data, Flags, Logs string
	Name, File                    string
	Data_                         []byte // the document
	Reloaded                      bool   // hot reload only: the reader's table entry was replaced
}

func (in *inst) store() persistence.DAGStore {
	return local.NewDAGStore(&local.NewDAGStoreArgs{Dir: in.DAGs})
}

func (in *inst) client() client.Client {
	ds := dsclient.NewDataStores(in.DAGs, in.Data, in.Flags, dsclient.DataStoreOptions{LatestStatusToday: true})
	return client.New(ds, "/bin/false", in.Root, venv.Quiet)
}

func (in *inst) api() *operations.BlackdaggerAPI {
	api := &operations.BlackdaggerAPI{}
	fdag.NewHandler(&fdag.NewHandlerArgs{Client: in.client()}, nil, "/api/v1").Configure(api)
	return api
}

type entry struct {
	Name string
	Hot  bool // drives the daemon's directory watcher (hotreload.go)
	// Loads: whether the entry parses the document at all (GetSpec only reads the bytes).
	Fn func(in *inst) error
}

func sp(s string) *string { return &s }

var entries = []entry{
	{Name: "dag.LoadYAML", Fn: func(in *inst) error { _, err := dag.LoadYAML(in.Data_); return err }},
	{Name: "dag.LoadMetadata", Fn: func(in *inst) error { _, err := dag.LoadMetadata(in.File); return err }},
	{Name: "dag.LoadWithoutEval", Fn: func(in *inst) error { _, err := dag.LoadWithoutEval(in.File); return err }},
	{Name: "DAGStore.List", Fn: func(in *inst) error { _, _, err := in.store().List(); return err }},
	{Name: "DAGStore.ListPagination", Fn: func(in *inst) error {
		_, err := in.store().ListPagination(persistence.DAGListPaginationArgs{Page: 1, Limit: 100})
		return err
	}},
	{Name: "DAGStore.TagList", Fn: func(in *inst) error { _, _, err := in.store().TagList(); return err }},
	{Name: "DAGStore.GetMetadata", Fn: func(in *inst) error { _, err := in.store().GetMetadata(in.Name); return err }},
	{Name: "DAGStore.GetDetails", Fn: func(in *inst) error { _, err := in.store().GetDetails(in.Name); return err }},
	{Name: "DAGStore.GetSpec", Fn: func(in *inst) error { _, err := in.store().GetSpec(in.Name); return err }},
	{Name: "DAGStore.UpdateSpec", Fn: func(in *inst) error { return in.store().UpdateSpec(in.Name, in.Data_) }},
	{Name: "DAGStore.Grep", Fn: func(in *inst) error { _, _, err := in.store().Grep("touch|VERIF|base"); return err }},
	{Name: "DAGStore.Find", Fn: func(in *inst) error { _, err := in.store().Find(in.Name); return err }},
	{Name: "scheduler.New(initDags)", Fn: func(in *inst) error {
		s := scheduler.New(&config.Config{DAGs: in.DAGs, WorkDir: in.Root, Executable: "/bin/false", LogDir: in.Logs}, venv.Quiet, in.client())
		if s == nil {
			return fmt.Errorf("nil scheduler")
		}
		return nil
	}},
	{Name: "client.GetStatus", Fn: func(in *inst) error { _, err := in.client().GetStatus(in.Name); return err }},
	{Name: "client.GetAllStatus", Fn: func(in *inst) error { _, _, err := in.client().GetAllStatus(); return err }},
	{Name: "client.GetAllStatusPagination", Fn: func(in *inst) error {
		_, _, err := in.client().GetAllStatusPagination(dags.ListDagsParams{})
		return err
	}},
	{Name: "client.Grep", Fn: func(in *inst) error { _, _, err := in.client().Grep("touch|VERIF|base"); return err }},
	{Name: "client.GetDAGSpec", Fn: func(in *inst) error { _, err := in.client().GetDAGSpec(in.Name); return err }},
	{Name: "client.UpdateDAG", Fn: func(in *inst) error { return in.client().UpdateDAG(in.Name, string(in.Data_)) }},
	{Name: "client.GetTagList", Fn: func(in *inst) error { _, _, err := in.client().GetTagList(); return err }},
	{Name: "api.listDags", Fn: func(in *inst) error {
		if in.api().DagsListDagsHandler.Handle(dags.ListDagsParams{}) == nil {
			return fmt.Errorf("nil responder")
		}
		return nil
	}},
	{Name: "api.listDags(searchName)", Fn: func(in *inst) error {
		if in.api().DagsListDagsHandler.Handle(dags.ListDagsParams{SearchName: sp(in.Name)}) == nil {
			return fmt.Errorf("nil responder")
		}
		return nil
	}},
	{Name: "api.getDagDetails(status)", Fn: func(in *inst) error { return detail(in, "status") }},
	{Name: "api.getDagDetails(spec)", Fn: func(in *inst) error { return detail(in, "spec") }},
	{Name: "api.getDagDetails(history)", Fn: func(in *inst) error { return detail(in, "history") }},
	{Name: "api.searchDags", Fn: func(in *inst) error {
		if in.api().DagsSearchDagsHandler.Handle(dags.SearchDagsParams{Q: "touch|VERIF|base"}) == nil {
			return fmt.Errorf("nil responder")
		}
		return nil
	}},
	{Name: "api.listTags", Fn: func(in *inst) error {
		if in.api().DagsListTagsHandler.Handle(dags.ListTagsParams{}) == nil {
			return fmt.Errorf("nil responder")
		}
		return nil
	}},
}

func detail(in *inst, tab string) error {
	if in.api().DagsGetDagDetailsHandler.Handle(dags.GetDagDetailsParams{DagID: in.Name, Tab: &tab}) == nil {
		return fmt.Errorf("nil responder")
	}
	return nil
}

// control: the executing loader (start / dry-run / retry / restart use it).
var controlEntry = entry{Name: "dag.Load", Fn: func(in *inst) error { _, err := dag.Load("", in.File, ""); return err }}

func entryByName(n string) *entry {
	if n == controlEntry.Name {
		return &controlEntry
	}
	for i := range entries {
		if entries[i].Name == n {
			return &entries[i]
		}
	}
	return nil
}

func newInst(root, name string, data []byte) *inst {
	return &inst{Root: root, DAGs: filepath.Join(root, "dags"), Data: filepath.Join(root, "data"),
		Flags: filepath.Join(root, "suspend"), Logs: filepath.Join(root, "logs"),
		Name: name, File: filepath.Join(root, "dags", name+".yaml"), Data_: data}
}
