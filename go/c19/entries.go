package main

// The non-executing entry points through which a definition is loaded for
// listing, display or validation, and the executing loader used as positive
// control.

import (
	"fmt"
	"os"
	"path/filepath"
	"time"

	"github.com/ErdemOzgen/blackdagger/internal/client"
	"github.com/ErdemOzgen/blackdagger/internal/config"
	"github.com/ErdemOzgen/blackdagger/internal/dag"
	dagsched "github.com/ErdemOzgen/blackdagger/internal/dag/scheduler"
	fdag "github.com/ErdemOzgen/blackdagger/internal/frontend/dag"
	"github.com/ErdemOzgen/blackdagger/internal/frontend/gen/restapi/operations"
	"github.com/ErdemOzgen/blackdagger/internal/frontend/gen/restapi/operations/dags"
	"github.com/ErdemOzgen/blackdagger/internal/persistence"
	dsclient "github.com/ErdemOzgen/blackdagger/internal/persistence/client"
	"github.com/ErdemOzgen/blackdagger/internal/persistence/local"
	"github.com/ErdemOzgen/blackdagger/internal/persistence/model"
	"github.com/ErdemOzgen/blackdagger/internal/scheduler"
	"github.com/ErdemOzgen/blackdagger/internal/util"
	"github.com/ErdemOzgen/blackdagger/internal/zzverif/venv"
)

// inst is the scratch installation of one member: <root>/dags/<name>.yaml holds the document.
type inst struct {
	Root, DAGs, Data, Flags, Logs string
	Name, File                    string
	Data_                         []byte // the document
	Reloaded                      bool   // hot reload only: the reader's table entry was replaced
}

func (in *inst) store() persistence.DAGStore {
	return local.NewDAGStore(&local.NewDAGStoreArgs{Dir: in.DAGs})
}

func (in *inst) stores() persistence.DataStores {
	return dsclient.NewDataStores(in.DAGs, in.Data, in.Flags, dsclient.DataStoreOptions{LatestStatusToday: true})
}

func (in *inst) client() client.Client {
	return client.New(in.stores(), "/bin/false", in.Root, venv.Quiet)
}

const histReq = "verif-req-1"

// seedHistory records one finished run of the member's definition file (request id histReq, one node
// for step s0 with a log file, started now), so that the entry points that look a run up (step-log and
// scheduler-log tabs, GetStatusByRequestID, mark-success, the daemon's "already ran" refusal) get past
// their first look-up. The record is written through the real history store; it is keyed by the file
// location only and holds nothing of the member's document.
func (in *inst) seedHistory() error {
	logf := filepath.Join(in.Logs, "run.log")
	if err := os.WriteFile(logf, []byte("log line\n"), 0o644); err != nil {
		return &harnessErr{"history seed: " + err.Error()}
	}
	now := time.Now()
	hs := in.stores().HistoryStore()
	if err := hs.Open(in.File, now, histReq); err != nil {
		return &harnessErr{"history seed: open: " + err.Error()}
	}
	st := &model.Status{RequestID: histReq, Name: in.Name, Status: dagsched.StatusSuccess, StatusText: dagsched.StatusSuccess.String(),
		Nodes: []*model.Node{{Step: dag.Step{Name: "s0"}, Log: logf, StartedAt: util.FormatTime(now), FinishedAt: util.FormatTime(now),
			Status: dagsched.NodeStatusSuccess, StatusText: dagsched.NodeStatusSuccess.String()}},
		StartedAt: util.FormatTime(now), FinishedAt: util.FormatTime(now), Log: logf}
	if err := hs.Write(st); err != nil {
		_ = hs.Close()
		return &harnessErr{"history seed: write: " + err.Error()}
	}
	if err := hs.Close(); err != nil {
		return &harnessErr{"history seed: close: " + err.Error()}
	}
	return nil
}

func (in *inst) api() *operations.BlackdaggerAPI {
	api := &operations.BlackdaggerAPI{}
	fdag.NewHandler(&fdag.NewHandlerArgs{Client: in.client()}, nil, "/api/v1").Configure(api)
	return api
}

type entry struct {
	Name string
	Hot  bool // drives the daemon's directory watcher (hotreload.go)
	// SparseInQuick: the quick tier runs this entry on the sparse documents only (thorough: both profiles).
	SparseInQuick bool
	// Thorough: the entry is part of the thorough tier only (a variant of a quick-tier entry).
	Thorough bool
	// Loads: whether the entry parses the document at all (GetSpec only reads the bytes).
	Fn func(in *inst) error
}

func sp(s string) *string { return &s }

var entries = []entry{
	{Name: "dag.LoadYAML", Fn: func(in *inst) error { _, err := dag.LoadYAML(in.Data_); return err }},
	{Name: "dag.LoadMetadata", Fn: func(in *inst) error { _, err := dag.LoadMetadata(in.File); return err }},
	{Name: "dag.LoadWithoutEval", Fn: func(in *inst) error { _, err := dag.LoadWithoutEval(in.File); return err }},
	{Name: "DAGStore.List", Fn: func(in *inst) error { _, _, err := in.store().List(); return err }},
	{Name: "DAGStore.ListPagination", Fn: func(in *inst) error {
		_, err := in.store().ListPagination(persistence.DAGListPaginationArgs{Page: 1, Limit: 100})
		return err
	}},
	{Name: "DAGStore.TagList", Fn: func(in *inst) error { _, _, err := in.store().TagList(); return err }},
	{Name: "DAGStore.GetMetadata", Fn: func(in *inst) error { _, err := in.store().GetMetadata(in.Name); return err }},
	{Name: "DAGStore.GetDetails", Fn: func(in *inst) error { _, err := in.store().GetDetails(in.Name); return err }},
	{Name: "DAGStore.GetSpec", Fn: func(in *inst) error { _, err := in.store().GetSpec(in.Name); return err }},
	{Name: "DAGStore.UpdateSpec", Fn: func(in *inst) error { return in.store().UpdateSpec(in.Name, in.Data_) }},
	{Name: "DAGStore.Grep", Fn: func(in *inst) error { _, _, err := in.store().Grep("touch|VERIF|base"); return err }},
	{Name: "DAGStore.Find", Fn: func(in *inst) error { _, err := in.store().Find(in.Name); return err }},
	{Name: "scheduler.New(initDags)", Fn: func(in *inst) error {
		s := scheduler.New(&config.Config{DAGs: in.DAGs, WorkDir: in.Root, Executable: "/bin/false", LogDir: in.Logs}, venv.Quiet, in.client())
		if s == nil {
			return fmt.Errorf("nil scheduler")
		}
		return nil
	}},
	{Name: "client.GetStatus", Fn: func(in *inst) error { _, err := in.client().GetStatus(in.Name); return err }},
	{Name: "client.GetAllStatus", Fn: func(in *inst) error { _, _, err := in.client().GetAllStatus(); return err }},
	{Name: "client.GetAllStatusPagination", Fn: func(in *inst) error {
		_, _, err := in.client().GetAllStatusPagination(dags.ListDagsParams{})
		return err
	}},
	{Name: "client.Grep", Fn: func(in *inst) error { _, _, err := in.client().Grep("touch|VERIF|base"); return err }},
	{Name: "client.GetDAGSpec", Fn: func(in *inst) error { _, err := in.client().GetDAGSpec(in.Name); return err }},
	{Name: "client.UpdateDAG", Fn: func(in *inst) error { return in.client().UpdateDAG(in.Name, string(in.Data_)) }},
	{Name: "client.GetTagList", Fn: func(in *inst) error { _, _, err := in.client().GetTagList(); return err }},
	{Name: "api.listDags", Fn: func(in *inst) error {
		if in.api().DagsListDagsHandler.Handle(dags.ListDagsParams{}) == nil {
			return fmt.Errorf("nil responder")
		}
		return nil
	}},
	{Name: "api.listDags(searchName)", Fn: func(in *inst) error {
		if in.api().DagsListDagsHandler.Handle(dags.ListDagsParams{SearchName: sp(in.Name)}) == nil {
			return fmt.Errorf("nil responder")
		}
		return nil
	}},
	{Name: "api.getDagDetails(status)", Fn: func(in *inst) error { return detail(in, "status") }},
	{Name: "api.getDagDetails(spec)", Fn: func(in *inst) error { return detail(in, "spec") }},
	{Name: "api.getDagDetails(history)", Fn: func(in *inst) error { return detail(in, "history") }},
	{Name: "api.searchDags", Fn: func(in *inst) error {
		if in.api().DagsSearchDagsHandler.Handle(dags.SearchDagsParams{Q: "touch|VERIF|base"}) == nil {
			return fmt.Errorf("nil responder")
		}
		return nil
	}},
	{Name: "api.listTags", Fn: func(in *inst) error {
		if in.api().DagsListTagsHandler.Handle(dags.ListTagsParams{}) == nil {
			return fmt.Errorf("nil responder")
		}
		return nil
	}},
}

// ---- entry points added for "the definition names an existing variable" (seeded/C19-4) ----
//
// Everything in internal/client, internal/frontend/dag and internal/scheduler that reads, shows,
// validates or refuses without starting a run. Left out on purpose (see mutants/C19/README.md):
// client.Start/StartAsync/Restart/Retry and the API actions start / retry-with-request-id and
// jobImpl.Restart (they start a run: the other side of the property's boundary); client.Stop (talks to
// a running agent's socket, reads nothing of a definition); client.CreateDAG / api.createDag (writes
// the fixed template, no definition is read); api start-refused-because-running (needs a live agent
// socket; its pre-check is the same client.GetStatus call as the other refused actions).

func (in *inst) loaded() (*dag.DAG, error) {
	st, err := in.client().GetStatus(in.Name)
	if st == nil || st.DAG == nil {
		return nil, &harnessErr{fmt.Sprintf("GetStatus returned no DAG value (err=%v)", err)}
	}
	return st.DAG, nil
}

func action(in *inst, body dags.PostDagActionBody, wantRefused bool) error {
	r := in.api().DagsPostDagActionHandler.Handle(dags.PostDagActionParams{DagID: in.Name, Body: body})
	if r == nil {
		return fmt.Errorf("nil responder")
	}
	if _, refused := r.(*dags.PostDagActionDefault); wantRefused && !refused {
		return &harnessErr{fmt.Sprintf("action %s was expected to be refused but was accepted (%T)", *body.Action, r)}
	}
	return nil
}

var moreEntries = []entry{
	// client: status look-ups on the DAG value the details view works with
	{Name: "client.GetStatusByRequestID", SparseInQuick: true, Fn: func(in *inst) error {
		if err := in.seedHistory(); err != nil {
			return err
		}
		d, err := in.loaded()
		if err != nil {
			return err
		}
		_, err = in.client().GetStatusByRequestID(d, histReq)
		return err
	}},
	{Name: "client.GetCurrentStatus+GetLatestStatus+GetRecentHistory+IsSuspended", SparseInQuick: true, Fn: func(in *inst) error {
		if err := in.seedHistory(); err != nil {
			return err
		}
		d, err := in.loaded()
		if err != nil {
			return err
		}
		cl := in.client()
		_, _ = cl.GetCurrentStatus(d)
		_, _ = cl.GetLatestStatus(d)
		_ = cl.GetRecentHistory(d, 10)
		_ = cl.IsSuspended(in.Name)
		return nil
	}},
	// API: the remaining list filter, the remaining details tabs
	{Name: "api.listDags(searchTag)", SparseInQuick: true, Fn: func(in *inst) error {
		if in.api().DagsListDagsHandler.Handle(dags.ListDagsParams{SearchTag: sp("base-t1")}) == nil {
			return fmt.Errorf("nil responder")
		}
		return nil
	}},
	{Name: "api.getDagDetails(log)", SparseInQuick: true, Fn: func(in *inst) error {
		if err := in.seedHistory(); err != nil {
			return err
		}
		tab := "log"
		if in.api().DagsGetDagDetailsHandler.Handle(dags.GetDagDetailsParams{DagID: in.Name, Tab: &tab, Step: sp("s0")}) == nil {
			return fmt.Errorf("nil responder")
		}
		return nil
	}},
	{Name: "api.getDagDetails(scheduler-log)", SparseInQuick: true, Fn: func(in *inst) error {
		if err := in.seedHistory(); err != nil {
			return err
		}
		return detail(in, "scheduler-log")
	}},
	{Name: "api.getDagDetails(unknown-tab,refused)", Thorough: true, Fn: func(in *inst) error { return detail(in, "no-such-tab") }},
	// API: delete (GetStatus pre-check, then removal) and the POST actions that do not start a run
	{Name: "api.deleteDag", SparseInQuick: true, Fn: func(in *inst) error {
		if in.api().DagsDeleteDagHandler.Handle(dags.DeleteDagParams{DagID: in.Name}) == nil {
			return fmt.Errorf("nil responder")
		}
		return nil
	}},
	{Name: "api.postAction(suspend)", SparseInQuick: true, Fn: func(in *inst) error {
		return action(in, dags.PostDagActionBody{Action: sp("suspend"), Value: "true"}, false)
	}},
	{Name: "api.postAction(stop,refused:not-running)", SparseInQuick: true, Fn: func(in *inst) error {
		return action(in, dags.PostDagActionBody{Action: sp("stop")}, true)
	}},
	{Name: "api.postAction(retry,refused:no-request-id)", SparseInQuick: true, Fn: func(in *inst) error {
		return action(in, dags.PostDagActionBody{Action: sp("retry")}, true)
	}},
	{Name: "api.postAction(mark-success)", SparseInQuick: true, Fn: func(in *inst) error {
		if err := in.seedHistory(); err != nil {
			return err
		}
		return action(in, dags.PostDagActionBody{Action: sp("mark-success"), RequestID: histReq, Step: "s0"}, false)
	}},
	{Name: "api.postAction(mark-failed,refused:no-request-id)", Thorough: true, Fn: func(in *inst) error {
		return action(in, dags.PostDagActionBody{Action: sp("mark-failed"), Step: "s0"}, true)
	}},
	{Name: "api.postAction(save)", SparseInQuick: true, Fn: func(in *inst) error {
		return action(in, dags.PostDagActionBody{Action: sp("save"), Value: string(in.Data_)}, false)
	}},
	{Name: "api.postAction(rename)", SparseInQuick: true, Fn: func(in *inst) error {
		return action(in, dags.PostDagActionBody{Action: sp("rename"), Value: in.Name + "_renamed"}, false)
	}},
	{Name: "api.postAction(unknown-action,refused)", Thorough: true, Fn: func(in *inst) error {
		return action(in, dags.PostDagActionBody{Action: sp("no-such-action")}, true)
	}},
	// scheduler daemon: the entry reader's Read (next-run table) and the jobs' refusals
	{Name: "scheduler.entryReader.Read+job.Start(refused:already-ran)+job.Stop(refused:not-running)", SparseInQuick: true, Fn: func(in *inst) error {
		if err := in.seedHistory(); err != nil {
			return err
		}
		msg := scheduler.VerifReadAndRefuse(in.DAGs, in.Root, venv.Quiet, in.client(), time.Now().Add(-72*time.Hour))
		if msg != "" {
			return &harnessErr{msg}
		}
		return nil
	}},
}

func init() { entries = append(entries, moreEntries...) }

func detail(in *inst, tab string) error {
	if in.api().DagsGetDagDetailsHandler.Handle(dags.GetDagDetailsParams{DagID: in.Name, Tab: &tab}) == nil {
		return fmt.Errorf("nil responder")
	}
	return nil
}

// control: the executing loader (start / dry-run / retry / restart use it).
var controlEntry = entry{Name: "dag.Load", Fn: func(in *inst) error { _, err := dag.Load("", in.File, ""); return err }}

func entryByName(n string) *entry {
	if n == controlEntry.Name {
		return &controlEntry
	}
	for i := range entries {
		if entries[i].Name == n {
			return &entries[i]
		}
	}
	return nil
}

func newInst(root, name string, data []byte) *inst {
	return &inst{Root: root, DAGs: filepath.Join(root, "dags"), Data: filepath.Join(root, "data"),
		Flags: filepath.Join(root, "suspend"), Logs: filepath.Join(root, "logs"),
		Name: name, File: filepath.Join(root, "dags", name+".yaml"), Data_: data}
}
