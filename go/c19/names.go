package main

// Names that occur in a NAME position of a definition, and the sentinel
// variables pre-set for them.
//
// A loader that "only reads" may still touch the variable a definition NAMES
// (clear a declared output variable, export an env key, bind $1..$n): an
// environment comparison only sees that when the variable exists beforehand.
// So, before each member is run, every name found in a name position of the
// member's document is set to a known sentinel value in the harness process;
// the usual oracle (complete os.Environ() before == after: added, changed and
// removed variables) then requires all of them untouched.
//
// Name positions (walked over the generic YAML tree of the document, i.e. the
// planted document, not the base):
//
//	output: NAME                 of steps and of the handlerOn steps (with and without a leading $)
//	env: {NAME: v} / [{NAME: v}] keys of every map below an `env` key (DAG level, any depth)
//	env: "NAME=v ..."            step-level env string: NAME of every NAME=value token, bare tokens
//	params: "a NAME=v ..."       NAME of every NAME=value token, bare tokens (function parameter
//	                             names), and the positional names 1..n
//	call.args: {NAME: v}         keys of every map below an `args` key
//	$NAME, ${NAME}, $1..$9       references in every string (values and keys) anywhere
//
// The extraction over-approximates on purpose (a name too many costs one more
// pre-set variable; a name too few would be a blind spot).

import (
	"fmt"
	"os"
	"regexp"
	"sort"
	"strconv"
	"strings"

	"github.com/ErdemOzgen/blackdagger/internal/zzverif/vlib"
)

var (
	refBraces = regexp.MustCompile(`\$\{([^}]+)\}`)
	refPlain  = regexp.MustCompile(`\$([A-Za-z_][A-Za-z0-9_]*)`)
	refDigits = regexp.MustCompile(`\$([0-9]+)`)
	// same token grammar as the product's parseParamValue
	paramTok = regexp.MustCompile(`(?:([^\s="]+)=)?("(?:\\"|[^"])*"|` + "`(" + `?:\\"|[^"]*)` + "`" + `|[^"\s]+)`)
)

type nameSet map[string]string // name -> where it was found (first position)

func (ns nameSet) add(name, where string) {
	if name == "" || strings.ContainsAny(name, "=\x00") {
		return // not a possible variable name
	}
	if _, ok := ns[name]; !ok {
		ns[name] = where
	}
}

func (ns nameSet) refs(s string) {
	for _, mm := range refBraces.FindAllStringSubmatch(s, -1) {
		ns.add(mm[1], "${ref}")
	}
	for _, mm := range refPlain.FindAllStringSubmatch(s, -1) {
		ns.add(mm[1], "$ref")
	}
	for _, mm := range refDigits.FindAllStringSubmatch(s, -1) {
		ns.add(mm[1], "$n")
		ns.add(mm[1][:1], "$n") // os.ExpandEnv reads one digit
	}
}

func (ns nameSet) kvTokens(s, where string, positional bool) {
	toks := paramTok.FindAllStringSubmatch(s, -1)
	for i, t := range toks {
		if t[1] != "" {
			ns.add(t[1], where+" name=")
		} else {
			ns.add(strings.Trim(t[2], `"`), where+" bare")
		}
		if positional {
			ns.add(strconv.Itoa(i+1), where+" positional")
		}
	}
}

// walk: key = the map key this node sits under (list elements inherit it).
func (ns nameSet) walk(node any, key string, inEnv, inArgs bool) {
	switch x := node.(type) {
	case map[string]any:
		for k, v := range x {
			ns.refs(k)
			if inEnv {
				ns.add(k, "env key")
			}
			if inArgs {
				ns.add(k, "call.args key")
			}
			ns.walk(v, k, inEnv || k == "env", k == "args")
		}
	case []any:
		for _, e := range x {
			ns.walk(e, key, inEnv, inArgs)
		}
	case string:
		ns.refs(x)
		switch key {
		case "output":
			ns.add(x, "output")
			ns.add(strings.TrimPrefix(x, "$"), "output")
		case "params":
			ns.kvTokens(x, "params", true)
		case "env":
			ns.kvTokens(x, "env string", false)
		}
	}
}

// docNames returns the names in name positions of the document, sorted.
func docNames(tree any) (names []string, where nameSet) {
	where = nameSet{}
	where.walk(tree, "", false, false)
	for n := range where {
		names = append(names, n)
	}
	sort.Strings(names)
	return
}

func sentinelValue(name string) string { return "verif-sentinel-" + vlib.Hash("c19-sentinel", name) }

// presetSentinels sets every name that is not yet in the environment to its
// sentinel value; names that exist already (the payload's own variable, a real
// variable of the harness process) keep their value and are covered by the
// complete comparison all the same. Returns how many variables now exist for
// the names (set here or before) and the names that could not be set.
func presetSentinels(names []string) (present int, refused []string) {
	for _, n := range names {
		if _, ok := os.LookupEnv(n); ok {
			present++
			continue
		}
		if err := os.Setenv(n, sentinelValue(n)); err != nil {
			refused = append(refused, fmt.Sprintf("%q: %v", n, err))
			continue
		}
		present++
	}
	return
}
