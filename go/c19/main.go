// C19 — listing, viewing and validating a DAG has no side effects.
//
// Family: every string-valued leaf of the YAML definition (reflection over the
// real definition structs + the listed shapes of the `any` fields, see
// leaves.go) x embedding templates x canary payloads x document profile
// (fully populated / only the chain to the leaf) x every non-executing entry
// point (entries.go). One member = one document with the payload planted in
// exactly one leaf, loaded through one entry point.
//
// Oracle (nothing more than the property says): after the call the member's
// canary file does not exist (no command contained in the definition was
// executed) and the COMPLETE os.Environ() is what it was before the call: no
// variable added, changed or removed. So that "changed / removed" can be seen
// at all, every NAME the document uses in a name position (output variables,
// env keys, named and positional params, call args, $NAME references; see
// names.go) is pre-set to a known sentinel value before the call, and the
// payload family contains a plain NAME whose variable pre-exists.
//
// Positive control: the executing loader dag.Load must create the canary and
// change the environment for the env and params leaves, in every shard;
// otherwise the harness could not see an effect and reports a CheckError.
package main

import (
	"encoding/json"
	"fmt"
	"os"
	"path/filepath"
	"reflect"
	"sort"
	"strings"
	"time"

	"github.com/ErdemOzgen/blackdagger/internal/dag"
	"github.com/ErdemOzgen/blackdagger/internal/zzverif/vlib"
	"gopkg.in/yaml.v2"
)

const canaryVar = "VERIF_CANARY_VAR"

// presetVar: a variable that exists (with presetVal) in the process environment during every member
// whose payload is the plain name; planted in a name position, the definition NAMES an existing variable.
const presetVar, presetVal = "VERIF_PRESET_NAME", "verif-preset-value-of-the-loading-process"

type payload struct {
	Kind   string
	Text   func(canary string) string
	VarVal func(canary string) string // value of $VERIF_CANARY_VAR during the call; nil = unset
	Tier   string
	Preset bool // $VERIF_PRESET_NAME = presetVal exists during the call
}

var payloads = []payload{
	{"backtick", func(c string) string { return "`touch " + c + "`" }, nil, "quick", false},
	{"dollar-paren", func(c string) string { return "$(touch " + c + ")" }, nil, "quick", false},
	// the variable holds a command substitution: expansion followed by substitution would run it
	{"var-braces", func(string) string { return "${" + canaryVar + "}" }, func(c string) string { return "`touch " + c + "`" }, "quick", false},
	{"var-plain", func(string) string { return "$" + canaryVar }, func(c string) string { return "`touch " + c + "`" }, "quick", false},
	// the plain name of a variable that already exists in the loading process (output: NAME, env: {NAME: v},
	// params: NAME=v ...): nothing to execute, nothing to add -- the variable must still be there, unchanged
	{Kind: "preset-name", Text: func(string) string { return presetVar }, Tier: "quick", Preset: true},
	{"backtick-second", func(c string) string { return "`true` `touch " + c + "`" }, nil, "thorough", false},
	{"backtick-with-var", func(string) string { return "`touch $" + canaryVar + "`" }, func(c string) string { return c }, "thorough", false},
	{Kind: "preset-name-dollar", Text: func(string) string { return "$" + presetVar }, Tier: "thorough", Preset: true},
}

func payloadByKind(k string) *payload {
	for i := range payloads {
		if payloads[i].Kind == k {
			return &payloads[i]
		}
	}
	return nil
}

// spec identifies one member; it is also the replay record.
type spec struct {
	Kind    string `json:"kind"` // member | base | control
	Leaf    string `json:"leaf,omitempty"`
	Field   string `json:"field,omitempty"`
	Tmpl    string `json:"template,omitempty"`
	Payload string `json:"payload,omitempty"`
	Profile string `json:"profile"` // full | sparse | minimal
	Entry   string `json:"entry"`
	Drop    string `json:"drop,omitempty"` // base only: top-level key removed (attribution)
}

type outcome struct {
	canary   bool
	delta    map[string]string
	where    nameSet // names found in a name position of the document (pre-set before the call)
	preset   int     // how many of them existed during the call
	err      error
	panicV   any
	doc      []byte
	skipped  string
	reloaded bool
}

type checker struct {
	fl     *vlib.Flags
	res    *vlib.Result
	leaves []*leaf
	byID   map[string]*leaf
	full   map[string]any
	n      int // member counter (dealing)
	seq    int // scratch counter
	// environ delta of the unplanted reference documents, per entry
	baseFull, baseMin map[string]map[string]string
	seen              map[string]bool
	deferred          []func()
}

func (c *checker) norm(s string) string { return strings.ReplaceAll(s, c.fl.Work, "<work>") }

func leafID(lf *leaf) string { return fmt.Sprintf("%s @%v", lf.Path, lf.Sel) }

func environ() map[string]string {
	out := map[string]string{}
	for _, kv := range os.Environ() {
		if i := strings.IndexByte(kv, '='); i >= 0 {
			out[kv[:i]] = kv[i+1:]
		}
	}
	return out
}

func envDelta(before, after map[string]string) map[string]string {
	d := map[string]string{}
	for k, v := range after {
		if b, ok := before[k]; !ok || b != v {
			d[k] = "=" + v
		}
	}
	for k := range before {
		if _, ok := after[k]; !ok {
			d[k] = "<unset>"
		}
	}
	return d
}

func restoreEnv(before map[string]string) {
	for k := range environ() {
		if _, ok := before[k]; !ok {
			os.Unsetenv(k)
		}
	}
	for k, v := range before {
		if cur, ok := os.LookupEnv(k); !ok || cur != v {
			os.Setenv(k, v)
		}
	}
}

func minus(d, base map[string]string) map[string]string {
	out := map[string]string{}
	for k, v := range d {
		if bv, ok := base[k]; !ok || bv != v {
			out[k] = v
		}
	}
	return out
}

// deltaWhere: deltaString plus, for a variable the document names, the name position it was found in.
func deltaWhere(d map[string]string, where nameSet) string {
	out := deltaString(d)
	var ks []string
	for k := range d {
		if _, ok := where[k]; ok {
			ks = append(ks, k)
		}
	}
	sort.Strings(ks)
	for _, k := range ks {
		out += fmt.Sprintf(" [%s existed before the call (pre-set by the harness); the document names it: %s]", vlib.Short(k, 60), where[k])
	}
	return out
}

func deltaString(d map[string]string) string {
	var ks []string
	for k := range d {
		ks = append(ks, k)
	}
	sort.Strings(ks)
	var sb strings.Builder
	for i, k := range ks {
		if i > 0 {
			sb.WriteString(", ")
		}
		sb.WriteString(k + vlib.Short(d[k], 80))
	}
	return sb.String()
}

// document builds the YAML of a member. canary is the member's canary path.
func (c *checker) document(s spec, canary string) (doc []byte, planted string, lf *leaf, err error) {
	tree, planted, lf, err := c.documentTree(s, canary)
	if err != nil {
		return nil, "", nil, err
	}
	doc, err = yaml.Marshal(tree)
	return
}

func (c *checker) documentTree(s spec, canary string) (tree map[string]any, planted string, lf *leaf, err error) {
	switch s.Kind {
	case "base":
		if s.Profile == "minimal" {
			tree = map[string]any{"steps": []any{plainStep()}}
		} else {
			tree = deepCopy(c.full).(map[string]any)
		}
		if s.Drop != "" {
			delete(tree, s.Drop)
		}
	default:
		lf = c.byID[s.Leaf]
		if lf == nil {
			return nil, "", nil, fmt.Errorf("unknown leaf %q", s.Leaf)
		}
		tree = deepCopy(c.full).(map[string]any)
		if lf.ShapeVal != nil {
			if err = setAt(tree, lf.ShapeSel, lf.ShapeVal()); err != nil {
				return
			}
		}
		if s.Profile == "sparse" {
			tree = sparse(tree, lf)
		}
		if s.Payload != "" {
			p := payloadByKind(s.Payload)
			if p == nil {
				return nil, "", nil, fmt.Errorf("unknown payload %q", s.Payload)
			}
			planted = strings.Replace(s.Tmpl, "%s", p.Text(canary), 1)
			if lf.IsKey {
				err = renameKey(tree, lf.Sel, planted)
			} else {
				err = setAt(tree, lf.Sel, planted)
			}
			if err != nil {
				return
			}
		}
	}
	return
}

// verifyPlanted decodes the document with the loader's own decode step and
// checks that the payload sits in the intended leaf of the definition.
func verifyPlanted(doc []byte, lf *leaf, planted string) error {
	def, err := dag.VerifDecode(doc)
	if err != nil {
		return fmt.Errorf("decode: %v", err)
	}
	sel := lf.Sel
	if lf.IsKey {
		sel = append(append([]any(nil), lf.Sel[:len(lf.Sel)-1]...), planted)
	}
	v, err := lookup(reflect.ValueOf(def), sel)
	if err != nil {
		return err
	}
	if lf.IsKey {
		return nil
	}
	if v.Kind() != reflect.String || v.String() != planted {
		return fmt.Errorf("leaf holds %v, want %q", v, planted)
	}
	return nil
}

// exec runs one member against the real code and observes the two effects.
func (c *checker) exec(s spec) outcome {
	c.seq++
	root := filepath.Join(c.fl.Work, "m", fmt.Sprintf("%d", c.seq))
	canary := filepath.Join(c.fl.Work, "canary", fmt.Sprintf("c%d", c.seq))
	_ = os.MkdirAll(filepath.Dir(canary), 0o755)
	_ = os.Remove(canary)
	var o outcome
	tree, planted, lf, err := c.documentTree(s, canary)
	var doc []byte
	if err == nil {
		doc, err = yaml.Marshal(tree)
	}
	if err != nil {
		o.skipped = err.Error()
		return o
	}
	o.doc = doc
	var names []string
	names, o.where = docNames(tree)
	if lf != nil && s.Payload != "" && s.Kind == "member" && s.Entry == entries[0].Name {
		if verr := verifyPlanted(doc, lf, planted); verr != nil {
			c.res.CheckError("planting %s (%s, %s, %s) did not reach the leaf: %v", lf.Path, s.Tmpl, s.Payload, s.Profile, verr)
		} else {
			c.res.Validated++
		}
	}
	e := entryByName(s.Entry)
	if e == nil {
		o.skipped = "unknown entry " + s.Entry
		return o
	}
	in := newInst(root, "dag", doc)
	for _, d := range []string{in.DAGs, in.Data, in.Flags, in.Logs} {
		_ = os.MkdirAll(d, 0o755)
	}
	if werr := os.WriteFile(in.File, doc, 0o644); werr != nil {
		o.skipped = werr.Error()
		return o
	}
	clean := environ() // restored after the member
	os.Unsetenv(canaryVar)
	os.Unsetenv(presetVar)
	if p := payloadByKind(s.Payload); p != nil {
		if p.VarVal != nil {
			os.Setenv(canaryVar, p.VarVal(canary))
		}
		if p.Preset {
			os.Setenv(presetVar, presetVal)
		}
	}
	var refused []string
	o.preset, refused = presetSentinels(names)
	if len(refused) > 0 {
		c.res.Count("names_not_settable_as_variable", int64(len(refused)))
	}
	before := environ()
	wd := time.AfterFunc(120*time.Second, func() {
		c.res.Violate(fmt.Sprintf("C19/hang/%s/%s", s.Entry, s.Field), fmt.Sprintf("%+v did not return within 120 s", s), s)
		c.res.Write(c.fl.Out)
		os.Exit(0)
	})
	func() {
		defer func() {
			if r := recover(); r != nil {
				o.panicV = r
			}
		}()
		o.err = e.Fn(in)
	}()
	wd.Stop()
	o.reloaded = in.Reloaded
	if he, ok := o.err.(*harnessErr); ok {
		o.skipped, o.err = he.msg, nil
	}
	// a started command may still be finishing only if the loader did not wait for it; the loaders use
	// Output()/Run(), so the file is there when the call returns.
	if _, serr := os.Stat(canary); serr == nil {
		o.canary = true
	}
	o.delta = envDelta(before, environ())
	restoreEnv(clean)
	_ = os.Remove(canary)
	_ = os.RemoveAll(root)
	return o
}

// violate keeps one replayable member per signature and shard; further members of the same class are
// only counted (the orchestrator sums the "vio:" counters).
func (c *checker) violate(sig, detail string, replay any) {
	detail = c.norm(detail) // no scratch paths in recorded artefacts (stable across runs)
	if c.seen == nil {
		c.seen = map[string]bool{}
	}
	if c.seen[sig] {
		c.res.Count("vio:"+sig, 1)
		return
	}
	c.seen[sig] = true
	c.res.Violate(sig, detail, replay)
}

func (c *checker) judge(s spec, o outcome, base map[string]string) {
	res := c.res
	field := s.Field
	if o.skipped != "" {
		res.CheckError("member %+v could not be built/run: %s", s, o.skipped)
		return
	}
	detailDoc := vlib.Short(string(o.doc), 700)
	if o.panicV != nil {
		c.violate(fmt.Sprintf("C19/panic/%s/%s", s.Entry, field),
			fmt.Sprintf("%s panicked: %v; field %s, template %q, payload %s, profile %s; document: %s", s.Entry, o.panicV, field, s.Tmpl, s.Payload, s.Profile, detailDoc), s)
	}
	if o.canary {
		c.violate(fmt.Sprintf("C19/exec/%s/%s", s.Entry, field),
			fmt.Sprintf("%s executed the command planted in %s (canary file was created); template %q, payload %s, profile %s, returned err=%v; document: %s",
				s.Entry, field, s.Tmpl, s.Payload, s.Profile, o.err, detailDoc), s)
	}
	if d := minus(o.delta, base); len(d) > 0 {
		c.violate(fmt.Sprintf("C19/environ/%s/%s", s.Entry, field),
			fmt.Sprintf("%s changed the process environment: %s; payload planted in %s, template %q, payload %s, profile %s, returned err=%v; document: %s",
				s.Entry, deltaWhere(d, o.where), field, s.Tmpl, s.Payload, s.Profile, o.err, detailDoc), s)
	}
}

func (c *checker) member(s spec) {
	c.n++
	if !c.fl.Mine(c.n) {
		return
	}
	res := c.res
	o := c.exec(s)
	res.Evaluations++
	res.Count("members:"+s.Entry, 1)
	res.Nontrivial(vlib.Hash(s.Leaf, s.Tmpl, s.Payload, s.Profile, s.Entry))
	if e := entryByName(s.Entry); e != nil && e.Hot && o.skipped == "" {
		if o.reloaded {
			res.Count("hot_reload_replaced_table_entry", 1)
		} else {
			res.Count("hot_reload_document_refused", 1) // the reader (or UpdateSpec) rejected the planted document
		}
	}
	if s.Entry == entries[0].Name {
		res.Count("sentinel_variables_present_during_members(first entry)", int64(o.preset))
		if s.Payload == "preset-name" && s.Profile == "sparse" {
			if pos, ok := o.where[presetVar]; ok {
				res.Count("existing_name_planted_in_name_position:"+s.Field+" ("+pos+")", 1)
			}
		}
	}
	if s.Entry == entries[0].Name && s.Profile == "sparse" && o.err != nil {
		res.Count("loader_rejects_planted_value:"+s.Field, 1) // not plantable in a form that still parses
	}
	if c.n%9973 == 1 || (c.n < 4000 && c.n%997 == 0) {
		res.Sample(map[string]any{"field": s.Field, "template": s.Tmpl, "payload": s.Payload, "profile": s.Profile, "entry": s.Entry,
			"document": c.norm(vlib.Short(string(o.doc), 400)), "canary_created": o.canary, "environ_delta": c.norm(deltaString(o.delta)), "returned_error": o.err != nil})
	}
	base := c.baseMin[s.Entry]
	if s.Profile == "full" {
		base = c.baseFull[s.Entry]
	}
	c.judge(s, o, base)
}

// baselines: the unplanted reference documents through every entry point. Their environ delta is
// subtracted from the members built on them (so that a member is only blamed for what its own leaf
// caused); an effect of the reference document itself is a violation of its own, attributed to the
// top-level key whose removal makes it disappear.
func (c *checker) baselines() {
	c.baseFull, c.baseMin = map[string]map[string]string{}, map[string]map[string]string{}
	var keys []string
	for k := range c.full {
		keys = append(keys, k)
	}
	sort.Strings(keys)
	for _, e := range entries {
		if e.Thorough && !c.fl.Thorough() {
			continue
		}
		for _, prof := range []string{"full", "minimal"} {
			s := spec{Kind: "base", Profile: prof, Entry: e.Name, Field: "<" + prof + "-base>"}
			o := c.exec(s)
			if prof == "full" {
				c.baseFull[e.Name] = o.delta
			} else {
				c.baseMin[e.Name] = o.delta
			}
			if e.Hot && o.skipped == "" && !o.reloaded {
				// every shard checks that its watcher really reloads an (acceptable) delivered document
				c.res.CheckError("%s: the reader's table entry was not replaced after delivering the unplanted %s document: the hot-reload path is not exercised", e.Name, prof)
			}
			c.n++
			if !c.fl.Mine(c.n) {
				continue
			}
			c.res.Evaluations++
			c.res.Count("base_members", 1)
			c.res.Nontrivial(vlib.Hash("base", prof, e.Name))
			if o.skipped != "" || o.panicV != nil || o.canary {
				c.judge(s, o, nil)
				continue
			}
			if len(o.delta) == 0 {
				continue
			}
			// attribution
			blamed := map[string]map[string]string{}
			if prof == "full" {
				for _, k := range keys {
					if k == "steps" {
						continue
					}
					// only a document that is still valid without the key says something about the key
					// (dropping e.g. `functions` makes the loader refuse the whole document)
					if dd, _, _, derr := c.document(spec{Kind: "base", Profile: prof, Drop: k}, ""); derr == nil {
						snap := environ()
						_, lerr := dag.LoadYAML(dd)
						restoreEnv(snap)
						if lerr != nil {
							continue
						}
					}
					od := c.exec(spec{Kind: "base", Profile: prof, Entry: e.Name, Drop: k})
					c.res.Evaluations++
					gone := minus(o.delta, od.delta)
					if len(gone) > 0 {
						blamed[k] = gone
					}
				}
			}
			if len(blamed) == 0 {
				blamed[s.Field] = o.delta
			}
			var bk []string
			for k := range blamed {
				bk = append(bk, k)
			}
			sort.Strings(bk)
			for _, k := range bk {
				sig, k, e := fmt.Sprintf("C19/environ/%s/%s", e.Name, k), k, e
				detail := fmt.Sprintf("%s changed the process environment for the unplanted %s base document: %s (disappears when top-level key %q is removed); document: %s",
					e.Name, prof, deltaString(blamed[k]), k, vlib.Short(string(o.doc), 500))
				rp := spec{Kind: "base", Profile: prof, Entry: e.Name, Field: k}
				// reported after the planted members, so that the (smaller) planted member of the same class
				// becomes the replayable representative
				c.deferred = append(c.deferred, func() { c.violate(sig, detail, rp) })
			}
		}
	}
}

func (c *checker) findLeaf(path string) *leaf {
	for _, lf := range c.leaves {
		if lf.Path == path {
			return lf
		}
	}
	return nil
}

// mustFire: positive controls run by every shard.
func (c *checker) mustFire() {
	type mf struct{ path, payload string }
	fired := 0
	for _, x := range []mf{{"env(map).value", "backtick"}, {"env(list).value", "backtick"}, {"params", "backtick"}, {"env(map).value", "var-braces"}} {
		lf := c.findLeaf(x.path)
		if lf == nil {
			c.res.CheckError("positive control: leaf %s not found in the enumerated definition", x.path)
			continue
		}
		s := spec{Kind: "control", Leaf: leafID(lf), Field: lf.Path, Tmpl: "%s", Payload: x.payload, Profile: "sparse", Entry: controlEntry.Name}
		o := c.exec(s)
		c.res.Evaluations++
		if o.skipped != "" || o.panicV != nil || !o.canary || len(o.delta) == 0 {
			c.res.CheckError("positive control blind: dag.Load with %s planted in %s: canary_created=%v environ_delta=[%s] err=%v panic=%v skipped=%q",
				x.payload, x.path, o.canary, deltaString(o.delta), o.err, o.panicV, o.skipped)
			continue
		}
		fired++
		c.res.Count("positive_controls_fired", 1)
	}
	if fired == 0 {
		c.res.CheckError("no positive control fired: the harness cannot observe command execution / environment changes")
	}
	c.sentinelControls()
}

// sentinelControls: the harness must be able to see a variable that existed before the call being
// changed and being removed, and the name extraction must find the names of the reference document.
func (c *checker) sentinelControls() {
	// (1) comparator: removal and change of an existing variable
	snap := environ()
	os.Setenv(presetVar, presetVal)
	b := environ()
	os.Unsetenv(presetVar)
	d1 := envDelta(b, environ())
	os.Setenv(presetVar, "other")
	d2 := envDelta(b, environ())
	restoreEnv(snap)
	if d1[presetVar] != "<unset>" || d2[presetVar] != "=other" || len(d1) != 1 || len(d2) != 1 {
		c.res.CheckError("environment comparator blind: removal -> %v, change -> %v", d1, d2)
	} else {
		c.res.Count("positive_controls_fired", 1)
	}
	// (2) the executing loader changes a pre-existing variable the document names (params: NAME=v):
	// seen only if the variable was really there with its known value during the call
	if lf := c.findLeaf("params"); lf == nil {
		c.res.CheckError("positive control: leaf params not found")
	} else {
		s := spec{Kind: "control", Leaf: leafID(lf), Field: lf.Path, Tmpl: "%s=v", Payload: "preset-name", Profile: "sparse", Entry: controlEntry.Name}
		o := c.exec(s)
		c.res.Evaluations++
		if _, named := o.where[presetVar]; o.skipped != "" || o.panicV != nil || o.delta[presetVar] != "=v" || !named {
			c.res.CheckError("positive control blind: dag.Load with params %s=v must change the pre-set variable: environ_delta=[%s] named=%v err=%v panic=%v skipped=%q",
				presetVar, deltaString(o.delta), named, o.err, o.panicV, o.skipped)
		} else {
			c.res.Count("positive_controls_fired", 1)
		}
	}
	// (3) the same for a sentinel found by the name extraction alone (base names of the full document):
	// dag.Load of the unplanted full document must change the sentinels of its env keys and params
	o := c.exec(spec{Kind: "base", Profile: "full", Entry: controlEntry.Name})
	c.res.Evaluations++
	for _, n := range []string{"VERIF_BASE_E1", "BASEK", "1", "2"} {
		if v, ok := o.delta[n]; !ok || v == "<unset>" || v == "="+sentinelValue(n) {
			c.res.CheckError("positive control blind: dag.Load of the full reference document did not change the pre-set sentinel of %s (delta %q): sentinels not in place?", n, v)
		}
	}
	// (4) extraction: every kind of name position of the full reference document
	_, where := docNames(c.full)
	for _, n := range []string{"BASE_OUT", "VERIF_BASE_E1", "BASEK", "SK", "1", "2", "p"} {
		if _, ok := where[n]; !ok {
			c.res.CheckError("name extraction: %s (a name of the full reference document) was not found in a name position", n)
		}
	}
	c.res.Bounds["names_in_name_positions_of_full_document"] = len(where)
	// every shape of the env field and every output leaf: planting the plain name must land in a name position
	for _, lf := range c.leaves {
		isOut := strings.HasSuffix(lf.Path, ".output")
		isEnvKey := strings.HasPrefix(lf.Path, "env(") && lf.IsKey
		if !isOut && !isEnvKey {
			continue
		}
		tree, _, _, err := c.documentTree(spec{Kind: "member", Leaf: leafID(lf), Field: lf.Path, Tmpl: "%s", Payload: "preset-name", Profile: "sparse"}, "")
		if err != nil {
			c.res.CheckError("name extraction: document for %s: %v", lf.Path, err)
			continue
		}
		if _, w := docNames(tree); w[presetVar] == "" {
			c.res.CheckError("name extraction: the name planted in %s is not recognised as being in a name position", lf.Path)
		}
	}
}

func (c *checker) control(s spec) {
	c.n++
	if !c.fl.Mine(c.n) {
		return
	}
	o := c.exec(s)
	c.res.Evaluations++
	c.res.Count("control_members", 1)
	c.res.Nontrivial(vlib.Hash("control", s.Leaf, s.Tmpl, s.Payload, s.Profile))
	if o.skipped != "" {
		c.res.CheckError("control %+v could not be built: %s", s, o.skipped)
		return
	}
	if o.canary {
		c.res.Count("Load_executes:"+s.Field, 1)
	}
	if len(minus(o.delta, c.baseMin[controlEntry.Name])) > 0 {
		c.res.Count("Load_exports:"+s.Field, 1)
	}
}

func main() {
	fl := vlib.ParseFlags()
	res := vlib.New("c19")
	c := &checker{fl: fl, res: res, byID: map[string]*leaf{}}
	defer os.RemoveAll(fl.Work)

	en := &enumerator{}
	full, _ := en.build(dag.VerifDefinitionType(), "", "", nil, nil).(map[string]any)
	for _, e := range en.errs {
		res.CheckError("leaf enumeration: %s", e)
	}
	c.full, c.leaves = full, en.leaves
	for _, lf := range c.leaves {
		if _, dup := c.byID[leafID(lf)]; dup {
			res.CheckError("duplicate leaf id %s", leafID(lf))
		}
		c.byID[leafID(lf)] = lf
	}

	if fl.Replay != "" {
		var rp struct {
			Replay spec `json:"replay"`
		}
		b, err := os.ReadFile(fl.Replay)
		if err == nil {
			err = json.Unmarshal(b, &rp)
		}
		if err != nil {
			fmt.Fprintln(os.Stderr, "replay:", err)
			os.Exit(2)
		}
		s := rp.Replay
		c.baselines0(s.Entry)
		o := c.exec(s)
		res.Evaluations++
		base := c.baseMin[s.Entry]
		if s.Profile == "full" && s.Kind != "base" {
			base = c.baseFull[s.Entry]
		}
		if s.Kind == "base" {
			base = nil
		}
		if s.Kind != "control" {
			c.judge(s, o, base)
		}
		fmt.Fprintf(os.Stderr, "replayed %+v\ndocument:\n%s\ncanary_created=%v environ_delta=[%s] err=%v panic=%v\n%d violation(s)\n",
			s, o.doc, o.canary, deltaString(o.delta), o.err, o.panicV, len(res.Violations))
		for _, v := range res.Violations {
			fmt.Fprintf(os.Stderr, "  %s\n", v.Signature)
		}
		res.Write(fl.Out)
		return
	}

	// sanity: the reference documents and every unplanted per-leaf document must be accepted by the
	// loader, otherwise the members would only exercise the error paths.
	snap := environ()
	for _, lf := range c.leaves {
		for _, prof := range []string{"full", "sparse"} {
			doc, _, _, err := c.document(spec{Kind: "member", Leaf: leafID(lf), Profile: prof}, "")
			if err == nil {
				_, err = dag.LoadYAML(doc)
			}
			restoreEnv(snap)
			if err != nil {
				res.CheckError("unplanted %s document for leaf %s is not accepted by dag.LoadYAML: %v", prof, lf.Path, err)
			}
		}
	}

	c.mustFire()
	c.baselines()
	c.baseMin[controlEntry.Name] = c.exec(spec{Kind: "base", Profile: "minimal", Entry: controlEntry.Name}).delta

	profiles := []string{"sparse", "full"}
	nDocs := 0
	for _, lf := range c.leaves {
		for _, p := range payloads {
			if p.Tier == "thorough" && !fl.Thorough() {
				continue
			}
			for _, tmpl := range templatesFor(lf, &p, fl.Thorough()) {
				for _, prof := range profiles {
					nDocs++
					for _, e := range entries {
						if e.Thorough && !fl.Thorough() {
							continue
						}
						if (e.Hot || e.SparseInQuick) && prof == "full" && !fl.Thorough() {
							continue // quick tier: the watcher path and the action / log-tab / job entry points get the sparse documents only
						}
						c.member(spec{Kind: "member", Leaf: leafID(lf), Field: lf.Path, Tmpl: tmpl, Payload: p.Kind, Profile: prof, Entry: e.Name})
					}
				}
				c.control(spec{Kind: "control", Leaf: leafID(lf), Field: lf.Path, Tmpl: tmpl, Payload: p.Kind, Profile: "sparse", Entry: controlEntry.Name})
			}
		}
	}

	for k, v := range hotNS {
		res.Count("hot_reload_ms:"+k, v/1e6)
	}
	for _, f := range c.deferred {
		f()
	}

	paths := map[string]bool{}
	for _, lf := range c.leaves {
		paths[lf.Path] = true
	}
	res.Bounds["string_leaves"] = len(c.leaves)
	res.Bounds["distinct_field_paths"] = len(paths)
	res.Bounds["non_string_scalar_fields_skipped"] = en.nonString
	nEntries, nSparseOnly := 0, 0
	for _, e := range entries {
		if e.Thorough && !fl.Thorough() {
			continue
		}
		nEntries++
		if (e.Hot || e.SparseInQuick) && !fl.Thorough() {
			nSparseOnly++
		}
	}
	res.Bounds["entry_points"] = nEntries
	res.Bounds["entry_points_sparse_documents_only"] = nSparseOnly
	res.Bounds["documents"] = nDocs
	res.Bounds["profiles"] = profiles
	if !fl.Thorough() {
		res.Bounds["hot_reload_entry_points_profiles"] = []string{"sparse"}
	}
	res.Bounds["environment_oracle"] = "complete os.Environ() before == after (added, changed, removed); names in name positions of the document pre-set to sentinels"
	var pk []string
	for _, p := range payloads {
		if p.Tier == "quick" || fl.Thorough() {
			pk = append(pk, p.Kind)
		}
	}
	res.Bounds["payloads"] = pk
	res.Rule = "member = (string leaf of the definition found by reflection / listed shape of an `any` field, embedding template, canary payload, document profile, non-executing entry point); every member of the product is executed on the real code; distinct = distinct tuple; all are non-trivial: the payload is checked (through the loader's own decode) to sit in exactly the intended leaf; during every member the names the document uses in name positions exist in the process environment with sentinel values"
	res.Assume("a command contained in the definition is observed through the file it creates (touch <canary>); commands are started synchronously by the loaders (exec.Cmd.Output), so the file exists when the entry point returns")
	res.Assume("hot reload: the watcher is known to have processed the delivered document when a definition renamed into the directory afterwards shows up in the reader's table (one inotify watch delivers in order, one goroutine handles the events); zz_sync_N.yaml helper definitions are therefore added to the member's directory")
	res.Assume("a variable the definition names is observed through a sentinel the harness sets before the call for every name found in a name position of the document (names.go: output, env keys, params names and positions, call args, $NAME references); a name position that table does not know is only covered by the plain-name payload, whose variable always exists")
	res.Assume("API handler operations are invoked through Handler.Configure on a bare operations.BlackdaggerAPI (no HTTP server, no authentication middleware)")
	res.Write(fl.Out)
}

// baselines0 computes the reference deltas of one entry only (replay).
func (c *checker) baselines0(entryName string) {
	c.baseFull, c.baseMin = map[string]map[string]string{}, map[string]map[string]string{}
	if entryByName(entryName) == nil {
		return
	}
	c.baseFull[entryName] = c.exec(spec{Kind: "base", Profile: "full", Entry: entryName}).delta
	c.baseMin[entryName] = c.exec(spec{Kind: "base", Profile: "minimal", Entry: entryName}).delta
}
