package main

// Enumeration of the string-valued leaves of a DAG definition.
//
// The struct part (definition, stepDef, handlerOnDef, funcDef, ...) is walked
// by reflection over the real types, so a field added to the definition is
// picked up without touching this file. The `any`-typed fields (and the
// map[string]any of call args) have no type to walk: their accepted shapes are
// listed in `shapes`; an `any` field without an entry there is a CheckError.

import (
	"fmt"
	"reflect"
	"strings"
	"unicode"
)

// leaf is one place in the definition where a string can be written.
type leaf struct {
	Path  string   // canonical field path, e.g. steps[].stdout, env(map).value
	Owner string   // "<Type>.<Field>" of the struct field the leaf lives in
	Sel   []any    // selectors (string key / int index) from the document root
	Types []string // Types[i] = name of the struct type Sel[i] selects in ("" = generic value / slice)
	IsKey bool     // the payload replaces the map key Sel[len-1] instead of a value
	// for leaves inside an `any` field: the field is first replaced by this shape
	ShapeSel []any
	ShapeVal func() any
}

// shape is one accepted form of an `any`-typed field.
type shape struct {
	Name   string
	Val    func() any
	Leaves []shapeLeaf
}

type shapeLeaf struct {
	Label string // appended to "<path>(<shape>)"
	Sel   []any  // selectors inside the shape value
	IsKey bool
}

func m(kv ...any) map[string]any {
	out := map[string]any{}
	for i := 0; i+1 < len(kv); i += 2 {
		out[kv[i].(string)] = kv[i+1]
	}
	return out
}

const cron1, cron2, cron3 = "0 1 * * *", "0 2 * * *", "0 3 * * *"

var shapes = map[string][]shape{
	"definition.Schedule": {
		{"string", func() any { return cron1 }, []shapeLeaf{{"", nil, false}}},
		{"list", func() any { return []any{cron1, cron2} }, []shapeLeaf{{"[]", []any{1}, false}, {"[]", []any{0}, false}}},
		{"map", func() any { return m("start", cron1, "stop", []any{cron2}, "restart", cron3) },
			[]shapeLeaf{{".start", []any{"start"}, false}, {".stop[]", []any{"stop", 0}, false}, {".restart", []any{"restart"}, false}}},
	},
	"definition.Env": {
		{"map", func() any { return m("VERIF_BASE_E1", "base-e1") },
			[]shapeLeaf{{".value", []any{"VERIF_BASE_E1"}, false}, {".key", []any{"VERIF_BASE_E1"}, true}}},
		{"list", func() any { return []any{m("VERIF_BASE_E2", "base-e2"), m("VERIF_BASE_E3", "base-e3")} },
			[]shapeLeaf{{".value", []any{0, "VERIF_BASE_E2"}, false}, {".value", []any{1, "VERIF_BASE_E3"}, false}, {".key", []any{1, "VERIF_BASE_E3"}, true}}},
	},
	"definition.Tags": {
		{"string", func() any { return "base-t1,base-t2" }, []shapeLeaf{{"", nil, false}}},
		{"list", func() any { return []any{"base-t1", "base-t2"} }, []shapeLeaf{{"[]", []any{0}, false}, {"[]", []any{1}, false}}},
	},
	"stepDef.Executor": {
		{"string", func() any { return "command" }, []shapeLeaf{{"", nil, false}}},
		{"map", func() any {
			return m("type", "http", "config", m(
				"timeout", 10,
				"body", "base-body",
				"headers", m("X-Base", "base-h"),
				"list", []any{"base-l", m("k", "base-lk")},
			))
		}, []shapeLeaf{
			{".type", []any{"type"}, false},
			{".config.value", []any{"config", "body"}, false},
			{".config.key", []any{"config", "body"}, true},
			{".config.map.value", []any{"config", "headers", "X-Base"}, false},
			{".config.list[]", []any{"config", "list", 0}, false},
			{".config.list[].map.value", []any{"config", "list", 1, "k"}, false},
		}},
	},
	"stepDef.Command": {
		{"string", func() any { return "echo base-arg" }, []shapeLeaf{{"", nil, false}}},
		{"list", func() any { return []any{"echo", "base-arg"} }, []shapeLeaf{{"[0]", []any{0}, false}, {"[1]", []any{1}, false}}},
	},
	"callFuncDef.Args": {
		{"map", func() any { return m("p", "base-arg") }, []shapeLeaf{{".value", []any{"p"}, false}}},
	},
}

// base values of string fields that have syntax or cross-reference constraints.
var baseStrings = map[string]string{
	"stepDef.Name":         "s1",
	"stepDef.SignalOnStop": "SIGTERM",
	"stepDef.Depends":      "s0",
	"stepDef.Output":       "BASE_OUT",
	"stepDef.Params":       "base-sp1 SK=base-sv",
	"funcDef.Name":         "f1",
	"funcDef.Params":       "p",
	"funcDef.Command":      "echo $p",
	"callFuncDef.Function": "f1",
	"definition.Params":    "base-p1 BASEK=base-v",
}

// fields a struct needs to stay valid when everything else is stripped (sparse profile).
var required = map[string][]string{
	"stepDef":     {"name", "command"},
	"funcDef":     {"name", "params", "command"},
	"callFuncDef": {"function", "args"},
}

// templates: how the payload is embedded into the leaf's value. "%s" = the whole value.
func templatesFor(lf *leaf, p *payload, thorough bool) []string {
	if lf.IsKey {
		return []string{"%s"}
	}
	// the plain-name payloads additionally go into the NAME position of NAME=value strings
	name := p != nil && p.Preset
	switch lf.Owner {
	case "definition.Params", "stepDef.Params":
		t := []string{"%s", "pre %s post", "K=%s", `K="x %s y"`, `"x %s y"`}
		if thorough {
			t = append(t, `first K1=v1 K2=%s`, `"%s"`)
		}
		if name {
			t = append(t, "%s=v", "first %s=v")
		}
		return t
	case "stepDef.Env":
		t := []string{"%s", "pre %s post"}
		if thorough {
			t = append(t, "  %s", "pre\n%s\npost")
		}
		if name {
			t = append(t, "%s=v")
		}
		return t
	case "funcDef.Command":
		return []string{"echo $p %s", "%s"}
	case "funcDef.Params":
		return []string{"%s", "p %s"}
	case "definition.Schedule":
		return []string{"%s", "CRON_TZ=%s 0 1 * * *", "0 1 * * %s"}
	}
	t := []string{"%s", "pre %s post"}
	if thorough {
		t = append(t, "  %s", "pre\n%s\npost")
	}
	return t
}

func yamlKey(name string) string {
	if strings.ToUpper(name) == name {
		return strings.ToLower(name)
	}
	r := []rune(name)
	r[0] = unicode.ToLower(r[0])
	return string(r)
}

type enumerator struct {
	leaves    []*leaf
	errs      []string
	nonString int // scalar fields that cannot hold a string (int, bool)
}

func (e *enumerator) errf(format string, a ...any) {
	e.errs = append(e.errs, fmt.Sprintf(format, a...))
}

func cp(sel []any, x ...any) []any { return append(append([]any(nil), sel...), x...) }
func cps(t []string, x ...string) []string {
	return append(append([]string(nil), t...), x...)
}

// plainStep is steps[0] of every document; the fully populated step is steps[1].
func plainStep() any { return m("name", "s0", "command", "true") }

// build returns the generic (YAML-able) base value for type t and records its leaves.
func (e *enumerator) build(t reflect.Type, owner, path string, sel []any, types []string) any {
	switch t.Kind() {
	case reflect.String:
		e.leaves = append(e.leaves, &leaf{Path: path, Owner: owner, Sel: sel, Types: types})
		if s, ok := baseStrings[owner]; ok {
			return s
		}
		return "base-" + strings.ToLower(owner[strings.Index(owner, ".")+1:])
	case reflect.Ptr:
		return e.build(t.Elem(), owner, path, sel, types)
	case reflect.Int, reflect.Int8, reflect.Int16, reflect.Int32, reflect.Int64,
		reflect.Uint, reflect.Uint8, reflect.Uint16, reflect.Uint32, reflect.Uint64:
		e.nonString++
		return 1
	case reflect.Float32, reflect.Float64:
		e.nonString++
		return 1
	case reflect.Bool:
		e.nonString++
		return true
	case reflect.Slice:
		idx := 0
		var out []any
		if path == "steps" {
			out = append(out, plainStep())
			idx = 1
		}
		out = append(out, e.build(t.Elem(), owner, path+"[]", cp(sel, idx), cps(types, "")))
		return out
	case reflect.Struct:
		out := map[string]any{}
		for i := 0; i < t.NumField(); i++ {
			f := t.Field(i)
			if !f.IsExported() {
				continue
			}
			key := yamlKey(f.Name)
			fowner := t.Name() + "." + f.Name
			fpath := key
			if path != "" {
				fpath = path + "." + key
			}
			fsel, ftypes := cp(sel, key), cps(types, t.Name())
			ft := f.Type
			for ft.Kind() == reflect.Ptr {
				ft = ft.Elem()
			}
			if ft.Kind() == reflect.Interface || ft.Kind() == reflect.Map {
				shs, ok := shapes[fowner]
				if !ok {
					e.errf("field %s (%s) is `any`/map-typed and has no entry in the shapes table of go/c19/leaves.go", fowner, fpath)
					continue
				}
				for si := range shs {
					sh := shs[si]
					if n := countStrings(sh.Val()); n != countValueLeaves(sh) {
						e.errf("shape %s(%s): %d strings in the value but %d value leaves declared", fowner, sh.Name, n, countValueLeaves(sh))
					}
					for _, sl := range sh.Leaves {
						e.leaves = append(e.leaves, &leaf{
							Path: fmt.Sprintf("%s(%s)%s", fpath, sh.Name, sl.Label), Owner: fowner,
							Sel: cp(fsel, sl.Sel...), Types: ftypes, IsKey: sl.IsKey,
							ShapeSel: fsel, ShapeVal: sh.Val,
						})
					}
				}
				out[key] = shs[0].Val()
				continue
			}
			out[key] = e.build(f.Type, fowner, fpath, fsel, ftypes)
		}
		return out
	}
	e.errf("unhandled kind %s at %s (%s)", t.Kind(), path, owner)
	return nil
}

func countValueLeaves(sh shape) int {
	n := 0
	for _, l := range sh.Leaves {
		if !l.IsKey {
			n++
		}
	}
	return n
}

func countStrings(v any) int {
	switch x := v.(type) {
	case string:
		return 1
	case []any:
		n := 0
		for _, e := range x {
			n += countStrings(e)
		}
		return n
	case map[string]any:
		n := 0
		for _, e := range x {
			n += countStrings(e)
		}
		return n
	}
	return 0
}

func deepCopy(v any) any {
	switch x := v.(type) {
	case map[string]any:
		out := make(map[string]any, len(x))
		for k, e := range x {
			out[k] = deepCopy(e)
		}
		return out
	case []any:
		out := make([]any, len(x))
		for i, e := range x {
			out[i] = deepCopy(e)
		}
		return out
	}
	return v
}

// setAt replaces the value at sel (which must exist).
func setAt(root any, sel []any, val any) error {
	cur := root
	for i, s := range sel {
		last := i == len(sel)-1
		switch k := s.(type) {
		case string:
			mm, ok := cur.(map[string]any)
			if !ok {
				return fmt.Errorf("selector %v: not a map at %d", sel, i)
			}
			if _, ok := mm[k]; !ok {
				return fmt.Errorf("selector %v: key %q missing", sel, k)
			}
			if last {
				mm[k] = val
				return nil
			}
			cur = mm[k]
		case int:
			l, ok := cur.([]any)
			if !ok || k >= len(l) {
				return fmt.Errorf("selector %v: no element %d", sel, k)
			}
			if last {
				l[k] = val
				return nil
			}
			cur = l[k]
		}
	}
	return fmt.Errorf("empty selector")
}

func getAt(root any, sel []any) (any, error) {
	cur := root
	for i, s := range sel {
		switch k := s.(type) {
		case string:
			mm, ok := cur.(map[string]any)
			if !ok {
				return nil, fmt.Errorf("selector %v: not a map at %d", sel, i)
			}
			v, ok := mm[k]
			if !ok {
				return nil, fmt.Errorf("selector %v: key %q missing", sel, k)
			}
			cur = v
		case int:
			l, ok := cur.([]any)
			if !ok || k >= len(l) {
				return nil, fmt.Errorf("selector %v: no element %d", sel, k)
			}
			cur = l[k]
		}
	}
	return cur, nil
}

// renameKey renames the map key sel[len-1] to newKey.
func renameKey(root any, sel []any, newKey string) error {
	parent, err := getAt(root, sel[:len(sel)-1])
	if err != nil {
		return err
	}
	mm, ok := parent.(map[string]any)
	old, _ := sel[len(sel)-1].(string)
	if !ok {
		return fmt.Errorf("selector %v: parent is not a map", sel)
	}
	v, ok := mm[old]
	if !ok {
		return fmt.Errorf("selector %v: key missing", sel)
	}
	delete(mm, old)
	mm[newKey] = v
	return nil
}

// sparse keeps, of the full document, only the chain of nodes leading to the
// leaf, the fields each struct on that chain needs to stay valid, and the
// minimal skeleton (one plain step).
func sparse(full map[string]any, lf *leaf) map[string]any {
	out := chain(full, lf.Sel, lf.Types).(map[string]any)
	if _, ok := out["steps"]; !ok {
		out["steps"] = []any{plainStep()}
	}
	for _, t := range lf.Types {
		if t == "callFuncDef" {
			out["functions"] = deepCopy(full["functions"])
		}
	}
	return out
}

func chain(node any, sel []any, types []string) any {
	if len(sel) == 0 || len(types) == 0 {
		return deepCopy(node)
	}
	switch k := sel[0].(type) {
	case string:
		mm, ok := node.(map[string]any)
		if !ok || types[0] == "" {
			return deepCopy(node) // generic value (inside an `any` field): kept whole
		}
		out := map[string]any{}
		for _, r := range required[types[0]] {
			if v, ok := mm[r]; ok {
				out[r] = deepCopy(v)
			}
		}
		out[k] = chain(mm[k], sel[1:], types[1:])
		return out
	case int:
		l, ok := node.([]any)
		if !ok {
			return deepCopy(node)
		}
		var out []any
		for i := 0; i < k; i++ { // keep earlier elements so that indexes stay valid
			out = append(out, deepCopy(l[i]))
		}
		return append(out, chain(l[k], sel[1:], types[1:]))
	}
	return deepCopy(node)
}

// lookup walks a decoded *definition (structs, then yaml.v2 generic values) along sel.
func lookup(v reflect.Value, sel []any) (reflect.Value, error) {
	for {
		for v.IsValid() && (v.Kind() == reflect.Ptr || v.Kind() == reflect.Interface) {
			if v.IsNil() {
				return v, fmt.Errorf("nil on the way (remaining %v)", sel)
			}
			v = v.Elem()
		}
		if !v.IsValid() {
			return v, fmt.Errorf("invalid value (remaining %v)", sel)
		}
		if len(sel) == 0 {
			return v, nil
		}
		switch k := sel[0].(type) {
		case string:
			switch v.Kind() {
			case reflect.Struct:
				var f reflect.Value
				for i := 0; i < v.NumField(); i++ {
					if strings.EqualFold(v.Type().Field(i).Name, k) {
						f = v.Field(i)
					}
				}
				if !f.IsValid() {
					return v, fmt.Errorf("no field %q in %s", k, v.Type())
				}
				v = f
			case reflect.Map:
				var hit reflect.Value
				for _, mk := range v.MapKeys() {
					if fmt.Sprint(mk.Interface()) == k {
						hit = v.MapIndex(mk)
					}
				}
				if !hit.IsValid() {
					return v, fmt.Errorf("no key %q", k)
				}
				v = hit
			default:
				return v, fmt.Errorf("cannot select %q in %s", k, v.Kind())
			}
		case int:
			if v.Kind() != reflect.Slice || k >= v.Len() {
				return v, fmt.Errorf("cannot select [%d] in %s", k, v.Kind())
			}
			v = v.Index(k)
		}
		sel = sel[1:]
	}
}
