package main

import (
	"bytes"
	"fmt"
	"os"
	"os/exec"
	"path/filepath"
	"strings"
	"time"

	"github.com/ErdemOzgen/blackdagger/internal/client"
	"github.com/ErdemOzgen/blackdagger/internal/dag"
	"github.com/ErdemOzgen/blackdagger/internal/zzverif/vlib"
)

// The observer of a kill does not have to be a fresh process: the server and
// the scheduler daemon are long-lived and have been reading the DAG's status
// and history while the run was alive. This family enumerates what such a
// client had read before the kill.
//
// read alphabet of a long-lived client
var readOps = []string{"latest", "history1", "historyAll", "byRequestID", "status", "current"}

func doRead(cli client.Client, d *dag.DAG, name, op, reqID string) (panicked string) {
	return safely("client."+op, func() {
		switch op {
		case "latest":
			_, _ = cli.GetLatestStatus(d)
		case "history1":
			_ = cli.GetRecentHistory(d, 1)
		case "historyAll":
			_ = cli.GetRecentHistory(d, 1000)
		case "byRequestID":
			_, _ = cli.GetStatusByRequestID(d, reqID)
		case "status":
			_, _ = cli.GetStatus(name)
		case "current":
			_, _ = cli.GetCurrentStatus(d)
		}
	})
}

// readSequences: every sequence of at most two reads. quick: the empty
// sequence, the single reads, and the pairs that start with a history read;
// thorough: all ordered pairs.
func readSequences(thorough bool) [][]string {
	out := [][]string{{}}
	for _, a := range readOps {
		out = append(out, []string{a})
	}
	for _, a := range readOps {
		if !thorough && a != "history1" && a != "historyAll" {
			continue
		}
		for _, b := range readOps {
			out = append(out, []string{a, b})
		}
	}
	return out
}

func seqName(seq []string) string {
	if len(seq) == 0 {
		return "nothing"
	}
	return strings.Join(seq, "+")
}

// pidGone: the process does not exist any more (or is a zombie waiting for its reaper).
func pidGone(pid int) bool {
	b, err := os.ReadFile(fmt.Sprintf("/proc/%d/stat", pid))
	if err != nil {
		return true
	}
	if i := bytes.LastIndexByte(b, ')'); i >= 0 && i+2 < len(b) {
		return b[i+2] == 'Z' || b[i+2] == 'X'
	}
	return false
}

// holdKill executes one member: the run is held at the K-th call of its step
// scripts on their marker files (as in part b); once the agent has nothing more
// to write, a client performs the read sequence mb.Reads; the whole process
// tree is SIGKILLed where it stands; then that same client — and a fresh one —
// are asked, and everything the property says about a killed run is checked
// on what each of them answers.
func (hn *harness) holdKill(g *group, mb member, seq []string, verbose bool) error {
	res := hn.res
	def := g.def
	in, mdir, skip, err := hn.fresh(g, "hold")
	if err != nil {
		return err
	}
	defer in.cleanup(mdir)
	ready, resume, logPath := filepath.Join(mdir, "ready"), filepath.Join(mdir, "resume"), filepath.Join(mdir, "trace")
	cmd := exec.Command(hn.tl.vtrace, in.vtraceArgsRoots(hn.tl, []string{in.markers}, logPath, "--pause-at", fmt.Sprint(mb.K), "--ready", ready, "--resume", resume)...)
	cmd.Env = in.environ()
	cmd.Dir = in.dir
	var stderr bytes.Buffer
	cmd.Stdout, cmd.Stderr = &stderr, &stderr
	if err := cmd.Start(); err != nil {
		return fmt.Errorf("cannot start vtrace: %v", err)
	}
	proc := make(chan error, 1)
	go func() { proc <- cmd.Wait() }()
	killAll := func() {
		// SIGKILL of the supervisor: PTRACE_O_EXITKILL delivers SIGKILL to every traced thread and process
		_ = cmd.Process.Kill()
		select {
		case <-proc:
		case <-time.After(10 * time.Second):
		}
	}
	fail := func(format string, a ...any) error {
		killAll()
		return fmt.Errorf("DAG %s hold-kill %d after=%s: "+format, append([]any{def.Name, mb.K, seqName(seq)}, a...)...)
	}
	appeared, exited, perr := waitFor(ready, proc, watchdog)
	if !appeared {
		if exited {
			proc <- perr
			code, _ := exitCode(perr)
			return fail("the run ended (exit %d) before its marker call %d; stderr %s", code, mb.K, vlib.Short(stderr.String(), 300))
		}
		return fail("watchdog: neither held at call %d nor ended within %s", mb.K, watchdog)
	}
	tr, err := parseTrace(logPath)
	if err != nil || len(tr.Calls) < mb.K {
		return fail("held, but the trace at the pause point is unusable: %v", err)
	}
	held := tr.Calls[mb.K-1]
	step := in.lay.stepOfMarker(held.Path)
	if step == "" {
		return fail("held at a call that is not on a marker file: %s", held.Raw)
	}
	// The step's process is held, so the agent has at most its "100 ms after the start" status write
	// still to make. Wait until the history file is quiet: last line says running and the size is stable,
	// or nothing has changed for 200 ms.
	var size int64 = -1
	var pid int
	reqID := ""
	stableSince := time.Now()
	for t0 := time.Now(); time.Since(t0) < 3*time.Second; time.Sleep(10 * time.Millisecond) {
		runs := in.runsExcept(skip)
		if len(runs) != 1 || runs[0].last() == nil {
			continue
		}
		var sz int64
		for _, f := range runs[0].Files {
			sz += f.Size
		}
		last := runs[0].last()
		reqID, pid = last.RequestID, int(last.PID)
		if sz != size {
			size, stableSince = sz, time.Now()
			continue
		}
		if (last.Status.String() == stRunning && time.Since(stableSince) >= 20*time.Millisecond) || time.Since(stableSince) >= 200*time.Millisecond {
			break
		}
	}
	if reqID == "" {
		return fail("the held run has no recorded status line")
	}
	d, err := dag.LoadMetadata(in.dagFile)
	if err != nil {
		return fail("cannot load the DAG: %v", err)
	}

	// ---- alive: the long-lived client reads ----
	ll := in.client()
	var prePanics []string
	for _, op := range seq {
		if p := doRead(ll, d, def.Name, op, reqID); p != "" {
			prePanics = append(prePanics, p)
		}
	}

	// ---- SIGKILL of the whole tree, where it stands ----
	killAll()
	for t0 := time.Now(); !pidGone(pid); time.Sleep(5 * time.Millisecond) {
		if time.Since(t0) > 30*time.Second {
			return fmt.Errorf("DAG %s hold-kill %d: the agent process %d survives the SIGKILL of its supervisor", def.Name, mb.K, pid)
		}
	}
	res.Evaluations++
	res.Count("hold_kill_runs", 1)
	res.Count("hold_kill_runs:"+def.Name, 1)

	own, surv, m1, err := survey(in, skip)
	if err != nil {
		return fmt.Errorf("DAG %s hold-kill %d: %v", def.Name, mb.K, err)
	}
	kd := &killed{in: in, skip: skip, own: own, surv: surv, m1: m1, phase: "executing"}
	if own != nil && isFinal(own.last()) {
		kd.phase = "final-recorded"
	}
	recorded := "nothing"
	if own != nil && own.last() != nil {
		recorded = own.last().Status.String()
	}
	kd.pos = kd.phase + "/at=held-in-" + in.lay.desc(held)
	kd.where = fmt.Sprintf("run held at call %d of its step scripts on their marker files [%s, step %s], last recorded status %q; a client alive since before read {%s}; then the whole process tree was SIGKILLed", mb.K, in.lay.short(held), step, recorded, seqName(seq))
	res.Nontrivial(vlib.Hash("hold-kill", def.Name, mb.K, seqName(seq)))
	res.Count("hold_kill_recorded:"+recorded, 1)

	tag := "long-lived-client(after=" + seqName(seq) + ")"
	fs, sum, err := hn.postMortem(def, kd, []observer{{tag, ll}, {"", in.client()}})
	if err != nil {
		return err
	}
	for _, p := range prePanics {
		fs = append(fs, finding{"live/latest-status-error/panic", p})
	}
	if (mb.K+len(seq))%9 == 2 {
		sum["dag"], sum["held_at_marker_call"], sum["reads_before_kill"], sum["position"], sum["left_behind"] = def.Name, mb.K, seqName(seq), kd.pos, surv
		res.Sample(sum)
	}
	if verbose {
		fmt.Printf("DAG %s (%s): %s\n  position %s\n  left behind: %s\n  %v\n", def.Name, def.About, kd.where, kd.pos, surv, sum)
	}
	hn.report(def, mb, kd, fs, verbose)
	return nil
}
