// C08 (parts b and c) — reported status is truthful: live while running, final
// afterwards, never stuck.
//
// The REAL binary `blackdagger start -q f.yaml` runs in a scratch installation
// under the ptrace supervisor vtrace (c/vtrace.c); roots = the installation
// and the DAG's unix socket.  Steps are `sh` scripts that append marker lines
// to files of the installation, so what actually happened is known
// independently of what blackdagger records.  The harness process itself is
// the post-mortem tool: it holds the real client (internal/client over the
// same data / DAG directories) and the daemon's real job object
// (internal/scheduler.jobImpl through an overlay file).
//
//	(b) live and final truth (live.go): the run is held (`--pause-at`) at every
//	    call a step script makes on its marker file (the step's own process is
//	    held, the agent keeps running); while it is held the client must
//	    report the live run; after the process ended it must report the
//	    persisted final status, which must equal the markers.
//	(c) kill enumeration (kill.go): the process is SIGKILLed at the entry of
//	    every relevant system call K = 1..N of start-up, execution and
//	    shutdown; afterwards GetLatestStatus must not fail, must report the
//	    DAG neither running nor (falsely) succeeded, the DAG must start again
//	    and the daemon's job object must keep handling it.
//
// Role "probe" (env C08_PROBE=<installation dir> C08_DAG=<file>): prints what
// the client reports — used to confirm findings by hand.
package main

import (
	"encoding/json"
	"fmt"
	"io"
	"log"
	"os"
	"path/filepath"
	"strings"
	"time"

	"github.com/ErdemOzgen/blackdagger/internal/zzverif/vlib"
)

type member struct {
	Mode  string `json:"mode"`            // "kill" | "live" | "hold-kill" | "watched-run" | "end-hold" (K = relevant call of the agent, roots: installation + socket, at which the agent itself is held)
	DAG   string `json:"dag"`             // name of the definition
	Prior bool   `json:"prior"`           // a completed run of the same DAG precedes
	K     int    `json:"k"`               // kill: relevant call number (roots: installation + socket); live: number of the call on a marker file the run is held at (roots: markers only)
	Reads string `json:"reads,omitempty"` // hold-kill: what the long-lived client read while the run was alive, before the kill (K = marker call the run is held at, as for live)
}

type harness struct {
	res *vlib.Result
	fl  *vlib.Flags
	tl  *tools
	day string
	seq int
}

// group: one (DAG, prior) scenario with its baselines.
type group struct {
	def     *dagDef
	prior   bool
	idx     int
	dir     string
	n       int            // max number of relevant calls over the baselines
	classes map[string]int // per call class: max count over the baselines
	pauses  int            // number of calls the step scripts make on their marker files (= hold points of part b)
	holds   []int          // the marker calls that open the file for the "begin"/"end" line: hold points of the hold-kill family
	killKs  []int          // cheap DAGs: the handful of kill points (end-of-run phase of the first baseline)
	endFrom int            // smallest call number (over the baselines) that follows the last call on a marker file or step log: start of the end-of-run phase
	before  string         // state summary before the run / after an un-killed run
	after   string
}

func (hn *harness) memberDir(g *group, tag string) string {
	hn.seq++
	return filepath.Join(g.dir, fmt.Sprintf("%s-%d", tag, hn.seq))
}

// fresh builds a new installation of g's DAG and, if the scenario has a prior
// run, performs it (untraced, to its end) and puts its markers aside.
// skip = request-id prefixes of the runs that precede the member's own run.
func (hn *harness) fresh(g *group, tag string) (in *inst, mdir string, skip map[string]bool, err error) {
	for attempt := 0; ; attempt++ {
		in, mdir, skip, err = hn.fresh1(g, tag)
		if err != errCrashAtEnd || attempt >= 3 {
			return
		}
	}
}

// errCrashAtEnd: the prior run did all its work and then crashed (reported as a finding of its own).
var errCrashAtEnd = fmt.Errorf("the prior run crashed at its very end (repeatedly)")

func isCrashAtEnd(rr *runResult) bool {
	return rr.exit == 2 && (strings.Contains(rr.stderr, "panic:") || strings.Contains(rr.stderr, "nil pointer"))
}

func (hn *harness) fresh1(g *group, tag string) (in *inst, mdir string, skip map[string]bool, err error) {
	mdir = hn.memberDir(g, tag)
	in, err = newInst(mdir, g.def, hn.tl)
	if err != nil {
		return nil, mdir, nil, err
	}
	skip = map[string]bool{}
	if g.prior {
		rr, hung, err := in.runPlain(hn.tl)
		if err != nil || hung {
			in.cleanup(mdir)
			return nil, mdir, nil, fmt.Errorf("prior run of %s: hung=%v err=%v", g.def.Name, hung, err)
		}
		m := in.takeMarkers()
		if isCrashAtEnd(rr) && g.def.truth(m).Complete {
			hn.res.Violate("C08/final/agent-crash-at-end-of-run", fmt.Sprintf("an untraced `start -q` of DAG %s ran all its steps (markers {%s}) and then exits 2; stderr: %s", g.def.Name, m, vlib.Short(rr.stderr, 1500)), member{Mode: "live", DAG: g.def.Name, Prior: g.prior})
			in.cleanup(mdir)
			return nil, mdir, nil, errCrashAtEnd
		}
		if rr.exit != g.def.expectExit() || !g.def.truth(m).Complete {
			in.cleanup(mdir)
			return nil, mdir, nil, fmt.Errorf("prior run of %s: exit %d (expected %d), markers {%s}, stderr %s", g.def.Name, rr.exit, g.def.expectExit(), m, vlib.Short(rr.stderr, 300))
		}
		for _, r := range in.runsExcept(nil) {
			skip[r.ID8] = true
		}
		// a new run must get a later file-name timestamp (millisecond resolution)
		time.Sleep(3 * time.Millisecond)
	}
	return in, mdir, skip, nil
}

// call classes whose number legitimately differs between executions of one scenario
var timingDependent = map[string]bool{"write(agent-log)": true, "write(history)": true, "unlink(socket)": true, "rmdir(socket)": true}

// varies: the number of calls of this class may differ between executions of the scenario. For the wide DAG
// the supervisor's fd table loses some step-log descriptors (over a hundred threads open and close files at
// once; a close seen late removes the entry of a descriptor number that has been reused meanwhile), so the
// later calls on those step logs are not numbered: a limitation of the tracer, not a behaviour of the tracee.
func (g *group) varies(class string) bool {
	if timingDependent[class] {
		return true
	}
	return g.def.Cheap && strings.HasSuffix(class, "(step-log)")
}

// prepare runs the scenario three times un-killed under `vtrace --log`.
func (hn *harness) prepare(def *dagDef, prior bool, idx int) (*group, error) {
	g := &group{def: def, prior: prior, idx: idx, classes: map[string]int{}}
	g.dir = filepath.Join(hn.fl.Work, fmt.Sprintf("g%02d-%s", idx, def.Name))
	if err := os.MkdirAll(g.dir, 0o755); err != nil {
		return nil, err
	}
	var seqs []string
	crashes := 0
	nBase := 3
	if def.Cheap {
		nBase = 2
	}
	for i := 0; i < nBase; i++ {
		in, mdir, skip, err := hn.fresh(g, "base")
		if err != nil {
			return nil, err
		}
		if i == 0 {
			g.before = in.stateSummary(skip)
		}
		rr, err := in.runTraced(hn.tl, filepath.Join(mdir, "trace"))
		if err != nil {
			in.cleanup(mdir)
			return nil, fmt.Errorf("baseline of %s: %v", def.Name, err)
		}
		hn.res.Count("baseline_runs", 1)
		m := readMarkers(in.markers)
		// the un-killed run is itself a member of "final truth": check it
		fs := hn.finalCheck(in, def, skip, rr, m, "baseline")
		for _, f := range fs {
			hn.res.Violate("C08/"+f.Kind, fmt.Sprintf("DAG %s (%s), un-killed run under vtrace --log: %s", def.Name, def.About, f.Detail), member{Mode: "live", DAG: def.Name, Prior: prior})
		}
		if isCrashAtEnd(rr) && crashes < 3 {
			// reported above as final/agent-crash-at-end-of-run; its trace is not a baseline: once more
			crashes++
			i--
			in.cleanup(mdir)
			continue
		}
		if rr.exit != def.expectExit() && len(fs) == 0 {
			in.cleanup(mdir)
			return nil, fmt.Errorf("baseline of %s exits %d, expected %d; stderr %s", def.Name, rr.exit, def.expectExit(), vlib.Short(rr.stderr, 300))
		}
		for _, c := range rr.trace.Calls {
			// the socket server's goroutine may still be inside its own os.Remove when the process exits
			if !c.Done && !timingDependent[in.lay.desc(c)] {
				in.cleanup(mdir)
				return nil, fmt.Errorf("baseline of %s: call without return value: %s", def.Name, c.Raw)
			}
		}
		if len(rr.trace.Calls) > g.n {
			g.n = len(rr.trace.Calls)
		}
		cc := in.lay.classCounts(rr.trace.Calls)
		for k, v := range cc {
			if v > g.classes[k] {
				g.classes[k] = v
			}
		}
		var ks []string
		for _, k := range classKeys(cc) {
			// how often the agent writes its log and its status, and whether the socket server's
			// goroutine still gets to its own os.Remove before the process exits, depends on timing;
			// everything else must agree
			if !g.varies(k) {
				ks = append(ks, fmt.Sprintf("%s*%d", k, cc[k]))
			}
		}
		seqs = append(seqs, strings.Join(ks, " "))
		np := 0
		var holds []int
		endFrom := 1
		for _, c := range rr.trace.Calls {
			if fk := in.lay.fileKind(c.Path); fk == "marker" || fk == "step-log" {
				endFrom = c.K + 1
			}
		}
		if g.endFrom == 0 || endFrom < g.endFrom {
			g.endFrom = endFrom
		}
		for _, c := range rr.trace.Calls {
			if in.lay.fileKind(c.Path) == "marker" {
				np++
				if in.lay.desc(c) == "create-append(marker)" {
					holds = append(holds, np)
				}
			}
		}
		if i == 0 && def.MinRecord > 0 {
			n := 0
			for _, r := range in.runsExcept(skip) {
				for _, f := range r.Files {
					if f.LastLen > n {
						n = f.LastLen
					}
				}
			}
			if hn.fl.Shard == 0 || hn.fl.Replay != "" {
				hn.res.Count("final_record_bytes:"+def.Name, int64(n))
			}
			if n <= def.MinRecord {
				in.cleanup(mdir)
				return nil, fmt.Errorf("DAG %s is there for status records of more than %d bytes, the final record of its run has %d", def.Name, def.MinRecord, n)
			}
		}
		if i == 0 && def.Cheap {
			g.killKs = endPhaseKills(in.lay, rr.trace)
		}
		if i == 0 {
			g.pauses = np
			g.holds = holds
			g.after = in.stateSummary(skip)
		} else if np != g.pauses {
			in.cleanup(mdir)
			return nil, fmt.Errorf("scenario not deterministic: %s makes %d calls on marker files in one baseline and %d in another", def.Name, g.pauses, np)
		}
		in.cleanup(mdir)
	}
	for _, q := range seqs[1:] {
		if q != seqs[0] {
			return nil, fmt.Errorf("scenario not deterministic: the baselines of %s disagree on the calls they make (kind x file class, agent-log and status writes aside):\n%s", def.Name, strings.Join(seqs, "\n"))
		}
	}
	if g.classes["create(history)"] != 1 || g.classes["bind(socket)"] != 1 || g.classes["listen(socket)"] != 1 || g.classes["unlink(socket)"] < 2 {
		return nil, fmt.Errorf("baseline of %s does not show the expected life cycle (history create, socket bind/listen/unlink): %v", def.Name, g.classes)
	}
	if g.classes["create(history-compacted)"] != 1 || g.classes["unlink(history)"] != 1 {
		// no compaction at the end of the run: not what the property is about (the final-truth checks decide), but worth a counter
		hn.res.Count("baselines_without_compaction:"+def.Name, 1)
	}
	hn.res.Validated++
	return g, nil
}

func main() {
	if p := os.Getenv("C08_PROBE"); p != "" {
		probeMain(p, os.Getenv("C08_DAG"))
		return
	}
	time.Local = time.UTC
	os.Setenv("TZ", "UTC")
	log.SetOutput(io.Discard)
	fl := vlib.ParseFlags()
	res := vlib.New("c08")
	hn := &harness{res: res, fl: fl, day: time.Now().UTC().Format("20060102")}
	res.Rule = "a kill point (DAG, prior, K) is non-trivial when what the killed run left behind (history files with their line counts and last status, socket, markers, logs) differs from both the state before the run and the state after an un-killed run; a live observation is non-trivial per distinct (DAG, marker write the run is held in)"
	finish := func() {
		res.Write(fl.Out)
		_ = os.RemoveAll(fl.Work)
	}
	tl := &tools{bd: os.Getenv("VERIF_BLACKDAGGER"), vtrace: os.Getenv("VERIF_VTRACE")}
	hn.tl = tl
	if tl.vtrace == "" {
		tl.vtrace = filepath.Join(os.Getenv("VERIF_DIR"), "bin", "vtrace")
	}
	for _, p := range []string{tl.vtrace, tl.bd} {
		if _, err := os.Stat(p); err != nil {
			res.CheckError("tool %q not available (%v): the check needs needs_binary and needs_vtrace", p, err)
			finish()
			return
		}
	}
	if err := os.MkdirAll(fl.Work, 0o755); err != nil {
		res.CheckError("work dir: %v", err)
		finish()
		return
	}
	tl.script = filepath.Join(fl.Work, "step.sh")
	if err := os.WriteFile(tl.script, []byte(stepScript), 0o755); err != nil {
		res.CheckError("step script: %v", err)
		finish()
		return
	}

	thorough := fl.Thorough()
	var replay *member
	if fl.Replay != "" {
		var art struct {
			Replay member `json:"replay"`
		}
		b, err := os.ReadFile(fl.Replay)
		if err == nil {
			err = json.Unmarshal(b, &art)
		}
		if err != nil {
			res.CheckError("cannot read replay artefact: %v", err)
			finish()
			return
		}
		replay = &art.Replay
		thorough = true // the member may come from either tier's family
	}
	defs := family(thorough)
	priors := []bool{false, true}
	var names []string
	for _, d := range defs {
		names = append(names, d.Name)
	}
	res.Bounds["dags"] = strings.Join(names, ", ")
	res.Bounds["prior_history"] = fmt.Sprint(priors)
	res.Bounds["kill_points"] = "K = 1..N+3, N = max number of relevant calls over three un-killed runs of the scenario (per shard)"
	res.Bounds["latest_status_today"] = "true (the default)"
	res.Bounds["long_lived_client_reads"] = fmt.Sprintf("%d sequences of <= 2 reads over {%s} at every begin/end marker write of the run", len(readSequences(thorough)), strings.Join(readOps, ", "))

	gi := 0
	for _, def := range defs {
		for _, prior := range priors {
			gi++
			if replay != nil && (replay.DAG != def.Name || replay.Prior != prior) {
				continue
			}
			if def.Cheap && prior {
				continue
			}
			g, err := hn.prepare(def, prior, gi)
			if err != nil {
				res.CheckError("%v", err)
				continue
			}
			if fl.Shard == 0 || replay != nil {
				res.Count(fmt.Sprintf("relevant_calls:%s:prior=%v", def.Name, prior), int64(g.n))
				res.Count(fmt.Sprintf("pause_points:%s", def.Name), int64(g.pauses))
			}
			// an un-killed, untraced run watched by a long-lived client (reads while it runs), then final truth
			if !prior {
				mb := member{Mode: "watched-run", DAG: def.Name, Prior: prior}
				if (replay != nil && *replay == mb) || (replay == nil && fl.Mine(gi*7+3)) {
					if err := hn.watchedRun(g, mb, replay != nil); err != nil {
						res.CheckError("%v", err)
					}
				}
			}
			if def.Cheap {
				// only a handful of kill points in the end-of-run phase
				if fl.Shard == 0 || replay != nil {
					res.Count(fmt.Sprintf("cheap_kill_points:%s", def.Name), int64(len(g.killKs)))
				}
				for i, k := range g.killKs {
					mb := member{Mode: "kill", DAG: def.Name, Prior: prior, K: k}
					if replay != nil {
						if replay.Mode != "kill" {
							continue
						}
						mb.K = replay.K
						if i > 0 {
							continue
						}
					} else if !fl.Mine(gi*131 + 17 + i) {
						continue
					}
					if err := hn.kill(g, mb, replay != nil); err != nil {
						res.CheckError("%v", err)
					}
				}
				_ = os.RemoveAll(g.dir)
				continue
			}
			// (b) live observations: one per call of a step script on its marker file, on the scenario without prior history
			if !prior {
				for j := 1; j <= g.pauses; j++ {
					mb := member{Mode: "live", DAG: def.Name, Prior: prior, K: j}
					if replay != nil {
						if *replay != mb {
							continue
						}
					} else if !fl.Mine(gi*37 + j) {
						continue
					}
					if err := hn.live(g, mb, replay != nil); err != nil {
						res.CheckError("%v", err)
					}
				}
			}
			// (b') the agent itself held at every call of its end-of-run phase, observed by a fresh and a watching client
			if !prior {
				from := g.endFrom - 3
				if from < 1 {
					from = 1
				}
				if fl.Shard == 0 || replay != nil {
					res.Count(fmt.Sprintf("end_hold_members:%s", def.Name), int64(g.n+3-from+1))
				}
				for k := from; k <= g.n+3; k++ {
					mb := member{Mode: "end-hold", DAG: def.Name, Prior: prior, K: k}
					if replay != nil {
						if *replay != mb {
							continue
						}
					} else if !fl.Mine(gi*59 + 5 + k) {
						continue
					}
					if err := hn.endHold(g, mb, replay != nil); err != nil {
						res.CheckError("%v", err)
					}
				}
			}
			// (c') kill of a held run, observed by a client that lived through it: hold points x read sequences
			if !prior {
				seqs := readSequences(fl.Thorough() || replay != nil)
				if fl.Shard == 0 || replay != nil {
					res.Count(fmt.Sprintf("hold_kill_members:%s", def.Name), int64(len(g.holds)*len(seqs)))
				}
				for hi, j := range g.holds {
					for si, seq := range seqs {
						mb := member{Mode: "hold-kill", DAG: def.Name, Prior: prior, K: j, Reads: seqName(seq)}
						if replay != nil {
							if *replay != mb {
								continue
							}
						} else if !fl.Mine(gi*977 + hi*53 + si) {
							continue
						}
						if err := hn.holdKill(g, mb, seq, replay != nil); err != nil {
							res.CheckError("%v", err)
						}
					}
				}
			}
			// (c) kill enumeration
			for k := 1; k <= g.n+3; k++ {
				mb := member{Mode: "kill", DAG: def.Name, Prior: prior, K: k}
				if replay != nil {
					if *replay != mb {
						continue
					}
				} else if !fl.Mine(gi*131 + 17 + k) {
					continue
				}
				if err := hn.kill(g, mb, replay != nil); err != nil {
					res.CheckError("%v", err)
				}
			}
			_ = os.RemoveAll(g.dir)
		}
	}
	if time.Now().UTC().Format("20060102") != hn.day {
		res.CheckError("the check ran across midnight UTC; 'today' changed under it — run it again")
	}
	res.Assume("crash = SIGKILL of the whole process tree of the run at the ENTRY of a relevant system call (file-system calls under the installation, bind/listen/connect/unlink of the DAG's socket), as seen by the ptrace supervisor; what the kernel accepted before survives")
	res.Assume("one real execution is killed / held at each of its own K; the agent is multi-threaded, so the call that is number K varies between executions — every kill run is classified from its OWN trace, and its trace must stay within the call classes of the baselines")
	res.Assume("the post-mortem observer is a fresh client (cold cache) over the same directories, in the harness process; latestStatusToday = true")
	finish()
}
