package main

import (
	"bytes"
	"context"
	"encoding/json"
	"fmt"
	"os"
	"os/exec"
	"path/filepath"
	"sort"
	"strings"
	"time"

	"github.com/ErdemOzgen/blackdagger/internal/client"
	"github.com/ErdemOzgen/blackdagger/internal/dag"
	"github.com/ErdemOzgen/blackdagger/internal/persistence/model"
	"github.com/ErdemOzgen/blackdagger/internal/zzverif/venv"
	"github.com/ErdemOzgen/blackdagger/internal/zzverif/vlib"
)

// watchdog for one run of the real binary (expected: well under a second).
const watchdog = 120 * time.Second

// inst is one scratch installation holding one DAG file.
type inst struct {
	dir     string // <member>/i : home dags data logs suspend markers (all traced)
	lay     layout
	def     *dagDef
	dagFile string
	markers string
	stub    string // recording stand-in for the blackdagger executable (daemon job check)
	stubLog string
	env     *venv.Env
}

type tools struct {
	bd, vtrace, script string
}

func newInst(memberDir string, def *dagDef, tl *tools) (*inst, error) {
	in := &inst{dir: filepath.Join(memberDir, "i"), def: def}
	_ = os.RemoveAll(memberDir)
	for _, d := range []string{"home", "dags", "data", "logs", "suspend", "markers"} {
		if err := os.MkdirAll(filepath.Join(in.dir, d), 0o755); err != nil {
			return nil, err
		}
	}
	in.markers = filepath.Join(in.dir, "markers")
	in.dagFile = filepath.Join(in.dir, "dags", def.Name+".yaml")
	if err := os.WriteFile(in.dagFile, []byte(def.yaml(tl.script, in.markers)), 0o644); err != nil {
		return nil, err
	}
	in.lay = layout{Inst: in.dir, Sock: (&dag.DAG{Location: in.dagFile}).SockAddr()}
	_ = os.Remove(in.lay.Sock)
	in.stub = filepath.Join(memberDir, "stub.sh")
	in.stubLog = filepath.Join(memberDir, "stub.log")
	if err := os.WriteFile(in.stub, []byte("#!/bin/sh\necho \"$@\" >> "+in.stubLog+"\nexit 0\n"), 0o755); err != nil {
		return nil, err
	}
	in.env = venv.New(in.dir)
	return in, nil
}

func (in *inst) cleanup(memberDir string) {
	_ = os.Remove(in.lay.Sock)
	_ = os.RemoveAll(memberDir)
}

// environ: the environment of the real binary — nothing of the harness's own
// environment but PATH.
func (in *inst) environ() []string {
	return []string{
		"PATH=" + os.Getenv("PATH"), "TZ=UTC", "LANG=C",
		"HOME=" + filepath.Join(in.dir, "home"),
		"BLACKDAGGER_DAGS_DIR=" + filepath.Join(in.dir, "dags"),
		"BLACKDAGGER_DATA_DIR=" + filepath.Join(in.dir, "data"),
		"BLACKDAGGER_LOG_DIR=" + filepath.Join(in.dir, "logs"),
		"BLACKDAGGER_SUSPEND_FLAGS_DIR=" + filepath.Join(in.dir, "suspend"),
		"BLACKDAGGER_BASE_CONFIG=" + filepath.Join(in.dir, "home", "base.yaml"),
	}
}

// client: a fresh client over the installation's stores (cold cache), with
// the recording stub as its executable.
func (in *inst) client() client.Client { return in.env.Client(in.stub) }

func (in *inst) stubCalls() []string {
	b, _ := os.ReadFile(in.stubLog)
	var out []string
	for _, l := range strings.Split(string(b), "\n") {
		if l != "" {
			out = append(out, l)
		}
	}
	return out
}

// moveMarkers puts the markers of the run that just ended aside and returns them.
func (in *inst) takeMarkers() markers {
	m := readMarkers(in.markers)
	_ = os.RemoveAll(in.markers)
	_ = os.MkdirAll(in.markers, 0o755)
	return m
}

// runResult: one execution of `blackdagger start -q <file>`.
type runResult struct {
	exit   int
	stderr string
	trace  *Trace // nil for an untraced run
	wall   time.Duration
}

// vtraceArgs: roots = the installation and the DAG's socket.
func (in *inst) vtraceArgs(tl *tools, logPath string, mode ...string) []string {
	return in.vtraceArgsRoots(tl, []string{in.dir, in.lay.Sock}, logPath, mode...)
}

func (in *inst) vtraceArgsRoots(tl *tools, roots []string, logPath string, mode ...string) []string {
	var args []string
	for _, r := range roots {
		args = append(args, "--root", r)
	}
	args = append(args, "--log", logPath)
	args = append(args, mode...)
	return append(args, "--", tl.bd, "start", "-q", in.dagFile)
}

func exitCode(err error) (int, error) {
	if err == nil {
		return 0, nil
	}
	if ee, ok := err.(*exec.ExitError); ok {
		return ee.ExitCode(), nil
	}
	return -1, err
}

// runTraced runs the binary under vtrace to its end (or to the kill point).
func (in *inst) runTraced(tl *tools, logPath string, mode ...string) (*runResult, error) {
	ctx, cancel := context.WithTimeout(context.Background(), watchdog)
	defer cancel()
	cmd := exec.CommandContext(ctx, tl.vtrace, in.vtraceArgs(tl, logPath, mode...)...)
	cmd.Env = in.environ()
	cmd.Dir = in.dir
	var stderr bytes.Buffer
	cmd.Stdout = &stderr
	cmd.Stderr = &stderr
	t0 := time.Now()
	err := cmd.Run()
	if ctx.Err() != nil {
		return nil, fmt.Errorf("watchdog: `vtrace %s` did not end within %s", strings.Join(mode, " "), watchdog)
	}
	rr := &runResult{stderr: stderr.String(), wall: time.Since(t0)}
	if rr.exit, err = exitCode(err); err != nil {
		return nil, fmt.Errorf("cannot run vtrace: %v", err)
	}
	tr, err := parseTrace(logPath)
	if err != nil {
		return nil, fmt.Errorf("vtrace exit %d: %v; stderr: %s", rr.exit, err, vlib.Short(rr.stderr, 400))
	}
	rr.trace = tr
	return rr, nil
}

// runPlain runs the binary without the supervisor. hung=true: the watchdog fired.
func (in *inst) runPlain(tl *tools) (rr *runResult, hung bool, err error) {
	ctx, cancel := context.WithTimeout(context.Background(), watchdog)
	defer cancel()
	cmd := exec.CommandContext(ctx, tl.bd, "start", "-q", in.dagFile)
	cmd.Env = in.environ()
	cmd.Dir = in.dir
	var stderr bytes.Buffer
	cmd.Stdout = &stderr
	cmd.Stderr = &stderr
	t0 := time.Now()
	e := cmd.Run()
	rr = &runResult{stderr: stderr.String(), wall: time.Since(t0)}
	if ctx.Err() != nil {
		return rr, true, nil
	}
	if rr.exit, err = exitCode(e); err != nil {
		return nil, false, fmt.Errorf("cannot run the binary: %v", err)
	}
	return rr, false, nil
}

// ------------------------------------------------- the history directory ---

// histFile is one file of the DAG's history directory, read by the harness's
// own line splitter (not by the store under test).
type histFile struct {
	Name      string // base name
	Compacted bool
	ID8       string // first 8 characters of the request id (from the file name)
	Lines     int    // complete, parsable status lines
	Last      *model.Status
	LastLen   int // length of that line in bytes
	Size      int64
}

func parseHistFile(path string) *histFile {
	base := filepath.Base(path)
	hf := &histFile{Name: base, Compacted: strings.HasSuffix(base, "_c.dat")}
	core := strings.TrimSuffix(strings.TrimSuffix(base, ".dat"), "_c")
	if i := strings.LastIndex(core, "."); i >= 0 {
		hf.ID8 = core[i+1:]
	}
	b, err := os.ReadFile(path)
	if err != nil {
		return hf
	}
	hf.Size = int64(len(b))
	for _, line := range strings.Split(string(b), "\n") {
		if strings.TrimSpace(line) == "" {
			continue
		}
		st := new(model.Status)
		if json.Unmarshal([]byte(line), st) == nil && st.RequestID != "" {
			hf.Lines++
			hf.Last = st
			hf.LastLen = len(line)
		}
	}
	return hf
}

// histFiles lists the history files of the installation's DAG, sorted by name.
func (in *inst) histFiles() []*histFile {
	matches, _ := filepath.Glob(filepath.Join(in.dir, "data", "*", "*.dat"))
	sort.Strings(matches)
	var out []*histFile
	for _, m := range matches {
		out = append(out, parseHistFile(m))
	}
	return out
}

// runRecord: what one run left in the history directory.
type runRecord struct {
	ID8   string
	Files []*histFile
}

// last returns the most advanced status line the run persisted: a final one if
// any of its files holds one, else the last line of the file with most lines.
func (r *runRecord) last() *model.Status {
	var best *model.Status
	n := -1
	for _, f := range r.Files {
		if f.Last == nil {
			continue
		}
		if final(f.Last) {
			return f.Last
		}
		if f.Lines > n {
			best, n = f.Last, f.Lines
		}
	}
	return best
}

func final(st *model.Status) bool {
	return st != nil && st.Status != 0 /* none */ && st.Status != 1 /* running */
}

// runsExcept groups the history files by run, leaving out the runs in skip.
func (in *inst) runsExcept(skip map[string]bool) []*runRecord {
	var out []*runRecord
	idx := map[string]*runRecord{}
	for _, f := range in.histFiles() {
		if skip[f.ID8] {
			continue
		}
		r := idx[f.ID8]
		if r == nil {
			r = &runRecord{ID8: f.ID8}
			idx[f.ID8] = r
			out = append(out, r)
		}
		r.Files = append(r.Files, f)
	}
	return out
}

func (r *runRecord) String() string {
	var s []string
	for _, f := range r.Files {
		k := "history"
		if f.Compacted {
			k = "history-compacted"
		}
		last := "-"
		if f.Last != nil {
			last = f.Last.Status.String()
		}
		s = append(s, fmt.Sprintf("%s(lines=%d,last=%s)", k, f.Lines, last))
	}
	return strings.Join(s, "+")
}

// stateSummary: a canonical description of what a run left behind (no names
// containing timestamps or ids): history files, socket, markers, step logs.
func (in *inst) stateSummary(skip map[string]bool) string {
	var h []string
	for _, r := range in.runsExcept(skip) {
		h = append(h, r.String())
	}
	_, sockErr := os.Lstat(in.lay.Sock)
	logs, _ := filepath.Glob(filepath.Join(in.dir, "logs", "*", "*.log"))
	nstep, nagent := 0, 0
	for _, l := range logs {
		if in.lay.fileKind(l) == "agent-log" {
			nagent++
		} else {
			nstep++
		}
	}
	return fmt.Sprintf("history{%s} socket=%v markers{%s} agent-logs=%d step-logs=%d",
		strings.Join(h, " "), sockErr == nil, readMarkers(in.markers), nagent, nstep)
}
