package main

import (
	"fmt"
	"os"
	"strconv"
	"strings"
)

// The step script.  Every attempt of a step appends "<n> begin" and
// "<n> end <rc>" to <markers>/<step>; what actually happened is therefore
// known independently of anything blackdagger records.  The attempt number is
// the number of "begin" lines already in the file plus one.
const stepScript = `#!/bin/sh
# usage: step.sh <markers-dir> <step> <ok|slow|fail|flaky>
dir=$1; name=$2; mode=$3
f="$dir/$name"
n=1
if [ -f "$f" ]; then
  while read a b c; do [ "$b" = begin ] && n=$((n+1)); done < "$f"
fi
echo "$n begin" >> "$f"
echo "out-$name-$n"
rc=0
case $mode in
  slow) sleep 0.25 ;;
  fail) rc=1 ;;
  flaky) [ "$n" -le 1 ] && rc=1 ;;
esac
echo "$n end $rc" >> "$f"
exit $rc
`

type stepDef struct {
	Name       string
	Mode       string // ok | slow (ok, takes 250 ms: the agent's status write 100 ms after the start finds it running) | fail | flaky (fails on the first attempt only)
	Deps       []string
	Unmet      bool // has a precondition that is not met
	RetryLimit int
}

type dagDef struct {
	Name      string
	Steps     []stepDef
	OnFailure bool // handler steps, named onFailure / onExit
	OnExit    bool
	About     string
	// Cheap: only the inexpensive observations are applied (un-killed runs with final truth, a run watched by a
	// long-lived client, a handful of kill points in the end-of-run phase) — no K enumeration, no holds.
	Cheap bool
	// MinRecord: the final status record of a run must be longer than this many bytes (else the DAG does not
	// exercise what it is there for: a check error)
	MinRecord int
}

// wide: n independent steps; its status record (every node with its step definition) exceeds 64 KiB.
func wide(n int) *dagDef {
	d := &dagDef{Name: fmt.Sprintf("wide%d", n), About: fmt.Sprintf("%d independent steps: a status record of more than 64 KiB", n), Cheap: true, MinRecord: 64 * 1024}
	for i := 1; i <= n; i++ {
		d.Steps = append(d.Steps, stepDef{Name: fmt.Sprintf("w%03d", i), Mode: "ok"})
	}
	return d
}

// family: the DAG definitions of a tier.
func family(thorough bool) []*dagDef {
	all := []*dagDef{
		{Name: "chain2", About: "a chain of two steps, the first taking 250 ms",
			Steps: []stepDef{{Name: "s1", Mode: "slow"}, {Name: "s2", Mode: "ok", Deps: []string{"s1"}}}},
		{Name: "failh", About: "a failing step with a dependent step, an onFailure and an onExit handler",
			Steps:     []stepDef{{Name: "s1", Mode: "fail"}, {Name: "s2", Mode: "ok", Deps: []string{"s1"}}},
			OnFailure: true, OnExit: true},
		wide(130),
		{Name: "one", About: "one step",
			Steps: []stepDef{{Name: "s1", Mode: "ok"}}},
		{Name: "par2", About: "two parallel steps, one taking 250 ms",
			Steps: []stepDef{{Name: "a", Mode: "ok"}, {Name: "b", Mode: "slow"}}},
		{Name: "retry", About: "a step with a retry policy that fails once, then succeeds, and a dependent step",
			Steps: []stepDef{{Name: "s1", Mode: "flaky", RetryLimit: 2}, {Name: "s2", Mode: "ok", Deps: []string{"s1"}}}},
		{Name: "precond", About: "a step with an unmet precondition, a step depending on it, and an independent step",
			Steps: []stepDef{{Name: "s1", Mode: "ok", Unmet: true}, {Name: "s2", Mode: "ok"}, {Name: "s3", Mode: "ok", Deps: []string{"s1"}}}},
	}
	if thorough {
		return all
	}
	return all[:3]
}

func (d *dagDef) yaml(script, markers string) string {
	var sb strings.Builder
	cmd := func(name, mode string) string {
		return fmt.Sprintf("sh %s %s %s %s", script, markers, name, mode)
	}
	if d.OnFailure || d.OnExit {
		sb.WriteString("handlerOn:\n")
		if d.OnFailure {
			fmt.Fprintf(&sb, "  failure:\n    command: %s\n", cmd("onFailure", "ok"))
		}
		if d.OnExit {
			fmt.Fprintf(&sb, "  exit:\n    command: %s\n", cmd("onExit", "ok"))
		}
	}
	sb.WriteString("steps:\n")
	for _, s := range d.Steps {
		fmt.Fprintf(&sb, "  - name: %s\n    command: %s\n", s.Name, cmd(s.Name, s.Mode))
		if len(s.Deps) > 0 {
			sb.WriteString("    depends:\n")
			for _, dep := range s.Deps {
				fmt.Fprintf(&sb, "      - %s\n", dep)
			}
		}
		if s.Unmet {
			sb.WriteString("    preconditions:\n      - condition: \"$C08_NEVER_SET\"\n        expected: \"yes\"\n")
		}
		if s.RetryLimit > 0 {
			fmt.Fprintf(&sb, "    retryPolicy:\n      limit: %d\n      intervalSec: 0\n", s.RetryLimit)
		}
	}
	return sb.String()
}

// ---------------------------------------------------------------- markers ---

type attempt struct {
	N     int
	Ended bool
	RC    int
}

// markers: step name -> attempts in order.
type markers map[string][]attempt

func readMarkers(dir string) markers {
	m := markers{}
	ents, _ := os.ReadDir(dir)
	for _, e := range ents {
		b, err := os.ReadFile(dir + "/" + e.Name())
		if err != nil {
			continue
		}
		var atts []attempt
		for _, line := range strings.Split(string(b), "\n") {
			f := strings.Fields(line)
			if len(f) < 2 {
				continue
			}
			n, _ := strconv.Atoi(f[0])
			switch {
			case f[1] == "begin":
				atts = append(atts, attempt{N: n})
			case f[1] == "end" && len(f) >= 3 && len(atts) > 0:
				atts[len(atts)-1].Ended = true
				atts[len(atts)-1].RC, _ = strconv.Atoi(f[2])
			}
		}
		m[e.Name()] = atts
	}
	return m
}

func (m markers) String() string {
	var names []string
	for k := range m {
		names = append(names, k)
	}
	sortStrings(names)
	var out []string
	for _, k := range names {
		var a []string
		for _, at := range m[k] {
			if at.Ended {
				a = append(a, fmt.Sprintf("%d:rc%d", at.N, at.RC))
			} else {
				a = append(a, fmt.Sprintf("%d:cut", at.N))
			}
		}
		out = append(out, k+"["+strings.Join(a, ",")+"]")
	}
	return strings.Join(out, " ")
}

// truth: what the markers (plus the definition, for steps that never ran)
// say about a run that went to its end.
type truth struct {
	State    map[string]string // step / handler name -> finished | failed | skipped | canceled | not started
	Attempts map[string]int
	Cut      []string // steps whose last attempt has no end line (only possible in a killed run)
	Run      string   // finished | failed
	Complete bool     // nothing cut, every step accounted for, handlers that had to run did run
}

const (
	stFinished = "finished"
	stFailed   = "failed"
	stSkipped  = "skipped"
	stCanceled = "canceled"
	stNone     = "not started"
	stRunning  = "running"
)

func (d *dagDef) truth(m markers) *truth {
	t := &truth{State: map[string]string{}, Attempts: map[string]int{}, Complete: true}
	eval := func(name string) (string, bool) {
		atts := m[name]
		t.Attempts[name] = len(atts)
		if len(atts) == 0 {
			return "", false
		}
		last := atts[len(atts)-1]
		if !last.Ended {
			t.Cut = append(t.Cut, name)
			t.Complete = false
			return stRunning, true
		}
		if last.RC == 0 {
			return stFinished, true
		}
		return stFailed, true
	}
	anyFailed := false
	for _, s := range d.Steps {
		st, ran := eval(s.Name)
		if ran && st == stFailed && s.RetryLimit > 0 && t.Attempts[s.Name] <= s.RetryLimit {
			// failed with retries left: a complete run would have tried again
			t.Complete = false
		}
		if !ran {
			switch {
			case s.Unmet:
				st = stSkipped
			default:
				st = ""
				for _, dep := range s.Deps {
					switch t.State[dep] {
					case stFailed, stCanceled:
						st = stCanceled
					case stSkipped:
						if st == "" {
							st = stSkipped
						}
					case stFinished:
					default:
						if st == "" {
							st = stNone
						}
					}
				}
				if st == "" || st == stNone {
					// nothing explains why it did not run: the run did not get that far
					st = stNone
					t.Complete = false
				}
			}
		}
		if st == stFailed {
			anyFailed = true
		}
		t.State[s.Name] = st
	}
	t.Run = stFinished
	if anyFailed {
		t.Run = stFailed
	}
	if d.OnFailure {
		st, ran := eval("onFailure")
		if !ran {
			st = stNone
			if anyFailed {
				t.Complete = false
			}
		}
		if st == stFailed {
			t.Run = stFailed
		}
		t.State["onFailure"] = st
	}
	if d.OnExit {
		st, ran := eval("onExit")
		if !ran {
			st = stNone
			t.Complete = false
		}
		if st == stFailed {
			t.Run = stFailed
		}
		t.State["onExit"] = st
	}
	return t
}

// expectExit: exit code of `blackdagger start` for a run that goes to its end.
func (d *dagDef) expectExit() int {
	for _, s := range d.Steps {
		if s.Mode == "fail" {
			return 1
		}
	}
	return 0
}

func sortStrings(s []string) {
	for i := 1; i < len(s); i++ {
		for j := i; j > 0 && s[j] < s[j-1]; j-- {
			s[j], s[j-1] = s[j-1], s[j]
		}
	}
}
