package main

import (
	"bytes"
	"encoding/json"
	"fmt"
	"os"
	"os/exec"
	"path/filepath"
	"strings"
	"time"

	"github.com/ErdemOzgen/blackdagger/internal/client"
	"github.com/ErdemOzgen/blackdagger/internal/dag"
	"github.com/ErdemOzgen/blackdagger/internal/persistence/model"
	"github.com/ErdemOzgen/blackdagger/internal/zzverif/venv"
	"github.com/ErdemOzgen/blackdagger/internal/zzverif/vlib"
)

// finalCheck: after the process of an un-killed run ended — exit code, and the
// status reported by a fresh client (plus, if given, by a client that already
// watched the run alive) against the markers.
func (hn *harness) finalCheck(in *inst, def *dagDef, skip map[string]bool, rr *runResult, m markers, tag string, warm ...client.Client) []finding {
	var fs []finding
	hn.res.Count("final_checks", 1)
	if rr.exit != def.expectExit() {
		if strings.Contains(rr.stderr, "panic:") || strings.Contains(rr.stderr, "nil pointer") || rr.exit == 2 {
			fs = append(fs, finding{"final/agent-crash-at-end-of-run", fmt.Sprintf("%s: `start -q` exits %d (expected %d) with markers {%s}; stderr: %s", tag, rr.exit, def.expectExit(), m, vlib.Short(rr.stderr, 1200))})
		} else {
			fs = append(fs, finding{"final/unexpected-exit-code", fmt.Sprintf("%s: `start -q` exits %d (expected %d) with markers {%s}; stderr: %s", tag, rr.exit, def.expectExit(), m, vlib.Short(rr.stderr, 600))})
		}
	}
	runs := in.runsExcept(skip)
	if len(runs) != 1 {
		return append(fs, finding{"final/state-mismatch/not-recorded", fmt.Sprintf("%s: after the run the history directory holds %d new runs: %v", tag, len(runs), runs)})
	}
	d, err := dag.LoadMetadata(in.dagFile)
	if err != nil {
		return append(fs, finding{"final/state-mismatch/dag-not-loadable", err.Error()})
	}
	clis := append([]client.Client{in.client()}, warm...)
	for i, cli := range clis {
		var st *model.Status
		var serr error
		if p := safely("GetLatestStatus", func() { st, serr = cli.GetLatestStatus(d) }); p != "" {
			fs = append(fs, finding{"final/latest-status-error", p})
			continue
		}
		who := ""
		if i > 0 {
			who = "(client-that-saw-the-run-alive)"
		}
		for _, f := range checkFinal(def, st, serr, m, runs[0].ID8) {
			fs = append(fs, finding{f.Kind + who, tag + ": " + f.Detail})
		}
		// the run looked up by its id, and the newest entry of the history, are that final status too
		if last := runs[0].last(); last != nil {
			var byID *model.Status
			var berr error
			if p := safely("GetStatusByRequestID", func() { byID, berr = cli.GetStatusByRequestID(d, last.RequestID) }); p != "" {
				fs = append(fs, finding{"final/latest-status-error", p})
			} else {
				for _, f := range checkFinal(def, byID, berr, m, runs[0].ID8) {
					fs = append(fs, finding{f.Kind + "(by-request-id)" + who, tag + ": GetStatusByRequestID: " + f.Detail})
				}
			}
			var hist []*model.StatusFile
			if p := safely("GetRecentHistory", func() { hist = cli.GetRecentHistory(d, 1) }); p != "" {
				fs = append(fs, finding{"final/latest-status-error", p})
			} else if len(hist) != 1 || hist[0] == nil {
				fs = append(fs, finding{"final/state-mismatch/not-in-history" + who, fmt.Sprintf("%s: GetRecentHistory(1) returns %d entries after the run", tag, len(hist))})
			} else {
				for _, f := range checkFinal(def, hist[0].Status, nil, m, runs[0].ID8) {
					fs = append(fs, finding{f.Kind + "(history)" + who, tag + ": GetRecentHistory(1): " + f.Detail})
				}
			}
		}
	}
	// what is reported must be what was persisted last
	if last := runs[0].last(); last == nil || !isFinal(last) {
		fs = append(fs, finding{"final/state-mismatch/final-line-not-persisted", fmt.Sprintf("%s: the process ended, the history holds %s — no final status line", tag, runs[0])})
	}
	return fs
}

func waitFor(path string, proc <-chan error, limit time.Duration) (appeared bool, exited bool, perr error) {
	deadline := time.Now().Add(limit)
	for time.Now().Before(deadline) {
		if _, err := os.Stat(path); err == nil {
			return true, false, nil
		}
		select {
		case perr = <-proc:
			return false, true, perr
		default:
		}
		time.Sleep(2 * time.Millisecond)
	}
	return false, false, nil
}

// live executes one member of part (b): the run is held at the K-th call its
// step scripts make on their marker files (roots of this traced run = the
// markers directory only, so every relevant call is made by a step's own
// process while the agent waits for it — no thread of the agent is ever held);
// observed alive; released; observed after its end.
func (hn *harness) live(g *group, mb member, verbose bool) error {
	res := hn.res
	def := g.def
	in, mdir, skip, err := hn.fresh(g, "live")
	if err != nil {
		return err
	}
	k := mb.K
	ready, resume, logPath := filepath.Join(mdir, "ready"), filepath.Join(mdir, "resume"), filepath.Join(mdir, "trace")
	cmd := exec.Command(hn.tl.vtrace, in.vtraceArgsRoots(hn.tl, []string{in.markers}, logPath, "--pause-at", fmt.Sprint(k), "--ready", ready, "--resume", resume)...)
	cmd.Env = in.environ()
	cmd.Dir = in.dir
	var stderr bytes.Buffer
	cmd.Stdout, cmd.Stderr = &stderr, &stderr
	if err := cmd.Start(); err != nil {
		in.cleanup(mdir)
		return fmt.Errorf("cannot start vtrace: %v", err)
	}
	proc := make(chan error, 1)
	go func() { proc <- cmd.Wait() }()
	abort := func(format string, a ...any) error {
		_ = cmd.Process.Kill()
		select {
		case <-proc:
		case <-time.After(5 * time.Second):
		}
		in.cleanup(mdir)
		return fmt.Errorf("DAG %s live %d: "+format, append([]any{def.Name, mb.K}, a...)...)
	}
	finishRun := func() (*runResult, error) {
		_ = os.WriteFile(resume, nil, 0o644)
		select {
		case perr := <-proc:
			proc <- perr
			rr := &runResult{stderr: stderr.String()}
			var err error
			if rr.exit, err = exitCode(perr); err != nil {
				return nil, err
			}
			if rr.trace, err = parseTrace(logPath); err != nil {
				return nil, err
			}
			return rr, nil
		case <-time.After(watchdog):
			return nil, fmt.Errorf("watchdog: the released run did not end within %s", watchdog)
		}
	}
	appeared, exited, perr := waitFor(ready, proc, watchdog)
	if !appeared && !exited {
		return abort("watchdog: neither held at call %d nor ended within %s", k, watchdog)
	}
	if exited {
		proc <- perr
		code, _ := exitCode(perr)
		return abort("the run ended (exit %d) before its marker call %d; stderr %s", code, k, vlib.Short(stderr.String(), 300))
	}
	tr, err := parseTrace(logPath)
	if err != nil || len(tr.Calls) < k {
		return abort("held, but the trace at the pause point is unusable: %v", err)
	}
	held := tr.Calls[k-1]
	step := in.lay.stepOfMarker(held.Path)
	if step == "" {
		return abort("held at a call that is not on a marker file: %s", held.Raw)
	}
	mh := readMarkers(in.markers)
	at := "before-begin-line"
	if atts := mh[step]; len(atts) > 0 && !atts[len(atts)-1].Ended {
		at = "before-end-line"
	}
	where := fmt.Sprintf("%s, attempt %d, %s, at its %s", step, len(mh[step])+map[bool]int{true: 0, false: 1}[at == "before-end-line"], at, in.lay.desc(held))

	// ---- the run is alive and held inside step `step` ----
	d, err := dag.LoadMetadata(in.dagFile)
	if err != nil {
		return abort("cannot load the DAG: %v", err)
	}
	runs := in.runsExcept(skip)
	wantID := ""
	if len(runs) == 1 && runs[0].last() != nil {
		wantID = runs[0].last().RequestID
	}
	cli := in.client()
	var fs []finding
	var st *model.Status
	for try := 0; try < 2; try++ { // a second look rules out a socket timeout of the observer on a loaded machine
		if try > 0 {
			time.Sleep(300 * time.Millisecond)
		}
		fs = nil
		m1 := readMarkers(in.markers)
		var serr error
		if p := safely("GetLatestStatus", func() { st, serr = cli.GetLatestStatus(d) }); p != "" {
			fs = append(fs, finding{"live/latest-status-error/panic", p})
		} else if wantID == "" {
			fs = append(fs, finding{"live/run-not-recorded", fmt.Sprintf("the run is executing step %s and its history file holds no status line yet: %v", step, runs)})
		} else {
			m2 := readMarkers(in.markers)
			fs = append(fs, checkLive(def, st, serr, wantID, step, m1, m2)...)
		}
		var ds *client.DAGStatus
		if p := safely("GetStatus", func() { ds, _ = cli.GetStatus(def.Name) }); p != "" {
			fs = append(fs, finding{"live/latest-status-error/panic", p})
		} else if ds == nil || ds.Status == nil || ds.Status.RequestID != wantID || ds.Status.Status.String() != stRunning {
			var got *model.Status
			if ds != nil {
				got = ds.Status
			}
			fs = append(fs, finding{"live/wrong-run-or-not-running", fmt.Sprintf("client.GetStatus(%q) while run %q is alive reports: %s", def.Name, wantID, describe(got))})
		}
		var cur *model.Status
		if p := safely("GetCurrentStatus", func() { cur, _ = cli.GetCurrentStatus(d) }); p != "" {
			fs = append(fs, finding{"live/latest-status-error/panic", p})
		} else if cur == nil || cur.RequestID != wantID || cur.Status.String() != stRunning {
			fs = append(fs, finding{"live/wrong-run-or-not-running", fmt.Sprintf("client.GetCurrentStatus while run %q is alive reports: %s", wantID, describe(cur))})
		}
		if len(fs) == 0 {
			break
		}
	}
	// the same client also reads the run's history while it is alive (the web UI's history tab): what it
	// caches now must not stand in the way of the final status later
	for _, op := range []string{"history1", "historyAll", "byRequestID"} {
		if p := doRead(cli, d, def.Name, op, wantID); p != "" {
			fs = append(fs, finding{"live/latest-status-error/panic", p})
		}
	}
	res.Evaluations++
	res.Count("live_observations", 1)
	res.Count("live_observations:"+def.Name, 1)
	res.Nontrivial(vlib.Hash("live", def.Name, mb.K))
	liveDesc := describe(st)

	// ---- release; the run goes to its end ----
	rr, err := finishRun()
	if err != nil {
		return abort("%v", err)
	}
	m := readMarkers(in.markers)
	fs = append(fs, hn.finalCheck(in, def, skip, rr, m, "after the held run was released", cli)...)
	if mb.K%5 == 1 {
		res.Sample(map[string]any{"dag": def.Name, "held_in": where, "marker_call": k, "live_report": liveDesc,
			"after_exit": fmt.Sprintf("exit %d markers {%s}", rr.exit, m)})
	}
	if verbose {
		fmt.Printf("DAG %s (%s) held at marker call %d = %s (%s)\n  live: %s\n  after exit %d: markers {%s}\n", def.Name, def.About, k, in.lay.short(held), where, liveDesc, rr.exit, m)
	}
	seen := map[string]bool{}
	for _, f := range fs {
		sig := "C08/" + f.Kind
		if verbose {
			fmt.Printf("  FINDING %s: %s\n", sig, f.Detail)
		}
		if seen[sig] {
			continue
		}
		seen[sig] = true
		res.Violate(sig, fmt.Sprintf("DAG %s (%s), run held at call %d of its step scripts on their marker files (step %s): %s", def.Name, def.About, mb.K, where, f.Detail), mb)
	}
	in.cleanup(mdir)
	return nil
}

// probeMain: `C08_PROBE=<installation> C08_DAG=<file> <this binary>` prints what
// the real client reports for the DAG (for confirming findings by hand).
func probeMain(instDir, dagFile string) {
	env := venv.New(instDir)
	d, err := dag.LoadMetadata(dagFile)
	if err != nil {
		fmt.Println("load:", err)
		os.Exit(1)
	}
	cli := env.Client("/bin/true")
	st, err := cli.GetLatestStatus(d)
	out := map[string]any{"GetLatestStatus.error": fmt.Sprint(err), "GetLatestStatus": describe(st)}
	cur, err := cli.GetCurrentStatus(d)
	out["GetCurrentStatus"] = describe(cur)
	out["GetCurrentStatus.error"] = fmt.Sprint(err)
	b, _ := json.MarshalIndent(out, "", " ")
	fmt.Println(string(b))
}

// endPhaseKills: a handful of kill points spread over the end-of-run phase of a
// trace: right after the last step ended, at the final status write, right
// after it, at the write of the compacted copy, at the removal of the original,
// at the sync of the copy.
func endPhaseKills(lay layout, tr *Trace) []int {
	last := map[string]int{}
	endFrom := 1
	for _, c := range tr.Calls {
		d := lay.desc(c)
		last[d] = c.K
		if fk := lay.fileKind(c.Path); fk == "marker" || fk == "step-log" {
			endFrom = c.K + 1
		}
	}
	var ks []int
	add := func(k int) {
		if k < 1 || k > len(tr.Calls) {
			return
		}
		for _, x := range ks {
			if x == k {
				return
			}
		}
		ks = append(ks, k)
	}
	add(endFrom)
	add(last["write(history)"])
	add(last["write(history)"] + 1)
	add(last["write(history-compacted)"])
	add(last["unlink(history)"])
	add(last["fsync(history-compacted)"])
	return ks
}

// watchedRun: an untraced run to completion, watched by a client that keeps
// asking for the latest status, the history and the run by its id while it is
// alive; afterwards that client and a fresh one must report the final status
// that equals the markers (latest, by request id, newest history entry).
func (hn *harness) watchedRun(g *group, mb member, verbose bool) error {
	def := g.def
	in, mdir, skip, err := hn.fresh(g, "watched")
	if err != nil {
		return err
	}
	defer in.cleanup(mdir)
	d, err := dag.LoadMetadata(in.dagFile)
	if err != nil {
		return err
	}
	cmd := exec.Command(hn.tl.bd, "start", "-q", in.dagFile)
	cmd.Env = in.environ()
	cmd.Dir = in.dir
	var stderr bytes.Buffer
	cmd.Stdout, cmd.Stderr = &stderr, &stderr
	if err := cmd.Start(); err != nil {
		return fmt.Errorf("cannot start the binary: %v", err)
	}
	proc := make(chan error, 1)
	go func() { proc <- cmd.Wait() }()
	ll := in.client()
	rounds := 0
	var perr error
	deadline := time.After(watchdog)
wait:
	for {
		select {
		case perr = <-proc:
			break wait
		case <-deadline:
			_ = cmd.Process.Kill()
			<-proc
			return fmt.Errorf("watchdog: an untraced run of %s did not end within %s", def.Name, watchdog)
		default:
		}
		if runs := in.runsExcept(skip); len(runs) == 1 && runs[0].last() != nil {
			for _, op := range []string{"latest", "history1", "byRequestID", "status"} {
				_ = doRead(ll, d, def.Name, op, runs[0].last().RequestID)
			}
			rounds++
		}
		time.Sleep(5 * time.Millisecond)
	}
	rr := &runResult{stderr: stderr.String()}
	if rr.exit, err = exitCode(perr); err != nil {
		return err
	}
	hn.res.Evaluations++
	hn.res.Count("watched_runs", 1)
	hn.res.Count("watched_runs_read_rounds_while_alive", int64(rounds))
	hn.res.Nontrivial(vlib.Hash("watched-run", def.Name))
	m := readMarkers(in.markers)
	fs := hn.finalCheck(in, def, skip, rr, m, "after an untraced run watched by a long-lived client", ll)
	if verbose {
		fmt.Printf("DAG %s (%s): watched run exit %d, %d read rounds while alive, markers {%s}\n", def.Name, def.About, rr.exit, rounds, vlib.Short(m.String(), 300))
	}
	seen := map[string]bool{}
	for _, f := range fs {
		sig := "C08/" + f.Kind
		if verbose {
			fmt.Printf("  FINDING %s: %s\n", sig, vlib.Short(f.Detail, 600))
		}
		if seen[sig] {
			continue
		}
		seen[sig] = true
		hn.res.Violate(sig, fmt.Sprintf("DAG %s (%s): %s", def.Name, def.About, vlib.Short(f.Detail, 1500)), mb)
	}
	return nil
}
