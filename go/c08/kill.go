package main

import (
	"fmt"
	"os"
	"path/filepath"
	"strings"
	"time"

	"github.com/ErdemOzgen/blackdagger/internal/client"
	"github.com/ErdemOzgen/blackdagger/internal/dag"
	"github.com/ErdemOzgen/blackdagger/internal/persistence/model"
	"github.com/ErdemOzgen/blackdagger/internal/scheduler"
	"github.com/ErdemOzgen/blackdagger/internal/zzverif/vlib"
)

// isFinal: the line the agent writes after Schedule returned — the only one
// carrying the run's FinishedAt.
func isFinal(st *model.Status) bool {
	return st != nil && st.FinishedAt != "" && st.FinishedAt != "-" && st.Status.String() != stRunning && st.Status.String() != stNone
}

// phaseOf: where in the life of the run the kill fell, from the kill run's
// own trace (calls[0:K-1] returned, calls[K-1] is the one that never ran) and
// from what survived.
func phaseOf(lay layout, calls []Call, own *runRecord) string {
	done := map[string]int{}
	for _, c := range calls {
		if c.Done && c.Ret >= 0 {
			done[lay.desc(c)]++
		}
	}
	finalRec := own != nil && isFinal(own.last())
	switch {
	case done["create(history)"] == 0:
		return "startup"
	case done["write(history)"] == 0:
		return "history-empty"
	case done["listen(socket)"] == 0:
		return "recorded-before-socket"
	case !finalRec && done["create(step-log)"] == 0:
		return "socket-up"
	case !finalRec:
		return "executing"
	case done["create(history-compacted)"] == 0:
		return "final-recorded"
	case done["write(history-compacted)"] == 0:
		return "compacting-empty-copy"
	case done["unlink(history)"] == 0:
		return "compacting-both-files"
	}
	return "compacted"
}

func safely(what string, f func()) (panicked string) {
	defer func() {
		if r := recover(); r != nil {
			panicked = fmt.Sprintf("panic in %s: %v", what, r)
		}
	}()
	f()
	return ""
}

// jobCheck: the daemon's job object for the DAG, asked to start it for the
// next scheduled minute and for the current one.
func jobCheck(in *inst, cli client.Client, d *dag.DAG, when string) (fs []finding, classes []string) {
	now := time.Now()
	for _, next := range []time.Time{now.Truncate(time.Minute).Add(time.Minute), now.Truncate(time.Minute)} {
		before := len(in.stubCalls())
		var class string
		var err error
		if p := safely("jobImpl.Start", func() { class, err = scheduler.VerifC08JobStart(d, in.stub, in.dir, next, cli) }); p != "" {
			fs = append(fs, finding{"after-kill/daemon-job-error/panic", when + ": " + p})
			continue
		}
		classes = append(classes, class)
		calls := in.stubCalls()
		switch class {
		case "other":
			what := "other"
			if strings.Contains(err.Error(), "EOF") {
				what = "latest-status-eof"
			}
			fs = append(fs, finding{"after-kill/daemon-job-error/" + what, fmt.Sprintf("%s: jobImpl.Start() for the scheduled minute %s returned %q — neither nil nor one of the sentinel errors; the daemon logs it and does not start the DAG", when, next.Format("15:04"), err)})
		case "started":
			want := "start -q " + in.dagFile
			if len(calls) != before+1 || calls[len(calls)-1] != want {
				fs = append(fs, finding{"after-kill/daemon-job-error/start-not-issued", fmt.Sprintf("%s: jobImpl.Start() returned nil but the executable was not invoked once with %q: %v", when, want, calls[before:])})
			}
		default:
			if len(calls) != before {
				fs = append(fs, finding{"after-kill/daemon-job-error/started-despite-sentinel", fmt.Sprintf("%s: jobImpl.Start() returned %v and yet invoked the executable: %v", when, err, calls[before:])})
			}
		}
	}
	return fs, classes
}

// restartFailure classifies why a second start of the same file did not work.
func restartFailure(in *inst, rr *runResult) string {
	text := rr.stderr
	logs, _ := filepath.Glob(filepath.Join(in.dir, "logs", "*", "start_*.log"))
	if len(logs) > 0 {
		newest := logs[0]
		for _, l := range logs {
			if l > newest {
				newest = l
			}
		}
		b, _ := os.ReadFile(newest)
		text += string(b)
	}
	switch {
	case strings.Contains(text, "failed to start the unix socket"):
		return "stale-socket"
	case strings.Contains(text, "is already running"):
		return "taken-for-running"
	case strings.Contains(text, "connection refused"):
		return "stale-socket-refuses-connection"
	case strings.Contains(text, "panic:") || rr.exit == 2:
		return "agent-crash"
	case strings.Contains(text, "EOF"):
		return "history-eof"
	}
	return fmt.Sprintf("exit-%d", rr.exit)
}

// observer: a client asked after the kill. tag "" = a fresh client (cold
// cache); otherwise a client that lived through the run and had performed a
// sequence of reads while the run was alive ("long-lived-client(after=…)").
type observer struct {
	tag string
	cli client.Client
}

// killed: what one killed run left behind, and where the kill fell.
type killed struct {
	in    *inst
	skip  map[string]bool
	phase string
	pos   string // phase + "/at=" + call class: the crash-point class, tail of every signature
	where string // the kill point in words
	own   *runRecord
	surv  string
	m1    markers
}

func (o observer) at(pos string) string {
	if o.tag == "" {
		return pos
	}
	return o.tag + "/" + pos
}

func (o observer) key(k string) string {
	if o.tag == "" {
		return k
	}
	return k + " / " + o.tag
}

func (o observer) who() string {
	if o.tag == "" {
		return "a fresh client"
	}
	return "the " + o.tag
}

// survey reads what the killed run left behind (and puts its markers aside).
func survey(in *inst, skip map[string]bool) (*runRecord, string, markers, error) {
	var own *runRecord
	if runs := in.runsExcept(skip); len(runs) > 1 {
		return nil, "", nil, fmt.Errorf("more than one new run in the history directory: %v", runs)
	} else if len(runs) == 1 {
		own = runs[0]
	}
	surv := in.stateSummary(skip)
	return own, surv, in.takeMarkers(), nil
}

// postMortem: everything the property says about a DAG whose run was killed,
// asked of every observer: what is reported now; the daemon's job object; a
// second start of the same file; the job object again.
func (hn *harness) postMortem(def *dagDef, kd *killed, obs []observer) (fs []finding, summary map[string]any, err error) {
	in, pos, own, m1 := kd.in, kd.pos, kd.own, kd.m1
	t1 := def.truth(m1)
	var ownLast *model.Status
	if own != nil {
		ownLast = own.last()
	}
	finalWritten := isFinal(ownLast)
	add := func(kind, format string, a ...any) {
		fs = append(fs, finding{kind, fmt.Sprintf(format, a...)})
	}
	d, err := dag.LoadMetadata(in.dagFile)
	if err != nil {
		return nil, nil, fmt.Errorf("cannot load %s: %v", in.dagFile, err)
	}
	summary = map[string]any{}
	for _, o := range obs {
		p := o.at(pos)
		cli := o.cli
		// 1. what is reported now
		var st *model.Status
		var serr error
		if pn := safely("GetLatestStatus", func() { st, serr = cli.GetLatestStatus(d) }); pn != "" {
			add("after-kill/latest-status-error/panic/"+p, "%s: %s", o.who(), pn)
		} else if serr != nil {
			add("after-kill/latest-status-error/"+p, "asked of %s, GetLatestStatus returns error %q (status object: %s)", o.who(), serr, describe(st))
		} else if st == nil {
			add("after-kill/latest-status-error/"+p, "asked of %s, GetLatestStatus returns neither a status nor an error", o.who())
		} else {
			mine := own != nil && strings.HasPrefix(st.RequestID, own.ID8)
			switch {
			case st.Status.String() == stRunning:
				add("after-kill/reported-running/"+p, "the process is dead; asked of %s, GetLatestStatus reports the DAG running: %s", o.who(), describe(st))
			case mine && st.Status.String() == stFinished && !(finalWritten && ownLast.Status.String() == stFinished && t1.Complete && t1.Run == stFinished):
				// steps-missing: part of the DAG never ran; all-steps-done: every step and handler ran to its
				// end, the kill fell before the agent recorded the end of the run
				sub := "steps-missing"
				if t1.Complete && t1.Run == stFinished {
					sub = "all-steps-done"
				}
				add("after-kill/reported-succeeded-but-cut-short/"+sub+"/"+p, "asked of %s, the killed run is reported as succeeded: %s; final status line (the one written after the scheduler returned, carrying FinishedAt) written: %v; markers {%s} (all steps and handlers ran to their end: %v)", o.who(), describe(st), finalWritten, m1, t1.Complete)
			case ownLast != nil && !mine:
				add("after-kill/killed-run-hidden/"+p, "the killed run %q had recorded %s, but the status reported to %s is not about it: %s", own.ID8, own, o.who(), describe(st))
			case finalWritten && st.Status != ownLast.Status:
				add("after-kill/final-status-not-reported/"+p, "the killed run had written its final status line (%s); reported to %s: %s", describe(ownLast), o.who(), describe(st))
			}
			if finalWritten && mine && st.Status == ownLast.Status {
				// the final line is there and is reported: it must then equal the markers, as after any run
				for _, f := range checkFinal(def, st, nil, m1, own.ID8) {
					add(strings.Replace(f.Kind, "final/", "after-kill/final-", 1)+"/"+p, "%s", f.Detail)
				}
			}
		}
		summary[o.key("reported")] = describe(st)
		// the same through the path the web UI takes, the socket probe, the run looked up by its id;
		// the history reads are made as well (they go through the same file cache)
		var ds *client.DAGStatus
		if pn := safely("GetStatus", func() { ds, _ = cli.GetStatus(def.Name) }); pn != "" {
			add("after-kill/latest-status-error/panic/"+p, "%s: %s", o.who(), pn)
		} else if ds != nil && ds.Status != nil && ds.Status.Status.String() == stRunning {
			add("after-kill/reported-running/"+p, "asked of %s, client.GetStatus(%q) reports the DAG running: %s", o.who(), def.Name, describe(ds.Status))
		}
		var cur *model.Status
		if pn := safely("GetCurrentStatus", func() { cur, _ = cli.GetCurrentStatus(d) }); pn != "" {
			add("after-kill/latest-status-error/panic/"+p, "%s: %s", o.who(), pn)
		} else if cur != nil && cur.Status.String() == stRunning {
			add("after-kill/reported-running/"+p, "asked of %s, client.GetCurrentStatus reports the DAG running although its process is dead: %s", o.who(), describe(cur))
		}
		if ownLast != nil {
			var byID *model.Status
			if pn := safely("GetStatusByRequestID", func() { byID, _ = cli.GetStatusByRequestID(d, ownLast.RequestID) }); pn != "" {
				add("after-kill/latest-status-error/panic/"+p, "%s: %s", o.who(), pn)
			} else if byID != nil && byID.Status.String() == stRunning {
				add("after-kill/reported-running/"+p, "asked of %s, client.GetStatusByRequestID(%q) reports the killed run as running: %s", o.who(), ownLast.RequestID, describe(byID))
			}
		}
		for _, n := range []int{1, 1000} {
			if pn := safely("GetRecentHistory", func() { _ = cli.GetRecentHistory(d, n) }); pn != "" {
				add("after-kill/latest-status-error/panic/"+p, "%s: %s", o.who(), pn)
			}
		}
		// 2. the daemon's job object, over this observer's data stores, on what the kill left behind
		jf, jc := jobCheck(in, cli, d, "right after the kill, over the data stores of "+o.who())
		for _, f := range jf {
			add(f.Kind+"/"+p, "%s", f.Detail)
		}
		summary[o.key("job_after_kill")] = jc
	}

	// 3. the DAG can be started again
	skip2 := map[string]bool{}
	for k := range kd.skip {
		skip2[k] = true
	}
	if own != nil {
		skip2[own.ID8] = true
	}
	var rr2 *runResult
	var m2 markers
	hung := false
	for attempt := 0; attempt < 4; attempt++ {
		rr2, hung, err = in.runPlain(hn.tl)
		if err != nil {
			return nil, nil, err
		}
		if hung {
			continue // once more: only a hang that repeats is reported
		}
		m2 = readMarkers(in.markers)
		if isCrashAtEnd(rr2) && def.truth(m2).Complete {
			// The second run did everything and then crashed at its very end. That has nothing to do
			// with the kill before it: it is reported as what it is, and the restart is tried again.
			add("final/agent-crash-at-end-of-run", "an untraced `start -q` of DAG %s ran all its steps (markers {%s}) and then exits 2; stderr: %s", def.Name, m2, vlib.Short(rr2.stderr, 1500))
			for _, r := range in.runsExcept(skip2) {
				skip2[r.ID8] = true
			}
			_ = in.takeMarkers()
			continue
		}
		break
	}
	summary["restart_exit"] = rr2.exit
	summary["restart_markers"] = m2.String()
	restarted := false
	var run2 *runRecord
	switch {
	case hung:
		add("after-kill/cannot-restart/hang/"+pos, "a second `start -q` of the same file did not end within %s (repeatedly)", watchdog)
	case rr2.exit != def.expectExit() || !def.truth(m2).Complete:
		add("after-kill/cannot-restart/"+restartFailure(in, rr2)+"/"+pos, "a second `start -q` of the same file exits %d (a run to completion exits %d); markers of that run {%s}; stderr %s", rr2.exit, def.expectExit(), m2, vlib.Short(rr2.stderr, 400))
	default:
		runs := in.runsExcept(skip2)
		if len(runs) != 1 {
			add("after-kill/restart-not-recorded/"+pos, "the second run ran to completion but the history directory holds %d new runs: %v", len(runs), runs)
		} else {
			restarted, run2 = true, runs[0]
		}
	}
	for _, o := range obs {
		p := o.at(pos)
		if restarted {
			var st2 *model.Status
			var err2 error
			if pn := safely("GetLatestStatus", func() { st2, err2 = o.cli.GetLatestStatus(d) }); pn != "" {
				add("after-kill/latest-status-error/panic/"+p, "after the restart, %s: %s", o.who(), pn)
			} else {
				for _, f := range checkFinal(def, st2, err2, m2, run2.ID8) {
					add(strings.Replace(f.Kind, "final/", "after-kill/restart-", 1)+"/"+p, "after the second run (to completion, exit %d), asked of %s: %s", rr2.exit, o.who(), f.Detail)
				}
			}
		}
		// 4. and the daemon keeps handling it
		jf, jc := jobCheck(in, o.cli, d, "after the restart, over the data stores of "+o.who())
		for _, f := range jf {
			add(f.Kind+"/"+p, "%s", f.Detail)
		}
		summary[o.key("job_after_restart")] = jc
	}
	return fs, summary, nil
}

// report turns the findings of one kill member into violations.
func (hn *harness) report(def *dagDef, mb member, kd *killed, fs []finding, verbose bool) {
	seen := map[string]bool{}
	for _, f := range fs {
		sig := "C08/" + f.Kind
		if verbose {
			fmt.Printf("  FINDING %s: %s\n", sig, f.Detail)
		}
		if seen[sig] {
			continue
		}
		seen[sig] = true
		if strings.HasPrefix(f.Kind, "final/") {
			hn.res.Violate(sig, f.Detail+fmt.Sprintf(" (seen in the second, untraced run of kill member %s K=%d; a race at the end of agent.Run, independent of the kill)", def.Name, mb.K), mb)
			continue
		}
		hn.res.Violate(sig, fmt.Sprintf("DAG %s (%s)%s, %s (phase %s); left behind: %s. %s",
			def.Name, def.About, map[bool]string{true: " after one completed run", false: ""}[mb.Prior], kd.where, kd.phase, kd.surv, f.Detail), mb)
	}
}

// kill executes one member of the kill enumeration.
func (hn *harness) kill(g *group, mb member, verbose bool) error {
	res := hn.res
	def := g.def
	var in *inst
	var mdir string
	var skip map[string]bool
	var rr *runResult
	var why string
	for attempt := 0; attempt < 2; attempt++ {
		var err error
		in, mdir, skip, err = hn.fresh(g, "kill")
		if err != nil {
			return err
		}
		rr, err = in.runTraced(hn.tl, filepath.Join(mdir, "trace"), "--kill-at", fmt.Sprint(mb.K))
		if err != nil {
			in.cleanup(mdir)
			return fmt.Errorf("DAG %s K=%d: %v", def.Name, mb.K, err)
		}
		if rr.exit != 99 {
			// the run ended before its K-th call: this execution has fewer calls
			n := len(rr.trace.Calls)
			in.cleanup(mdir)
			if mb.K <= n {
				return fmt.Errorf("DAG %s K=%d: vtrace exit %d although the trace has %d calls (end: %s; stderr %s)", def.Name, mb.K, rr.exit, n, rr.trace.End, vlib.Short(rr.stderr, 200))
			}
			res.Count("kill_points_beyond_end_of_run", 1)
			return nil
		}
		why = hn.validateKill(g, in, mb, rr)
		if why == "" {
			break
		}
		res.Count("kill_runs_repeated", 1)
		in.cleanup(mdir)
	}
	if why != "" {
		return fmt.Errorf("scenario not deterministic: DAG %s prior=%v K=%d: %s", def.Name, mb.Prior, mb.K, why)
	}
	defer in.cleanup(mdir)
	res.Evaluations++

	calls := rr.trace.Calls
	call := calls[mb.K-1]
	own, surv, m1, err := survey(in, skip)
	if err != nil {
		return fmt.Errorf("DAG %s K=%d: %v", def.Name, mb.K, err)
	}
	kd := &killed{in: in, skip: skip, own: own, surv: surv, m1: m1}
	kd.phase = phaseOf(in.lay, calls, own)
	kd.pos = kd.phase + "/at=" + in.lay.desc(call)
	kd.where = fmt.Sprintf("process killed at the entry of relevant call K=%d [%s]", mb.K, in.lay.short(call))
	nontrivial := surv != g.before && surv != g.after
	if nontrivial {
		res.Nontrivial(vlib.Hash("kill", def.Name, mb.Prior, mb.K))
	}
	res.Count("kill_runs:"+def.Name, 1)
	res.Count("kill_phase:"+kd.phase, 1)

	// one client for everything that follows, like a daemon that lives on
	fs, sum, err := hn.postMortem(def, kd, []observer{{"", in.client()}})
	if err != nil {
		return err
	}
	if own == nil {
		// nothing of this run is in the history: fine while it had recorded nothing; not after status writes that returned
		acked := 0
		for _, c := range calls[:mb.K-1] {
			if c.Done && c.Ret > 0 && in.lay.desc(c) == "write(history)" {
				acked++
			}
		}
		if acked > 0 {
			fs = append(fs, finding{"after-kill/recorded-run-vanished/" + kd.pos, fmt.Sprintf("the killed run had written %d status record(s) (writes that returned), yet nothing of it is left in the history: whatever is reported for the DAG is not about this run; left behind: %s", acked, surv)})
		}
	}
	if mb.K%7 == 3 && !mb.Prior {
		sum["dag"], sum["prior"], sum["k"], sum["killed_at"], sum["position"] = def.Name, mb.Prior, mb.K, in.lay.short(call), kd.pos
		sum["left_behind"], sum["differs_from_before_and_after"] = surv, nontrivial
		res.Sample(sum)
	}
	if verbose {
		fmt.Printf("DAG %s (%s) prior=%v K=%d position %s\n  killed at: %s\n  left behind: %s\n  %v\n", def.Name, def.About, mb.Prior, mb.K, kd.pos, in.lay.short(call), surv, sum)
		for _, c := range calls {
			fmt.Printf("  %3d %-32s %s ret=%d done=%v\n", c.K, in.lay.desc(c), in.lay.short(c), c.Ret, c.Done)
		}
	}
	hn.report(def, mb, kd, fs, verbose)
	return nil
}

// validateKill: the run was killed exactly at its K-th call, and up to there it
// made only calls of the classes (and no more of them) the baselines make.
func (hn *harness) validateKill(g *group, in *inst, mb member, rr *runResult) string {
	calls := rr.trace.Calls
	if len(calls) != mb.K {
		return fmt.Sprintf("trace has %d calls, expected %d", len(calls), mb.K)
	}
	for i, c := range calls {
		if i < mb.K-1 && !c.Done {
			// a call of another thread may be in flight at the kill; only file-system calls that block could; accept
			continue
		}
		if i == mb.K-1 && c.Done {
			return fmt.Sprintf("call %d was to be killed at entry but returned: %q", mb.K, c.Raw)
		}
	}
	for k, v := range in.lay.classCounts(calls) {
		max, ok := g.classes[k]
		if !ok {
			return fmt.Sprintf("call class %s does not occur in any baseline", k)
		}
		if v > max && !g.varies(k) {
			return fmt.Sprintf("%d calls of class %s, the baselines have at most %d", v, k, max)
		}
	}
	return ""
}
