package main

import (
	"fmt"
	"os"
	"path/filepath"
	"strings"
	"time"

	"github.com/ErdemOzgen/blackdagger/internal/client"
	"github.com/ErdemOzgen/blackdagger/internal/dag"
	"github.com/ErdemOzgen/blackdagger/internal/persistence/model"
	"github.com/ErdemOzgen/blackdagger/internal/scheduler"
	"github.com/ErdemOzgen/blackdagger/internal/zzverif/vlib"
)

// isFinal: the line the agent writes after Schedule returned — the only one
// carrying the run's FinishedAt.
func isFinal(st *model.Status) bool {
	return st != nil && st.FinishedAt != "" && st.FinishedAt != "-" && st.Status.String() != stRunning && st.Status.String() != stNone
}

// phaseOf: where in the life of the run the kill fell, from the kill run's
// own trace (calls[0:K-1] returned, calls[K-1] is the one that never ran) and
// from what survived.
func phaseOf(lay layout, calls []Call, own *runRecord) string {
	done := map[string]int{}
	for _, c := range calls {
		if c.Done && c.Ret >= 0 {
			done[lay.desc(c)]++
		}
	}
	finalRec := own != nil && isFinal(own.last())
	switch {
	case done["create(history)"] == 0:
		return "startup"
	case done["write(history)"] == 0:
		return "history-empty"
	case done["listen(socket)"] == 0:
		return "recorded-before-socket"
	case !finalRec && done["create(step-log)"] == 0:
		return "socket-up"
	case !finalRec:
		return "executing"
	case done["create(history-compacted)"] == 0:
		return "final-recorded"
	case done["write(history-compacted)"] == 0:
		return "compacting-empty-copy"
	case done["unlink(history)"] == 0:
		return "compacting-both-files"
	}
	return "compacted"
}

func safely(what string, f func()) (panicked string) {
	defer func() {
		if r := recover(); r != nil {
			panicked = fmt.Sprintf("panic in %s: %v", what, r)
		}
	}()
	f()
	return ""
}

// jobCheck: the daemon's job object for the DAG, asked to start it for the
// next scheduled minute and for the current one.
func jobCheck(in *inst, cli client.Client, d *dag.DAG, when string) (fs []finding, classes []string) {
	now := time.Now()
	for _, next := range []time.Time{now.Truncate(time.Minute).Add(time.Minute), now.Truncate(time.Minute)} {
		before := len(in.stubCalls())
		var class string
		var err error
		if p := safely("jobImpl.Start", func() { class, err = scheduler.VerifC08JobStart(d, in.stub, in.dir, next, cli) }); p != "" {
			fs = append(fs, finding{"after-kill/daemon-job-error/panic", when + ": " + p})
			continue
		}
		classes = append(classes, class)
		calls := in.stubCalls()
		switch class {
		case "other":
			what := "other"
			if strings.Contains(err.Error(), "EOF") {
				what = "latest-status-eof"
			}
			fs = append(fs, finding{"after-kill/daemon-job-error/" + what, fmt.Sprintf("%s: jobImpl.Start() for the scheduled minute %s returned %q — neither nil nor one of the sentinel errors; the daemon logs it and does not start the DAG", when, next.Format("15:04"), err)})
		case "started":
			want := "start -q " + in.dagFile
			if len(calls) != before+1 || calls[len(calls)-1] != want {
				fs = append(fs, finding{"after-kill/daemon-job-error/start-not-issued", fmt.Sprintf("%s: jobImpl.Start() returned nil but the executable was not invoked once with %q: %v", when, want, calls[before:])})
			}
		default:
			if len(calls) != before {
				fs = append(fs, finding{"after-kill/daemon-job-error/started-despite-sentinel", fmt.Sprintf("%s: jobImpl.Start() returned %v and yet invoked the executable: %v", when, err, calls[before:])})
			}
		}
	}
	return fs, classes
}

// restartFailure classifies why a second start of the same file did not work.
func restartFailure(in *inst, rr *runResult) string {
	text := rr.stderr
	logs, _ := filepath.Glob(filepath.Join(in.dir, "logs", "*", "start_*.log"))
	if len(logs) > 0 {
		newest := logs[0]
		for _, l := range logs {
			if l > newest {
				newest = l
			}
		}
		b, _ := os.ReadFile(newest)
		text += string(b)
	}
	switch {
	case strings.Contains(text, "failed to start the unix socket"):
		return "stale-socket"
	case strings.Contains(text, "is already running"):
		return "taken-for-running"
	case strings.Contains(text, "connection refused"):
		return "stale-socket-refuses-connection"
	case strings.Contains(text, "panic:") || rr.exit == 2:
		return "agent-crash"
	case strings.Contains(text, "EOF"):
		return "history-eof"
	}
	return fmt.Sprintf("exit-%d", rr.exit)
}

// kill executes one member of the kill enumeration.
func (hn *harness) kill(g *group, mb member, verbose bool) error {
	res := hn.res
	def := g.def
	var in *inst
	var mdir string
	var skip map[string]bool
	var rr *runResult
	var why string
	for attempt := 0; attempt < 2; attempt++ {
		var err error
		in, mdir, skip, err = hn.fresh(g, "kill")
		if err != nil {
			return err
		}
		rr, err = in.runTraced(hn.tl, filepath.Join(mdir, "trace"), "--kill-at", fmt.Sprint(mb.K))
		if err != nil {
			in.cleanup(mdir)
			return fmt.Errorf("DAG %s K=%d: %v", def.Name, mb.K, err)
		}
		if rr.exit != 99 {
			// the run ended before its K-th call: this execution has fewer calls
			n := len(rr.trace.Calls)
			in.cleanup(mdir)
			if mb.K <= n {
				return fmt.Errorf("DAG %s K=%d: vtrace exit %d although the trace has %d calls (end: %s; stderr %s)", def.Name, mb.K, rr.exit, n, rr.trace.End, vlib.Short(rr.stderr, 200))
			}
			res.Count("kill_points_beyond_end_of_run", 1)
			return nil
		}
		why = hn.validateKill(g, in, mb, rr)
		if why == "" {
			break
		}
		res.Count("kill_runs_repeated", 1)
		in.cleanup(mdir)
	}
	if why != "" {
		return fmt.Errorf("scenario not deterministic: DAG %s prior=%v K=%d: %s", def.Name, mb.Prior, mb.K, why)
	}
	defer in.cleanup(mdir)
	res.Evaluations++

	calls := rr.trace.Calls
	call := calls[mb.K-1]
	// what the killed run left behind
	var own *runRecord
	if runs := in.runsExcept(skip); len(runs) > 1 {
		return fmt.Errorf("DAG %s K=%d: more than one new run in the history directory: %v", def.Name, mb.K, runs)
	} else if len(runs) == 1 {
		own = runs[0]
	}
	surv := in.stateSummary(skip)
	m1 := in.takeMarkers()
	t1 := def.truth(m1)
	phase := phaseOf(in.lay, calls, own)
	pos := phase + "/at=" + in.lay.desc(call)
	nontrivial := surv != g.before && surv != g.after
	if nontrivial {
		res.Nontrivial(vlib.Hash("kill", def.Name, mb.Prior, mb.K))
	}
	res.Count("kill_runs:"+def.Name, 1)
	res.Count("kill_phase:"+phase, 1)
	var ownLast *model.Status
	if own != nil {
		ownLast = own.last()
	}
	finalWritten := isFinal(ownLast)

	var fs []finding
	add := func(kind, format string, a ...any) {
		fs = append(fs, finding{kind, fmt.Sprintf(format, a...)})
	}
	d, err := dag.LoadMetadata(in.dagFile)
	if err != nil {
		return fmt.Errorf("cannot load %s: %v", in.dagFile, err)
	}
	cli := in.client() // one client for everything that follows, like a daemon that lives on

	// 1. what is reported now
	var st *model.Status
	var serr error
	if p := safely("GetLatestStatus", func() { st, serr = cli.GetLatestStatus(d) }); p != "" {
		add("after-kill/latest-status-error/panic/"+pos, "%s", p)
	} else if serr != nil {
		add("after-kill/latest-status-error/"+pos, "GetLatestStatus returns error %q (status object: %s)", serr, describe(st))
	} else if st == nil {
		add("after-kill/latest-status-error/"+pos, "GetLatestStatus returns neither a status nor an error")
	} else {
		mine := own != nil && strings.HasPrefix(st.RequestID, own.ID8)
		switch {
		case st.Status.String() == stRunning:
			add("after-kill/reported-running/"+pos, "the process is dead, the DAG is reported running: %s", describe(st))
		case mine && st.Status.String() == stFinished && !(finalWritten && ownLast.Status.String() == stFinished && t1.Complete && t1.Run == stFinished):
			// steps-missing: part of the DAG never ran; all-steps-done: every step and handler ran to its
			// end, the kill fell before the agent recorded the end of the run
			sub := "steps-missing"
			if t1.Complete && t1.Run == stFinished {
				sub = "all-steps-done"
			}
			add("after-kill/reported-succeeded-but-cut-short/"+sub+"/"+pos, "the killed run is reported as succeeded: %s; final status line (the one written after the scheduler returned, carrying FinishedAt) written: %v; markers {%s} (all steps and handlers ran to their end: %v)", describe(st), finalWritten, m1, t1.Complete)
		case ownLast != nil && !mine:
			add("after-kill/killed-run-hidden/"+pos, "the killed run %q had recorded %s, but the status reported is not about it: %s", own.ID8, own, describe(st))
		case finalWritten && st.Status != ownLast.Status:
			add("after-kill/final-status-not-reported/"+pos, "the killed run had written its final status line (%s); reported: %s", describe(ownLast), describe(st))
		}
		if finalWritten && mine && st.Status == ownLast.Status {
			// the final line is there and is reported: it must then equal the markers, as after any run
			for _, f := range checkFinal(def, st, nil, m1, own.ID8) {
				add(strings.Replace(f.Kind, "final/", "after-kill/final-", 1)+"/"+pos, "%s", f.Detail)
			}
		}
	}
	// the same through the path the web UI takes
	var ds *client.DAGStatus
	if p := safely("GetStatus", func() { ds, _ = cli.GetStatus(def.Name) }); p != "" {
		add("after-kill/latest-status-error/panic/"+pos, "%s", p)
	} else if ds != nil && ds.Status != nil && ds.Status.Status.String() == stRunning {
		add("after-kill/reported-running/"+pos, "client.GetStatus(%q) reports the DAG running: %s", def.Name, describe(ds.Status))
	}

	// 2. the daemon's job object on what the kill left behind
	jf, jc1 := jobCheck(in, cli, d, "right after the kill")
	for _, f := range jf {
		add(f.Kind+"/"+pos, "%s", f.Detail)
	}

	// 3. the DAG can be started again
	skip2 := map[string]bool{}
	for k := range skip {
		skip2[k] = true
	}
	if own != nil {
		skip2[own.ID8] = true
	}
	var rr2 *runResult
	var m2 markers
	hung := false
	for attempt := 0; attempt < 4; attempt++ {
		rr2, hung, err = in.runPlain(hn.tl)
		if err != nil {
			return err
		}
		if hung {
			continue // once more: only a hang that repeats is reported
		}
		m2 = readMarkers(in.markers)
		if rr2.exit == 2 && strings.Contains(rr2.stderr, "panic:") && def.truth(m2).Complete {
			// The second run did everything and then crashed at its very end. That has nothing to do
			// with the kill before it: it is reported as what it is, and the restart is tried again.
			add("final/agent-crash-at-end-of-run", "an untraced `start -q` of DAG %s ran all its steps (markers {%s}) and then exits 2; stderr: %s", def.Name, m2, vlib.Short(rr2.stderr, 1500))
			for _, r := range in.runsExcept(skip2) {
				skip2[r.ID8] = true
			}
			_ = in.takeMarkers()
			continue
		}
		break
	}
	switch {
	case hung:
		add("after-kill/cannot-restart/hang/"+pos, "a second `start -q` of the same file did not end within %s (repeatedly)", watchdog)
	case rr2.exit != def.expectExit() || !def.truth(m2).Complete:
		add("after-kill/cannot-restart/"+restartFailure(in, rr2)+"/"+pos, "a second `start -q` of the same file exits %d (a run to completion exits %d); markers of that run {%s}; stderr %s", rr2.exit, def.expectExit(), m2, vlib.Short(rr2.stderr, 400))
	default:
		runs := in.runsExcept(skip2)
		if len(runs) != 1 {
			add("after-kill/restart-not-recorded/"+pos, "the second run ran to completion but the history directory holds %d new runs: %v", len(runs), runs)
		} else {
			var st2 *model.Status
			var err2 error
			if p := safely("GetLatestStatus", func() { st2, err2 = cli.GetLatestStatus(d) }); p != "" {
				add("after-kill/latest-status-error/panic/"+pos, "after the restart: %s", p)
			} else {
				for _, f := range checkFinal(def, st2, err2, m2, runs[0].ID8) {
					add(strings.Replace(f.Kind, "final/", "after-kill/restart-", 1)+"/"+pos, "after the second run (to completion, exit %d): %s", rr2.exit, f.Detail)
				}
			}
		}
	}
	// 4. and the daemon keeps handling it
	jf, jc2 := jobCheck(in, cli, d, "after the restart")
	for _, f := range jf {
		add(f.Kind+"/"+pos, "%s", f.Detail)
	}

	if mb.K%7 == 3 && !mb.Prior {
		res.Sample(map[string]any{"dag": def.Name, "prior": mb.Prior, "k": mb.K, "killed_at": in.lay.short(call), "position": pos,
			"left_behind": surv, "differs_from_before_and_after": nontrivial, "reported": describe(st),
			"job_after_kill": jc1, "restart_exit": rr2.exit, "job_after_restart": jc2})
	}
	if verbose {
		fmt.Printf("DAG %s (%s) prior=%v K=%d position %s\n  killed at: %s\n  left behind: %s\n  reported: %s err=%v\n  job after kill: %v; restart exit %d markers {%s}; job after restart: %v\n",
			def.Name, def.About, mb.Prior, mb.K, pos, in.lay.short(call), surv, describe(st), serr, jc1, rr2.exit, m2, jc2)
		for _, c := range calls {
			fmt.Printf("  %3d %-32s %s ret=%d done=%v\n", c.K, in.lay.desc(c), in.lay.short(c), c.Ret, c.Done)
		}
	}
	seen := map[string]bool{}
	for _, f := range fs {
		sig := "C08/" + f.Kind
		if verbose {
			fmt.Printf("  FINDING %s: %s\n", sig, f.Detail)
		}
		if seen[sig] {
			continue
		}
		seen[sig] = true
		if strings.HasPrefix(f.Kind, "final/") {
			res.Violate(sig, f.Detail+fmt.Sprintf(" (seen in the second, untraced run of kill member %s K=%d; a race at the end of agent.Run, independent of the kill)", def.Name, mb.K), mb)
			continue
		}
		res.Violate(sig, fmt.Sprintf("DAG %s (%s)%s, process killed at the entry of relevant call K=%d [%s] (phase %s); left behind: %s. %s",
			def.Name, def.About, map[bool]string{true: " after one completed run", false: ""}[mb.Prior], mb.K, in.lay.short(call), phase, surv, f.Detail), mb)
	}
	return nil
}

// validateKill: the run was killed exactly at its K-th call, and up to there it
// made only calls of the classes (and no more of them) the baselines make.
func (hn *harness) validateKill(g *group, in *inst, mb member, rr *runResult) string {
	calls := rr.trace.Calls
	if len(calls) != mb.K {
		return fmt.Sprintf("trace has %d calls, expected %d", len(calls), mb.K)
	}
	for i, c := range calls {
		if i < mb.K-1 && !c.Done {
			// a call of another thread may be in flight at the kill; only file-system calls that block could; accept
			continue
		}
		if i == mb.K-1 && c.Done {
			return fmt.Sprintf("call %d was to be killed at entry but returned: %q", mb.K, c.Raw)
		}
	}
	for k, v := range in.lay.classCounts(calls) {
		max, ok := g.classes[k]
		if !ok {
			return fmt.Sprintf("call class %s does not occur in any baseline", k)
		}
		if v > max && !timingDependent[k] {
			return fmt.Sprintf("%d calls of class %s, the baselines have at most %d", v, k, max)
		}
	}
	return ""
}
