package main

import (
	"fmt"
	"os"
	"strings"
	"time"

	"github.com/ErdemOzgen/blackdagger/internal/persistence/model"
)

// finding: Kind is the tail of the signature (after "C08/").
type finding struct {
	Kind   string
	Detail string
}

func nodeOf(st *model.Status, name string) *model.Node {
	switch name {
	case "onFailure":
		return st.OnFailure
	case "onExit":
		return st.OnExit
	}
	for _, n := range st.Nodes {
		if n != nil && n.Step.Name == name {
			return n
		}
	}
	return nil
}

func (d *dagDef) nodeNames() []string {
	var out []string
	for _, s := range d.Steps {
		out = append(out, s.Name)
	}
	if d.OnFailure {
		out = append(out, "onFailure")
	}
	if d.OnExit {
		out = append(out, "onExit")
	}
	return out
}

func parseT(s string) (time.Time, bool) {
	if s == "" || s == "-" {
		return time.Time{}, false
	}
	for _, f := range []string{time.RFC3339, "2006-01-02 15:04:05"} {
		if t, err := time.ParseInLocation(f, s, time.UTC); err == nil {
			return t, !t.IsZero()
		}
	}
	return time.Time{}, false
}

func describe(st *model.Status) string {
	if st == nil {
		return "<nil>"
	}
	var ns []string
	add := func(n *model.Node, name string) {
		if n != nil {
			ns = append(ns, fmt.Sprintf("%s=%s(retry=%d)", name, n.Status, n.RetryCount))
		}
	}
	for _, n := range st.Nodes {
		if n != nil {
			add(n, n.Step.Name)
		}
	}
	add(st.OnFailure, "onFailure")
	add(st.OnExit, "onExit")
	id := st.RequestID
	if len(id) > 8 {
		id = id[:8]
	}
	return fmt.Sprintf("run %q status=%s started=%q finished=%q nodes{%s}", id, st.Status, st.StartedAt, st.FinishedAt, strings.Join(ns, " "))
}

// checkFinal: the status reported after the run's process ended against the
// markers — exactly the clauses of the property: the run reported is that run,
// it is final, per step the state, the number of attempts, the log path, start
// not after finish; the run's outcome as the markers imply.
func checkFinal(d *dagDef, st *model.Status, err error, m markers, wantID8 string) []finding {
	var out []finding
	add := func(what, format string, a ...any) {
		out = append(out, finding{"final/state-mismatch/" + what, fmt.Sprintf(format, a...)})
	}
	if err != nil {
		return []finding{{"final/latest-status-error", fmt.Sprintf("GetLatestStatus after the run ended: %v", err)}}
	}
	if st == nil {
		add("no-status", "GetLatestStatus returned no status and no error")
		return out
	}
	if wantID8 == "" || !strings.HasPrefix(st.RequestID, wantID8) {
		add("wrong-run", "the run that just ended has request id %q…, reported is %s", wantID8, describe(st))
		return out
	}
	t := d.truth(m)
	if st.Status.String() != t.Run {
		what := "run-status"
		if st.Status.String() == stRunning {
			what = "run-still-running"
		}
		add(what, "markers {%s} imply the run %s, reported: %s", m, t.Run, describe(st))
	}
	if a, ok1 := parseT(st.StartedAt); ok1 {
		if b, ok2 := parseT(st.FinishedAt); ok2 && a.After(b) {
			add("run-times-inverted", "run StartedAt %s after FinishedAt %s", st.StartedAt, st.FinishedAt)
		}
	}
	for _, name := range d.nodeNames() {
		n := nodeOf(st, name)
		kind := "step"
		if name == "onFailure" || name == "onExit" {
			kind = "handler"
		}
		if n == nil {
			add(kind+"-missing", "no node for %s in the reported status: %s", name, describe(st))
			continue
		}
		if n.Status.String() != t.State[name] {
			add(kind+"-state", "%s: markers {%s} imply %q, reported %q (%s)", name, m, t.State[name], n.Status, describe(st))
		}
		att := t.Attempts[name]
		wantRetry := 0
		if att > 0 {
			wantRetry = att - 1
		}
		if n.RetryCount != wantRetry {
			add(kind+"-retry-count", "%s: %d attempt(s) in the markers, reported RetryCount %d", name, att, n.RetryCount)
		}
		if att > 0 {
			if n.Log == "" {
				add(kind+"-log-path", "%s was executed but its reported log path is empty", name)
			} else if _, err := os.Stat(n.Log); err != nil {
				add(kind+"-log-path", "%s was executed but its reported log file does not exist: %v", name, err)
			}
		}
		if a, ok1 := parseT(n.StartedAt); ok1 {
			if b, ok2 := parseT(n.FinishedAt); ok2 && a.After(b) {
				add(kind+"-times-inverted", "%s: StartedAt %s after FinishedAt %s", name, n.StartedAt, n.FinishedAt)
			}
		}
	}
	return out
}

// allowedLive: the states a step may be reported in while the run is alive,
// given its markers at about the time of the query.
func allowedLive(s *stepDef, atts []attempt) map[string]bool {
	if len(atts) == 0 {
		return map[string]bool{stNone: true, stRunning: true, stSkipped: true, stCanceled: true}
	}
	last := atts[len(atts)-1]
	switch {
	case !last.Ended:
		return map[string]bool{stRunning: true}
	case last.RC == 0:
		return map[string]bool{stRunning: true, stFinished: true}
	}
	a := map[string]bool{stRunning: true, stFailed: true}
	if s != nil && s.RetryLimit >= len(atts) {
		a[stNone] = true // waiting to be relaunched
		delete(a, stFailed)
	}
	return a
}

func (d *dagDef) step(name string) *stepDef {
	for i := range d.Steps {
		if d.Steps[i].Name == name {
			return &d.Steps[i]
		}
	}
	return nil
}

// checkLive: the status reported while the run is held inside step `held`.
// m1 / m2: markers read just before and just after the query.
func checkLive(d *dagDef, st *model.Status, err error, wantID string, held string, m1, m2 markers) []finding {
	if err != nil {
		return []finding{{"live/wrong-run-or-not-running", fmt.Sprintf("GetLatestStatus while the run is alive (held in step %s) returned an error: %v", held, err)}}
	}
	if st == nil {
		return []finding{{"live/wrong-run-or-not-running", "GetLatestStatus returned neither status nor error"}}
	}
	if st.RequestID != wantID || st.Status.String() != stRunning {
		return []finding{{"live/wrong-run-or-not-running", fmt.Sprintf("the run alive has request id %q and is held in step %s; reported: %s (full id %q)", wantID, held, describe(st), st.RequestID)}}
	}
	var out []finding
	for _, name := range d.nodeNames() {
		n := nodeOf(st, name)
		if n == nil {
			out = append(out, finding{"live/node-missing", fmt.Sprintf("no node for %s in the live status: %s", name, describe(st))})
			continue
		}
		got := n.Status.String()
		if name == held {
			if got != stRunning {
				out = append(out, finding{"live/held-step-not-running", fmt.Sprintf("the process of step %s exists and is held; it is reported %q (%s; markers {%s})", name, got, describe(st), m2)})
			}
			continue
		}
		a1, a2 := allowedLive(d.step(name), m1[name]), allowedLive(d.step(name), m2[name])
		if !a1[got] && !a2[got] {
			out = append(out, finding{"live/step-state-contradicts-markers", fmt.Sprintf("step %s is reported %q while the markers say {%s} (%s)", name, got, m2, describe(st))})
		}
	}
	return out
}
