package main

import (
	"bytes"
	"fmt"
	"os"
	"os/exec"
	"path/filepath"
	"strings"
	"time"

	"github.com/ErdemOzgen/blackdagger/internal/client"
	"github.com/ErdemOzgen/blackdagger/internal/dag"
	"github.com/ErdemOzgen/blackdagger/internal/persistence/model"
	"github.com/ErdemOzgen/blackdagger/internal/zzverif/vlib"
)

// Third observation family: the AGENT is held at a call of its own end-of-run
// phase — everything after the last step / handler has ended: the last status
// writes, the socket teardown, the compaction, the closing of the logs. The
// process is alive, every step has done what it does; what a client is told
// at such an instant must be the live run (running) or, once it has been
// written, the final status that equals the markers — never a state that
// contradicts what happened ("failed" for a run whose steps all succeeded and
// whose process is alive; "not started" for a run that is finishing and has
// not recorded its end; "finished" with steps missing).

// endObservation is one answer of one client while the agent is held.
type endObservation struct {
	who, via string
	st       *model.Status
	err      error
	took     time.Duration
}

// judgeEnd: is the answer acceptable while the run is finishing?
// finalBefore/finalAfter: had the run's final line been written just before /
// just after the question was asked (other threads of the agent keep running).
func judgeEnd(def *dagDef, o endObservation, id8 string, m markers, finalAfter, vanished bool) (state string, ok bool) {
	st := o.st
	// The reader lists the history files, the agent's compaction removes the original (after writing the
	// compacted copy), the reader then stats / opens the file it had listed: a race between observer and
	// agent that no hold produces — it happens when the question falls into that instant. One class.
	if o.via != "GetCurrentStatus" && vanished && (st == nil || st.RequestID == "") &&
		(o.err == nil || strings.Contains(o.err.Error(), "no such file")) {
		return "history-file-vanished-under-reader", false
	}
	if o.err != nil && o.via == "GetLatestStatus" {
		return "error", false
	}
	if st == nil {
		return "nothing", false
	}
	state = strings.ReplaceAll(st.Status.String(), " ", "-")
	mine := id8 != "" && strings.HasPrefix(st.RequestID, id8)
	switch {
	case mine && st.Status.String() == stRunning:
		// the live answer: the nodes must be in a state their (complete) markers allow
		for _, name := range def.nodeNames() {
			n := nodeOf(st, name)
			if n == nil || !allowedLive(def.step(name), m[name])[n.Status.String()] {
				return "running-with-contradicting-steps", false
			}
		}
		return state, true
	case mine && len(checkFinal(def, st, nil, m, id8)) == 0:
		// the final status, equal to the markers
		return state, true
	case o.via == "GetCurrentStatus" && st.RequestID == "" && st.Status.String() == stNone && finalAfter:
		// "no live run on the socket" is a truthful answer of the socket probe once the end is on record
		return state, true
	}
	if o.via == "GetCurrentStatus" && st.RequestID == "" {
		return "no-live-run", false
	}
	if !mine {
		state += "(other-run)"
	}
	return state, false
}

// endHold executes one member: hold the agent at its relevant call K; if that
// call lies in the end-of-run phase of this execution, observe; release; final truth.
func (hn *harness) endHold(g *group, mb member, verbose bool) error {
	res := hn.res
	def := g.def
	in, mdir, skip, err := hn.fresh(g, "end")
	if err != nil {
		return err
	}
	defer in.cleanup(mdir)
	ready, resume, logPath := filepath.Join(mdir, "ready"), filepath.Join(mdir, "resume"), filepath.Join(mdir, "trace")
	cmd := exec.Command(hn.tl.vtrace, in.vtraceArgs(hn.tl, logPath, "--pause-at", fmt.Sprint(mb.K), "--ready", ready, "--resume", resume)...)
	cmd.Env = in.environ()
	cmd.Dir = in.dir
	var stderr bytes.Buffer
	cmd.Stdout, cmd.Stderr = &stderr, &stderr
	if err := cmd.Start(); err != nil {
		return fmt.Errorf("cannot start vtrace: %v", err)
	}
	proc := make(chan error, 1)
	go func() { proc <- cmd.Wait() }()
	fail := func(format string, a ...any) error {
		_ = cmd.Process.Kill()
		select {
		case <-proc:
		case <-time.After(10 * time.Second):
		}
		return fmt.Errorf("DAG %s end-hold K=%d: "+format, append([]any{def.Name, mb.K}, a...)...)
	}
	finishRun := func() (*runResult, error) {
		_ = os.WriteFile(resume, nil, 0o644)
		select {
		case perr := <-proc:
			proc <- perr
			rr := &runResult{stderr: stderr.String()}
			var err error
			if rr.exit, err = exitCode(perr); err != nil {
				return nil, err
			}
			if rr.trace, err = parseTrace(logPath); err != nil {
				return nil, err
			}
			return rr, nil
		case <-time.After(watchdog):
			return nil, fmt.Errorf("watchdog: the released run did not end within %s", watchdog)
		}
	}
	d, err := dag.LoadMetadata(in.dagFile)
	if err != nil {
		return fail("cannot load the DAG: %v", err)
	}
	// a client that lives through the run: as soon as the run has recorded something it asks for the
	// latest status, reads the history and looks the run up (best effort, unsynchronised — the run goes on)
	ll := in.client()
	sawAlive := false
	deadline := time.Now().Add(watchdog)
	appeared, exited := false, false
	var perr error
	for time.Now().Before(deadline) && !appeared && !exited {
		if _, e := os.Stat(ready); e == nil {
			appeared = true
			break
		}
		select {
		case perr = <-proc:
			exited = true
			continue
		default:
		}
		if !sawAlive {
			if runs := in.runsExcept(skip); len(runs) == 1 && runs[0].last() != nil {
				for _, op := range []string{"latest", "history1", "byRequestID"} {
					_ = doRead(ll, d, def.Name, op, runs[0].last().RequestID)
				}
				sawAlive = true
			}
		}
		time.Sleep(2 * time.Millisecond)
	}
	if exited {
		proc <- perr
		// this execution has fewer than K calls
		res.Count("end_hold_points_beyond_end_of_run", 1)
		return nil
	}
	if !appeared {
		return fail("watchdog: neither held at call %d nor ended within %s", mb.K, watchdog)
	}
	tr, err := parseTrace(logPath)
	if err != nil || len(tr.Calls) < mb.K {
		return fail("held, but the trace at the pause point is unusable: %v", err)
	}
	held := tr.Calls[mb.K-1]
	desc := in.lay.desc(held)
	m := readMarkers(in.markers)
	kindOfFile := in.lay.fileKind(held.Path)
	if !def.truth(m).Complete || kindOfFile == "marker" || kindOfFile == "step-log" {
		// not (yet) in the end-of-run phase of THIS execution: a thread of the agent held while steps
		// are still executing may hold a node's lock; nothing is observed here
		res.Count("end_hold_points_before_end_phase", 1)
		if _, err := finishRun(); err != nil {
			return fail("%v", err)
		}
		return nil
	}
	runs := in.runsExcept(skip)
	// which of the life-cycle events lie before the held call (from this execution's own trace)
	before := map[string]int{}
	for _, c := range tr.Calls[:mb.K-1] {
		if c.Done && c.Ret >= 0 {
			before[in.lay.desc(c)]++
		}
	}
	if len(runs) != 1 || runs[0].last() == nil {
		if before["write(history)"] > 0 {
			// this run has written status lines (its own trace says so) and, while it is still alive, none of them
			// is on disk any more: whatever is reported for the DAG now is not this run's state
			res.Violate("C08/end-of-run/recorded-status-vanished/at="+desc, fmt.Sprintf("DAG %s (%s), the agent held at the entry of its relevant call K=%d [%s] in its end-of-run phase: the run has written %d status record(s), yet its history now holds no status line (%v) — the run's recorded status exists nowhere on disk while the process is still alive", def.Name, def.About, mb.K, in.lay.short(held), before["write(history)"], runs), mb)
			if _, err := finishRun(); err != nil {
				return fail("%v", err)
			}
			return nil
		}
		return fail("the run is in its end-of-run phase and its history holds no status line: %v", runs)
	}
	id8 := runs[0].ID8
	finalBefore := isFinal(runs[0].last())
	hadOriginal := false
	for _, f := range runs[0].Files {
		hadOriginal = hadOriginal || !f.Compacted
	}
	stage := "before-final-line"
	switch {
	case before["unlink(history)"] > 0:
		stage = "compacted"
	case before["create(history-compacted)"] > 0:
		stage = "compacting"
	case finalBefore && before["unlink(socket)"] > 1:
		stage = "final-line-written,socket-down"
	case finalBefore:
		stage = "final-line-written"
	case before["unlink(socket)"] > 1:
		stage = "socket-down"
	}

	// ---- the agent is held; ask ----
	fresh := in.client()
	var obs []endObservation
	blocked := false
	ask := func(who string, cli client.Client) {
		for _, via := range []string{"GetLatestStatus", "GetStatus", "GetCurrentStatus"} {
			if blocked {
				return
			}
			o := endObservation{who: who, via: via}
			t0 := time.Now()
			p := safely(via, func() {
				switch via {
				case "GetLatestStatus":
					o.st, o.err = cli.GetLatestStatus(d)
				case "GetStatus":
					var ds *client.DAGStatus
					ds, o.err = cli.GetStatus(def.Name)
					if ds != nil {
						o.st = ds.Status
					}
				case "GetCurrentStatus":
					o.st, o.err = cli.GetCurrentStatus(d)
				}
			})
			o.took = time.Since(t0)
			if p != "" {
				o.err = fmt.Errorf("%s", p)
				o.st = nil
			}
			obs = append(obs, o)
			if o.took > 2500*time.Millisecond {
				// the held thread makes the status request wait for the socket timeout: an artefact of the hold
				blocked = true
			}
		}
	}
	ask("a fresh client", fresh)
	ask("a client that has been watching the run", ll)
	// the watching client reads the history (file cache), then both are asked once more
	for _, op := range []string{"history1", "historyAll", "byRequestID"} {
		_ = doRead(ll, d, def.Name, op, runs[0].last().RequestID)
	}
	ask("a client that has been watching the run (after a history read)", ll)
	finalAfter, hasOriginal := false, false
	if r2 := in.runsExcept(skip); len(r2) == 1 {
		finalAfter = isFinal(r2[0].last())
		for _, f := range r2[0].Files {
			hasOriginal = hasOriginal || !f.Compacted
		}
	}
	vanished := hadOriginal && !hasOriginal // the compaction removed the original while the questions were asked
	mAfter := readMarkers(in.markers)

	var fs []finding
	if blocked {
		// the held thread makes the status request wait (socket timeout): an artefact of the hold
		res.Count("end_hold_points_blocking_status:"+desc, 1)
	} else {
		res.Evaluations++
		res.Count("end_of_run_observations", 1)
		res.Count("end_of_run_observations:"+def.Name, 1)
		res.Count("end_of_run_stage:"+stage, 1)
		res.Nontrivial(vlib.Hash("end-hold", def.Name, stage, desc))
		seen := map[string]bool{}
		for _, o := range obs {
			state, ok := judgeEnd(def, o, id8, mAfter, finalAfter, vanished)
			if ok {
				continue
			}
			kind := "live/end-of-run/reported-" + state + "-while-finishing/at=" + desc
			switch state {
			case "history-file-vanished-under-reader":
				kind = "live/end-of-run/latest-status-error/" + state
			case "error":
				kind = "live/end-of-run/latest-status-error/at=" + desc
			}
			if seen[kind] {
				continue
			}
			seen[kind] = true
			fs = append(fs, finding{kind, fmt.Sprintf("asked of %s, client.%s answers %s (error: %v) — the agent process is alive, every step and handler has ended (markers {%s}), the run's final status line had %sbeen written before the question and had %sbeen written after it", o.who, o.via, describe(o.st), o.err, mAfter, map[bool]string{true: "", false: "not "}[finalBefore], map[bool]string{true: "", false: "not "}[finalAfter])})
		}
	}

	// ---- release; the run goes to its end ----
	rr, err := finishRun()
	if err != nil {
		return fail("%v", err)
	}
	mEnd := readMarkers(in.markers)
	for _, f := range hn.finalCheck(in, def, skip, rr, mEnd, "after the agent, held at the end of its run, was released", ll) {
		fs = append(fs, f)
	}
	if mb.K%4 == 1 && !blocked {
		var answers []string
		for _, o := range obs[:min(3, len(obs))] {
			answers = append(answers, o.via+": "+describe(o.st))
		}
		res.Sample(map[string]any{"dag": def.Name, "agent_held_at": in.lay.short(held), "call": mb.K, "stage": stage, "answers_to_a_fresh_client": answers, "after_exit": fmt.Sprintf("exit %d markers {%s}", rr.exit, mEnd)})
	}
	if verbose {
		fmt.Printf("DAG %s (%s): agent held at its call %d = %s (%s), stage %s, final line written before/after the questions: %v/%v, blocked=%v\n", def.Name, def.About, mb.K, in.lay.short(held), desc, stage, finalBefore, finalAfter, blocked)
		for _, o := range obs {
			fmt.Printf("  %-62s %-17s %s err=%v (%s)\n", o.who, o.via, describe(o.st), o.err, o.took.Round(time.Millisecond))
		}
		for _, c := range tr.Calls {
			fmt.Printf("  %3d %-32s %s\n", c.K, in.lay.desc(c), in.lay.short(c))
		}
	}
	seen := map[string]bool{}
	for _, f := range fs {
		sig := "C08/" + f.Kind
		if verbose {
			fmt.Printf("  FINDING %s: %s\n", sig, f.Detail)
		}
		if seen[sig] {
			continue
		}
		seen[sig] = true
		res.Violate(sig, fmt.Sprintf("DAG %s (%s), the agent held at the entry of its relevant call K=%d [%s] in its end-of-run phase (%s): %s", def.Name, def.About, mb.K, in.lay.short(held), stage, f.Detail), mb)
	}
	return nil
}
