package main

import (
	"fmt"
	"os"
	"path/filepath"
	"sort"
	"strconv"
	"strings"
)

// Call is one line of a vtrace log.
type Call struct {
	K     int
	Tid   int
	Name  string
	FD    int    // -1 when the call takes a path
	Path  string // absolute, unescaped
	Path2 string
	Flags string
	Len   int64
	Ret   int64
	Done  bool // the call returned (ret known)
	Raw   string
}

// Trace is a parsed vtrace log.
type Trace struct {
	Calls []Call
	End   string // text of the "# end ..." line
}

func unesc(s string) string {
	if !strings.Contains(s, "\\x") {
		return s
	}
	var sb strings.Builder
	for i := 0; i < len(s); i++ {
		if s[i] == '\\' && i+3 < len(s) && s[i+1] == 'x' {
			if v, err := strconv.ParseUint(s[i+2:i+4], 16, 8); err == nil {
				sb.WriteByte(byte(v))
				i += 3
				continue
			}
		}
		sb.WriteByte(s[i])
	}
	return sb.String()
}

func parseTrace(path string) (*Trace, error) {
	b, err := os.ReadFile(path)
	if err != nil {
		return nil, err
	}
	tr := &Trace{}
	for _, line := range strings.Split(strings.TrimRight(string(b), "\n"), "\n") {
		if line == "" {
			continue
		}
		if strings.HasPrefix(line, "# end ") {
			tr.End = strings.TrimPrefix(line, "# end ")
			continue
		}
		f := strings.Fields(line)
		if len(f) < 4 {
			return nil, fmt.Errorf("malformed trace line %q", line)
		}
		c := Call{FD: -1, Raw: line}
		if c.K, err = strconv.Atoi(f[0]); err != nil {
			return nil, fmt.Errorf("malformed trace line %q", line)
		}
		c.Tid, _ = strconv.Atoi(f[1])
		c.Name = f[2]
		args := f[3:]
		if (c.Name == "bind" || c.Name == "connect") && len(args) > 1 {
			// "bind FD PATH": the first token is the descriptor number
			if fd, err := strconv.Atoi(args[0]); err == nil {
				c.FD = fd
				args = args[1:]
			}
		}
		for _, tok := range args {
			switch {
			case strings.HasPrefix(tok, "ret="):
				if tok != "ret=?" {
					c.Ret, _ = strconv.ParseInt(tok[4:], 10, 64)
					c.Done = true
				}
			case strings.HasPrefix(tok, "len="):
				c.Len, _ = strconv.ParseInt(tok[4:], 10, 64)
			case strings.HasPrefix(tok, "flags="):
				c.Flags = tok[6:]
			case strings.HasPrefix(tok, "off="):
			default:
				p := tok
				if i := strings.Index(tok, "->"); i > 0 {
					if fd, err := strconv.Atoi(tok[:i]); err == nil {
						c.FD = fd
						p = tok[i+2:]
					}
				}
				if c.Path == "" {
					c.Path = unesc(p)
				} else {
					c.Path2 = unesc(p)
				}
			}
		}
		if c.K != len(tr.Calls)+1 {
			return nil, fmt.Errorf("trace numbering broken at %q", line)
		}
		tr.Calls = append(tr.Calls, c)
	}
	if tr.End == "" {
		return nil, fmt.Errorf("trace %s has no end line", path)
	}
	return tr, nil
}

func hasFlag(flags, f string) bool {
	for _, x := range strings.Split(flags, "|") {
		if x == f {
			return true
		}
	}
	return false
}

// layout names the places of one scratch installation; it turns absolute
// paths of a trace into stable file kinds.
type layout struct {
	Inst string // root of the installation (traced)
	Sock string // unix socket of the DAG (traced)
}

func under(p, dir string) bool { return p == dir || strings.HasPrefix(p, dir+"/") }

// fileKind: which kind of file a traced path is.
func (l layout) fileKind(p string) string {
	switch {
	case p == l.Sock:
		return "socket"
	case under(p, filepath.Join(l.Inst, "data")):
		switch {
		case strings.HasSuffix(p, "_c.dat"):
			return "history-compacted"
		case strings.HasSuffix(p, ".dat"):
			return "history"
		}
		return "data-dir"
	case under(p, filepath.Join(l.Inst, "logs")):
		b := filepath.Base(p)
		switch {
		case strings.HasSuffix(b, ".log") && (strings.HasPrefix(b, "start_") || strings.HasPrefix(b, "agent_")):
			return "agent-log"
		case strings.HasSuffix(b, ".log"):
			return "step-log"
		}
		return "log-dir"
	case under(p, filepath.Join(l.Inst, "markers")):
		return "marker"
	case under(p, filepath.Join(l.Inst, "dags")):
		return "dag-file"
	case under(p, filepath.Join(l.Inst, "home")):
		return "config"
	case under(p, filepath.Join(l.Inst, "suspend")):
		return "suspend-flag"
	}
	return "other"
}

// desc is the crash-point class of a call: call kind + kind of file, e.g.
// create(history), write(history-compacted), bind(socket), fsync(step-log).
func (l layout) desc(c Call) string {
	kind := c.Name
	switch c.Name {
	case "open", "openat", "openat2", "creat":
		switch {
		case hasFlag(c.Flags, "O_CREAT") && hasFlag(c.Flags, "O_APPEND") && l.fileKind(c.Path) == "marker":
			// the steps' own `>> marker`; files the product creates are "create" whatever other flags it passes
			kind = "create-append"
		case hasFlag(c.Flags, "O_CREAT"):
			kind = "create"
		case hasFlag(c.Flags, "O_DIRECTORY"):
			kind = "opendir"
		case hasFlag(c.Flags, "O_RDONLY"):
			kind = "open-read"
		default:
			kind = "open-write"
		}
	case "write", "pwrite64", "writev", "pwritev", "pwritev2", "copy_file_range", "sendfile", "splice":
		kind = "write"
	case "rename", "renameat", "renameat2":
		kind = "rename"
	case "unlink", "unlinkat":
		kind = "unlink"
		if c.Flags == "AT_REMOVEDIR" {
			kind = "rmdir"
		}
	case "mkdir", "mkdirat":
		kind = "mkdir"
	case "fdatasync":
		kind = "fsync"
	}
	return kind + "(" + l.fileKind(c.Path) + ")"
}

// short renders a call without thread id, installation prefix or fd number.
func (l layout) short(c Call) string {
	p := c.Path
	if under(p, l.Inst) && p != l.Inst {
		p = p[len(l.Inst)+1:]
	}
	s := c.Name + " " + p
	if c.Flags != "" {
		s += " flags=" + c.Flags
	}
	if c.Len > 0 {
		s += fmt.Sprintf(" len=%d", c.Len)
	}
	return s
}

// classCounts is the multiset of call classes of a trace prefix.
func (l layout) classCounts(calls []Call) map[string]int {
	m := map[string]int{}
	for _, c := range calls {
		m[l.desc(c)]++
	}
	return m
}

func classKeys(m map[string]int) []string {
	var ks []string
	for k := range m {
		ks = append(ks, k)
	}
	sort.Strings(ks)
	return ks
}

// stepOfMarker: markers/<step> -> step name.
func (l layout) stepOfMarker(p string) string {
	if l.fileKind(p) != "marker" {
		return ""
	}
	return filepath.Base(p)
}
