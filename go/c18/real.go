package main

import (
	"fmt"
	"net/http/httptest"
	"os"
	"path/filepath"
	"sort"
	"strings"
	"time"

	"github.com/ErdemOzgen/blackdagger/internal/client"
	"github.com/ErdemOzgen/blackdagger/internal/dag"
	"github.com/ErdemOzgen/blackdagger/internal/dag/scheduler"
	fdag "github.com/ErdemOzgen/blackdagger/internal/frontend/dag"
	"github.com/ErdemOzgen/blackdagger/internal/frontend/gen/restapi/operations"
	"github.com/ErdemOzgen/blackdagger/internal/frontend/gen/restapi/operations/dags"
	"github.com/ErdemOzgen/blackdagger/internal/persistence"
	"github.com/ErdemOzgen/blackdagger/internal/persistence/jsondb"
	"github.com/ErdemOzgen/blackdagger/internal/persistence/local"
	"github.com/ErdemOzgen/blackdagger/internal/persistence/model"
	"github.com/ErdemOzgen/blackdagger/internal/zzverif/venv"
	"github.com/go-openapi/runtime"
	"github.com/go-openapi/runtime/middleware"
)

// inst is one fresh real installation: real stores, real client, real API handler.
type inst struct {
	env  *venv.Env
	ds   persistence.DataStores
	cl   client.Client
	api  *operations.BlackdaggerAPI
	nrec int
	aux  []persistence.DataStores
	cwd  string // spelling search: the working directory of this member (names with a "/" are taken relative to it)
}

// baseCwd: the (empty) working directory of the process outside spelling-search members.
var baseCwd string

func newInst(dir string) (*inst, error) {
	if err := os.MkdirAll(dir, 0o755); err != nil {
		return nil, err
	}
	in := &inst{env: venv.New(dir)}
	in.ds = in.env.Stores()
	in.cl = client.New(in.ds, "/bin/false", in.env.Root, venv.Quiet)
	// the API object as internal/frontend/server wires it: handlers Configure() themselves onto it
	in.api = &operations.BlackdaggerAPI{}
	fdag.NewHandler(&fdag.NewHandlerArgs{Client: in.cl}, nil, "").Configure(in.api)
	if W.ID != "classic" {
		// an own working directory two levels deep, so that "./n", "sub/n" and "../n" all stay inside this member's scratch tree
		in.cwd = filepath.Join(in.env.Root, "cwd", "in")
		if err := os.MkdirAll(in.cwd, 0o755); err != nil {
			return nil, err
		}
		if W.SubDirs {
			_ = os.MkdirAll(filepath.Join(in.cwd, "sub"), 0o755)
			_ = os.MkdirAll(filepath.Join(in.env.DAGs, "sub"), 0o755)
		}
		if err := os.Chdir(in.cwd); err != nil {
			return nil, err
		}
	}
	return in, nil
}

func stopStores(ds persistence.DataStores) {
	if j, ok := ds.HistoryStore().(*jsondb.JSONDB); ok {
		j.VerifC18Stop()
	}
	local.VerifC18StopDAGStore(ds.DAGStore())
}

func (in *inst) close() {
	if in.cwd != "" && baseCwd != "" {
		_ = os.Chdir(baseCwd)
	}
	stopStores(in.ds)
	for _, d := range in.aux {
		stopStores(d)
	}
	_ = os.RemoveAll(in.env.Root)
}

// loc: the file of a definition of the world (model key).
func (in *inst) loc(key string) string {
	k := W.byKey[key]
	switch {
	case k == nil:
		return filepath.Join(in.env.DAGs, key+".yaml")
	case k.Out:
		return filepath.Join(in.cwd, k.Rel)
	}
	return filepath.Join(in.env.DAGs, k.Rel)
}

func respCode(r middleware.Responder) int {
	rec := httptest.NewRecorder()
	r.WriteResponse(rec, runtime.JSONProducer())
	return rec.Code
}

func strp(s string) *string { return &s }

// apply performs one operation on the real code and says whether it was accepted.
func (in *inst) apply(o op) (bool, string) {
	errInfo := func(err error) (bool, string) {
		if err != nil {
			return false, "error: " + vshort(err.Error())
		}
		return true, "nil error"
	}
	switch o.K {
	case "create":
		if o.Via == "api" {
			r := in.api.DagsCreateDagHandler.Handle(dags.CreateDagParams{Body: dags.CreateDagBody{Action: strp("new"), Value: strp(o.A)}})
			c := respCode(r)
			return c == 200, fmt.Sprintf("HTTP %d", c)
		}
		_, err := in.cl.CreateDAG(o.A)
		return errInfo(err)
	case "save":
		if o.Via == "api" {
			r := in.api.DagsPostDagActionHandler.Handle(dags.PostDagActionParams{DagID: o.A, Body: dags.PostDagActionBody{Action: strp("save"), Value: texts[o.B]}})
			c := respCode(r)
			return c == 200, fmt.Sprintf("HTTP %d", c)
		}
		return errInfo(in.cl.UpdateDAG(o.A, texts[o.B]))
	case "rename":
		if o.Via == "api" {
			r := in.api.DagsPostDagActionHandler.Handle(dags.PostDagActionParams{DagID: o.A, Body: dags.PostDagActionBody{Action: strp("rename"), Value: o.B}})
			c := respCode(r)
			return c == 200, fmt.Sprintf("HTTP %d", c)
		}
		return errInfo(in.cl.Rename(o.A, o.B))
	case "delete":
		if o.Via == "api" {
			r := in.api.DagsDeleteDagHandler.Handle(dags.DeleteDagParams{DagID: o.A})
			c := respCode(r)
			return c == 200, fmt.Sprintf("HTTP %d", c)
		}
		// what the handler passes: the name (as spelled) and the location of the definition file it addresses
		return errInfo(in.cl.DeleteDAG(o.A, in.loc(addr(o.A))))
	case "list":
		r := in.api.DagsListDagsHandler.Handle(dags.ListDagsParams{})
		c := respCode(r)
		return c == 200, fmt.Sprintf("HTTP %d", c)
	case "record":
		// a completed run, written the way a (separate) agent process writes it: own store objects
		in.nrec++
		ds := in.env.Stores()
		in.aux = append(in.aux, ds)
		hs := ds.HistoryStore()
		loc := in.loc(addr(o.A))
		d := &dag.DAG{Name: o.A, Location: loc, Steps: []dag.Step{{Name: "s1", Command: "true"}}}
		t0 := time.Date(2024, 1, 2, 3, 4, 5, 0, time.UTC).Add(time.Duration(in.nrec) * time.Second)
		t1 := t0.Add(500 * time.Millisecond)
		st := model.NewStatus(d, nil, scheduler.StatusSuccess, 4242, &t0, &t1)
		st.RequestID = reqID(in.nrec)
		if err := hs.Open(loc, t0, st.RequestID); err != nil {
			return false, "history Open: " + err.Error()
		}
		if err := hs.Write(st); err != nil {
			return false, "history Write: " + err.Error()
		}
		return errInfo(hs.Close())
	}
	panic("unknown op")
}

func vshort(s string) string {
	s = strings.ReplaceAll(s, "\n", "\\n")
	if len(s) > 160 {
		s = s[:160] + "..."
	}
	return s
}

// observe takes the full observation vector from the real installation.
func (in *inst) observe(universe []string) obs {
	ob := obs{Names: map[string]nobs{}, Locs: map[string]string{}}
	known := map[string]bool{}
	for _, n := range names {
		no := nobs{File: "absent", Spec: "absent"}
		loc := in.loc(n)
		known[loc] = true
		ob.Locs[n] = loc
		if b, err := os.ReadFile(loc); err == nil {
			no.File = ident(b)
		}
		if s, err := in.cl.GetDAGSpec(W.byKey[n].Canon); err == nil {
			no.Spec = ident([]byte(s))
		}
		d := &dag.DAG{Name: n, Location: loc}
		for _, sf := range in.cl.GetRecentHistory(d, 1000) {
			if sf != nil && sf.Status != nil {
				no.Hist = append(no.Hist, sf.Status.RequestID)
			}
		}
		sort.Strings(no.Hist)
		for _, id := range universe {
			if st, err := in.cl.GetStatusByRequestID(d, id); err == nil && st != nil && st.RequestID == id {
				no.Found = append(no.Found, id)
			}
		}
		sort.Strings(no.Found)
		ob.Names[n] = no
	}
	if W.ID != "classic" {
		// read every definition back under every spelling of its name
		ob.Reads = map[string]rback{}
		tab := "spec"
		for _, sp := range W.Spell {
			rb := rback{Spec: "error"}
			if s, err := in.cl.GetDAGSpec(sp.Name); err == nil {
				rb.Spec = ident([]byte(s))
			}
			r := in.api.DagsGetDagDetailsHandler.Handle(dags.GetDagDetailsParams{DagID: sp.Name, Tab: &tab})
			if ok, is := r.(*dags.GetDagDetailsOK); is && ok.Payload != nil {
				rb.DetCode = 200
				p := ok.Payload
				if p.Definition != nil {
					rb.DetDef = ident([]byte(*p.Definition))
				}
				if p.DAG != nil && p.DAG.Error == nil && len(p.Errors) == 0 && p.DAG.DAG != nil && p.DAG.DAG.Location != nil {
					rb.DetLoc = *p.DAG.DAG.Location
				}
			} else {
				rb.DetCode = respCode(r)
			}
			ob.Reads[sp.Name] = rb
		}
	}
	sts, errs, err := in.cl.GetAllStatus()
	for _, s := range sts {
		if s != nil && s.DAG != nil {
			ob.List = append(ob.List, strings.TrimSuffix(filepath.Base(s.DAG.Location), ".yaml"))
		}
	}
	sort.Strings(ob.List)
	ob.Errs = errs
	if err != nil {
		ob.Errs = append(ob.Errs, err.Error())
	}
	if W.ID == "classic" {
		if des, err := os.ReadDir(in.env.DAGs); err == nil {
			for _, de := range des {
				if !known[filepath.Join(in.env.DAGs, de.Name())] {
					ob.Extra = append(ob.Extra, de.Name())
				}
			}
		}
		return ob
	}
	// spelling search: every regular file below the DAGs directory and below the member's working-directory tree
	// must be the file of a definition of the world
	for _, top := range []struct{ tag, dir string }{{"<dags>/", in.env.DAGs}, {"<cwd>/", filepath.Dir(in.cwd)}} {
		_ = filepath.Walk(top.dir, func(p string, info os.FileInfo, err error) error {
			if err == nil && !info.IsDir() && !known[p] {
				rel, _ := filepath.Rel(top.dir, p)
				if top.tag == "<cwd>/" {
					rel, _ = filepath.Rel(in.cwd, p)
				}
				ob.Extra = append(ob.Extra, top.tag+rel)
			}
			return nil
		})
	}
	return ob
}

// calibrate finds out what the real UpdateSpec does with an empty text (the property is silent about
// whether that is a valid definition) and checks the harness's own classification of the other texts
// against nothing: those are ground truth by construction and stay as declared.
func calibrate(dir string) error {
	in, err := newInst(dir)
	if err != nil {
		return err
	}
	defer in.close()
	if ok, info := in.apply(op{K: "create", A: "a", Via: "client"}); !ok {
		return fmt.Errorf("cannot create a DAG in a fresh installation: %s", info)
	}
	ok, _ := in.apply(op{K: "save", A: "a", B: "empty", Via: "client"})
	emptyAccepted = ok
	return nil
}
