package main

// A "world" says which stored definitions a search can address and how the NAME ARGUMENT of an operation is
// spelled. The classic search spells every name one way (the bare name); the spelling search gives every logical
// name several spellings and states, per spelling, which stored file the operation addresses ON THE UNCHANGED TREE.
//
// The addressing table is derived from the code (and was confirmed by a probe on the unchanged tree):
//
//	dagStoreImpl.fileLocation(name)            (Create / UpdateSpec / GetSpec / GetDetails / Delete / Rename, both names)
//	  name contains "/"  -> the name itself, taken relative to the process's working directory ("backward compatibility")
//	  otherwise          -> util.AddYamlExtension(<dags>/name): no extension -> +".yaml"; ".yml" -> ".yaml"; any other
//	                        extension (".YAML", ".v2") is kept as it is
//
//	spelling      addressed file                      listed   remark
//	n             <dags>/n.yaml                       yes
//	n.yaml        <dags>/n.yaml                       yes
//	n.yml         <dags>/n.yaml                       yes      (client.Rename looks the names up with Find/resolve, which does NOT
//	                                                            map .yml to .yaml: a rename spelled like this is refused, or worse)
//	n.YAML        <dags>/n.YAML                       no       a different definition; the loader cannot read it (appends .yaml)
//	"n "          <dags>/"n .yaml"                    yes      a different DAG whose name ends in a blank
//	./n           <cwd>/n          OUTSIDE <dags>     no       create / save / get-spec / delete operate on it
//	sub/n         <cwd>/sub/n      OUTSIDE <dags>     no       (if <cwd>/sub exists)
//	../n          <cwd>/../n       OUTSIDE <dags>     no
//
// What the property then demands does not depend on the spelling: create never overwrites the addressed definition
// if it exists, save changes exactly the addressed definition (and only with a valid text), rename never overwrites
// and takes definition and history along, delete removes only the addressed definition and its history; every other
// definition (file bytes, read-backs, history) is untouched. The property does not say that an unusual spelling has
// to be ACCEPTED: for an operation whose name argument is not the bare name, a refusal that changes nothing always
// conforms (see judge in model.go).

import (
	"fmt"
	"strings"
)

type skey struct {
	Key    string // model key of one stored definition
	Rel    string // its file: relative to the DAGs directory or, with Out, to the process's working directory
	Out    bool   // outside the DAGs directory
	Listed bool   // the listing shows *.yaml / *.yml files of the DAGs directory only
	Canon  string // a spelling that addresses it (used for the per-definition GetDAGSpec observation)
}

type spelled struct {
	Name  string `json:"name"`  // the NAME ARGUMENT handed to the operation
	Key   string `json:"key"`   // the definition it addresses on the unchanged tree
	Class string `json:"class"` // bare | .yaml | .yml | .YAML | trailing-blank | ./ | sub/ | ../
}

type world struct {
	ID        string
	Keys      []skey
	Spell     []spelled
	Logical   []string // names that record-a-run is offered for
	SaveTexts []string
	SubDirs   bool // a directory "sub" exists in the working directory and in the DAGs directory
	byName    map[string]*spelled
	byKey     map[string]*skey
}

func (w *world) index() *world {
	w.byName, w.byKey = map[string]*spelled{}, map[string]*skey{}
	for i := range w.Spell {
		w.byName[w.Spell[i].Name] = &w.Spell[i]
	}
	for i := range w.Keys {
		w.byKey[w.Keys[i].Key] = &w.Keys[i]
	}
	return w
}

// W is the world of the search that is running; names are its model keys.
var W *world

func setWorld(w *world) {
	W = w
	names = names[:0]
	for _, k := range w.Keys {
		names = append(names, k.Key)
	}
}

var classicNames = []string{"a", "b", "a b", "ab", "A"} // "A": differs from "a" only in letter case (distinct files on a case-sensitive file system)

func classicWorld() *world {
	w := &world{ID: "classic", Logical: classicNames, SaveTexts: textIDs}
	for _, n := range classicNames {
		w.Keys = append(w.Keys, skey{Key: n, Rel: n + ".yaml", Listed: true, Canon: n})
		w.Spell = append(w.Spell, spelled{Name: n, Key: n, Class: "bare"})
	}
	return w.index()
}

var spellClassesQuick = []string{"bare", ".yaml", ".yml"}
var spellClassesThorough = []string{"bare", ".yaml", ".yml", ".YAML", "trailing-blank", "./", "sub/", "../"}

// spell: the spelling of logical name n in a class and the definition it addresses on the unchanged tree.
func spell(class, n string) (string, skey) {
	switch class {
	case "bare":
		return n, skey{Key: n, Rel: n + ".yaml", Listed: true, Canon: n}
	case ".yaml":
		return n + ".yaml", skey{Key: n, Rel: n + ".yaml", Listed: true, Canon: n}
	case ".yml":
		return n + ".yml", skey{Key: n, Rel: n + ".yaml", Listed: true, Canon: n}
	case ".YAML":
		return n + ".YAML", skey{Key: n + ".YAML", Rel: n + ".YAML", Canon: n + ".YAML"}
	case "trailing-blank":
		return n + " ", skey{Key: n + " ", Rel: n + " .yaml", Listed: true, Canon: n + " "}
	case "./":
		return "./" + n, skey{Key: "cwd:" + n, Rel: n, Out: true, Canon: "./" + n}
	case "sub/":
		return "sub/" + n, skey{Key: "cwd:sub/" + n, Rel: "sub/" + n, Out: true, Canon: "sub/" + n}
	case "../":
		return "../" + n, skey{Key: "cwd:../" + n, Rel: "../" + n, Out: true, Canon: "../" + n}
	}
	panic("unknown spelling class " + class)
}

func spellWorld(id string, logical, classes []string) *world {
	w := &world{ID: id, Logical: logical, SaveTexts: []string{"valid1", "badyaml"}}
	seen := map[string]bool{}
	// keys: the plain definitions first, so that state keys and role order read naturally
	for _, c := range classes {
		for _, n := range logical {
			name, k := spell(c, n)
			if !seen[k.Key] {
				seen[k.Key] = true
				w.Keys = append(w.Keys, k)
			}
			_ = name
			if c == "sub/" {
				w.SubDirs = true
			}
		}
	}
	for _, n := range logical {
		for _, c := range classes {
			name, k := spell(c, n)
			w.Spell = append(w.Spell, spelled{Name: name, Key: k.Key, Class: c})
		}
	}
	return w.index()
}

func worldByID(id string) *world {
	switch id {
	case "", "classic":
		return classicWorld()
	case "spell":
		return spellWorld("spell", []string{"a", "b"}, spellClassesQuick)
	case "spell-wide":
		return spellWorld("spell-wide", []string{"a", "b"}, spellClassesThorough)
	}
	panic("unknown world " + id)
}

// addr: the definition (model key) a name argument addresses.
func addr(name string) string {
	if s, ok := W.byName[name]; ok {
		return s.Key
	}
	return name
}

func classOf(name string) string {
	if s, ok := W.byName[name]; ok {
		return s.Class
	}
	return "bare"
}

// canonical: every name argument of the operation is the bare name.
func canonical(o op) bool {
	if o.K == "list" || o.K == "record" {
		return true
	}
	if classOf(o.A) != "bare" {
		return false
	}
	return o.K != "rename" || classOf(o.B) == "bare"
}

// spellFacet is the signature facet that names the spelling class(es) of the operation's name argument(s).
func spellFacet(o op) string {
	if W.ID == "classic" || o.K == "list" || o.K == "record" {
		return ""
	}
	if o.K == "rename" {
		return fmt.Sprintf("/spelling=%s,%s", classOf(o.A), classOf(o.B))
	}
	return "/spelling=" + classOf(o.A)
}

// outsideFacet: non-empty when a name argument of the operation addresses a file outside the DAGs directory.
func outsideFacet(o op) string {
	if o.K == "list" || o.K == "record" {
		return ""
	}
	out := func(name string) bool {
		k := W.byKey[addr(name)]
		return k != nil && k.Out
	}
	if out(o.A) || (o.K == "rename" && out(o.B)) {
		return spellFacet(o)
	}
	return ""
}

// spellAlphabet: the operations of the spelling search, simplest first.
func spellAlphabet(m *mstate) []op {
	var out []op
	vias := []string{"client", "api"}
	for _, via := range vias {
		for _, s := range W.Spell {
			out = append(out, op{K: "create", A: s.Name, Via: via})
		}
	}
	for _, n := range W.Logical {
		if _, ok := m.Defs[n]; ok {
			out = append(out, op{K: "record", A: n})
		}
	}
	for _, via := range vias {
		for _, s := range W.Spell {
			for _, t := range W.SaveTexts {
				out = append(out, op{K: "save", A: s.Name, B: t, Via: via})
			}
		}
	}
	for _, via := range vias {
		for _, x := range W.Spell {
			for _, y := range W.Spell {
				out = append(out, op{K: "rename", A: x.Name, B: y.Name, Via: via})
			}
		}
	}
	for _, via := range vias {
		for _, s := range W.Spell {
			out = append(out, op{K: "delete", A: s.Name, Via: via})
		}
	}
	out = append(out, op{K: "list"})
	return out
}

func describeWorld(w *world) map[string]any {
	var sp []string
	for _, s := range w.Spell {
		k := w.byKey[s.Key]
		where := "<dags>/" + k.Rel
		if k.Out {
			where = "<cwd>/" + k.Rel + " (OUTSIDE the DAGs directory)"
		}
		sp = append(sp, fmt.Sprintf("%q -> %s", s.Name, where))
	}
	return map[string]any{"name_arguments(addressed file on the unchanged tree)": strings.Join(sp, "; "), "save_texts": w.SaveTexts}
}
