package main

import (
	"crypto/sha1"
	"encoding/hex"
	"fmt"
	"sort"
	"strings"
)

// ---- candidate texts --------------------------------------------------------

const tmplText = "steps:\n  - name: step1\n    command: echo hello\n" // what CreateDAG writes (client.go dagTemplate)

var texts = map[string]string{
	"tmpl":    tmplText,
	"valid1":  "description: one\nsteps:\n  - name: s1\n    command: echo one\n",
	"valid2":  "description: two\nsteps:\n  - name: s1\n    command: echo two\n", // same size as valid1 on purpose (size/mtime caches)
	"badyaml": "steps:\n  - name: s1\n   command: [unclosed\n",
	"baddag":  "steps:\n  - name: s1\n    description: a step without a command\n",
	"empty":   "",
	"big":     bigText(),
}

// texts offered to save, simplest first
var textIDs = []string{"valid1", "valid2", "badyaml", "baddag", "empty", "big"}

var validText = map[string]bool{"tmpl": true, "valid1": true, "valid2": true, "big": true}

// emptyAccepted: the property does not say whether the empty text is a valid definition; calibrated on the real code.
var emptyAccepted bool

func isValid(id string) bool {
	if id == "empty" {
		return emptyAccepted
	}
	return validText[id]
}

func bigText() string {
	// ~1 MiB, cheap to parse (the search loads it thousands of times): one literal block scalar
	var sb strings.Builder
	sb.WriteString("description: |\n")
	line := strings.Repeat("x", 120)
	for i := 0; sb.Len() < 1<<20; i++ {
		fmt.Fprintf(&sb, "  %06d %s\n", i, line)
	}
	sb.WriteString("steps:\n  - name: s1\n    command: echo big\n")
	return sb.String()
}

var textByContent = func() map[string]string {
	m := map[string]string{}
	for k, v := range texts {
		m[v] = k
	}
	return m
}()

// ident names a byte string: the id of a candidate text, or a hash.
func ident(b []byte) string {
	if id, ok := textByContent[string(b)]; ok {
		return id
	}
	h := sha1.Sum(b)
	return fmt.Sprintf("other:%s:%d", hex.EncodeToString(h[:4]), len(b))
}

// ---- reference model ----------------------------------------------------------

type mstate struct {
	Defs map[string]string   // name -> text id
	Runs map[string][]string // name -> request ids of its recorded runs
	NRec int                 // record operations so far (gives request ids and time stamps)
}

func newState() *mstate { return &mstate{Defs: map[string]string{}, Runs: map[string][]string{}} }

func (m *mstate) clone() *mstate {
	n := &mstate{Defs: map[string]string{}, Runs: map[string][]string{}, NRec: m.NRec}
	for k, v := range m.Defs {
		n.Defs[k] = v
	}
	for k, v := range m.Runs {
		n.Runs[k] = append([]string(nil), v...)
	}
	return n
}

// key: canonical form used for de-duplication (request ids themselves are not part of it, their number is).
func (m *mstate) key() string {
	var parts []string
	for _, n := range names {
		if t, ok := m.Defs[n]; ok {
			parts = append(parts, fmt.Sprintf("%q=%s#%d", n, t, len(m.Runs[n])))
		}
	}
	return "{" + strings.Join(parts, ",") + "}"
}

func reqID(k int) string { return fmt.Sprintf("r%03dxxxx-0000-0000-0000-%012d", k, k) }

// universe: every request id recorded so far, under whatever name.
func (m *mstate) universe() []string {
	var u []string
	for k := 1; k <= m.NRec; k++ {
		u = append(u, reqID(k))
	}
	return u
}

const (
	refuse = 0
	accept = 1
	either = -1 // the property does not say (the operation addresses something that does not exist / is a no-op)
)

// apply is the specification: what the property states, operation by operation.
func (m *mstate) apply(o op) (*mstate, int) {
	n := m.clone()
	_, aExists := m.Defs[o.A]
	switch o.K {
	case "create":
		// "Creating ... a DAG never overwrites a DAG that already exists under the target name"
		if aExists {
			return n, refuse
		}
		n.Defs[o.A] = "tmpl"
		return n, accept
	case "save":
		if !aExists {
			return n, either // nothing to replace; whatever is answered, nothing may change
		}
		// "saving replaces the definition only if the new text is a valid definition"
		if !isValid(o.B) {
			return n, refuse
		}
		n.Defs[o.A] = o.B
		return n, accept
	case "rename":
		_, bExists := m.Defs[o.B]
		if !aExists {
			return n, either
		}
		if o.A == o.B {
			return n, either // renaming onto itself: nothing may change
		}
		// "... or renaming a DAG never overwrites a DAG that already exists under the target name"
		if bExists {
			return n, refuse
		}
		// "Renaming keeps the definition and makes all of its history available under the new name"
		n.Defs[o.B] = m.Defs[o.A]
		delete(n.Defs, o.A)
		if r := m.Runs[o.A]; len(r) > 0 {
			n.Runs[o.B] = append([]string(nil), r...)
		}
		delete(n.Runs, o.A)
		return n, accept
	case "delete":
		if !aExists {
			return n, either
		}
		// "deleting removes the definition and its history and nothing belonging to any other DAG"
		delete(n.Defs, o.A)
		delete(n.Runs, o.A)
		return n, accept
	case "list":
		return n, accept
	case "record":
		n.NRec++
		n.Runs[o.A] = append(n.Runs[o.A], reqID(n.NRec))
		return n, accept
	}
	panic("unknown op " + o.K)
}

func (m *mstate) nontrivial(o op) bool {
	if _, ok := m.Defs[o.A]; ok {
		return true
	}
	if o.K == "rename" {
		_, ok := m.Defs[o.B]
		return ok
	}
	return o.K == "list" && len(m.Defs) > 0
}

// ---- observation vector -------------------------------------------------------

type nobs struct {
	File  string   `json:"file"`  // text id / hash of dags/<name>.yaml, or "absent"
	Spec  string   `json:"spec"`  // the same for what GetDAGSpec returns, "absent" on error
	Hist  []string `json:"hist"`  // request ids GetRecentHistory lists under this name (sorted)
	Found []string `json:"found"` // request ids of the universe GetStatusByRequestID finds under this name (sorted)
}

type obs struct {
	Names map[string]nobs `json:"names"`
	List  []string        `json:"list"`     // names GetAllStatus lists (sorted)
	Errs  []string        `json:"listErrs"` // its error list
	Extra []string        `json:"extra"`    // files in the DAGs directory that are not <one of the names>.yaml
}

func expected(m *mstate) obs {
	e := obs{Names: map[string]nobs{}}
	for _, n := range names {
		no := nobs{File: "absent", Spec: "absent"}
		if t, ok := m.Defs[n]; ok {
			no.File, no.Spec = t, t
			e.List = append(e.List, n)
		}
		r := append([]string(nil), m.Runs[n]...)
		sort.Strings(r)
		no.Hist, no.Found = r, r
		e.Names[n] = no
	}
	sort.Strings(e.List)
	return e
}

func eqs(a, b []string) bool {
	if len(a) != len(b) {
		return false
	}
	for i := range a {
		if a[i] != b[i] {
			return false
		}
	}
	return true
}

func related(a, b string) bool {
	return a != "" && b != "" && (strings.HasPrefix(a, b) || strings.HasPrefix(b, a))
}

// compare checks the result class and the observation after operation o (applied in model state pre, predicted
// state next). Returns "" when everything the property states holds, else (signature, detail).
func compare(o op, pre, next *mstate, want int, got bool, info string, ob obs) (string, string) {
	exp := expected(next)
	via := viaOf(o)
	_, aEx := pre.Defs[o.A]
	_, bEx := pre.Defs[o.B]
	// precondition class of the operation
	cls := ""
	switch o.K {
	case "create":
		cls = "name=" + tf(aEx, "taken", "free")
	case "save":
		vc := "invalid"
		switch {
		case o.B == "empty":
			vc = "empty"
		case isValid(o.B):
			vc = "valid"
		}
		cls = "text=" + vc + "/dag=" + tf(aEx, "exists", "missing")
	case "rename":
		t := tf(bEx, "taken", "free")
		if o.A == o.B {
			t = "same"
		}
		cls = "source=" + tf(aEx, "exists", "missing") + "/target=" + t
	case "delete":
		cls = "dag=" + tf(aEx, "exists", "missing")
	case "record", "list":
		cls = "-"
	}
	target := o.A
	source := ""
	if o.K == "rename" {
		target, source = o.B, o.A
		if o.A == o.B {
			source = ""
		}
	}
	role := func(n string) string {
		switch {
		case n == target:
			return "target"
		case n == source:
			return "source"
		case related(n, o.A) || (o.K == "rename" && related(n, o.B)):
			return "other(similar-name)"
		}
		return "other"
	}
	type diff struct{ sig, txt string }
	var diffs []diff
	add := func(sig, txt string) {
		// role-based (generic) classes carry the precondition class of the operation; the named root causes imply it
		if strings.HasPrefix(sig, "target-") || strings.HasPrefix(sig, "source-") || strings.HasPrefix(sig, "other") {
			sig += "/" + cls
		}
		diffs = append(diffs, diff{sig, txt})
	}

	order := []string{}
	for _, r := range []string{"target", "source", "other(similar-name)", "other"} {
		for _, n := range names {
			if role(n) == r {
				order = append(order, n)
			}
		}
	}
	for _, n := range order {
		g, e := ob.Names[n], exp.Names[n]
		r := role(n)
		if g.File != e.File || g.Spec != e.Spec {
			how := "changed"
			switch {
			case e.File == "absent":
				how = "appeared"
			case g.File == "absent" && g.Spec == "absent":
				how = "lost"
			case g.File == e.File && g.Spec != e.Spec:
				how = "GetDAGSpec-differs-from-file"
			}
			what := fmt.Sprintf("%s-definition-%s", r, how)
			// the canonical names of the root causes the property talks about
			switch {
			case (o.K == "create" || o.K == "rename") && r == "target" && want == refuse && how != "lost":
				what = "overwrites-existing-target"
			case o.K == "save" && r == "target" && want == refuse && aEx:
				what = "rejected-text-changed-file"
			case o.K == "save" && r == "target" && want == accept:
				what = "valid-text-not-stored"
			case o.K == "delete" && r == "target" && want == accept:
				what = "definition-not-removed"
			case o.K == "rename" && r == "target" && want == accept:
				what = "definition-not-under-new-name"
			case o.K == "rename" && r == "source" && want == accept:
				what = "definition-left-under-old-name"
			case o.K == "rename" && r == "source" && want == refuse && bEx:
				// same root cause seen from the other side (target and source had equal texts)
				what = "overwrites-existing-target"
			case o.K == "rename" && r == "source" && want == refuse:
				what = "refused-rename-lost-source"
			}
			add(what, fmt.Sprintf("definition of %q: expected file=%s spec=%s, observed file=%s spec=%s", n, e.File, e.Spec, g.File, g.Spec))
		}
		if !eqs(g.Hist, e.Hist) || !eqs(g.Found, e.Found) {
			lost, extra := minus(e.Hist, g.Hist), minus(g.Hist, e.Hist)
			lost = append(lost, minus(minus(e.Found, g.Found), lost)...)
			extra = append(extra, minus(minus(g.Found, e.Found), extra)...)
			how := "differs"
			switch {
			case len(lost) > 0 && len(extra) == 0:
				how = "lost"
			case len(extra) > 0 && len(lost) == 0:
				how = "gained-foreign-runs"
			}
			what := fmt.Sprintf("%s-history-%s", r, how)
			switch {
			case o.K == "rename" && want == refuse && bEx && o.A != o.B && (r == "target" || r == "source"):
				what = "overwrites-existing-target"
			case o.K == "rename" && want == accept && r == "target":
				what = "history-not-available-under-new-name"
			case o.K == "rename" && want == accept && r == "source":
				what = "history-left-under-old-name"
			case o.K == "delete" && want == accept && r == "target":
				what = "history-not-removed"
			}
			add(what, fmt.Sprintf("history of %q: expected runs %v, GetRecentHistory lists %v, GetStatusByRequestID finds %v", n, short(e.Hist), short(g.Hist), short(g.Found)))
		}
	}
	if !eqs(ob.List, exp.List) {
		add("listing-differs", fmt.Sprintf("listing: expected %q, observed %q", exp.List, ob.List))
	}
	if len(ob.Errs) > 0 {
		add("listing-reports-errors", fmt.Sprintf("listing errors: %q", ob.Errs))
	}
	if len(ob.Extra) > 0 {
		add("stray-files-in-dags-dir", fmt.Sprintf("unexpected files in the DAGs directory: %q", ob.Extra))
	}
	if want != either && got != (want == accept) {
		add(tf(got, "accepted-but-must-be-refused", "refused-but-must-be-accepted"), fmt.Sprintf("result: expected %s, observed %s (%s)", tf(want == accept, "accepted", "refused"), tf(got, "accepted", "refused"), info))
	}
	if len(diffs) == 0 {
		return "", ""
	}
	var txt []string
	for _, d := range diffs {
		txt = append(txt, d.txt)
	}
	return fmt.Sprintf("C18/%s/%s/via=%s", o.K, diffs[0].sig, via),
		fmt.Sprintf("result=%s (%s); %s", tf(got, "accepted", "refused"), info, strings.Join(txt, "; "))
}

func tf(b bool, t, f string) string {
	if b {
		return t
	}
	return f
}

func minus(a, b []string) []string {
	in := map[string]bool{}
	for _, x := range b {
		in[x] = true
	}
	var out []string
	for _, x := range a {
		if !in[x] {
			out = append(out, x)
		}
	}
	return out
}

func short(ids []string) []string {
	out := make([]string, len(ids))
	for i, s := range ids {
		if len(s) > 4 {
			s = s[:4]
		}
		out[i] = s
	}
	return out
}
