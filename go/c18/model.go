package main

import (
	"crypto/sha1"
	"encoding/hex"
	"fmt"
	"sort"
	"strings"
)

// ---- candidate texts --------------------------------------------------------

const tmplText = "steps:\n  - name: step1\n    command: echo hello\n" // what CreateDAG writes (client.go dagTemplate)

var texts = map[string]string{
	"tmpl":    tmplText,
	"valid1":  "description: one\nsteps:\n  - name: s1\n    command: echo one\n",
	"valid2":  "description: two\nsteps:\n  - name: s1\n    command: echo two\n", // same size as valid1 on purpose (size/mtime caches)
	"badyaml": "steps:\n  - name: s1\n   command: [unclosed\n",
	"baddag":  "steps:\n  - name: s1\n    description: a step without a command\n",
	"empty":   "",
	"big":     bigText(),
}

// texts offered to save, simplest first
var textIDs = []string{"valid1", "valid2", "badyaml", "baddag", "empty", "big"}

var validText = map[string]bool{"tmpl": true, "valid1": true, "valid2": true, "big": true}

// emptyAccepted: the property does not say whether the empty text is a valid definition; calibrated on the real code.
var emptyAccepted bool

func isValid(id string) bool {
	if id == "empty" {
		return emptyAccepted
	}
	return validText[id]
}

func bigText() string {
	// ~1 MiB, cheap to parse (the search loads it thousands of times): one literal block scalar
	var sb strings.Builder
	sb.WriteString("description: |\n")
	line := strings.Repeat("x", 120)
	for i := 0; sb.Len() < 1<<20; i++ {
		fmt.Fprintf(&sb, "  %06d %s\n", i, line)
	}
	sb.WriteString("steps:\n  - name: s1\n    command: echo big\n")
	return sb.String()
}

var textByContent = func() map[string]string {
	m := map[string]string{}
	for k, v := range texts {
		m[v] = k
	}
	return m
}()

// ident names a byte string: the id of a candidate text, or a hash.
func ident(b []byte) string {
	if id, ok := textByContent[string(b)]; ok {
		return id
	}
	h := sha1.Sum(b)
	return fmt.Sprintf("other:%s:%d", hex.EncodeToString(h[:4]), len(b))
}

// ---- reference model ----------------------------------------------------------

type mstate struct {
	Defs map[string]string   // name -> text id
	Runs map[string][]string // name -> request ids of its recorded runs
	NRec int                 // record operations so far (gives request ids and time stamps)
}

func newState() *mstate { return &mstate{Defs: map[string]string{}, Runs: map[string][]string{}} }

func (m *mstate) clone() *mstate {
	n := &mstate{Defs: map[string]string{}, Runs: map[string][]string{}, NRec: m.NRec}
	for k, v := range m.Defs {
		n.Defs[k] = v
	}
	for k, v := range m.Runs {
		n.Runs[k] = append([]string(nil), v...)
	}
	return n
}

// key: canonical form used for de-duplication (request ids themselves are not part of it, their number is).
func (m *mstate) key() string {
	var parts []string
	for _, n := range names {
		if t, ok := m.Defs[n]; ok {
			parts = append(parts, fmt.Sprintf("%q=%s#%d", n, t, len(m.Runs[n])))
		}
	}
	return "{" + strings.Join(parts, ",") + "}"
}

func reqID(k int) string { return fmt.Sprintf("r%03dxxxx-0000-0000-0000-%012d", k, k) }

// universe: every request id recorded so far, under whatever name.
func (m *mstate) universe() []string {
	var u []string
	for k := 1; k <= m.NRec; k++ {
		u = append(u, reqID(k))
	}
	return u
}

const (
	refuse = 0
	accept = 1
	either = -1 // the property does not say (the operation addresses something that does not exist / is a no-op)
)

// apply is the specification: what the property states, operation by operation.
func (m *mstate) apply(o op) (*mstate, int) {
	n := m.clone()
	// the definitions the name arguments ADDRESS (world.go): the property speaks about those, however the name is spelled
	A := addr(o.A)
	_, aExists := m.Defs[A]
	switch o.K {
	case "create":
		// "Creating ... a DAG never overwrites a DAG that already exists under the target name"
		if aExists {
			return n, refuse
		}
		n.Defs[A] = "tmpl"
		return n, accept
	case "save":
		if !aExists {
			return n, either // nothing to replace; whatever is answered, nothing may change
		}
		// "saving replaces the definition only if the new text is a valid definition"
		if !isValid(o.B) {
			return n, refuse
		}
		n.Defs[A] = o.B
		return n, accept
	case "rename":
		B := addr(o.B)
		_, bExists := m.Defs[B]
		if !aExists {
			return n, either
		}
		if A == B {
			return n, either // renaming onto itself: nothing may change
		}
		// "... or renaming a DAG never overwrites a DAG that already exists under the target name"
		if bExists {
			return n, refuse
		}
		// "Renaming keeps the definition and makes all of its history available under the new name"
		n.Defs[B] = m.Defs[A]
		delete(n.Defs, A)
		if r := m.Runs[A]; len(r) > 0 {
			n.Runs[B] = append([]string(nil), r...)
		}
		delete(n.Runs, A)
		return n, accept
	case "delete":
		if !aExists {
			return n, either
		}
		// "deleting removes the definition and its history and nothing belonging to any other DAG"
		delete(n.Defs, A)
		delete(n.Runs, A)
		return n, accept
	case "list":
		return n, accept
	case "record":
		n.NRec++
		n.Runs[A] = append(n.Runs[A], reqID(n.NRec))
		return n, accept
	}
	panic("unknown op " + o.K)
}

func (m *mstate) nontrivial(o op) bool {
	if _, ok := m.Defs[addr(o.A)]; ok {
		return true
	}
	if o.K == "rename" {
		_, ok := m.Defs[addr(o.B)]
		return ok
	}
	return o.K == "list" && len(m.Defs) > 0
}

// ---- observation vector -------------------------------------------------------

type nobs struct {
	File  string   `json:"file"`  // text id / hash of the definition file, or "absent"
	Spec  string   `json:"spec"`  // the same for what GetDAGSpec returns, "absent" on error
	Hist  []string `json:"hist"`  // request ids GetRecentHistory lists under this name (sorted)
	Found []string `json:"found"` // request ids of the universe GetStatusByRequestID finds under this name (sorted)
}

// rback: what reading a definition back under one SPELLING of its name returns (spelling search only).
type rback struct {
	Spec    string `json:"spec"`    // client.GetDAGSpec(spelling): text id / hash, or "error"
	DetCode int    `json:"detCode"` // GET /dags/<spelling>?tab=spec through the API handler
	DetDef  string `json:"detDef"`  // its Definition (text id / hash)
	DetLoc  string `json:"detLoc"`  // the Location of the DAG the details were loaded from ("" when it could not be loaded)
}

type obs struct {
	Names map[string]nobs   `json:"names"`
	Reads map[string]rback  `json:"reads,omitempty"`
	List  []string          `json:"list"`     // names GetAllStatus lists (sorted)
	Errs  []string          `json:"listErrs"` // its error list
	Extra []string          `json:"extra"`    // files in the DAGs directory (spelling search: and below the working directory) that are not the file of a definition of the world
	Locs  map[string]string `json:"-"`        // absolute file of every definition of the world (for the details read-back)
}

func listName(k *skey) string {
	b := k.Rel
	if i := strings.LastIndex(b, "/"); i >= 0 {
		b = b[i+1:]
	}
	return strings.TrimSuffix(b, ".yaml")
}

func expected(m *mstate) obs {
	e := obs{Names: map[string]nobs{}}
	for _, n := range names {
		no := nobs{File: "absent", Spec: "absent"}
		if t, ok := m.Defs[n]; ok {
			no.File, no.Spec = t, t
			if k := W.byKey[n]; k.Listed {
				e.List = append(e.List, listName(k))
			}
		}
		r := append([]string(nil), m.Runs[n]...)
		sort.Strings(r)
		no.Hist, no.Found = r, r
		e.Names[n] = no
	}
	sort.Strings(e.List)
	return e
}

func eqs(a, b []string) bool {
	if len(a) != len(b) {
		return false
	}
	for i := range a {
		if a[i] != b[i] {
			return false
		}
	}
	return true
}

func related(a, b string) bool {
	return a != "" && b != "" && (strings.HasPrefix(a, b) || strings.HasPrefix(b, a))
}

type diff struct {
	sig, txt string
	answer   bool // about the answer (accepted / refused) only, not about what is stored
}

// diffsOf compares the result class and the observation after operation o (applied in model state pre) with the
// predicted state next / answer want. Empty when everything the property states holds.
func diffsOf(o op, pre, next *mstate, want int, got bool, info string, ob obs) []diff {
	exp := expected(next)
	A, B := addr(o.A), ""
	if o.K == "rename" {
		B = addr(o.B)
	}
	_, aEx := pre.Defs[A]
	_, bEx := pre.Defs[B]
	// precondition class of the operation
	cls := ""
	switch o.K {
	case "create":
		cls = "name=" + tf(aEx, "taken", "free")
	case "save":
		vc := "invalid"
		switch {
		case o.B == "empty":
			vc = "empty"
		case isValid(o.B):
			vc = "valid"
		}
		cls = "text=" + vc + "/dag=" + tf(aEx, "exists", "missing")
	case "rename":
		t := tf(bEx, "taken", "free")
		if A == B {
			t = "same"
		}
		cls = "source=" + tf(aEx, "exists", "missing") + "/target=" + t
	case "delete":
		cls = "dag=" + tf(aEx, "exists", "missing")
	case "record", "list":
		cls = "-"
	}
	target := A
	source := ""
	if o.K == "rename" {
		target, source = B, A
		if A == B {
			source = ""
		}
	}
	// did the definition the operation must not overwrite exist?
	targetEx := aEx
	if o.K == "rename" {
		targetEx = bEx
	}
	role := func(n string) string {
		switch {
		case n == target:
			return "target"
		case n == source:
			return "source"
		case related(n, A) || (o.K == "rename" && related(n, B)):
			return "other(similar-name)"
		}
		return "other"
	}
	var diffs []diff
	add := func(sig, txt string) {
		// role-based (generic) classes carry the precondition class of the operation; the named root causes imply it
		if strings.HasPrefix(sig, "target-") || strings.HasPrefix(sig, "source-") || strings.HasPrefix(sig, "other") {
			sig += "/" + cls
		}
		diffs = append(diffs, diff{sig: sig, txt: txt})
	}

	order := []string{}
	for _, r := range []string{"target", "source", "other(similar-name)", "other"} {
		for _, n := range names {
			if role(n) == r {
				order = append(order, n)
			}
		}
	}
	for _, n := range order {
		g, e := ob.Names[n], exp.Names[n]
		r := role(n)
		if g.File != e.File || g.Spec != e.Spec {
			how := "changed"
			switch {
			case e.File == "absent":
				how = "appeared"
			case g.File == "absent" && g.Spec == "absent":
				how = "lost"
			case g.File == e.File && g.Spec != e.Spec:
				how = "GetDAGSpec-differs-from-file"
			}
			what := fmt.Sprintf("%s-definition-%s", r, how)
			// the canonical names of the root causes the property talks about
			switch {
			case (o.K == "create" || o.K == "rename") && r == "target" && want == refuse && targetEx && how != "lost":
				what = "overwrites-existing-target"
			case o.K == "save" && r == "target" && want == refuse && aEx:
				what = "rejected-text-changed-file"
			case o.K == "save" && r == "target" && want == accept:
				what = "valid-text-not-stored"
			case o.K == "delete" && r == "target" && want == accept:
				what = "definition-not-removed"
			case o.K == "rename" && r == "target" && want == accept:
				what = "definition-not-under-new-name"
			case o.K == "rename" && r == "source" && want == accept:
				what = "definition-left-under-old-name"
			case o.K == "rename" && r == "source" && want == refuse && bEx:
				// same root cause seen from the other side (target and source had equal texts)
				what = "overwrites-existing-target"
			case o.K == "rename" && r == "source" && want == refuse:
				what = "refused-rename-lost-source"
			}
			add(what, fmt.Sprintf("definition of %q: expected file=%s spec=%s, observed file=%s spec=%s", n, e.File, e.Spec, g.File, g.Spec))
		}
		if !eqs(g.Hist, e.Hist) || !eqs(g.Found, e.Found) {
			lost, extra := minus(e.Hist, g.Hist), minus(g.Hist, e.Hist)
			lost = append(lost, minus(minus(e.Found, g.Found), lost)...)
			extra = append(extra, minus(minus(g.Found, e.Found), extra)...)
			how := "differs"
			switch {
			case len(lost) > 0 && len(extra) == 0:
				how = "lost"
			case len(extra) > 0 && len(lost) == 0:
				how = "gained-foreign-runs"
			}
			what := fmt.Sprintf("%s-history-%s", r, how)
			switch {
			case o.K == "rename" && want == refuse && bEx && A != B && (r == "target" || r == "source"):
				what = "overwrites-existing-target"
			case o.K == "rename" && want == accept && r == "target":
				what = "history-not-available-under-new-name"
			case o.K == "rename" && want == accept && r == "source":
				what = "history-left-under-old-name"
			case o.K == "delete" && want == accept && r == "target":
				what = "history-not-removed"
			}
			add(what, fmt.Sprintf("history of %q: expected runs %v, GetRecentHistory lists %v, GetStatusByRequestID finds %v", n, short(e.Hist), short(g.Hist), short(g.Found)))
		}
	}
	// read-backs under every spelling (spelling search): a spelling reads the definition it addresses, or fails
	if ob.Reads != nil {
		for _, s := range W.Spell {
			rb := ob.Reads[s.Name]
			e := "absent"
			if t, ok := next.Defs[s.Key]; ok {
				e = t
			}
			rd := "/read=" + s.Class
			switch {
			case rb.Spec == "error":
				if e != "absent" && s.Class == "bare" {
					add("readback-spec-fails"+rd, fmt.Sprintf("GetDAGSpec(%q) fails although %q holds %s", s.Name, s.Key, e))
				}
			case e == "absent":
				add("readback-spec-of-missing-definition-returns-a-text"+rd, fmt.Sprintf("GetDAGSpec(%q) returns %s although the definition it addresses (%q) does not exist", s.Name, rb.Spec, s.Key))
			case rb.Spec != e:
				add("readback-spec-returns-another-text"+rd, fmt.Sprintf("GetDAGSpec(%q) returns %s, the definition it addresses (%q) holds %s", s.Name, rb.Spec, s.Key, e))
			}
			switch {
			case rb.DetCode != 200:
				if e != "absent" && s.Class == "bare" {
					add("readback-details-fails"+rd, fmt.Sprintf("details(%q, tab=spec) answers HTTP %d although %q holds %s", s.Name, rb.DetCode, s.Key, e))
				}
			case e == "absent":
				add("readback-details-of-missing-definition-returns-a-text"+rd, fmt.Sprintf("details(%q, tab=spec) answers 200 with definition %s although the definition it addresses (%q) does not exist", s.Name, rb.DetDef, s.Key))
			case rb.DetDef != e:
				add("readback-details-returns-another-text"+rd, fmt.Sprintf("details(%q, tab=spec) returns definition %s, the definition it addresses (%q) holds %s", s.Name, rb.DetDef, s.Key, e))
			case rb.DetLoc != "" && rb.DetLoc != ob.Locs[s.Key]:
				add("readback-details-loaded-from-another-file"+rd, fmt.Sprintf("details(%q) were loaded from %s, the definition it addresses is %s", s.Name, rb.DetLoc, ob.Locs[s.Key]))
			}
		}
	}
	if !eqs(ob.List, exp.List) {
		add("listing-differs", fmt.Sprintf("listing: expected %q, observed %q", exp.List, ob.List))
	}
	if len(ob.Errs) > 0 {
		add("listing-reports-errors", fmt.Sprintf("listing errors: %q", ob.Errs))
	}
	if len(ob.Extra) > 0 {
		add("stray-files-in-dags-dir", fmt.Sprintf("unexpected files: %q", ob.Extra))
	}
	if want != either && got != (want == accept) {
		diffs = append(diffs, diff{sig: tf(got, "accepted-but-must-be-refused", "refused-but-must-be-accepted"),
			txt:    fmt.Sprintf("result: expected %s, observed %s (%s)", tf(want == accept, "accepted", "refused"), tf(got, "accepted", "refused"), info),
			answer: true})
	}
	return diffs
}

func render(o op, diffs []diff, got bool, info string) (string, string) {
	if len(diffs) == 0 {
		return "", ""
	}
	var txt []string
	for _, d := range diffs {
		txt = append(txt, d.txt)
	}
	return fmt.Sprintf("C18/%s/%s/via=%s%s", o.K, diffs[0].sig, viaOf(o), spellFacet(o)),
		fmt.Sprintf("result=%s (%s); %s", tf(got, "accepted", "refused"), info, strings.Join(txt, "; "))
}

// compare: the strict verdict (every name argument is the bare name): the state after the operation is the
// predicted one and the answer is the predicted one. Returns "" when everything the property states holds.
func compare(o op, pre, next *mstate, want int, got bool, info string, ob obs) (string, string) {
	return render(o, diffsOf(o, pre, next, want, got, info, ob), got, info)
}

// judge is compare plus the one thing the property is silent about: whether a name argument that is NOT the bare
// name has to be accepted at all. For such an operation
//   - answered "accepted": exactly as strict as compare;
//   - answered "refused": conforms if nothing changed, and also if everything is as after the accepted operation
//     (definition, history, read-backs of ALL definitions; only the answer is then not judged - counted in `tolerated`);
//     anything in between (half an effect) is a violation.
const (
	tolRefusedUnchanged = "unusual spelling: refused, nothing changed"
	tolRefusedPerformed = "unusual spelling: answered refused, effect exactly that of the accepted operation"
)

func judge(o op, pre, next *mstate, want int, got bool, info string, ob obs) (sig, detail, tolerated string) {
	dN := diffsOf(o, pre, next, want, got, info, ob)
	if len(dN) == 0 {
		return "", "", ""
	}
	if canonical(o) || got {
		s, d := render(o, dN, got, info)
		return s, d, ""
	}
	var stateN []diff
	for _, d := range dN {
		if !d.answer {
			stateN = append(stateN, d)
		}
	}
	if len(stateN) == 0 {
		if want == accept {
			if next.key() != pre.key() || next.NRec != pre.NRec {
				return "", "", tolRefusedPerformed
			}
			return "", "", tolRefusedUnchanged
		}
		return "", "", ""
	}
	w2 := want
	if w2 == accept {
		w2 = refuse
	}
	dP := diffsOf(o, pre, pre, w2, got, info, ob)
	if len(dP) == 0 {
		return "", "", tolRefusedUnchanged
	}
	pick := stateN
	if len(dP) < len(stateN) {
		pick = dP
	}
	s, d := render(o, pick, got, info)
	return s, d + " [neither the state before the operation nor the state after the accepted operation]", ""
}

func tf(b bool, t, f string) string {
	if b {
		return t
	}
	return f
}

func minus(a, b []string) []string {
	in := map[string]bool{}
	for _, x := range b {
		in[x] = true
	}
	var out []string
	for _, x := range a {
		if !in[x] {
			out = append(out, x)
		}
	}
	return out
}

func short(ids []string) []string {
	out := make([]string, len(ids))
	for i, s := range ids {
		if len(s) > 4 {
			s = s[:4]
		}
		out[i] = s
	}
	return out
}
