// C18(a) — DAG definitions are created, saved, renamed and deleted safely
// (operation-sequence part; the crash part (b) is a different harness).
//
// Explicit-state search (engine E2): breadth-first over operation histories.
// The frontier is computed on the reference model (model.go); every edge
// (state, operation) of that search is executed on the real code: a fresh
// installation in a fresh directory, the shortest history of the state
// replayed on the real client.Client + real stores (+ the real API handler
// for via=api), then the operation, then the full observation vector
// (definition file bytes, GetDAGSpec, listing, GetRecentHistory and
// GetStatusByRequestID of ALL names) is compared with the model's prediction.
package main

import (
	"encoding/json"
	"fmt"
	"os"
	"path/filepath"
	"runtime/pprof"
	"strings"

	"github.com/ErdemOzgen/blackdagger/internal/zzverif/vlib"
)

// op is one operation of the alphabet.
type op struct {
	K   string `json:"k"`             // create | save | rename | delete | list | record
	A   string `json:"a,omitempty"`   // DAG name the operation addresses
	B   string `json:"b,omitempty"`   // save: text id; rename: new name
	Via string `json:"via,omitempty"` // client | api
}

func (o op) String() string {
	switch o.K {
	case "save":
		if o.Via == "api" {
			return fmt.Sprintf("save(%q,%s)/api", o.A, o.B)
		}
		return fmt.Sprintf("save(%q,%s)", o.A, o.B)
	case "rename":
		return fmt.Sprintf("rename(%q->%q)/%s", o.A, o.B, o.Via)
	case "list":
		return "list"
	case "record":
		return fmt.Sprintf("record-run(%q)", o.A)
	}
	return fmt.Sprintf("%s(%q)/%s", o.K, o.A, o.Via)
}

func opsString(h []op) string {
	s := make([]string, len(h))
	for i, o := range h {
		s[i] = o.String()
	}
	return strings.Join(s, " ; ")
}

// names: the model keys (stored definitions) of the world that is being searched (world.go).
var names []string

// alphabet, simplest first (so that the first counterexample is the shortest and plainest).
func alphabet(m *mstate) []op {
	var out []op
	for _, n := range names {
		out = append(out, op{K: "create", A: n, Via: "client"})
	}
	for _, n := range names {
		if _, ok := m.Defs[n]; ok {
			out = append(out, op{K: "record", A: n})
		}
	}
	for _, n := range names {
		for _, t := range textIDs {
			out = append(out, op{K: "save", A: n, B: t, Via: "client"})
		}
	}
	for _, via := range []string{"client", "api"} {
		for _, x := range names {
			for _, y := range names {
				out = append(out, op{K: "rename", A: x, B: y, Via: via})
			}
		}
	}
	for _, via := range []string{"client", "api"} {
		for _, n := range names {
			out = append(out, op{K: "delete", A: n, Via: via})
		}
	}
	for _, n := range names {
		out = append(out, op{K: "create", A: n, Via: "api"})
	}
	out = append(out, op{K: "list"})
	return out
}

type member struct {
	World string `json:"world,omitempty"` // "" = classic (one spelling per name) | spell | spell-wide
	Hist  []op   `json:"hist"`
	Op    op     `json:"op"`
}

type snode struct {
	m     *mstate
	hist  []op
	depth int
}

type checker struct {
	res  *vlib.Result
	fl   *vlib.Flags
	n    int
	work string
	// what judge tolerated in the last member (unusual spelling refused)
	tolerated     string
	prefixRefused bool
	performed     bool // the member's operation was accepted (or answered refused with the full effect)
}

// runMember executes hist+op on a fresh real instance. It returns the signature ("" = conforms),
// a detail text, and whether the member could be validated (false: a prefix operation already diverged,
// which is the business of the member that owns that prefix edge).
func (c *checker) runMember(mb member) (sig, detail string, validated bool, applied int) {
	if W == nil || W.ID != worldByID(mb.World).ID {
		setWorld(worldByID(mb.World))
	}
	c.tolerated, c.prefixRefused, c.performed = "", false, false
	c.n++
	dir := filepath.Join(c.work, fmt.Sprintf("m%d", c.n))
	in, err := newInst(dir)
	if err != nil {
		return "CHECKERROR", err.Error(), false, 0
	}
	defer in.close()
	m := newState()
	defer func() {
		if r := recover(); r != nil {
			sig = fmt.Sprintf("C18/%s/panic/via=%s", mb.Op.K, viaOf(mb.Op))
			detail = fmt.Sprintf("history [%s] then %s: panic in code under test: %v", opsString(mb.Hist), mb.Op, r)
			validated = true
		}
	}()
	for i, o := range mb.Hist {
		next, want := m.apply(o)
		got, info := in.apply(o)
		applied++
		s, _, tol := judge(o, m, next, want, got, info, in.observe(next.universe()))
		if s != "" {
			return "", fmt.Sprintf("prefix op %d (%s) diverged: %s", i, o, s), false, applied
		}
		if tol == tolRefusedUnchanged {
			// an unusual spelling that was refused and changed nothing: the model follows the real installation
			// (the member then checks its operation in that state; does not happen when the history is spelled canonically)
			next = m.clone()
			c.prefixRefused = true
		}
		m = next
	}
	next, want := m.apply(mb.Op)
	got, info := in.apply(mb.Op)
	applied++
	s, d, tol := judge(mb.Op, m, next, want, got, info, in.observe(next.universe()))
	c.tolerated = tol
	c.performed = got || tol == tolRefusedPerformed
	if s != "" {
		return s, fmt.Sprintf("history [%s] then %s: %s", opsString(mb.Hist), mb.Op, d), true, applied
	}
	return "", "", true, applied
}

func viaOf(o op) string {
	if o.Via == "" {
		return "client"
	}
	return o.Via
}

func (c *checker) check(mb member) {
	res := c.res
	res.Evaluations++
	sig, detail, validated, applied := c.runMember(mb)
	res.Count("ops_applied_including_replayed_prefixes", int64(applied))
	if sig == "CHECKERROR" {
		res.CheckError("cannot set up an instance: %s", detail)
		return
	}
	res.Transitions++
	if !validated {
		res.Count("members_skipped_prefix_diverged", 1)
		return
	}
	res.Validated++
	if out := outsideFacet(mb.Op); out != "" && c.performed && sig == "" {
		// not a C18 verdict (the property does not speak about where a name may point), but never to be hidden
		res.Count("operated_on_a_file_OUTSIDE_the_DAGs_directory:"+mb.Op.K+"/via="+viaOf(mb.Op)+out, 1)
	}
	if sig == "" {
		if c.tolerated != "" {
			res.Count(c.tolerated, 1)
		}
		if c.prefixRefused {
			res.Count("members_checked_in_another_state_because_an_unusual_spelling_in_the_history_was_refused", 1)
		}
		return
	}
	// a counterexample is re-run twice before it is believed
	for i := 0; i < 2; i++ {
		s2, _, v2, _ := c.runMember(mb)
		if !v2 || s2 != sig {
			res.CheckError("member [%s ; %s] is not reproducible: first %q then %q", opsString(mb.Hist), mb.Op, sig, s2)
			return
		}
	}
	res.Violate(sig, detail, mb)
}

// search: breadth-first search on the model of one world; every edge is executed on the real code by exactly one shard.
// edge0 / state0 continue the numbering of the previous search (they only deal members to shards).
func (c *checker) search(w *world, depth int, alpha func(*mstate) []op, edge0, state0 int) (edges, states int, mine int64) {
	res, fl := c.res, c.fl
	setWorld(w)
	root := &snode{m: newState()}
	seen := map[string]bool{root.m.key(): true}
	frontier := []*snode{root}
	nstates, edge := 1, 0
	if fl.Mine(state0) {
		mine++
	}
	perDepth := map[int]int{0: 1}
	for d := 0; d < depth && len(frontier) > 0; d++ {
		var nextFrontier []*snode
		for _, sn := range frontier {
			setWorld(w)
			for _, o := range alpha(sn.m) {
				edge++
				nm, _ := sn.m.apply(o)
				k := nm.key()
				if !seen[k] {
					seen[k] = true
					h := append(append([]op(nil), sn.hist...), o)
					nextFrontier = append(nextFrontier, &snode{m: nm, hist: h, depth: d + 1})
					if fl.Mine(state0 + nstates) {
						mine++
					}
					nstates++
					perDepth[d+1]++
				}
				if !fl.Mine(edge0 + edge) {
					continue
				}
				mb := member{Hist: sn.hist, Op: o}
				if w.ID != "classic" {
					mb.World = w.ID
				}
				if sn.m.nontrivial(o) {
					res.Nontrivial(vlib.Hash(w.ID, sn.m.key(), o.String()))
				}
				if edge%1499 == 7 || (len(sn.hist) >= 2 && edge%311 == 0) {
					res.Sample(map[string]any{"world": w.ID, "history": opsString(sn.hist), "op": o.String(), "model_state_before": sn.m.key(), "model_state_after": nm.key()})
				}
				c.check(mb)
			}
		}
		frontier = nextFrontier
	}
	pfx := "model_states_at_depth_"
	if w.ID != "classic" {
		pfx = w.ID + ":" + pfx
	}
	for d, n := range perDepth {
		if fl.Shard == 0 {
			res.Counters[fmt.Sprintf("%s%d", pfx, d)] = int64(n)
		}
	}
	if fl.Shard == 0 {
		res.Counters["edges:"+w.ID] = int64(edge)
		res.Counters["model_states:"+w.ID] = int64(nstates)
	}
	return edge, nstates, mine
}

func main() {
	fl := vlib.ParseFlags()
	res := vlib.New("c18")
	if p := os.Getenv("C18_CPUPROFILE"); p != "" {
		if f, err := os.Create(p); err == nil {
			_ = pprof.StartCPUProfile(f)
			defer pprof.StopCPUProfile()
		}
	}
	c := &checker{res: res, fl: fl, work: filepath.Join(fl.Work, "inst")}
	_ = os.MkdirAll(c.work, 0o755)
	// DAGStore.Find also looks into the current directory: make it an empty one.
	// (Members of the spelling searches get a working directory of their own, see newInst.)
	cwd := filepath.Join(fl.Work, "cwd")
	_ = os.MkdirAll(cwd, 0o755)
	_ = os.Chdir(cwd)
	baseCwd = cwd
	setWorld(classicWorld())
	if err := calibrate(filepath.Join(fl.Work, "calib")); err != nil {
		res.CheckError("calibration: %v", err)
		res.Write(fl.Out)
		os.RemoveAll(fl.Work)
		return
	}
	res.Bounds["empty_text_is_accepted_by_save(observed, property is silent)"] = emptyAccepted

	if fl.Replay != "" {
		var rp struct {
			Replay member `json:"replay"`
		}
		b, err := os.ReadFile(fl.Replay)
		if err == nil {
			err = json.Unmarshal(b, &rp)
		}
		if err != nil {
			fmt.Fprintln(os.Stderr, "replay:", err)
			os.Exit(2)
		}
		c.check(rp.Replay)
		fmt.Fprintf(os.Stderr, "replayed [%s ; %s]: %d violation(s)\n", opsString(rp.Replay.Hist), rp.Replay.Op, len(res.Violations))
		for _, v := range res.Violations {
			fmt.Fprintf(os.Stderr, "  %s\n  %s\n", v.Signature, v.Detail)
		}
		res.States, res.Transitions = 1, 1
		res.Write(fl.Out)
		os.RemoveAll(fl.Work)
		return
	}

	depth := 4
	if fl.Thorough() {
		depth = 6
	}
	if v := os.Getenv("C18_DEPTH"); v != "" {
		fmt.Sscanf(v, "%d", &depth)
	}
	// the spelling searches: (world, history length)
	type ssearch struct {
		world string
		depth int
	}
	spells := []ssearch{{"spell", 4}}
	if fl.Thorough() {
		spells = []ssearch{{"spell", 6}, {"spell-wide", 3}}
	}
	if v := os.Getenv("C18_SPELL_DEPTH"); v != "" {
		fmt.Sscanf(v, "%d", &spells[0].depth)
	}
	res.Bounds["history_length_le"] = depth
	res.Bounds["names"] = classicNames
	res.Bounds["texts"] = textIDs

	only := os.Getenv("C18_ONLY") // dev aid: classic | spell | spell-wide
	edges, states := 0, 0
	var mine int64
	if only == "" || only == "classic" {
		e, s, m := c.search(classicWorld(), depth, alphabet, edges, states)
		edges, states, mine = edges+e, states+s, mine+m
	}
	for _, sp := range spells {
		if only != "" && only != sp.world {
			continue
		}
		w := worldByID(sp.world)
		res.Bounds[sp.world+":history_length_le"] = sp.depth
		for k, v := range describeWorld(w) {
			res.Bounds[sp.world+":"+k] = v
		}
		e, s, m := c.search(w, sp.depth, spellAlphabet, edges, states)
		edges, states, mine = edges+e, states+s, mine+m
	}
	res.States = mine
	res.Rule = "member = (shortest history reaching a model state, one more operation); every edge of the breadth-first search over the reference model up to the stated history length is executed on a fresh real installation and the full observation vector compared; states are distinct canonical model states (name -> text, name -> number of recorded runs); non-trivial = the operation addresses, or collides with, a DAG that exists in the state it is applied in. Classic search: every name spelled one way. Spelling searches (world spell / spell-wide): two logical names, the NAME ARGUMENT of create / save / rename (old and new) / delete spelled in every way of the world, every definition read back (GetDAGSpec, details tab=spec) under every spelling after every operation; states are the model states over the definitions these spellings address"
	res.Assume("operations are issued sequentially by one client (no concurrent editors); recorded runs are completed runs written through the real history store with distinct time stamps one second apart")
	res.Assume("whether an EMPTY text is a valid definition is not stated by the property: the model adopts what the real UpdateSpec does with it (observed once per process) and then demands consistency (all-or-nothing)")
	res.Assume("which stored file a spelling of a name addresses is taken from the unchanged tree (fileLocation / util.AddYamlExtension, table in go/c18/world.go); the property does not say that a spelling other than the bare name has to be accepted: such an operation may be refused if nothing changes")
	res.Write(fl.Out)
	os.RemoveAll(fl.Work)
}
