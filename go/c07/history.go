package main

import (
	"encoding/json"
	"fmt"
	"os"
	"path/filepath"
	"strings"
	"time"

	"github.com/ErdemOzgen/blackdagger/internal/dag"
	"github.com/ErdemOzgen/blackdagger/internal/dag/scheduler"
	"github.com/ErdemOzgen/blackdagger/internal/persistence/jsondb"
	"github.com/ErdemOzgen/blackdagger/internal/persistence/model"
)

// RunSpec describes one run recorded in the history of a DAG.
type RunSpec struct {
	ReqID   string `json:"req_id"`
	Time    string `json:"time"`     // time handed to Open (RFC3339Nano, UTC): becomes the file's timestamp
	Writes  int    `json:"writes"`   // statuses written between Open and Close; the last one is the final status
	Updated bool   `json:"updated"`  // a manual Update (sequence Writes+1) was appended after the run completed
	AgeDays int    `json:"age_days"` // modification time of its files = now - AgeDays days (0: left alone)
	Today   bool   `json:"today"`    // started on the day of the check
}

// FinalSeq is the sequence number of the last status of a completed run.
func (r RunSpec) FinalSeq() int {
	if r.Updated {
		return r.Writes + 1
	}
	return r.Writes
}

// History is one member of the scenario family: a prior state plus the
// operation that is going to be interrupted.
type History struct {
	Name      string    `json:"name"`
	Dag       string    `json:"dag"` // DAG file path (identifies the history directory)
	PriorName string    `json:"prior_name"`
	Prior     []RunSpec `json:"prior"`
	Op        string    `json:"op"` // run | update | rename | removeold
	Run       RunSpec   `json:"run"`
	Target    int       `json:"target"`    // update: index into Prior
	NewDag    string    `json:"new_dag"`   // rename
	Retention int       `json:"retention"` // removeold
	Day       string    `json:"day"`       // the day of the check, 20060102
	// EveryPrefix: tear every write at every length 1..len-1 instead of three lengths
	EveryPrefix bool `json:"every_prefix"`
}

func dagName(dagFile string) string {
	return strings.TrimSuffix(filepath.Base(dagFile), filepath.Ext(dagFile))
}

// mkStatus builds the seq-th status of run r of DAG dagFile.  The sequence
// number is carried in Params ("seq=N") and in the node's DoneCount.
func mkStatus(dagFile string, r RunSpec, seq int) *model.Status {
	t, _ := time.Parse(time.RFC3339Nano, r.Time)
	st := &model.Status{
		RequestID: r.ReqID,
		Name:      dagName(dagFile),
		PID:       model.PID(4242),
		StartedAt: t.Format(time.RFC3339),
		Log:       "/verif-c07/logs/" + dagName(dagFile) + "/agent_" + r.ReqID + ".log",
		Params:    fmt.Sprintf("seq=%d", seq),
	}
	node := &model.Node{
		Step:      dag.Step{Name: "step one", Command: "sh", Args: []string{"-c", "echo \"hello\\n\"; sleep 1"}, CmdWithArgs: "sh -c 'echo hello'"},
		Log:       "/verif-c07/logs/" + dagName(dagFile) + "/step one." + r.ReqID + ".log",
		StartedAt: t.Format(time.RFC3339),
		DoneCount: seq,
	}
	switch {
	case seq < r.Writes:
		st.Status = scheduler.StatusRunning
		node.Status = scheduler.NodeStatusRunning
		node.FinishedAt = "-"
		st.FinishedAt = "-"
	case seq == r.Writes:
		st.Status = scheduler.StatusSuccess
		node.Status = scheduler.NodeStatusSuccess
		node.FinishedAt = t.Add(time.Duration(seq) * time.Second).Format(time.RFC3339)
		st.FinishedAt = node.FinishedAt
		st.PID = model.PID(-1)
	default: // manual status update after completion
		st.Status = scheduler.StatusError
		node.Status = scheduler.NodeStatusError
		node.Error = "marked failed by hand"
		node.FinishedAt = t.Add(time.Duration(r.Writes) * time.Second).Format(time.RFC3339)
		st.FinishedAt = node.FinishedAt
		st.PID = model.PID(-1)
	}
	st.StatusText = st.Status.String()
	node.StatusText = node.Status.String()
	st.Nodes = []*model.Node{node}
	return st
}

func statusJSON(st *model.Status) string {
	b, err := json.Marshal(st)
	if err != nil {
		return "marshal error: " + err.Error()
	}
	return string(b)
}

func parseT(s string) time.Time {
	t, err := time.Parse(time.RFC3339Nano, s)
	if err != nil {
		panic(err)
	}
	return t.UTC()
}

// recordRun records a completed run through the real store.
func recordRun(dir, dagFile string, r RunSpec) error {
	db := jsondb.New(dir, true)
	if err := db.Open(dagFile, parseT(r.Time), r.ReqID); err != nil {
		return err
	}
	for i := 1; i <= r.Writes; i++ {
		if err := db.Write(mkStatus(dagFile, r, i)); err != nil {
			return err
		}
	}
	if err := db.Close(); err != nil {
		return err
	}
	if r.Updated {
		if err := db.Update(dagFile, r.ReqID, mkStatus(dagFile, r, r.Writes+1)); err != nil {
			return err
		}
	}
	return nil
}

// buildPrior creates the prior state of h in dir (through the real store, not traced).
func buildPrior(dir string, h *History) error {
	if err := os.MkdirAll(dir, 0o755); err != nil {
		return err
	}
	for _, r := range h.Prior {
		if err := recordRun(dir, h.Dag, r); err != nil {
			return fmt.Errorf("recording prior run %s: %w", r.ReqID, err)
		}
	}
	// age the files of earlier-day runs
	for _, r := range h.Prior {
		if r.AgeDays == 0 {
			continue
		}
		old := time.Now().AddDate(0, 0, -r.AgeDays)
		err := filepath.Walk(dir, func(p string, info os.FileInfo, err error) error {
			if err == nil && !info.IsDir() && strings.Contains(filepath.Base(p), r.ReqID[:8]) {
				return os.Chtimes(p, old, old)
			}
			return err
		})
		if err != nil {
			return err
		}
	}
	return nil
}

// histories enumerates the scenario family of a tier (deterministic order).
//
// Prior states: p0 empty; p1 one completed run today; p2 two completed runs
// (one ten days old whose compacted file also holds a manual update, one
// today); p14 fourteen completed runs (thirteen earlier days, one today) — a
// directory with more files than Go's sort handles with its stable insertion
// sort, which matters for latest-selection among equal timestamps.
func histories(thorough bool, day time.Time) []*History {
	d := func(daysAgo, hour int) string {
		return time.Date(day.Year(), day.Month(), day.Day(), hour, 0, 0, 0, time.UTC).AddDate(0, 0, -daysAgo).Format(time.RFC3339Nano)
	}
	oldRun := RunSpec{ReqID: "0a0a0a0a-1111-4111-8111-aaaaaaaaaaaa", Time: d(10, 5), Writes: 2, Updated: true, AgeDays: 10}
	todayRun := RunSpec{ReqID: "1b1b1b1b-2222-4222-8222-bbbbbbbbbbbb", Time: d(0, 1), Writes: 3, Today: true}
	newRun := func(w int) RunSpec {
		return RunSpec{ReqID: "2c2c2c2c-3333-4333-8333-cccccccccccc", Time: d(0, 3), Writes: w, Today: true}
	}
	var many []RunSpec
	for i := 13; i >= 1; i-- {
		many = append(many, RunSpec{ReqID: fmt.Sprintf("d%07x-4444-4444-8444-dddddddddddd", i), Time: d(i, 5), Writes: 1, AgeDays: i})
	}
	many = append(many, todayRun)
	type prior struct {
		name string
		runs []RunSpec
	}
	priors := []prior{{"p0", nil}, {"p1", []RunSpec{todayRun}}, {"p2", []RunSpec{oldRun, todayRun}}, {"p14", many}}
	dags := [][2]string{{"/verif-c07/dags/alpha.yaml", "/verif-c07/dags/beta.yaml"}}
	if thorough {
		dags = append(dags, [2]string{"/verif-c07/dags/nightly load.yaml", "/verif-c07/dags/nightly load v2.yaml"})
	}
	var out []*History
	for di, dg := range dags {
		tag := ""
		if di > 0 {
			tag = "/spaced-name"
		}
		for _, p := range priors {
			mk := func(op string) *History {
				h := &History{Name: p.name + "/" + op + tag, Dag: dg[0], PriorName: p.name, Prior: p.runs,
					Op: strings.SplitN(op, "-", 2)[0], Day: day.Format("20060102")}
				out = append(out, h)
				return h
			}
			big := p.name == "p14"
			for w := 1; w <= 3; w++ {
				if big && !thorough && w != 2 {
					continue
				}
				mk(fmt.Sprintf("run-w%d", w)).Run = newRun(w)
			}
			if len(p.runs) == 0 {
				continue // update / rename / removeold of a DAG without history touch no file
			}
			mk("update-latest").Target = len(p.runs) - 1
			if len(p.runs) > 1 && (!big || thorough) {
				mk("update-older").Target = 0
			}
			mk("rename").NewDag = dg[1]
			mk("removeold-7d").Retention = 7
			if len(p.runs) > 1 && (!big || thorough) {
				mk("removeold-0d").Retention = 0
			}
			if thorough && p.name == "p1" && di == 0 {
				// every prefix of every write, not only three torn lengths
				h := mk("run-w1/every-prefix")
				h.Run = newRun(1)
				h.EveryPrefix = true
				h = mk("update-latest/every-prefix")
				h.Target = 0
				h.EveryPrefix = true
			}
		}
	}
	return out
}
