package main

import (
	"fmt"
	"os"
	"path/filepath"
	"sort"
	"strconv"
	"strings"
)

// Call is one line of a vtrace log.
type Call struct {
	K       int
	Name    string
	FD      int    // -1 when the call takes a path
	Path    string // relative to the traced root ("." = the root itself); absolute when outside
	Path2   string
	Flags   string
	Len     int64
	Ret     int64
	Done    bool // the call returned (ret known)
	RawLine string
}

// Trace is a parsed vtrace log.
type Trace struct {
	Calls []Call
	End   string // text of the "# end ..." line
}

func unesc(s string) string {
	if !strings.Contains(s, "\\x") {
		return s
	}
	var sb strings.Builder
	for i := 0; i < len(s); i++ {
		if s[i] == '\\' && i+3 < len(s) && s[i+1] == 'x' {
			if v, err := strconv.ParseUint(s[i+2:i+4], 16, 8); err == nil {
				sb.WriteByte(byte(v))
				i += 3
				continue
			}
		}
		sb.WriteByte(s[i])
	}
	return sb.String()
}

func rel(root, p string) string {
	p = unesc(p)
	if p == root {
		return "."
	}
	if strings.HasPrefix(p, root+"/") {
		return p[len(root)+1:]
	}
	return p
}

func parseTrace(path, root string) (*Trace, error) {
	b, err := os.ReadFile(path)
	if err != nil {
		return nil, err
	}
	tr := &Trace{}
	for _, line := range strings.Split(strings.TrimRight(string(b), "\n"), "\n") {
		if line == "" {
			continue
		}
		if strings.HasPrefix(line, "# end ") {
			tr.End = strings.TrimPrefix(line, "# end ")
			continue
		}
		f := strings.Fields(line)
		if len(f) < 4 {
			return nil, fmt.Errorf("malformed trace line %q", line)
		}
		c := Call{FD: -1, RawLine: line}
		if c.K, err = strconv.Atoi(f[0]); err != nil {
			return nil, fmt.Errorf("malformed trace line %q", line)
		}
		c.Name = f[2]
		for _, tok := range f[3:] {
			switch {
			case strings.HasPrefix(tok, "ret="):
				if tok != "ret=?" {
					c.Ret, _ = strconv.ParseInt(tok[4:], 10, 64)
					c.Done = true
				}
			case strings.HasPrefix(tok, "len="):
				c.Len, _ = strconv.ParseInt(tok[4:], 10, 64)
			case strings.HasPrefix(tok, "flags="):
				c.Flags = tok[6:]
			case strings.HasPrefix(tok, "off="):
			default:
				p := tok
				if i := strings.Index(tok, "->"); i > 0 {
					if fd, err := strconv.Atoi(tok[:i]); err == nil {
						c.FD = fd
						p = tok[i+2:]
					}
				}
				if c.Path == "" {
					c.Path = rel(root, p)
				} else {
					c.Path2 = rel(root, p)
				}
			}
		}
		if c.K != len(tr.Calls)+1 {
			return nil, fmt.Errorf("trace numbering broken at %q", line)
		}
		tr.Calls = append(tr.Calls, c)
	}
	if tr.End == "" {
		return nil, fmt.Errorf("trace %s has no end line", path)
	}
	return tr, nil
}

// Norm is what two runs of the same scenario must agree on: call kind, path(s)
// relative to the root, open flags and length — no thread ids, no fd numbers, no
// return values.
func (c Call) Norm() string {
	return fmt.Sprintf("%s %q %q flags=%s len=%d", c.Name, c.Path, c.Path2, c.Flags, c.Len)
}

// Short renders a call without thread id, root prefix or fd number (stable across runs).
func (c Call) Short() string {
	s := c.Name + " " + c.Path
	if c.Path2 != "" {
		s += " -> " + c.Path2
	}
	if c.Flags != "" {
		s += " flags=" + c.Flags
	}
	if c.Len > 0 {
		s += fmt.Sprintf(" len=%d", c.Len)
	}
	return s
}

func hasFlag(flags, f string) bool {
	for _, x := range strings.Split(flags, "|") {
		if x == f {
			return true
		}
	}
	return false
}

func fileKind(p string) string {
	switch {
	case strings.HasSuffix(p, "_c.dat"):
		return "_c.dat"
	case strings.HasSuffix(p, ".dat"):
		return ".dat"
	default:
		return "dir"
	}
}

// Desc is the crash-point class of a call: call kind + kind of file, e.g.
// create(.dat), write(_c.dat), open-read(.dat), unlink(.dat), fsync(_c.dat).
func (c Call) Desc() string {
	kind := c.Name
	switch c.Name {
	case "open", "openat", "openat2", "creat":
		switch {
		case hasFlag(c.Flags, "O_CREAT"):
			kind = "create"
		case hasFlag(c.Flags, "O_DIRECTORY") || fileKind(c.Path) == "dir":
			kind = "opendir"
		case hasFlag(c.Flags, "O_TRUNC"):
			kind = "open-trunc"
		case hasFlag(c.Flags, "O_APPEND"):
			kind = "open-append"
		case hasFlag(c.Flags, "O_RDONLY"):
			kind = "open-read"
		default:
			kind = "open-write"
		}
	case "write", "pwrite64", "writev", "pwritev", "pwritev2":
		kind = "write"
	case "rename", "renameat", "renameat2":
		kind = "rename"
	case "unlink", "unlinkat":
		kind = "unlink"
		if c.Flags == "AT_REMOVEDIR" {
			kind = "rmdir"
		}
	case "mkdir", "mkdirat":
		kind = "mkdir"
	case "fdatasync":
		kind = "fsync"
	}
	return kind + "(" + fileKind(c.Path) + ")"
}

func (c Call) IsTearable() bool { return (c.Name == "write" || c.Name == "pwrite64") && c.Len >= 2 }

// ---------------------------------------------------------------- model ---

// FS is the predicted content of the root: file sizes and directories.
type FS struct {
	Files map[string]int64
	Dirs  map[string]bool
}

type simFD struct {
	path   string
	append bool
	off    int64
}

func listFS(root string) (*FS, error) {
	fs := &FS{Files: map[string]int64{}, Dirs: map[string]bool{}}
	err := filepath.Walk(root, func(p string, info os.FileInfo, err error) error {
		if err != nil {
			return err
		}
		r, _ := filepath.Rel(root, p)
		if info.IsDir() {
			if r != "." {
				fs.Dirs[r] = true
			}
		} else {
			fs.Files[r] = info.Size()
		}
		return nil
	})
	return fs, err
}

func (fs *FS) String() string {
	var out []string
	for d := range fs.Dirs {
		out = append(out, d+"/")
	}
	for f, n := range fs.Files {
		out = append(out, fmt.Sprintf("%s(%d)", f, n))
	}
	sort.Strings(out)
	return strings.Join(out, " ")
}

// apply replays the calls that returned onto fs (names, sizes, directories).
// It returns the kinds of modifying calls the model does not know; when that
// list is not empty the prediction is not to be trusted (self-check skipped).
func (fs *FS) apply(calls []Call) (unsupported []string) {
	fds := map[int]*simFD{}
	for _, c := range calls {
		if !c.Done {
			continue
		}
		switch c.Name {
		case "pwrite64", "pwritev", "pwritev2", "sendfile", "copy_file_range", "splice", "bind":
			if c.Ret > 0 || (c.Name == "bind" && c.Ret == 0) {
				unsupported = append(unsupported, c.Name)
			}
		case "open", "openat", "openat2", "creat":
			if c.Ret < 0 {
				continue
			}
			_, isFile := fs.Files[c.Path]
			if hasFlag(c.Flags, "O_CREAT") && !isFile && !fs.Dirs[c.Path] {
				fs.Files[c.Path] = 0
				isFile = true
			}
			if isFile && hasFlag(c.Flags, "O_TRUNC") && !hasFlag(c.Flags, "O_RDONLY") {
				fs.Files[c.Path] = 0
			}
			fds[int(c.Ret)] = &simFD{path: c.Path, append: hasFlag(c.Flags, "O_APPEND")}
		case "write", "writev":
			if c.Ret <= 0 {
				continue
			}
			fd := fds[c.FD]
			if fd == nil {
				fd = &simFD{path: c.Path, append: true}
				fds[c.FD] = fd
			}
			if fd.append {
				fd.off = fs.Files[fd.path]
			}
			fd.off += c.Ret
			if fd.off > fs.Files[fd.path] {
				fs.Files[fd.path] = fd.off
			}
		case "ftruncate", "truncate":
			if c.Ret == 0 {
				fs.Files[c.Path] = c.Len
			}
		case "rename", "renameat", "renameat2":
			if c.Ret != 0 {
				continue
			}
			if n, ok := fs.Files[c.Path]; ok {
				delete(fs.Files, c.Path)
				fs.Files[c.Path2] = n
				for _, fd := range fds {
					if fd.path == c.Path {
						fd.path = c.Path2
					}
				}
			} else if fs.Dirs[c.Path] {
				// a directory moves with everything below it
				pre := c.Path + "/"
				moved := func(p string) (string, bool) {
					if p == c.Path {
						return c.Path2, true
					}
					if strings.HasPrefix(p, pre) {
						return c.Path2 + "/" + p[len(pre):], true
					}
					return p, false
				}
				nf, nd := map[string]int64{}, map[string]bool{}
				for f, n := range fs.Files {
					q, _ := moved(f)
					nf[q] = n
				}
				for d := range fs.Dirs {
					q, _ := moved(d)
					nd[q] = true
				}
				fs.Files, fs.Dirs = nf, nd
				for _, fd := range fds {
					fd.path, _ = moved(fd.path)
				}
			}
		case "unlink", "unlinkat", "rmdir":
			if c.Ret != 0 {
				continue
			}
			if c.Name == "rmdir" || c.Flags == "AT_REMOVEDIR" {
				delete(fs.Dirs, c.Path)
			} else {
				delete(fs.Files, c.Path)
				// an open descriptor keeps writing into the unlinked inode: forget it
				for k, fd := range fds {
					if fd.path == c.Path {
						fds[k] = &simFD{path: "\x00unlinked/" + c.Path, append: fd.append, off: fd.off}
					}
				}
			}
		case "mkdir", "mkdirat":
			if c.Ret == 0 {
				fs.Dirs[c.Path] = true
			}
		case "close":
			delete(fds, c.FD)
		}
	}
	for f := range fs.Files {
		if strings.HasPrefix(f, "\x00unlinked/") {
			delete(fs.Files, f)
		}
	}
	return unsupported
}

func (fs *FS) clone() *FS {
	n := &FS{Files: map[string]int64{}, Dirs: map[string]bool{}}
	for k, v := range fs.Files {
		n.Files[k] = v
	}
	for k := range fs.Dirs {
		n.Dirs[k] = true
	}
	return n
}
