package main

import (
	"encoding/json"
	"fmt"
	"io"
	"log"
	"os"
	"runtime"

	"github.com/ErdemOzgen/blackdagger/internal/persistence/jsondb"
)

// Child role: replays the operation of one history on a real jsondb store
// rooted at $C07_DATA, single goroutine on a locked OS thread, and appends
// "ACK <op-index> <what>" to $C07_ACK (a file outside the traced roots) after
// each store call has returned.  A store call returning an error is recorded
// as "ERR <op-index> <what>: <error>" and ends the child with status 3.
func childMain(specPath string) {
	runtime.LockOSThread()
	log.SetOutput(io.Discard)
	b, err := os.ReadFile(specPath)
	if err != nil {
		fmt.Fprintln(os.Stderr, "c07 child:", err)
		os.Exit(4)
	}
	var h History
	if err := json.Unmarshal(b, &h); err != nil {
		fmt.Fprintln(os.Stderr, "c07 child:", err)
		os.Exit(4)
	}
	ack, err := os.OpenFile(os.Getenv("C07_ACK"), os.O_CREATE|os.O_WRONLY|os.O_APPEND, 0o644)
	if err != nil {
		fmt.Fprintln(os.Stderr, "c07 child:", err)
		os.Exit(4)
	}
	n := 0
	step := func(what string, err error) {
		if err != nil {
			fmt.Fprintf(ack, "ERR %d %s: %v\n", n, what, err)
			os.Exit(3)
		}
		fmt.Fprintf(ack, "ACK %d %s\n", n, what)
		n++
	}
	db := jsondb.New(os.Getenv("C07_DATA"), true)
	switch h.Op {
	case "run":
		step("open", db.Open(h.Dag, parseT(h.Run.Time), h.Run.ReqID))
		for i := 1; i <= h.Run.Writes; i++ {
			step(fmt.Sprintf("write seq=%d", i), db.Write(mkStatus(h.Dag, h.Run, i)))
		}
		step("close", db.Close())
	case "update":
		r := h.Prior[h.Target]
		step(fmt.Sprintf("update seq=%d", r.FinalSeq()+1), db.Update(h.Dag, r.ReqID, mkStatus(h.Dag, r, r.FinalSeq()+1)))
	case "rename":
		step("rename", db.Rename(h.Dag, h.NewDag))
	case "removeold":
		step("removeold", db.RemoveOld(h.Dag, h.Retention))
	default:
		fmt.Fprintln(os.Stderr, "c07 child: unknown op", h.Op)
		os.Exit(4)
	}
	fmt.Fprintf(ack, "DONE\n")
	os.Exit(0)
}
