// C07 — recorded history survives a crash at any instant.
//
// Fault enumeration with the syscall-level supervisor vtrace (c/vtrace.c).
// One binary, two roles:
//
//   - child ($C07_CHILD set, see child.go): replays the operation of one history
//     on a real jsondb store and acknowledges each store call that returned;
//   - parent (the harness): for every history of the family (history.go) runs
//     the child under `vtrace --log` (baseline, twice: the two traces must be
//     identical modulo thread ids), then kills it at the entry of every
//     relevant system call K = 1..N (`--kill-at K`) and, for every write,
//     lets the write go through torn to M in {1, len/2, len-1} bytes
//     (`--tear M`), each time on a fresh copy of the prior state.  After each
//     crash fresh stores (cold cache, both latestStatusToday settings) are
//     opened on the surviving directory and the oracle of oracle.go is checked.
//
// Self-checks of the harness (check errors, never verdicts, and never a
// precondition for judging a member): two baselines must give the same trace;
// every crash run's trace must be a prefix of the baseline (else it is
// repeated once, reported, and the surviving directory is judged anyway); the
// calls that returned, replayed on a model of the directory (files, sizes,
// directories incl. renames of whole directories), must give the real
// surviving directory, so that no modification escapes the tracer and the
// kill happened exactly at K.  The last member of every history is K = N+1:
// the operation ran to its end; a prior state that already breaks the
// property is reported as a violation at "prior-<p>/…/at=end".
package main

import (
	"context"
	"crypto/sha1"
	"encoding/hex"
	"encoding/json"
	"fmt"
	"io"
	"log"
	"os"
	"os/exec"
	"path/filepath"
	"sort"
	"strings"
	"time"

	"github.com/ErdemOzgen/blackdagger/internal/zzverif/vlib"
)

const watchdog = 120 * time.Second

type member struct {
	History string `json:"history"`
	K       int    `json:"k"`
	M       int    `json:"m"` // -1: plain kill at entry of call K; >= 0: call K is a write torn to M bytes
}

type harness struct {
	res    *vlib.Result
	fl     *vlib.Flags
	vtrace string
	self   string
	day    time.Time
}

// crashRun is the outcome of one child execution under vtrace.
type crashRun struct {
	dir   string // run directory (data/ = traced root, ack, trace)
	data  string
	trace *Trace
	acks  []string
	exit  int
	errs  string
}

func (hn *harness) runChild(h *History, specPath, prior, dir string, k, m int) (*crashRun, error) {
	_ = os.RemoveAll(dir)
	data := filepath.Join(dir, "data")
	if err := copyTree(prior, data); err != nil {
		return nil, err
	}
	tracePath := filepath.Join(dir, "trace")
	ackPath := filepath.Join(dir, "ack")
	args := []string{"--root", data, "--log", tracePath}
	if k > 0 {
		args = append(args, "--kill-at", fmt.Sprint(k))
		if m >= 0 {
			args = append(args, "--tear", fmt.Sprint(m))
		}
	}
	args = append(args, "--", hn.self)
	ctx, cancel := context.WithTimeout(context.Background(), watchdog)
	defer cancel()
	cmd := exec.CommandContext(ctx, hn.vtrace, args...)
	cmd.Env = append(os.Environ(), "C07_CHILD="+specPath, "C07_DATA="+data, "C07_ACK="+ackPath, "TZ=UTC", "GOMAXPROCS=1", "GOGC=off")
	var stderr strings.Builder
	cmd.Stdout = io.Discard
	cmd.Stderr = &stderr
	err := cmd.Run()
	if ctx.Err() != nil {
		return nil, fmt.Errorf("watchdog: child under vtrace did not end within %s (history %s K=%d M=%d)", watchdog, h.Name, k, m)
	}
	cr := &crashRun{dir: dir, data: data, errs: stderr.String()}
	if err != nil {
		ee, ok := err.(*exec.ExitError)
		if !ok {
			return nil, fmt.Errorf("cannot run vtrace: %v", err)
		}
		cr.exit = ee.ExitCode()
	}
	tr, err := parseTrace(tracePath, data)
	if err != nil {
		return nil, fmt.Errorf("vtrace exit %d, %v, stderr: %s", cr.exit, err, vlib.Short(cr.errs, 300))
	}
	cr.trace = tr
	if b, err := os.ReadFile(ackPath); err == nil {
		for _, l := range strings.Split(strings.TrimSpace(string(b)), "\n") {
			if l != "" {
				cr.acks = append(cr.acks, l)
			}
		}
	}
	return cr, nil
}

func ackCount(acks []string) (n int, errLine string) {
	for _, a := range acks {
		if strings.HasPrefix(a, "ACK ") {
			n++
		}
		if strings.HasPrefix(a, "ERR ") {
			errLine = a
		}
	}
	return
}

func copyTree(src, dst string) error {
	return filepath.Walk(src, func(p string, info os.FileInfo, err error) error {
		if err != nil {
			return err
		}
		r, _ := filepath.Rel(src, p)
		t := filepath.Join(dst, r)
		if info.IsDir() {
			return os.MkdirAll(t, 0o755)
		}
		b, err := os.ReadFile(p)
		if err != nil {
			return err
		}
		if err := os.WriteFile(t, b, info.Mode().Perm()); err != nil {
			return err
		}
		return os.Chtimes(t, info.ModTime(), info.ModTime())
	})
}

// digest is the canonical content of a directory tree (names, sizes, bytes; no times).
func digest(root string) string {
	h := sha1.New()
	_ = filepath.Walk(root, func(p string, info os.FileInfo, err error) error {
		if err != nil {
			return nil
		}
		r, _ := filepath.Rel(root, p)
		if info.IsDir() {
			fmt.Fprintf(h, "D %s\n", r)
			return nil
		}
		b, _ := os.ReadFile(p)
		fmt.Fprintf(h, "F %s %d %x\n", r, len(b), sha1.Sum(b))
		return nil
	})
	return hex.EncodeToString(h.Sum(nil))[:16]
}

// opName names the store call that was executing, from the number of acknowledgements.
func opName(h *History, acks int) string {
	switch h.Op {
	case "run":
		switch {
		case acks == 0:
			return "open"
		case acks <= h.Run.Writes:
			return fmt.Sprintf("write%d", acks)
		default:
			return "close"
		}
	}
	return h.Op
}

// prepared is a history with its baseline.
type prepared struct {
	h        *History
	idx      int
	hdir     string
	spec     string
	prior    string
	priorFS  *FS
	base     *Trace
	priorDig string
	finalDig string
	finalFS  *FS
}

// modelCheck is a self-check of the harness, never a precondition for judging:
// the calls that returned, replayed on a model of the directory, should give
// the real directory (names and sizes).  A call kind the model does not know
// skips the comparison (counted); a mismatch is a check error and the member
// is evaluated by the oracle all the same.
func (hn *harness) modelCheck(p *prepared, calls []Call, data, what string) {
	pred := p.priorFS.clone()
	if un := pred.apply(calls); len(un) > 0 {
		for _, k := range un {
			hn.res.Count("model_selfcheck_skipped:"+k, 1)
		}
		return
	}
	got, err := listFS(data)
	if err != nil {
		hn.res.CheckError("history %s %s: cannot list %s: %v", p.h.Name, what, data, err)
		return
	}
	if pred.String() != got.String() {
		hn.res.Count("model_selfcheck_mismatch", 1)
		hn.res.CheckError("history %s %s: the directory is not what the trace predicts (tracer or model incomplete): predicted {%s} real {%s}", p.h.Name, what, pred, got)
	}
}

func (hn *harness) violate(h *History, mb member, pos, where string, acks []string, surv *FS, findings []finding) {
	seen := map[string]bool{}
	n, _ := ackCount(acks)
	for _, f := range findings {
		sig := "C07/" + f.Kind + "/" + pos
		if seen[sig] {
			continue
		}
		seen[sig] = true
		detail := fmt.Sprintf("history %s (prior %s, operation %s), %s; %d store calls acknowledged %v; surviving directory {%s}: %s",
			h.Name, h.PriorName, h.Op, where, n, acks, surv, f.Detail)
		hn.res.Violate(sig, detail, mb)
	}
}

// prepare builds the prior state and the baseline of a history.  A nil result
// without error means the history cannot be enumerated because the prior state
// itself (recorded by un-killed store calls) already breaks the property; that
// has been reported as a violation.
func (hn *harness) prepare(h *History, idx int, report bool) (*prepared, error) {
	p := &prepared{h: h, idx: idx, hdir: filepath.Join(hn.fl.Work, fmt.Sprintf("h%02d", idx))}
	if err := os.MkdirAll(p.hdir, 0o755); err != nil {
		return nil, err
	}
	p.spec = filepath.Join(p.hdir, "spec.json")
	b, _ := json.Marshal(h)
	if err := os.WriteFile(p.spec, b, 0o644); err != nil {
		return nil, err
	}
	p.prior = filepath.Join(p.hdir, "prior")
	if err := buildPrior(p.prior, h); err != nil {
		return nil, fmt.Errorf("history %s: cannot build the prior state: %v", h.Name, err)
	}
	var err error
	if p.priorFS, err = listFS(p.prior); err != nil {
		return nil, err
	}
	p.priorDig = digest(p.prior)
	// The prior runs were recorded and acknowledged by un-killed store calls; a process that
	// dies after that (before the operation under test starts) must leave them served.
	if f := runOracle(h, 0, p.prior); len(f) > 0 {
		if report {
			hn.res.Evaluations++
			hn.violate(h, member{h.Name, 0, -1}, "prior-"+h.PriorName+"/after=close/at=end",
				"no kill: the prior runs were recorded through Open/Write/Close"+map[bool]string{true: "/Update", false: ""}[len(h.Prior) > 0 && h.Prior[0].Updated]+" that all returned",
				nil, p.priorFS, f)
		}
		return nil, nil
	}
	var norm [2][]string
	for i := 0; i < 2; i++ {
		cr, err := hn.runChild(h, p.spec, p.prior, filepath.Join(p.hdir, fmt.Sprintf("base%d", i)), 0, -1)
		if err != nil {
			return nil, fmt.Errorf("history %s baseline: %v", h.Name, err)
		}
		_, errLine := ackCount(cr.acks)
		if cr.exit != 0 || errLine != "" || len(cr.acks) == 0 || cr.acks[len(cr.acks)-1] != "DONE" {
			return nil, fmt.Errorf("history %s: the un-killed child failed (exit %d, acks %v, stderr %s)", h.Name, cr.exit, cr.acks, vlib.Short(cr.errs, 300))
		}
		for _, c := range cr.trace.Calls {
			if !c.Done {
				return nil, fmt.Errorf("history %s baseline: call without return value: %s", h.Name, c.RawLine)
			}
			norm[i] = append(norm[i], c.Norm()+fmt.Sprintf(" ret=%d", c.Ret))
		}
		if i == 0 {
			p.base = cr.trace
			p.finalDig = digest(cr.data)
			p.finalFS, _ = listFS(cr.data)
			if report {
				hn.modelCheck(p, cr.trace.Calls, cr.data, "baseline")
			}
		}
		_ = os.RemoveAll(cr.dir)
	}
	if strings.Join(norm[0], "\n") != strings.Join(norm[1], "\n") {
		return nil, fmt.Errorf("scenario not deterministic: history %s gives two different traces:\n%s\n---\n%s", h.Name, strings.Join(norm[0], "\n"), strings.Join(norm[1], "\n"))
	}
	return p, nil
}

// members of a prepared history, in canonical order: kill at the entry of
// every call, torn variants of every write, and finally K = N+1: the operation
// ran to its end (the instant after its last call).
func (p *prepared) members() []member {
	var out []member
	for _, c := range p.base.Calls {
		out = append(out, member{p.h.Name, c.K, -1})
		if c.IsTearable() {
			seen := map[int64]bool{}
			lens := []int64{1, c.Len / 2, c.Len - 1}
			if p.h.EveryPrefix {
				lens = lens[:0]
				for m := int64(1); m < c.Len; m++ {
					lens = append(lens, m)
				}
			}
			for _, m := range lens {
				if m >= 1 && m < c.Len && !seen[m] {
					seen[m] = true
					out = append(out, member{p.h.Name, c.K, int(m)})
				}
			}
		}
	}
	out = append(out, member{p.h.Name, len(p.base.Calls) + 1, -1})
	return out
}

// crash executes one member and checks the oracle on the surviving directory.
func (hn *harness) crash(p *prepared, mb member, verbose bool) error {
	res := hn.res
	h := p.h
	atEnd := mb.K == len(p.base.Calls)+1
	dir := filepath.Join(p.hdir, fmt.Sprintf("k%03dm%d", mb.K, mb.M))
	defer os.RemoveAll(dir)
	var cr *crashRun
	var why string
	for attempt := 0; attempt < 2; attempt++ {
		var err error
		k := mb.K
		if atEnd {
			k = 0
		}
		cr, err = hn.runChild(h, p.spec, p.prior, dir, k, mb.M)
		if err != nil {
			return err
		}
		why = hn.validate(p, mb, cr, atEnd)
		if why == "" {
			break
		}
		res.Count("crash_runs_repeated", 1)
	}
	// the calls that describe the crash point: the baseline's when the run followed it (the rule),
	// the run's own otherwise
	calls := p.base.Calls
	if why != "" {
		// not a verdict about the code — but the surviving directory is still judged by the oracle
		res.CheckError("scenario not deterministic: history %s K=%d M=%d: %s", h.Name, mb.K, mb.M, why)
		wantExit := 99
		if atEnd {
			wantExit = 0
		}
		if cr.exit != wantExit || (!atEnd && len(cr.trace.Calls) == 0) {
			return nil
		}
		calls = cr.trace.Calls
		if !atEnd {
			mb.K = len(calls)
		}
	}
	res.Evaluations++
	acks, _ := ackCount(cr.acks)
	dig := digest(cr.data)
	nontrivial := dig != p.priorDig && dig != p.finalDig
	if nontrivial {
		res.Nontrivial(vlib.Hash(h.Name, mb.K, mb.M))
	}
	hn.modelCheck(p, cr.trace.Calls, cr.data, fmt.Sprintf("K=%d M=%d", mb.K, mb.M))
	prev, at, where := "start", "end", "not killed: the operation ran to its end"
	if atEnd {
		if len(calls) > 0 {
			prev = calls[len(calls)-1].Desc()
		}
	} else {
		call := calls[mb.K-1]
		if mb.K >= 2 {
			prev = calls[mb.K-2].Desc()
		}
		at = call.Desc()
		where = fmt.Sprintf("killed at call K=%d [%s]", mb.K, call.Short())
		if mb.M >= 0 {
			at += "/torn"
			where += fmt.Sprintf(", the write torn after %d of %d bytes", mb.M, call.Len)
		}
	}
	pos := fmt.Sprintf("%s/after=%s/at=%s", opName(h, acks), prev, at)
	surv, _ := listFS(cr.data)
	res.Count("crash_points:"+h.Name, 1)
	if mb.K%5 == 2 && mb.M < 0 && (p.idx%2 == 0) && !atEnd {
		res.Sample(map[string]any{"history": h.Name, "k": mb.K, "killed_at": calls[mb.K-1].Short(),
			"acks": cr.acks, "surviving": surv.String(), "differs_from_before_and_after": nontrivial})
	}
	findings := runOracle(h, acks, cr.data)
	if verbose {
		fmt.Printf("history %s K=%d M=%d position %s\n  %s\n  acks: %v\n  surviving: %s\n", h.Name, mb.K, mb.M, pos, where, cr.acks, surv)
		for _, c := range p.base.Calls {
			fmt.Printf("  baseline %2d %-20s %s ret=%d\n", c.K, c.Desc(), c.Short(), c.Ret)
		}
		for _, e := range expectations(h, acks) {
			fmt.Printf("  expect: %s under %v\n", e.label(), e.Names)
		}
		for _, f := range findings {
			fmt.Printf("  FINDING %s: %s\n", f.Kind, f.Detail)
		}
	}
	hn.violate(h, mb, pos, where, cr.acks, surv, findings)
	return nil
}

// validate: the crash run must be the baseline up to K (same calls, same
// return values, killed / torn exactly at K); the un-killed member must be the
// whole baseline.
func (hn *harness) validate(p *prepared, mb member, cr *crashRun, atEnd bool) string {
	if atEnd {
		if cr.exit != 0 || len(cr.acks) == 0 || cr.acks[len(cr.acks)-1] != "DONE" {
			return fmt.Sprintf("the un-killed child ended with exit %d, acks %v", cr.exit, cr.acks)
		}
		if len(cr.trace.Calls) != len(p.base.Calls) {
			return fmt.Sprintf("trace has %d calls, the baseline %d", len(cr.trace.Calls), len(p.base.Calls))
		}
		for i, c := range cr.trace.Calls {
			if c.Norm() != p.base.Calls[i].Norm() || !c.Done || c.Ret != p.base.Calls[i].Ret {
				return fmt.Sprintf("call %d differs from the baseline: %q vs %q", i+1, c.RawLine, p.base.Calls[i].RawLine)
			}
		}
		return ""
	}
	if cr.exit != 99 {
		return fmt.Sprintf("vtrace exit %d instead of 99 (end: %s; stderr %s)", cr.exit, cr.trace.End, vlib.Short(cr.errs, 200))
	}
	if len(cr.trace.Calls) != mb.K {
		return fmt.Sprintf("trace has %d calls, expected %d", len(cr.trace.Calls), mb.K)
	}
	for i, c := range cr.trace.Calls {
		if c.Norm() != p.base.Calls[i].Norm() {
			return fmt.Sprintf("call %d differs from the baseline: %q vs %q", i+1, c.RawLine, p.base.Calls[i].RawLine)
		}
		last := i == mb.K-1
		if !last && (!c.Done || c.Ret != p.base.Calls[i].Ret) {
			return fmt.Sprintf("call %d returned differently: %q vs %q", i+1, c.RawLine, p.base.Calls[i].RawLine)
		}
		if last && mb.M < 0 && c.Done {
			return fmt.Sprintf("call %d was to be killed at entry but returned: %q", i+1, c.RawLine)
		}
		if last && mb.M >= 0 && (!c.Done || c.Ret != int64(mb.M)) {
			return fmt.Sprintf("call %d was to be torn to %d bytes: %q", i+1, mb.M, c.RawLine)
		}
	}
	return ""
}

func main() {
	if spec := os.Getenv("C07_CHILD"); spec != "" {
		childMain(spec)
		return
	}
	time.Local = time.UTC
	os.Setenv("TZ", "UTC")
	log.SetOutput(io.Discard)
	fl := vlib.ParseFlags()
	res := vlib.New("c07")
	defer func() {
		_ = os.RemoveAll(fl.Work)
	}()
	hn := &harness{res: res, fl: fl, vtrace: os.Getenv("VERIF_VTRACE")}
	res.Rule = "a crash point is non-trivial when the surviving directory differs (names, sizes or bytes) from both the state before the operation and the state after it"
	finish := func() {
		res.Write(fl.Out)
		_ = os.RemoveAll(fl.Work)
	}
	if hn.vtrace == "" {
		hn.vtrace = filepath.Join(os.Getenv("VERIF_DIR"), "bin", "vtrace")
	}
	if _, err := os.Stat(hn.vtrace); err != nil {
		res.CheckError("vtrace not available (%v); build it with `bin/vcheck setup`", err)
		finish()
		return
	}
	var err error
	if hn.self, err = os.Executable(); err != nil {
		res.CheckError("os.Executable: %v", err)
		finish()
		return
	}
	hn.day = time.Now().UTC()
	if err := os.MkdirAll(fl.Work, 0o755); err != nil {
		res.CheckError("work dir: %v", err)
		finish()
		return
	}

	// self-check of the status generator: a status survives a JSON round trip unchanged
	{
		r := RunSpec{ReqID: "ffffffff-0000-4000-8000-000000000000", Time: hn.day.Format(time.RFC3339Nano), Writes: 2}
		for seq := 1; seq <= 3; seq++ {
			a := statusJSON(mkStatus("/x/a b.yaml", r, seq))
			var back = mkStatus("/x/a b.yaml", r, seq)
			_ = json.Unmarshal([]byte(a), back)
			if statusJSON(back) != a {
				res.CheckError("status generator: JSON round trip is not the identity")
			}
		}
	}

	hs := histories(fl.Thorough(), hn.day)
	var replay *member
	if fl.Replay != "" {
		var art struct {
			Replay member `json:"replay"`
		}
		b, err := os.ReadFile(fl.Replay)
		if err == nil {
			err = json.Unmarshal(b, &art)
		}
		if err != nil {
			res.CheckError("cannot read replay artefact: %v", err)
			finish()
			return
		}
		replay = &art.Replay
		// the member may come from the other tier's family
		found := false
		for _, h := range hs {
			found = found || h.Name == replay.History
		}
		if !found {
			hs = histories(true, hn.day)
		}
	}

	res.Bounds["histories"] = len(hs)
	res.Bounds["tear_lengths"] = "1, len/2, len-1 (every length 1..len-1 in the */every-prefix histories of the thorough tier)"
	idx := 0
	var names []string
	for hi, h := range hs {
		if replay != nil && h.Name != replay.History {
			continue
		}
		names = append(names, h.Name)
		report := fl.Shard == 0 || replay != nil
		p, err := hn.prepare(h, hi, report)
		if err != nil {
			res.CheckError("%v", err)
			continue
		}
		if p == nil {
			continue // the prior state itself violates the property (reported by prepare)
		}
		mbs := p.members()
		if report {
			res.Validated++ // two identical baseline traces, replayed on the directory model
			res.Count("relevant_calls:"+h.Name, int64(len(p.base.Calls)))
			res.Count("members:"+h.Name, int64(len(mbs)))
		}
		for _, mb := range mbs {
			idx++
			if replay != nil {
				if mb != *replay {
					continue
				}
			} else if !fl.Mine(idx) {
				continue
			}
			if err := hn.crash(p, mb, replay != nil); err != nil {
				res.CheckError("%v", err)
			}
		}
		_ = os.RemoveAll(p.hdir)
	}
	sort.Strings(names)
	res.Bounds["history_names"] = strings.Join(names, ", ")
	if time.Now().UTC().Format("20060102") != hn.day.Format("20060102") {
		res.CheckError("the check ran across midnight UTC; 'today' changed under it — run it again")
	}
	res.Assume("a SIGKILL of the recording process loses nothing the kernel had accepted (page cache survives); power loss / fsync ordering is not modelled")
	res.Assume("crash points are the entries of the file-system calls of the recording process (plus three torn lengths per write), as seen by the ptrace supervisor; the store runs single-threaded on a locked OS thread")
	finish()
}
