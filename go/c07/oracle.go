package main

import (
	"errors"
	"fmt"
	"path/filepath"
	"sort"
	"strconv"
	"strings"

	"github.com/ErdemOzgen/blackdagger/internal/persistence"
	"github.com/ErdemOzgen/blackdagger/internal/persistence/jsondb"
	"github.com/ErdemOzgen/blackdagger/internal/persistence/model"
)

// expect is what the property demands of one run after the crash.
type expect struct {
	Spec     RunSpec
	Role     string   // completed | interrupted | updated
	Required bool     // must be visible
	MinSeq   int      // visible status must carry a sequence number >= MinSeq
	MaxSeq   int      // ... and <= MaxSeq (nothing newer was ever written)
	Names    []string // DAG names under which it may legitimately be found
}

// expectations derives, from the history and the acknowledgements the child
// had written before it was killed, what the property promises.
func expectations(h *History, acks int) []*expect {
	var out []*expect
	names := []string{h.Dag}
	switch h.Op {
	case "rename":
		if acks >= 1 {
			names = []string{h.NewDag} // rename acknowledged: everything is served under the new name
		} else {
			names = []string{h.Dag, h.NewDag} // old or new, never lost
		}
	}
	for i, r := range h.Prior {
		e := &expect{Spec: r, Role: "completed", Required: true, MinSeq: r.FinalSeq(), MaxSeq: r.FinalSeq(), Names: names}
		switch h.Op {
		case "update":
			if i == h.Target {
				e.Role = "updated"
				e.MaxSeq = r.FinalSeq() + 1
				if acks >= 1 {
					e.MinSeq = r.FinalSeq() + 1
				}
			}
		case "removeold":
			// retention may remove runs older than the period, never younger ones
			if r.AgeDays >= h.Retention {
				e.Required = false
			}
		}
		out = append(out, e)
	}
	if h.Op == "run" {
		// ACK 0 = Open, ACK i = Write #i, ACK Writes+1 = Close
		last := acks - 1
		if last > h.Run.Writes {
			last = h.Run.Writes
		}
		e := &expect{Spec: h.Run, Role: "interrupted", Names: names, MinSeq: 1, MaxSeq: h.Run.Writes}
		if last >= 1 {
			e.Required = true
			e.MinSeq = last
		}
		out = append(out, e)
	}
	return out
}

type finding struct {
	Kind   string // first component of the signature
	Detail string
}

// seen is one status returned by a query, matched against the family.
type seen struct {
	E      *expect
	Seq    int
	Intact bool
	Text   string
}

type oracle struct {
	h      *History
	exp    []*expect
	byReq  map[string]*expect
	found  []finding
	config string
}

func (o *oracle) fail(kind, format string, a ...any) {
	o.found = append(o.found, finding{kind, "[" + o.config + "] " + fmt.Sprintf(format, a...)})
}

// match identifies a returned status: which run, which sequence number, and
// whether it is byte-for-byte (as JSON) the status that was written.
func (o *oracle) match(dagFile string, st *model.Status) seen {
	if st == nil {
		return seen{Text: "<nil status>"}
	}
	s := seen{Text: fmt.Sprintf("request %s %s", st.RequestID, st.Params)}
	e := o.byReq[st.RequestID]
	if e == nil {
		return s
	}
	s.E = e
	if !strings.HasPrefix(st.Params, "seq=") {
		return s
	}
	seq, err := strconv.Atoi(st.Params[4:])
	if err != nil {
		return s
	}
	s.Seq = seq
	// the status was written under the DAG's name at the time; a rename does not rewrite it
	s.Intact = statusJSON(st) == statusJSON(mkStatus(o.h.Dag, e.Spec, seq))
	return s
}

func (e *expect) label() string {
	return fmt.Sprintf("%s run %s (seq %d..%d, required=%v)", e.Role, e.Spec.ReqID[:8], e.MinSeq, e.MaxSeq, e.Required)
}

func guard(what string, o *oracle, f func()) {
	defer func() {
		if r := recover(); r != nil {
			o.fail("panic/"+what, "%s panicked: %v", what, r)
		}
	}()
	f()
}

func isNoData(err error) bool {
	return errors.Is(err, persistence.ErrNoStatusDataToday) || errors.Is(err, persistence.ErrNoStatusData)
}

// check runs the three queries of the property on a FRESH store (cold cache)
// over the surviving directory and records every way the answer falls short
// of the property.
func (o *oracle) check(dir string, latestToday bool) {
	o.config = fmt.Sprintf("latestStatusToday=%v", latestToday)
	db := jsondb.New(dir, latestToday)
	queried := []string{o.h.Dag}
	if o.h.Op == "rename" {
		queried = append(queried, o.h.NewDag)
	}
	allowed := func(e *expect, name string) bool {
		for _, n := range e.Names {
			if n == name {
				return true
			}
		}
		return false
	}
	// a run that had completed before the operation and is no longer served with (at least) its
	// final status is a lost completed run; anything else is an acknowledged status that went missing
	lostKind := func(e *expect, best int) string {
		if e.Role != "interrupted" && best < e.Spec.FinalSeq() {
			return "lost-completed-run"
		}
		return "lost-acknowledged-status"
	}

	// --- lookup by request id -------------------------------------------------
	for _, e := range o.exp {
		ok := false
		best := 0
		var notes []string
		for _, name := range queried {
			var sf *model.StatusFile
			var err error
			guard("FindByRequestID", o, func() { sf, err = db.FindByRequestID(name, e.Spec.ReqID) })
			if err != nil {
				if !errors.Is(err, persistence.ErrRequestIDNotFound) {
					o.fail("lookup-errors", "FindByRequestID(%s, %s) = error %q (only \"request id not found\" is documented)", dagName(name), e.Spec.ReqID[:8], err)
				}
				notes = append(notes, dagName(name)+": "+err.Error())
				continue
			}
			if sf == nil || sf.Status == nil {
				notes = append(notes, dagName(name)+": nil result without error")
				continue
			}
			s := o.match(name, sf.Status)
			notes = append(notes, fmt.Sprintf("%s: seq %d intact=%v in %s", dagName(name), s.Seq, s.Intact, filepath.Base(sf.File)))
			if s.E != e || !s.Intact || s.Seq > e.MaxSeq {
				o.fail("damaged-status", "FindByRequestID(%s, %s) returned %s which is not a status ever written for that run", dagName(name), e.Spec.ReqID[:8], s.Text)
				continue
			}
			if allowed(e, name) && s.Seq > best {
				best = s.Seq
			}
			if allowed(e, name) && s.Seq >= e.MinSeq {
				ok = true
			}
		}
		if e.Required && !ok {
			o.fail(lostKind(e, best), "%s is not returned by FindByRequestID with a status >= seq %d: %s", e.label(), e.MinSeq, strings.Join(notes, "; "))
		}
	}

	// --- recent history, asked for enough entries --------------------------------
	for _, n := range []int{1000, -1} {
		shown := map[*expect]bool{}
		bestShown := map[*expect]int{}
		for _, name := range queried {
			ask := n
			if n < 0 {
				// exactly as many entries as there are files of that DAG
				m, _ := filepath.Glob(filepath.Join(dir, "*", "*.dat"))
				ask = 0
				for _, f := range m {
					if strings.HasPrefix(filepath.Base(f), dagName(name)+".") {
						ask++
					}
				}
				if ask == 0 {
					continue
				}
			}
			var list []*model.StatusFile
			guard("ReadStatusRecent", o, func() { list = db.ReadStatusRecent(name, ask) })
			for _, sf := range list {
				if sf == nil || sf.Status == nil {
					o.fail("damaged-status", "ReadStatusRecent(%s, %d) returned a nil entry", dagName(name), ask)
					continue
				}
				s := o.match(name, sf.Status)
				if s.E == nil || !s.Intact || s.Seq > s.E.MaxSeq {
					o.fail("damaged-status", "ReadStatusRecent(%s, %d) returned %s (file %s) which is not a status ever written", dagName(name), ask, s.Text, filepath.Base(sf.File))
					continue
				}
				if allowed(s.E, name) && s.Seq > bestShown[s.E] {
					bestShown[s.E] = s.Seq
				}
				if allowed(s.E, name) && s.Seq >= s.E.MinSeq {
					shown[s.E] = true
				}
			}
		}
		for _, e := range o.exp {
			if e.Required && !shown[e] {
				kind := "recent-hides-completed-run"
				if lostKind(e, bestShown[e]) != "lost-completed-run" {
					kind = "recent-hides-acknowledged-status"
				}
				o.fail(kind, "ReadStatusRecent(n=%s) does not show %s", map[bool]string{true: "number of files", false: "1000"}[n < 0], e.label())
			}
		}
	}

	// --- latest status -------------------------------------------------------------
	// candidates: the runs the store is supposed to look at (today's only when latestStatusToday)
	var cands []*expect
	for _, e := range o.exp {
		if latestToday && !e.Spec.Today {
			continue
		}
		cands = append(cands, e)
	}
	sort.SliceStable(cands, func(i, j int) bool { return cands[i].Spec.Time > cands[j].Spec.Time })
	var newestRequired *expect
	for _, e := range cands {
		if e.Required {
			newestRequired = e
			break
		}
	}
	satisfied := false
	var notes []string
	for _, name := range queried {
		var st *model.Status
		var err error
		guard("ReadStatusToday", o, func() { st, err = db.ReadStatusToday(name) })
		if err != nil {
			notes = append(notes, dagName(name)+": "+err.Error())
			if !isNoData(err) {
				what := "nothing else to show"
				if newestRequired != nil {
					what = "hiding " + newestRequired.label()
				}
				o.fail("latest-errors", "ReadStatusToday(%s) = error %q (not one of the documented no-data errors; %s)", dagName(name), err, what)
			}
			continue
		}
		s := o.match(name, st)
		notes = append(notes, fmt.Sprintf("%s: %s", dagName(name), s.Text))
		if s.E == nil || !s.Intact || s.Seq > s.E.MaxSeq {
			o.fail("damaged-status", "ReadStatusToday(%s) returned %s which is not a status ever written", dagName(name), s.Text)
			continue
		}
		if newestRequired != nil && allowed(s.E, name) && s.Seq >= s.E.MinSeq && s.E.Spec.Time >= newestRequired.Spec.Time {
			satisfied = true
		}
	}
	if newestRequired != nil && !satisfied {
		// an undocumented error was already reported as latest-errors; do not report the same member twice
		already := false
		for _, f := range o.found {
			if f.Kind == "latest-errors" && strings.HasPrefix(f.Detail, "["+o.config+"]") {
				already = true
			}
		}
		if !already {
			o.fail("latest-hides", "ReadStatusToday does not return %s nor anything newer: %s", newestRequired.label(), strings.Join(notes, "; "))
		}
	}
}

func runOracle(h *History, acks int, dir string) []finding {
	o := &oracle{h: h, exp: expectations(h, acks), byReq: map[string]*expect{}}
	for _, e := range o.exp {
		o.byReq[e.Spec.ReqID] = e
	}
	o.check(dir, true)
	o.check(dir, false)
	return o.found
}
