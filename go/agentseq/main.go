// agentseq — sequential, agent-level parts of C03 (dry-run runs nothing),
// C04 (unmet DAG preconditions: no step, no handler, nothing recorded) and C10
// (a retry is recorded as a new run, uses the recorded steps, leaves the
// original record untouched). Every member is a real agent.Run in a scratch
// installation with the scripted executor as observer of "something executed".
package main

import (
	"context"
	"fmt"
	"os"
	"strings"
	"time"

	"github.com/ErdemOzgen/blackdagger/internal/agent"
	"github.com/ErdemOzgen/blackdagger/internal/dag"
	"github.com/ErdemOzgen/blackdagger/internal/zzverif/venv"
	"github.com/ErdemOzgen/blackdagger/internal/zzverif/vexec"
	"github.com/ErdemOzgen/blackdagger/internal/zzverif/vlib"
)

var names = []string{"a", "b", "c"}

type prog struct {
	N      int      `json:"n"`
	Adj    []uint   `json:"adj"`    // adj[i] bit j: step i depends on step j
	Script []string `json:"script"` // ok | fail | unmet | fail1-retry1
	H      []string `json:"handlers"`
	Pre    string   `json:"dagPrecondition,omitempty"` // "", "unmet", "met"
}

func (p prog) String() string {
	var sb strings.Builder
	for i := 0; i < p.N; i++ {
		fmt.Fprintf(&sb, "%s{%s}", names[i], p.Script[i])
		var d []string
		for j := 0; j < p.N; j++ {
			if p.Adj[i]>>uint(j)&1 == 1 {
				d = append(d, names[j])
			}
		}
		if len(d) > 0 {
			fmt.Fprintf(&sb, "<-%s", strings.Join(d, "+"))
		}
		sb.WriteByte(' ')
	}
	fmt.Fprintf(&sb, "handlers%v pre=%s", p.H, p.Pre)
	return sb.String()
}

func cyclic(n int, adj []uint) bool {
	color := make([]int, n)
	var visit func(i int) bool
	visit = func(i int) bool {
		color[i] = 1
		for j := 0; j < n; j++ {
			if adj[i]>>uint(j)&1 == 0 {
				continue
			}
			if color[j] == 1 || (color[j] == 0 && visit(j)) {
				return true
			}
		}
		color[i] = 2
		return false
	}
	for i := 0; i < n; i++ {
		if color[i] == 0 && visit(i) {
			return true
		}
	}
	return false
}

func programs(maxN int, scripts []string, emit func(prog)) {
	hsets := [][]string{{}, {"onExit"}, {"onSuccess", "onFailure", "onCancel", "onExit"}}
	for n := 1; n <= maxN; n++ {
		total := uint64(1) << uint(n*n)
		for m := uint64(0); m < total; m++ {
			adj := make([]uint, n)
			ok := true
			for i := 0; i < n; i++ {
				adj[i] = uint(m >> uint(i*n) & (1<<uint(n) - 1))
				if adj[i]>>uint(i)&1 == 1 {
					ok = false
				}
			}
			if !ok || cyclic(n, adj) {
				continue
			}
			idx := make([]int, n)
			var rec func(p int)
			rec = func(p int) {
				if p == n {
					sc := make([]string, n)
					for i := range sc {
						sc[i] = scripts[idx[i]]
					}
					for _, h := range hsets {
						emit(prog{N: n, Adj: adj, Script: sc, H: h})
					}
					return
				}
				for s := range scripts {
					idx[p] = s
					rec(p + 1)
				}
			}
			rec(0)
		}
	}
}

func (p prog) build(env *venv.Env, name string) (*dag.DAG, map[string]*vexec.Script) {
	scripts := map[string]*vexec.Script{}
	var steps []dag.Step
	for i := 0; i < p.N; i++ {
		var deps []string
		for j := 0; j < p.N; j++ {
			if p.Adj[i]>>uint(j)&1 == 1 {
				deps = append(deps, names[j])
			}
		}
		st := vexec.Step(names[i], deps...)
		sc := &vexec.Script{}
		switch p.Script[i] {
		case "fail":
			sc.Fail = -1
		case "unmet":
			st.Preconditions = []dag.Condition{{Condition: "0", Expected: "1"}}
		case "fail1-retry1":
			sc.Fail = 1
			st.RetryPolicy = &dag.RetryPolicy{Limit: 1}
		}
		scripts[names[i]] = sc
		steps = append(steps, st)
	}
	d := env.DAG(name, steps...)
	for _, h := range p.H {
		s := vexec.Step(h)
		scripts[h] = &vexec.Script{}
		switch h {
		case "onExit":
			d.HandlerOn.Exit = &s
		case "onSuccess":
			d.HandlerOn.Success = &s
		case "onFailure":
			d.HandlerOn.Failure = &s
		case "onCancel":
			d.HandlerOn.Cancel = &s
		}
	}
	switch p.Pre {
	case "unmet":
		d.Preconditions = []dag.Condition{{Condition: "0", Expected: "1"}}
	case "unmet-first", "unmet-middle", "unmet-last":
		// lists: one unmet entry among met ones, at every position
		cs := []dag.Condition{{Condition: "1", Expected: "1"}, {Condition: "1", Expected: "1"}, {Condition: "1", Expected: "1"}}
		cs[map[string]int{"unmet-first": 0, "unmet-middle": 1, "unmet-last": 2}[p.Pre]] = dag.Condition{Condition: "0", Expected: "1"}
		d.Preconditions = cs
	case "met-list":
		d.Preconditions = []dag.Condition{{Condition: "1", Expected: "1"}, {Condition: "1", Expected: "1"}}
	case "met":
		d.Preconditions = []dag.Condition{{Condition: "1", Expected: "1"}}
	}
	return d, scripts
}

func runAgent(a *agent.Agent) (err error, hung bool) {
	errc := make(chan error, 1)
	go func() { errc <- a.Run(context.Background()) }()
	select {
	case err = <-errc:
		return err, false
	case <-time.After(120 * time.Second):
		return nil, true
	}
}

func main() {
	fl := vlib.ParseFlags()
	res := vlib.New("agentseq:" + fl.Sub)
	scripts := []string{"ok", "fail", "unmet", "fail1-retry1"}
	maxN := 2
	if fl.Thorough() {
		maxN = 3
		if fl.Sub == "C10agent" {
			maxN = 2
		}
	}
	if fl.Sub == "C10agent" {
		scripts = []string{"ok", "fail"}
	}
	k := 0
	programs(maxN, scripts, func(p prog) {
		k++
		if !fl.Mine(k) {
			return
		}
		env := venv.New(fmt.Sprintf("%s/m%d", fl.Work, k))
		defer os.RemoveAll(env.Root)
		name := fmt.Sprintf("p%d", k)
		switch fl.Sub {
		case "C03dry":
			d, sc := p.build(env, name)
			w := vexec.NewWorld(sc)
			a := env.Agent("req-dry", d, &agent.Options{Dry: true})
			_, hung := runAgent(a)
			res.Evaluations++
			res.Nontrivial(vlib.Hash(p.String()))
			ev := w.Snapshot()
			files := venv.Files(env.Data)
			_, sockErr := os.Stat(d.SockAddr())
			switch {
			case hung:
				res.Violate("C03/dry-run/does-not-end", p.String(), map[string]any{"sub": fl.Sub, "prog": p})
			case len(ev) != 0:
				res.Violate("C03/dry-run/executed-a-command", fmt.Sprintf("%s: events %v", p, ev), map[string]any{"sub": fl.Sub, "prog": p})
			case len(files) != 0:
				res.Violate("C03/dry-run/wrote-history", fmt.Sprintf("%s: files %v", p, files), map[string]any{"sub": fl.Sub, "prog": p})
			case sockErr == nil:
				res.Violate("C03/dry-run/bound-a-socket", p.String(), map[string]any{"sub": fl.Sub, "prog": p})
			}
			if k%97 == 1 {
				res.Sample(map[string]any{"program": p.String(), "dry_run_events": len(ev), "history_files": len(files)})
			}
		case "C04pre":
			for _, pre := range []string{"unmet", "unmet-first", "unmet-middle", "unmet-last", "met", "met-list"} {
				pp := p
				pp.Pre = pre
				d, sc := pp.build(env, name+pre)
				w := vexec.NewWorld(sc)
				a := env.Agent("req-"+pre, d, &agent.Options{})
				err, hung := runAgent(a)
				res.Evaluations++
				res.Nontrivial(vlib.Hash(pp.String()))
				ev := w.Snapshot()
				hist := env.Stores().HistoryStore().ReadStatusRecent(d.Location, 10)
				if hung {
					res.Violate("C04/dag-precondition/run-does-not-end", pp.String(), map[string]any{"sub": fl.Sub, "prog": pp})
					continue
				}
				if strings.HasPrefix(pre, "unmet") {
					switch {
					case err == nil:
						res.Violate("C04/dag-precondition/unmet-but-run-accepted", pp.String(), map[string]any{"sub": fl.Sub, "prog": pp})
					case len(ev) != 0:
						res.Violate("C04/dag-precondition/unmet-but-something-executed", fmt.Sprintf("%s: %v", pp, ev), map[string]any{"sub": fl.Sub, "prog": pp})
					}
				} else if len(hist) != 1 {
					// positive control: with the precondition met the run is accepted and recorded once
					res.Violate("C04/dag-precondition/met-but-nothing-ran-or-recorded", fmt.Sprintf("%s: events=%d records=%d err=%v", pp, len(ev), len(hist), err), map[string]any{"sub": fl.Sub, "prog": pp})
				}
			}
		case "C10agent":
			d, sc := p.build(env, name)
			w := vexec.NewWorld(sc)
			a := env.Agent("req-orig", d, &agent.Options{})
			_, hung := runAgent(a)
			if hung {
				res.CheckError("original run of %s did not end", p)
				return
			}
			hs := env.Stores().HistoryStore()
			orig, err := hs.FindByRequestID(d.Location, "req-orig")
			if err != nil {
				res.CheckError("original run of %s not recorded: %v", p, err)
				return
			}
			origBytes, _ := os.ReadFile(orig.File)
			n1 := len(w.Snapshot())
			// the retry: every step succeeds now
			for _, s := range sc {
				s.Fail = 0
			}
			w2 := vexec.NewWorld(sc)
			a2 := env.Agent("req-retry", d, &agent.Options{RetryTarget: orig.Status})
			_, hung = runAgent(a2)
			res.Evaluations++
			res.Nontrivial(vlib.Hash(p.String()))
			rp := map[string]any{"sub": fl.Sub, "prog": p}
			if hung {
				res.Violate("C10/agent/retry-does-not-end", p.String(), rp)
				return
			}
			after, _ := os.ReadFile(orig.File)
			rec, rerr := hs.FindByRequestID(d.Location, "req-retry")
			all := hs.ReadStatusRecent(d.Location, 10)
			switch {
			case rerr != nil:
				res.Violate("C10/agent/retry-not-recorded-as-a-new-run", fmt.Sprintf("%s: %v", p, rerr), rp)
			case rec.File == orig.File:
				res.Violate("C10/agent/retry-recorded-in-the-original-file", p.String(), rp)
			case string(after) != string(origBytes):
				res.Violate("C10/agent/original-record-changed-by-retry", p.String(), rp)
			case len(all) != 2:
				res.Violate(fmt.Sprintf("C10/agent/history-has-%d-runs-after-retry", len(all)), p.String(), rp)
			}
			// steps recorded finished/skipped in the original and not downstream of an unfinished one are not executed again
			unfinished := map[string]bool{}
			for _, n := range orig.Status.Nodes {
				if n.StatusText != "finished" && n.StatusText != "skipped" {
					unfinished[n.Step.Name] = true
				}
			}
			for it := 0; it < p.N; it++ {
				for i := 0; i < p.N; i++ {
					for j := 0; j < p.N; j++ {
						if p.Adj[i]>>uint(j)&1 == 1 && unfinished[names[j]] {
							unfinished[names[i]] = true
						}
					}
				}
			}
			for _, e := range w2.Snapshot() {
				if e.Kind == "start" && !strings.HasPrefix(e.Step, "on") && !unfinished[e.Step] {
					res.Violate("C10/agent/finished-step-executed-again", fmt.Sprintf("%s: %s", p, e.Step), rp)
				}
			}
			_ = n1
		}
	})
	res.Rule = "every acyclic program on <= N steps x scripts x handler sets goes through a real sequential agent.Run in a scratch installation; distinct = distinct program (+ precondition setting); non-trivial = every member (each exercises the agent end to end)"
	res.Bounds["n_le"] = maxN
	res.Assume("the scripted executor observes whether anything was executed; real time (the scheduler's 100 ms pause), watchdog 120 s")
	res.Write(fl.Out)
	os.RemoveAll(fl.Work)
}
