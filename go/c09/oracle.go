// Package c09 is the reference side of the C09 check ("the scheduler daemon
// starts each DAG exactly at its scheduled minutes"): an independent matcher
// for 5-field cron expressions and its own civil calendar.
//
// Nothing here calls robfig/cron or the time package's calendar: the matcher
// works on minutes since the Unix epoch and converts them with the
// days-from-civil arithmetic below, so a disagreement with the code under test
// is a disagreement between two independent implementations.
//
// Grammar (Vixie cron, crontab(5)): five blank-separated fields
// minute hour day-of-month month day-of-week; a field is a comma list of
// items; an item is `*`, N, N-M, each optionally followed by /STEP; month and
// day-of-week accept three-letter names (case-insensitive), also in ranges;
// day-of-week accepts 0-7 where 0 and 7 are Sunday.
//
// Day rule (Vixie): when both day fields are restricted (neither *begins*
// with `*`), a day matches if either field matches; when at least one of them
// begins with `*`, both must match.
package c09

import (
	"fmt"
	"strconv"
	"strings"
)

type Expr struct {
	Src                        string
	Min, Hour, Dom, Mon, Dow   uint64 // bit i set = value i allowed (Dow: 0..6, Sunday = 0)
	DomStar, DowStar, UsesDow7 bool
}

var monNames = map[string]int{"jan": 1, "feb": 2, "mar": 3, "apr": 4, "may": 5, "jun": 6, "jul": 7, "aug": 8, "sep": 9, "oct": 10, "nov": 11, "dec": 12}
var dowNames = map[string]int{"sun": 0, "mon": 1, "tue": 2, "wed": 3, "thu": 4, "fri": 5, "sat": 6}

func atom(s string, names map[string]int) (int, error) {
	if names != nil {
		if v, ok := names[strings.ToLower(s)]; ok {
			return v, nil
		}
	}
	if s == "" {
		return 0, fmt.Errorf("empty number")
	}
	for _, c := range s {
		if c < '0' || c > '9' {
			return 0, fmt.Errorf("bad number %q", s)
		}
	}
	return strconv.Atoi(s)
}

// field parses one field into a bit set over lo..hi.
func field(f string, lo, hi int, names map[string]int) (set uint64, star bool, err error) {
	if f == "" {
		return 0, false, fmt.Errorf("empty field")
	}
	star = f[0] == '*'
	for _, item := range strings.Split(f, ",") {
		rng, stepS, hasStep := strings.Cut(item, "/")
		step := 1
		if hasStep {
			step, err = atom(stepS, nil)
			if err != nil || step <= 0 {
				return 0, false, fmt.Errorf("bad step in %q", item)
			}
		}
		var a, b int
		switch {
		case rng == "*":
			a, b = lo, hi
		case strings.Contains(rng, "-"):
			as, bs, _ := strings.Cut(rng, "-")
			if a, err = atom(as, names); err != nil {
				return 0, false, err
			}
			if b, err = atom(bs, names); err != nil {
				return 0, false, err
			}
		default:
			if a, err = atom(rng, names); err != nil {
				return 0, false, err
			}
			b = a
			if hasStep {
				return 0, false, fmt.Errorf("N/STEP is not crontab(5) grammar: %q", item)
			}
		}
		if a < lo || b > hi || a > b {
			return 0, false, fmt.Errorf("range %d-%d outside %d-%d in %q", a, b, lo, hi, item)
		}
		for v := a; v <= b; v += step {
			set |= 1 << uint(v)
		}
	}
	return set, star, nil
}

// Parse parses a 5-field expression.
func Parse(src string) (*Expr, error) {
	fs := strings.Fields(src)
	if len(fs) != 5 {
		return nil, fmt.Errorf("want 5 fields, got %d", len(fs))
	}
	e := &Expr{Src: src}
	var err error
	if e.Min, _, err = field(fs[0], 0, 59, nil); err != nil {
		return nil, err
	}
	if e.Hour, _, err = field(fs[1], 0, 23, nil); err != nil {
		return nil, err
	}
	if e.Dom, e.DomStar, err = field(fs[2], 1, 31, nil); err != nil {
		return nil, err
	}
	if e.Mon, _, err = field(fs[3], 1, 12, monNames); err != nil {
		return nil, err
	}
	var dow uint64
	if dow, e.DowStar, err = field(fs[4], 0, 7, dowNames); err != nil {
		return nil, err
	}
	if dow&(1<<7) != 0 {
		e.UsesDow7 = !e.DowStar // `*` covers 0..7 by construction; only an explicit 7 counts
		dow = dow&^(1<<7) | 1
	}
	e.Dow = dow
	return e, nil
}

// Civil is a broken-down UTC minute.
type Civil struct {
	Y, Mo, D, H, Mi, Wd int // Wd: 0 = Sunday
}

// FromUnixMin converts minutes since 1970-01-01T00:00Z (Hinnant's civil_from_days).
func FromUnixMin(um int64) Civil {
	days := um / 1440
	rem := um % 1440
	if rem < 0 {
		rem += 1440
		days--
	}
	z := days + 719468
	era := z / 146097
	if z < 0 {
		era = (z - 146096) / 146097
	}
	doe := z - era*146097
	yoe := (doe - doe/1460 + doe/36524 - doe/146096) / 365
	y := yoe + era*400
	doy := doe - (365*yoe + yoe/4 - yoe/100)
	mp := (5*doy + 2) / 153
	d := doy - (153*mp+2)/5 + 1
	m := mp + 3
	if m > 12 {
		m -= 12
	}
	if m <= 2 {
		y++
	}
	wd := (days%7 + 7 + 4) % 7 // 1970-01-01 was a Thursday
	return Civil{Y: int(y), Mo: int(m), D: int(d), H: int(rem / 60), Mi: int(rem % 60), Wd: int(wd)}
}

// ToUnixMin is the inverse (days_from_civil).
func ToUnixMin(y, mo, d, h, mi int) int64 {
	yy := int64(y)
	if mo <= 2 {
		yy--
	}
	era := yy / 400
	if yy < 0 {
		era = (yy - 399) / 400
	}
	yoe := yy - era*400
	mm := int64(mo)
	if mm > 2 {
		mm -= 3
	} else {
		mm += 9
	}
	doy := (153*mm+2)/5 + int64(d) - 1
	doe := yoe*365 + yoe/4 - yoe/100 + doy
	days := era*146097 + doe - 719468
	return days*1440 + int64(h)*60 + int64(mi)
}

func IsLeap(y int) bool { return y%4 == 0 && (y%100 != 0 || y%400 == 0) }

func DaysIn(y, mo int) int {
	switch mo {
	case 2:
		if IsLeap(y) {
			return 29
		}
		return 28
	case 4, 6, 9, 11:
		return 30
	}
	return 31
}

// MatchCivil reports whether the expression fires in that minute.
func (e *Expr) MatchCivil(c Civil) bool {
	if e.Min>>uint(c.Mi)&1 == 0 || e.Hour>>uint(c.H)&1 == 0 || e.Mon>>uint(c.Mo)&1 == 0 {
		return false
	}
	dom := e.Dom>>uint(c.D)&1 == 1
	dow := e.Dow>>uint(c.Wd)&1 == 1
	if e.DomStar || e.DowStar {
		return dom && dow
	}
	return dom || dow
}

func (e *Expr) Match(unixMin int64) bool { return e.MatchCivil(FromUnixMin(unixMin)) }

// CalClass is a coarse class of a minute used to count distinct model states:
// which boundary it sits on and which alphabet values it can distinguish.
func CalClass(c Civil) int {
	mi := 0
	switch {
	case c.Mi == 0:
		mi = 1
	case c.Mi == 5 || c.Mi == 35:
		mi = 2
	case c.Mi >= 10 && c.Mi <= 12:
		mi = 3
	case c.Mi%15 == 0:
		mi = 4
	case c.Mi >= 58:
		mi = 5
	}
	h := 0
	switch c.H {
	case 0:
		h = 1
	case 12:
		h = 2
	case 23:
		h = 3
	}
	d := 0
	switch {
	case c.D == 1:
		d = 1
	case c.D >= 28:
		d = c.D - 26 // 2..5
	}
	last := 0
	if c.D == DaysIn(c.Y, c.Mo) {
		last = 1
	}
	leap := 0
	if IsLeap(c.Y) {
		leap = 1
	}
	return ((((((mi*4+h)*6+d)*2+last)*13+c.Mo)*7+c.Wd)*2 + leap)
}
