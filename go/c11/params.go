package main

import (
	"context"
	"fmt"
	"os"
	"path/filepath"
	"sort"
	"strconv"
	"strings"
	"time"

	"github.com/ErdemOzgen/blackdagger/internal/client"
	"github.com/ErdemOzgen/blackdagger/internal/dag"
	"github.com/ErdemOzgen/blackdagger/internal/dag/scheduler"
	"github.com/ErdemOzgen/blackdagger/internal/persistence/model"
	"github.com/ErdemOzgen/blackdagger/internal/zzverif/venv"
	"github.com/ErdemOzgen/blackdagger/internal/zzverif/vlib"
)

// the token alphabet of part (a)
// (the first seven are the family of DESIGN.md; `"x=y"` — a quoted positional
// value containing '=' — was added because the statement names such values)
var tokens = []string{`w`, `"a b"`, `"q\"q"`, `K=v`, `K="a b"`, `K="x=y"`, `""`, `"x=y"`, `"a b=c d"`}

const (
	modeDefault = "default" // the string is the `params:` value of the DAG file, nothing is given at start
	modeStart   = "start"   // the DAG file has `params: dflt`, the string is given at start
	startDflt   = "dflt"
	nArgs       = 5 // "$1".."$5" are dumped (sequences have <= 3 tokens)
)

type pmember struct {
	Seq  []int  `json:"seq"`
	Mode string `json:"mode"`
}

func (m pmember) str() string {
	var t []string
	for _, i := range m.Seq {
		t = append(t, tokens[i])
	}
	return strings.Join(t, " ")
}

func (m pmember) String() string { return fmt.Sprintf("%s:[%s]", m.Mode, m.str()) }

func enumParams(thorough bool) []pmember {
	maxLen := 2
	if thorough {
		maxLen = 3
	}
	var out []pmember
	var rec func(cur []int)
	rec = func(cur []int) {
		for _, mode := range []string{modeDefault, modeStart} {
			out = append(out, pmember{Seq: append([]int(nil), cur...), Mode: mode})
		}
		if len(cur) == maxLen {
			return
		}
		for i := range tokens {
			rec(append(cur, i))
		}
	}
	rec(nil)
	return out
}

// ---- reference parser (documented syntax) -----------------------------------

type refParam struct {
	Name, Value string
	Quoted      bool
	DontCare    bool // the documentation does not say what this token means
}

func (p refParam) class() string {
	c := "bare"
	switch {
	case p.Name != "" && p.Quoted:
		c = "named-quoted"
	case p.Name != "":
		c = "named"
	case p.Quoted:
		c = "quoted"
	}
	switch {
	case p.Value == "":
		c += "-empty"
	case strings.Contains(p.Value, `"`):
		c += "-with-quote"
	case strings.ContainsAny(p.Value, " \t"):
		c += "-with-space"
	case strings.Contains(p.Value, "="):
		c += "-with-eq"
	}
	return c
}

// refParse: tokens are separated by white space; a token is  word | "quoted" |
// NAME=word | NAME="quoted".  Inside quotes everything up to the closing quote
// is the value.  Backslash escapes, quotes inside bare words, back quotes and
// `$` are outside the documented plain syntax => DontCare.
func refParse(s string) []refParam {
	var out []refParam
	i := 0
	isSpace := func(c byte) bool { return c == ' ' || c == '\t' || c == '\n' || c == '\r' }
	for {
		for i < len(s) && isSpace(s[i]) {
			i++
		}
		if i >= len(s) {
			return out
		}
		var p refParam
		j := i
		for j < len(s) && !isSpace(s[j]) && s[j] != '=' && s[j] != '"' {
			j++
		}
		if j < len(s) && s[j] == '=' && j > i {
			p.Name = s[i:j]
			i = j + 1
		}
		if i < len(s) && s[i] == '"' {
			p.Quoted = true
			k := i + 1
			var v []byte
			closed := false
			for k < len(s) {
				if s[k] == '\\' && k+1 < len(s) {
					p.DontCare = true
					if s[k+1] == '"' {
						v = append(v, '"')
					} else {
						v = append(v, s[k], s[k+1])
					}
					k += 2
					continue
				}
				if s[k] == '"' {
					closed = true
					k++
					break
				}
				v = append(v, s[k])
				k++
			}
			if !closed || (k < len(s) && !isSpace(s[k])) {
				p.DontCare = true
			}
			for k < len(s) && !isSpace(s[k]) {
				v = append(v, s[k])
				k++
			}
			p.Value = string(v)
			i = k
		} else {
			k := i
			for k < len(s) && !isSpace(s[k]) {
				k++
			}
			p.Value = s[i:k]
			if strings.ContainsAny(p.Value, "\"\\`$") {
				p.DontCare = true
			}
			i = k
		}
		out = append(out, p)
	}
}

// ---- what a step saw ----------------------------------------------------------

type obs struct {
	Present bool
	Args    []string // "$1".."$5" as expanded into the command line
	KSet    bool     // $K in the child's environment
	K       string
	Num     map[int]string // environment variables with numeric names in the child
	Raw     string
}

func (o obs) String() string {
	if !o.Present {
		return "<step left no probe>"
	}
	var ks []int
	for k := range o.Num {
		ks = append(ks, k)
	}
	sort.Ints(ks)
	var ne []string
	for _, k := range ks {
		ne = append(ne, fmt.Sprintf("%d=%q", k, o.Num[k]))
	}
	kk := "unset"
	if o.KSet {
		kk = strconv.Quote(o.K)
	}
	return fmt.Sprintf("args=%q K=%s env{%s}", o.Args, kk, strings.Join(ne, " "))
}

func readProbe(path string) obs {
	b, err := os.ReadFile(path)
	if err != nil {
		return obs{}
	}
	_ = os.Remove(path)
	o := obs{Present: true, Num: map[int]string{}, Raw: string(b)}
	for _, ln := range strings.Split(strings.TrimSuffix(string(b), "\n"), "\n") {
		switch {
		case ln == "KUNSET":
		case strings.HasPrefix(ln, "K="):
			o.KSet, o.K = true, ln[2:]
		case strings.HasPrefix(ln, "A"):
			if i := strings.IndexByte(ln, '='); i > 0 {
				o.Args = append(o.Args, ln[i+1:])
			}
		case strings.HasPrefix(ln, "E"):
			if i := strings.IndexByte(ln, '='); i > 0 {
				if n, err := strconv.Atoi(ln[1:i]); err == nil {
					o.Num[n] = ln[i+1:]
				}
			}
		}
	}
	return o
}

// expected observation according to the reference parser
func expObs(ps []refParam) obs {
	o := obs{Present: true, Num: map[int]string{}}
	for i := 0; i < nArgs; i++ {
		v := ""
		if i < len(ps) {
			v = ps[i].Value
			if ps[i].Name != "" {
				v = ps[i].Name + "=" + ps[i].Value
			}
			o.Num[i+1] = v
		}
		o.Args = append(o.Args, v)
	}
	for _, p := range ps {
		if p.Name == "K" {
			o.KSet, o.K = true, p.Value // a later K=... replaces an earlier one
		}
	}
	return o
}

// diffObs: "" if equal, else a description; idx = first differing position (1-based), 0 = K, -1 = presence
func diffObs(want, got obs) (string, int) {
	if want.Present != got.Present {
		return fmt.Sprintf("want %s, got %s", want, got), -1
	}
	for i := 0; i < nArgs; i++ {
		w, g := "", ""
		if i < len(want.Args) {
			w = want.Args[i]
		}
		if i < len(got.Args) {
			g = got.Args[i]
		}
		// a variable that is not set and one that is empty give the same "$i": not told apart
		wn, gn := want.Num[i+1], got.Num[i+1]
		if w != g || wn != gn {
			return fmt.Sprintf("$%d: want %s, got %s", i+1, want, got), i + 1
		}
	}
	if want.K != got.K {
		return fmt.Sprintf("$K: want %s, got %s", want, got), 0
	}
	return "", 0
}

// ---- scripts & DAG files -------------------------------------------------------

func (h *harness) writeScripts() {
	// parameters: positional values as expanded into the command line, $K and
	// the numeric names of the environment the child was started with
	writeFile(filepath.Join(h.work, "dump.sh"), `out=$1; marker=$2; shift 2
{
  i=0
  for a in "$@"; do i=$((i+1)); printf 'A%s=%s\n' "$i" "$a"; done
  if [ "${K+set}" = set ]; then printf 'K=%s\n' "$K"; else printf 'KUNSET\n'; fi
  tr '\0' '\n' < /proc/$$/environ | grep -E '^[0-9]+=' | sed 's/^/E/'
} > "$out.tmp"
mv "$out.tmp" "$out"
if [ "$marker" != - ] && [ ! -e "$marker" ]; then : > "$marker"; exit 1; fi
exit 0
`, 0o755)
	// outputs: $OUT from the environment and as expanded into the command line
	writeFile(filepath.Join(h.work, "dumpout.sh"), `out=$1; marker=$2; pids=$3
echo $$ >> "$pids"
printf '%s' "$4" > "$out.arg"
printf '%s' "${OUT-}" > "$out.env"
if [ "${OUT+set}" = set ]; then echo set > "$out.set"; else echo unset > "$out.set"; fi
case "$marker" in
  2:*) m=${marker#2:}; n=$(wc -l < "$m" 2>/dev/null || echo 0); if [ "$n" -lt 2 ]; then echo x >> "$m"; exit 1; fi; exit 0;;
esac
if [ "$marker" != - ] && [ ! -e "$marker" ]; then : > "$marker"; exit 1; fi
exit 0
`, 0o755)
	writeFile(filepath.Join(h.work, "prod.sh"), `echo $$ >> "$2"
cat "$1"
`, 0o755)
	writeFile(filepath.Join(h.work, "prodretry.sh"), `echo $$ >> "$2"
if [ ! -e "$3" ]; then : > "$3"; echo "output of the failed first attempt"; echo "stderr of the failed first attempt" >&2; exit 1; fi
cat "$1"
`, 0o755)
	writeFile(filepath.Join(h.work, "gate.sh"), `echo $$ >> "$2"
i=0
while [ ! -e "$1" ] && [ $i -lt 160 ]; do sleep 0.05; i=$((i+1)); done
exit 0
`, 0o755)
}

func yamlSingle(s string) string { return "'" + strings.ReplaceAll(s, "'", "''") + "'" }

func (h *harness) paramsYAML(file, dflt, tag string) {
	dump := filepath.Join(h.work, "dump.sh")
	probe := func(n string) string { return filepath.Join(h.work, tag+"."+n) }
	args := `"$1" "$2" "$3" "$4" "$5"`
	y := fmt.Sprintf(`params: %s
steps:
  - name: s1
    command: sh %s %s - %s
  - name: s2
    command: sh %s %s %s %s
    depends:
      - s1
handlerOn:
  exit:
    command: sh %s %s - %s
`, yamlSingle(dflt), dump, probe("s1"), args, dump, probe("s2"), probe("marker"), args, dump, probe("exit"), args)
	writeFile(file, y, 0o644)
}

// ---- in-process run ------------------------------------------------------------

func runInProc(d *dag.DAG, logDir, reqID string) (hung bool, err error) {
	g, err := scheduler.NewExecutionGraph(venv.Quiet, d.Steps...)
	if err != nil {
		return false, err
	}
	cfg := &scheduler.Config{LogDir: logDir, Logger: venv.Quiet, MaxActiveRuns: d.MaxActiveRuns, Timeout: d.Timeout,
		Delay: d.Delay, ReqID: reqID, OnExit: d.HandlerOn.Exit, OnSuccess: d.HandlerOn.Success,
		OnFailure: d.HandlerOn.Failure, OnCancel: d.HandlerOn.Cancel}
	sc := scheduler.New(cfg)
	ctx, cancel := context.WithCancel(context.Background())
	defer cancel()
	ctx = dag.NewContext(ctx, d, nil, reqID, "")
	done := make(chan *scheduler.Node)
	stop := make(chan struct{})
	defer close(stop)
	go func() {
		for {
			select {
			case <-done:
			case <-stop:
				return
			}
		}
	}()
	errc := make(chan error, 1)
	go func() {
		defer func() {
			if r := recover(); r != nil {
				errc <- fmt.Errorf("panic: %v", r)
			}
		}()
		errc <- sc.Schedule(ctx, g, done)
	}()
	select {
	case err = <-errc:
		return false, err
	case <-time.After(watchdog):
		sc.Cancel(g)
		cancel()
		select {
		case <-errc:
		case <-time.After(5 * time.Second):
		}
		return true, nil
	}
}

// ---- values as the loader leaves them (round trip) ------------------------------

type loaded struct {
	Params []string
	Num    map[int]string
	KSet   bool
	K      string
	KinEnv []string // K=... entries of DAG.Env
}

func (l loaded) String() string {
	k := "unset"
	if l.KSet {
		k = strconv.Quote(l.K)
	}
	return fmt.Sprintf("Params=%q $K=%s", l.Params, k)
}

func loadSnap(file, params string) (loaded, *dag.DAG, error) {
	clearParamEnv()
	d, err := dag.Load("", file, params)
	if err != nil {
		return loaded{}, nil, err
	}
	l := loaded{Params: append([]string{}, d.Params...), Num: map[int]string{}}
	for i := 1; i <= 12; i++ {
		if v, ok := os.LookupEnv(strconv.Itoa(i)); ok {
			l.Num[i] = v
		}
	}
	l.K, l.KSet = os.LookupEnv("K")
	for _, e := range d.Env {
		if strings.HasPrefix(e, "K=") {
			l.KinEnv = append(l.KinEnv, e)
		}
	}
	return l, d, nil
}

// sameLoaded compares values: $1..$12 (not set = empty), $K, and the K entry steps get through DAG.Env.
func sameLoaded(a, b loaded) bool {
	if a.K != b.K {
		return false
	}
	for i := 1; i <= 12; i++ {
		if a.Num[i] != b.Num[i] {
			return false
		}
		pa, pb := "", ""
		if i <= len(a.Params) {
			pa = a.Params[i-1]
		}
		if i <= len(b.Params) {
			pb = b.Params[i-1]
		}
		if pa != pb {
			return false
		}
	}
	lastK := func(l loaded) string {
		if len(l.KinEnv) == 0 {
			return ""
		}
		return l.KinEnv[len(l.KinEnv)-1]
	}
	return lastK(a) == lastK(b)
}

// which tokens do not survive join -> re-parse on their own, and under which name
var rtFeature = map[int]string{}

// which tokens the loader reads differently from the reference (documented tokens only)
var parseFeature = map[int]string{}

var featureOfToken = map[int]string{
	1: "splits-quoted-value", 4: "splits-quoted-value",
	2: "mangles-escaped-quote",
	6: "drops-empty-value",
}

func (h *harness) prepareParams() {
	file := filepath.Join(h.env.DAGs, "rt-probe.yaml")
	for i, t := range tokens {
		// in front of a plain word, so that a vanished value is visible as a shift
		h.paramsYAML(file, t+" tail", "rtprobe")
		a, _, err := loadSnap(file, "")
		if err != nil {
			h.res.CheckError("round-trip probe of token %s: %v", t, err)
			continue
		}
		if ref := refParse(t + " tail"); !ref[0].DontCare {
			want := expObs(ref)
			for k := 1; k <= nArgs; k++ {
				if a.Num[k] != want.Num[k] {
					parseFeature[i] = "misparsed-" + ref[0].class()
				}
			}
		}
		b, _, err := loadSnap(file, model.Params(a.Params))
		if err != nil || !sameLoaded(a, b) {
			f := featureOfToken[i]
			if f == "" {
				f = "token(" + t + ")"
			}
			rtFeature[i] = f
		}
	}
	clearParamEnv()
	_ = os.Remove(file)
}

// features of a member: the root-cause classes of the tokens it contains that do not round-trip on their own
func (m pmember) features() []string {
	seen := map[string]bool{}
	var out []string
	for _, i := range m.Seq {
		if f, ok := rtFeature[i]; ok && !seen[f] {
			seen[f] = true
			out = append(out, f)
		}
	}
	if len(out) == 0 {
		// no token fails on its own: blame a token the loader mis-reads in the first place, if there is one
		for _, i := range m.Seq {
			if f, ok := parseFeature[i]; ok && !seen[f] {
				seen[f] = true
				out = append(out, f)
			}
		}
	}
	sort.Strings(out)
	return out
}

// ---- one member -------------------------------------------------------------------

func (h *harness) runParams(m pmember) {
	res := h.res
	res.Evaluations++
	h.seq++
	tag := fmt.Sprintf("p%d-%d", h.fl.Shard, h.seq)
	rp := replay{P: &m}
	s := m.str()
	if len(m.Seq) > 0 {
		res.Nontrivial(vlib.Hash("params", m.String()))
	}
	file := filepath.Join(h.env.DAGs, tag+".yaml")
	dflt, given := s, ""
	if m.Mode == modeStart {
		dflt, given = startDflt, s
	}
	h.paramsYAML(file, dflt, tag)
	probe := func(n string) string { return filepath.Join(h.work, tag+"."+n) }
	defer func() {
		for _, n := range []string{"s1", "s2", "exit", "marker", "s1.tmp", "s2.tmp", "exit.tmp"} {
			_ = os.Remove(probe(n))
		}
		_ = os.Remove(file)
		_ = os.RemoveAll(filepath.Join(h.env.Logs, tag))
		_ = h.env.Stores().HistoryStore().RemoveAll(file)
		clearParamEnv()
	}()
	readAll := func() map[string]obs {
		return map[string]obs{"s1": readProbe(probe("s1")), "s2": readProbe(probe("s2")), "exit": readProbe(probe("exit"))}
	}

	// the effective string and what the reference says about it
	eff := s
	if m.Mode == modeStart && s == "" {
		eff = startDflt // nothing given => the defaults apply
	}
	ref := refParse(eff)
	dontCare := false
	for _, p := range ref {
		dontCare = dontCare || p.DontCare
	}
	want := expObs(ref)

	// (1) load + in-process run: every step and the handler see the reference values
	first, d, err := loadSnap(file, given)
	if err != nil {
		h.violate("C11/params/load-error/"+m.Mode, fmt.Sprintf("%s: dag.Load failed: %v", m, err), rp)
		return
	}
	writeFile(probe("marker"), "", 0o644) // no failing step in this run
	hung, _ := runInProc(d, filepath.Join(h.env.Logs, tag), "inproc"+tag)
	if hung {
		h.violate("C11/params/hang/in-process", fmt.Sprintf("%s: Schedule did not return within %s", m, watchdog), rp)
		return
	}
	inproc := readAll()
	res.Count("params_inprocess_runs", 1)
	if dontCare {
		res.Count("params_members_dont_care_for_reference", 1)
	} else {
		for _, st := range []string{"s1", "s2", "exit"} {
			if why, idx := diffObs(want, inproc[st]); why != "" {
				cls := "count"
				switch {
				case idx == -1:
					cls = "step-did-not-run"
				case idx == 0:
					cls = "named-value"
				case idx-1 < len(ref):
					cls = ref[idx-1].class()
				}
				pos := "step"
				if st == "exit" {
					pos = "handler"
				}
				h.violate(fmt.Sprintf("C11/params/value-mismatch/%s/%s/%s", m.Mode, pos, cls),
					fmt.Sprintf("%s: %s saw other values than the documented syntax gives: %s (DAG.Params=%q)", m, st, why, first.Params), rp)
				break
			}
		}
	}
	if h.seq%23 == 1 {
		res.Sample(map[string]any{"member": m.String(), "DAG.Params": first.Params, "step_saw": inproc["s2"].String(), "reference_dont_care": dontCare})
	}

	// (2) join -> re-parse, as retry and restart do it
	joined := model.Params(first.Params)
	second, _, err := loadSnap(file, joined)
	clearParamEnv()
	res.Count("params_roundtrips", 1)
	if err != nil || !sameLoaded(first, second) {
		feats := m.features()
		if len(feats) == 0 {
			feats = []string{"other"}
		}
		for _, f := range feats {
			h.violate("C11/params/roundtrip-"+f,
				fmt.Sprintf("%s: loaded as %s; recorded as %q; loading with that string gives %s (err=%v)", m, first, joined, second, err), rp)
		}
	}

	// (3) the real binary: client.Start's argv, restart, retry, `start --params=`
	_ = os.Remove(probe("marker")) // s2 fails once, so that retry re-runs it
	cli := h.env.Client(h.bin)
	clearParamEnv()
	dstart, err := dag.LoadMetadata(file)
	clearParamEnv()
	if err != nil {
		res.CheckError("LoadMetadata %s: %v", file, err)
		return
	}
	defer os.Remove(dstart.SockAddr())
	startc := make(chan error, 1)
	go func() { startc <- cli.Start(dstart, client.StartOptions{Params: given, Quiet: true}) }()
	select {
	case <-startc:
	case <-time.After(watchdog):
		killChildrenOf(file)
		select {
		case <-startc:
		case <-time.After(5 * time.Second):
		}
		h.violate("C11/params/hang/start", fmt.Sprintf("%s: client.Start did not return within %s", m, watchdog), rp)
		return
	}
	run1 := readAll()
	res.Count("params_binary_runs", 1)
	shape := "other"
	if len(given) > 1 && given[0] == '"' && given[len(given)-1] == '"' {
		shape = "both-ends-quoted"
	}
	startOK := true
	for _, st := range []string{"s1", "s2", "exit"} {
		if why, _ := diffObs(inproc[st], run1[st]); why != "" {
			startOK = false
			sig := "C11/params/start-argv-unquote/client/" + shape
			if given == "" {
				sig = "C11/params/start-run-differs-from-load/" + m.Mode
			}
			h.violate(sig, fmt.Sprintf("%s: run started by client.Start: %s saw other values than a direct dag.Load(%q) gives: %s", m, st, given, why), rp)
			break
		}
	}
	// the run to repeat
	var reqID string
	if sf := h.env.Stores().HistoryStore().ReadStatusRecent(dstart.Location, 1); len(sf) == 1 {
		reqID = sf[0].Status.RequestID
	}
	if reqID == "" {
		if startOK {
			res.CheckError("%s: no status recorded by the start run", m)
		}
		return
	}
	feats := m.features()
	report := func(what string, got map[string]obs, steps []string) {
		for _, st := range steps {
			if why, _ := diffObs(run1[st], got[st]); why != "" {
				fs := feats
				if len(fs) == 0 {
					fs = []string{"other"}
				}
				for _, f := range fs {
					h.violate("C11/params/"+what+"-"+f,
						fmt.Sprintf("%s: `%s` of the run: %s saw other values than in the run it repeats: %s", m, what, st, why), rp)
				}
				return
			}
		}
	}
	pidf := probe("pids")
	if r := h.runBin(pidf, "restart", "-q", file); r.hung {
		h.violate("C11/params/hang/restart", fmt.Sprintf("%s: restart did not end within %s", m, watchdog), rp)
		return
	}
	res.Count("params_binary_runs", 1)
	report("restart", readAll(), []string{"s1", "s2", "exit"})
	if r := h.runBin(pidf, "retry", "--req="+reqID, file); r.hung {
		h.violate("C11/params/hang/retry", fmt.Sprintf("%s: retry did not end within %s", m, watchdog), rp)
		return
	}
	res.Count("params_binary_runs", 1)
	report("retry", readAll(), []string{"s2", "exit"})

	// (4) the documented command line: start --params=<string>
	if given != "" {
		r := h.runBin(pidf, "start", "--params="+given, "-q", file)
		if r.hung {
			h.violate("C11/params/hang/start", fmt.Sprintf("%s: start --params did not end within %s", m, watchdog), rp)
			return
		}
		res.Count("params_binary_runs", 1)
		run4 := readAll()
		for _, st := range []string{"s1", "s2", "exit"} {
			if why, _ := diffObs(inproc[st], run4[st]); why != "" {
				h.violate("C11/params/start-argv-unquote/cli/"+shape,
					fmt.Sprintf("%s: `start --params=%s`: %s saw other values than a direct dag.Load(%q) gives: %s (%s)", m, given, st, given, why, strings.TrimSpace(r.out)), rp)
				break
			}
		}
	}
}
