package main

import (
	"fmt"
	"os"
	"path/filepath"
	"strings"

	"github.com/ErdemOzgen/blackdagger/internal/dag"
	"github.com/ErdemOzgen/blackdagger/internal/zzverif/vlib"
)

const (
	pipeCap   = 65536
	maxArgStr = 131072 // MAX_ARG_STRLEN: one environment string incl. NAME= and NUL
)

// omember: one payload in one DAG shape.
type omember struct {
	Payload string `json:"payload"` // name of a literal payload, or "pattern"
	Len     int    `json:"len"`     // for "pattern"
	Shape   string `json:"shape"`   // "fail-once+retry" | "success"
}

func (m omember) String() string {
	if m.Payload == "pattern" {
		return fmt.Sprintf("pattern(len=%d)/%s", m.Len, m.Shape)
	}
	return m.Payload + "/" + m.Shape
}

var literalPayloads = []struct{ name, data string }{
	{"empty", ""},
	{"x", "x"},
	{"padded", " x \n"},
	{"space", "a b"},
	{"eq", "a=b"},
	{"dollar", "$HOME"},
	{"quote", `"q"`},
	{"backslash", `back\\slash`},
	{"utf8", "héllo wörld ✓ 日本"},
	{"multiline", "l1\nl2\n  l3  \n"},
	{"non-utf8", "caf\xe9 \xff\xfe"},
}

func patternLengths(thorough bool) []int {
	if thorough {
		return []int{0, 1, 4095, 4096, 4097, 65535, 65536, 65537, 1 << 20}
	}
	return []int{0, 1, 4095, 4096, 4097, 65535}
}

const (
	shapeFail = "fail-once+retry"
	shapeOK   = "success"
	// the producer has a step-level retryPolicy: its first attempt prints something else and fails,
	// the second prints the payload; the consumers must see the last attempt's output only
	shapeStepRetry = "step-retry"
	// as fail-once+retry, but the failing consumer fails twice: the first retry leaves the run unfinished
	// again, and a retry OF THAT RETRY must still hand the producer's recorded output on
	shapeFail2 = "fail-twice+retry-of-retry"
)

func enumOutputs(thorough bool) []omember {
	var out []omember
	// the members that are expected to take a whole watchdog first, so that they land in different shards
	if thorough {
		for _, n := range []int{65537, 1 << 20} {
			for _, sh := range []string{shapeFail, shapeOK} {
				out = append(out, omember{Payload: "pattern", Len: n, Shape: sh})
			}
		}
	} else {
		out = append(out, omember{Payload: "pattern", Len: 65537, Shape: shapeFail}) // one witness of the deadlock
	}
	for _, p := range literalPayloads {
		for _, sh := range []string{shapeFail, shapeOK} {
			out = append(out, omember{Payload: p.name, Shape: sh})
		}
	}
	for _, n := range patternLengths(thorough) {
		if n > pipeCap {
			continue
		}
		for _, sh := range []string{shapeFail, shapeOK} {
			out = append(out, omember{Payload: "pattern", Len: n, Shape: sh})
		}
	}
	for _, p := range literalPayloads {
		out = append(out, omember{Payload: p.name, Shape: shapeStepRetry})
		out = append(out, omember{Payload: p.name, Shape: shapeFail2})
	}
	for _, n := range []int{1, 2, 4096} {
		out = append(out, omember{Payload: "pattern", Len: n, Shape: shapeFail2})
	}
	for _, n := range []int{1, 4096, 65535} {
		if n == 65535 && !thorough {
			continue
		}
		out = append(out, omember{Payload: "pattern", Len: n, Shape: shapeStepRetry})
	}
	return out
}

func (m omember) data() []byte {
	if m.Payload != "pattern" {
		for _, p := range literalPayloads {
			if p.name == m.Payload {
				return []byte(p.data)
			}
		}
		panic("unknown payload " + m.Payload)
	}
	out := make([]byte, 0, m.Len+10)
	for k := 0; len(out) < m.Len; k++ {
		out = append(out, fmt.Sprintf("%08d|", k)...)
	}
	return out[:m.Len]
}

func (m omember) class() string {
	if m.Payload != "pattern" {
		return m.Payload
	}
	switch {
	case m.Len > pipeCap:
		return "pattern(size>64KiB)"
	case m.Len >= 4096:
		return "pattern(4KiB<=size<=64KiB)"
	}
	return "pattern(size<4KiB)"
}

func (m omember) sizeClass() string {
	if len(m.data()) > pipeCap {
		return "size>64KiB"
	}
	return "size<=64KiB"
}

func (h *harness) outputYAML(file, tag string, m omember, payloadFile, pids string) {
	w := h.work
	dump := filepath.Join(w, "dumpout.sh")
	probe := func(n string) string { return filepath.Join(w, tag+"."+n) }
	cons := func(name, marker string) string {
		return fmt.Sprintf(`sh %s %s %s %s "$OUT"`, dump, probe(name), marker, pids)
	}
	var sb strings.Builder
	fmt.Fprintf(&sb, "steps:\n")
	if m.Shape == shapeStepRetry {
		fmt.Fprintf(&sb, "  - name: prod\n    command: sh %s %s %s %s\n    output: OUT\n    retryPolicy:\n      limit: 1\n      intervalSec: 0\n",
			filepath.Join(w, "prodretry.sh"), payloadFile, pids, probe("pmarker"))
	} else {
		fmt.Fprintf(&sb, "  - name: prod\n    command: sh %s %s %s\n    output: OUT\n", filepath.Join(w, "prod.sh"), payloadFile, pids)
	}
	fmt.Fprintf(&sb, "  - name: adj\n    command: %s\n    depends:\n      - prod\n", cons("adj", "-"))
	if m.Shape == shapeFail || m.Shape == shapeFail2 {
		fmt.Fprintf(&sb, "  - name: far\n    command: %s\n    depends:\n      - adj\n", cons("far", "-"))
		// a step that does not depend on the producer but starts after the producer finished
		fmt.Fprintf(&sb, "  - name: gate\n    command: sh %s %s %s\n", filepath.Join(w, "gate.sh"), probe("adj")+".set", pids)
		fmt.Fprintf(&sb, "  - name: par\n    command: %s\n    depends:\n      - gate\n", cons("par", "-"))
		mk := probe("marker")
		if m.Shape == shapeFail2 {
			mk = "2:" + mk // dumpout.sh: fail until the marker file has two lines
		}
		fmt.Fprintf(&sb, "  - name: again\n    command: %s\n    depends:\n      - far\n", cons("again", mk))
	}
	fmt.Fprintf(&sb, "handlerOn:\n")
	fmt.Fprintf(&sb, "  success:\n    command: %s\n", cons("success", "-"))
	fmt.Fprintf(&sb, "  failure:\n    command: %s\n", cons("failure", "-"))
	fmt.Fprintf(&sb, "  exit:\n    command: %s\n", cons("exit", "-"))
	writeFile(file, sb.String(), 0o644)
}

func (h *harness) runOutput(m omember) {
	res := h.res
	res.Evaluations++
	h.seq++
	tag := fmt.Sprintf("o%d-%d", h.fl.Shard, h.seq)
	rp := replay{O: &m}
	data := m.data()
	want := strings.TrimSpace(string(data))
	if len(data) > 0 {
		res.Nontrivial(vlib.Hash("output", m.String()))
	}
	file := filepath.Join(h.env.DAGs, tag+".yaml")
	payloadFile := filepath.Join(h.work, tag+".payload")
	pids := filepath.Join(h.work, tag+".pids")
	probe := func(n string) string { return filepath.Join(h.work, tag+"."+n) }
	if err := os.WriteFile(payloadFile, data, 0o644); err != nil {
		res.CheckError("%v", err)
		return
	}
	h.outputYAML(file, tag, m, payloadFile, pids)
	positions := []string{"adj", "far", "par", "again", "success", "failure", "exit"}
	defer func() {
		for _, n := range positions {
			for _, s := range []string{".arg", ".env", ".set"} {
				_ = os.Remove(probe(n) + s)
			}
		}
		for _, f := range []string{file, payloadFile, pids, probe("marker"), probe("pmarker")} {
			_ = os.Remove(f)
		}
		_ = h.env.Stores().HistoryStore().RemoveAll(file)
		_ = os.RemoveAll(filepath.Join(h.env.Logs, tag))
	}()
	sockOf := func() string {
		d := &dag.DAG{Location: file}
		return d.SockAddr()
	}
	defer func() { _ = os.Remove(sockOf()) }()

	tooBigForExec := len("OUT=")+len(want)+1 > maxArgStr

	type seen struct {
		ran      bool
		env, arg string
		set      string
	}
	read := func(n string) seen {
		var s seen
		e, err1 := os.ReadFile(probe(n) + ".env")
		a, err2 := os.ReadFile(probe(n) + ".arg")
		st, _ := os.ReadFile(probe(n) + ".set")
		if err1 != nil && err2 != nil {
			return s
		}
		s.ran, s.env, s.arg, s.set = true, string(e), string(a), strings.TrimSpace(string(st))
		for _, x := range []string{".arg", ".env", ".set"} {
			_ = os.Remove(probe(n) + x)
		}
		return s
	}
	// check the consumers of one run; label = signature name of the position
	check := func(run string, names map[string]string, order []string) {
		for _, n := range order {
			label := names[n]
			s := read(n)
			if tooBigForExec {
				continue
			}
			if !s.ran {
				h.violate(fmt.Sprintf("C11/output/consumer-did-not-run/%s/%s", label, m.class()),
					fmt.Sprintf("%s: %s: consumer %q left no probe (producer printed %d bytes)", m, run, n, len(data)), rp)
				continue
			}
			envOK, argOK := s.env == want, s.arg == want
			if envOK && argOK {
				continue
			}
			suffix := ""
			switch {
			case envOK:
				suffix = "/arg-only"
			case argOK:
				suffix = "/env-only"
			}
			h.violate(fmt.Sprintf("C11/output/value-mismatch/%s/%s%s", label, m.class(), suffix),
				fmt.Sprintf("%s: %s: consumer %q: want $OUT = TrimSpace(stdout) = %s (%d bytes); environment has %s (%d bytes, %s); expanded into the command line: %s (%d bytes)",
					m, run, n, vlib.Short(fmt.Sprintf("%q", want), 80), len(want), vlib.Short(fmt.Sprintf("%q", s.env), 80), len(s.env), s.set,
					vlib.Short(fmt.Sprintf("%q", s.arg), 80), len(s.arg)), rp)
		}
	}

	r := h.runBin(pids, "start", "-q", file)
	res.Count("output_binary_runs", 1)
	if r.hung {
		h.violate(fmt.Sprintf("C11/output/hang(%s)", m.sizeClass()),
			fmt.Sprintf("%s: `start` did not end within %s; the producer printed %d bytes to a step with `output: OUT` (%s)", m, watchdog, len(data), strings.TrimSpace(r.out)), rp)
		return
	}
	if h.seq%7 == 1 {
		s := read("adj")
		res.Sample(map[string]any{"member": m.String(), "producer_stdout_bytes": len(data), "want_bytes": len(want),
			"adjacent_consumer_env": vlib.Short(fmt.Sprintf("%q", s.env), 60), "adjacent_consumer_arg": vlib.Short(fmt.Sprintf("%q", s.arg), 60)})
		// put it back for the check below
		if s.ran {
			_ = os.WriteFile(probe("adj")+".env", []byte(s.env), 0o644)
			_ = os.WriteFile(probe("adj")+".arg", []byte(s.arg), 0o644)
			_ = os.WriteFile(probe("adj")+".set", []byte(s.set), 0o644)
		}
	}
	if m.Shape == shapeStepRetry {
		if _, err := os.Stat(probe("pmarker")); err != nil {
			res.CheckError("%s: the producer's first attempt did not run (%v)", m, err)
			return
		}
		check("start", map[string]string{"adj": "after-step-retry/adjacent", "success": "after-step-retry/on-success", "exit": "after-step-retry/on-exit"}, []string{"adj", "success", "exit"})
		return
	}
	if m.Shape == shapeOK {
		check("start", map[string]string{"adj": "adjacent", "success": "on-success", "exit": "on-exit"}, []string{"adj", "success", "exit"})
		return
	}
	check("start", map[string]string{"adj": "adjacent", "far": "downstream", "par": "parallel-later", "again": "downstream-2", "failure": "on-failure", "exit": "on-exit"},
		[]string{"adj", "far", "par", "again", "failure", "exit"})

	// retry of that run: only `again` failed, so only it and the handlers run; OUT comes from the recorded run
	var reqID string
	if sf := h.env.Stores().HistoryStore().ReadStatusRecent(file, 1); len(sf) == 1 {
		reqID = sf[0].Status.RequestID
	}
	clearParamEnv()
	if reqID == "" {
		h.violate("C11/output/retry-impossible/"+m.class(), fmt.Sprintf("%s: the start run left no readable status record (%s)", m, strings.TrimSpace(r.out)), rp)
		return
	}
	r = h.runBin(pids, "retry", "--req="+reqID, file)
	res.Count("output_binary_runs", 1)
	if r.hung {
		h.violate(fmt.Sprintf("C11/output/hang(%s)", m.sizeClass()),
			fmt.Sprintf("%s: `retry` did not end within %s", m, watchdog), rp)
		return
	}
	if m.Shape != shapeFail2 {
		check("retry", map[string]string{"again": "retry/step", "success": "retry/on-success", "exit": "retry/on-exit"}, []string{"again", "success", "exit"})
		return
	}
	// first retry: `again` fails once more
	check("retry", map[string]string{"again": "retry/step", "failure": "retry/on-failure", "exit": "retry/on-exit"}, []string{"again", "failure", "exit"})
	reqID2 := ""
	if sf := h.env.Stores().HistoryStore().ReadStatusRecent(file, 1); len(sf) == 1 {
		reqID2 = sf[0].Status.RequestID
	}
	clearParamEnv()
	if reqID2 == "" || reqID2 == reqID {
		h.violate("C11/output/retry-of-retry-impossible/"+m.class(), fmt.Sprintf("%s: the first retry left no new readable status record (latest request id %q, original %q; %s)", m, reqID2, reqID, strings.TrimSpace(r.out)), rp)
		return
	}
	r = h.runBin(pids, "retry", "--req="+reqID2, file)
	res.Count("output_binary_runs", 1)
	if r.hung {
		h.violate(fmt.Sprintf("C11/output/hang(%s)", m.sizeClass()), fmt.Sprintf("%s: the retry of the retry did not end within %s", m, watchdog), rp)
		return
	}
	check("retry of the retry", map[string]string{"again": "retry-of-retry/step", "success": "retry-of-retry/on-success", "exit": "retry-of-retry/on-exit"}, []string{"again", "success", "exit"})
}
