// C11 — parameters and step outputs reach the steps that use them, unchanged.
//
// Part (a), parameters: every sequence of <= 3 tokens (quick: <= 2) over
// {w, "a b", "q\"q", K=v, K="a b", K="x=y", "", "x=y"}, once as the `params:` default
// of the DAG file and once as the value given at start.  Each member is loaded
// by the real dag.Load and run (real scheduler, real `sh` children that dump
// "$1".."$5", $K and the numeric environment names to probe files), compared
// with a reference parser written from the documented syntax; the
// join -> re-parse round trip that retry/restart perform is checked on the
// loader, and with the real binary: client.Start's argv, `start --params=`,
// `restart` and `retry --req=` must all see the values of the run they repeat.
//
// Part (b), outputs: a producer with `output: OUT` prints a payload; consumers
// at every position (adjacent dependent, non-adjacent downstream, a parallel
// step that starts later, a step that fails once, the onFailure / onSuccess /
// onExit handlers, and a later `retry` of the run) must see exactly
// strings.TrimSpace(payload) in $OUT.  Real binary, watchdog => hang class.
package main

import (
	"bytes"
	"encoding/json"
	"fmt"
	"os"
	"os/exec"
	"path/filepath"
	"strconv"
	"strings"
	"syscall"
	"time"

	"github.com/ErdemOzgen/blackdagger/internal/zzverif/venv"
	"github.com/ErdemOzgen/blackdagger/internal/zzverif/vlib"
)

const watchdog = 45 * time.Second

// replay artefact: exactly one of P / O is set.
type replay struct {
	P *pmember `json:"params,omitempty"`
	O *omember `json:"output,omitempty"`
}

type harness struct {
	fl   *vlib.Flags
	res  *vlib.Result
	env  *venv.Env
	bin  string
	work string // scripts, probes
	seq  int
}

func (h *harness) violate(sig, detail string, rp replay) {
	if h.fl.Sub == "C10params" {
		// this run serves C10's clause "the retry uses the parameter values of the recorded run":
		// only what a retry sees counts, reported under C10
		// (and "leaves all other steps with their recorded results": what a retry, or a retry of a retry, hands on as a kept step's output)
		if !strings.Contains(sig, "/params/retry-") && !strings.Contains(sig, "/params/roundtrip-") && !strings.Contains(sig, "/params/hang/retry") &&
			!strings.Contains(sig, "/output/value-mismatch/retry") && !strings.Contains(sig, "/output/consumer-did-not-run/retry") && !strings.Contains(sig, "/output/retry-") {
			return
		}
		sig = "C10" + strings.TrimPrefix(sig, "C11")
	}
	h.res.Violate(sig, detail, rp)
	if h.fl.Replay != "" {
		fmt.Fprintf(os.Stderr, "  %s: %s\n", sig, detail)
	}
}

// baseEnv: environment for the real binary — the scratch installation, without
// anything dag.Load may have exported into this process ($1.., $K, $OUT).
func (h *harness) baseEnv() []string {
	var out []string
	for _, kv := range os.Environ() {
		name := kv
		if i := strings.IndexByte(kv, '='); i >= 0 {
			name = kv[:i]
		}
		if isNumeric(name) || name == "K" || name == "OUT" {
			continue
		}
		out = append(out, kv)
	}
	return out
}

func isNumeric(s string) bool {
	if s == "" {
		return false
	}
	for _, c := range s {
		if c < '0' || c > '9' {
			return false
		}
	}
	return true
}

func clearParamEnv() {
	for i := 0; i <= 12; i++ {
		os.Unsetenv(strconv.Itoa(i))
	}
	os.Unsetenv("K")
	os.Unsetenv("OUT")
}

type runResult struct {
	err  error
	hung bool
	out  string
}

// runBin runs the real binary with a watchdog; a hang is ended by killing its
// process group and the groups of the step children that recorded their pid.
func (h *harness) runBin(pidFile string, args ...string) runResult {
	cmd := exec.Command(h.bin, args...)
	cmd.Env = h.baseEnv()
	cmd.Dir = h.env.Root
	cmd.SysProcAttr = &syscall.SysProcAttr{Setpgid: true}
	var buf bytes.Buffer
	cmd.Stdout, cmd.Stderr = &buf, &buf
	if err := cmd.Start(); err != nil {
		return runResult{err: err}
	}
	done := make(chan error, 1)
	go func() { done <- cmd.Wait() }()
	select {
	case err := <-done:
		return runResult{err: err, out: tail(buf.String(), 600)}
	case <-time.After(watchdog):
		_ = syscall.Kill(-cmd.Process.Pid, syscall.SIGTERM)
		select {
		case <-done:
		case <-time.After(2 * time.Second):
		}
		_ = syscall.Kill(-cmd.Process.Pid, syscall.SIGKILL)
		killRecorded(pidFile)
		select {
		case <-done:
		case <-time.After(5 * time.Second):
		}
		return runResult{hung: true, out: tail(buf.String(), 600)}
	}
}

// killRecorded kills the process groups whose leaders wrote their pid into pidFile.
func killRecorded(pidFile string) {
	b, err := os.ReadFile(pidFile)
	if err != nil {
		return
	}
	for _, f := range strings.Fields(string(b)) {
		if pid, err := strconv.Atoi(f); err == nil && pid > 1 {
			_ = syscall.Kill(-pid, syscall.SIGKILL)
		}
	}
}

// killChildrenOf kills (by process group) the children of this process whose
// command line mentions needle — used when client.Start, which does not hand
// out the child, does not return.
func killChildrenOf(needle string) {
	me := os.Getpid()
	ents, _ := os.ReadDir("/proc")
	for _, e := range ents {
		pid, err := strconv.Atoi(e.Name())
		if err != nil {
			continue
		}
		st, err := os.ReadFile(filepath.Join("/proc", e.Name(), "stat"))
		if err != nil {
			continue
		}
		// pid (comm) state ppid ...
		s := string(st)
		i := strings.LastIndexByte(s, ')')
		if i < 0 {
			continue
		}
		f := strings.Fields(s[i+1:])
		if len(f) < 2 {
			continue
		}
		if ppid, _ := strconv.Atoi(f[1]); ppid != me {
			continue
		}
		cl, _ := os.ReadFile(filepath.Join("/proc", e.Name(), "cmdline"))
		if !bytes.Contains(cl, []byte(needle)) {
			continue
		}
		_ = syscall.Kill(-pid, syscall.SIGKILL)
		_ = syscall.Kill(pid, syscall.SIGKILL)
	}
}

func tail(s string, n int) string {
	if len(s) > n {
		return "…" + s[len(s)-n:]
	}
	return s
}

func writeFile(p, content string, mode os.FileMode) {
	if err := os.WriteFile(p, []byte(content), mode); err != nil {
		panic(err)
	}
}

func main() {
	fl := vlib.ParseFlags()
	res := vlib.New("c11")
	h := &harness{fl: fl, res: res, bin: os.Getenv("VERIF_BLACKDAGGER")}
	if h.bin == "" {
		res.CheckError("VERIF_BLACKDAGGER is not set (the check needs the real binary)")
		res.Write(fl.Out)
		return
	}
	root := filepath.Join(fl.Work, "inst")
	h.env = venv.New(root)
	h.work = filepath.Join(fl.Work, "w")
	home := filepath.Join(root, "home")
	for _, d := range []string{h.work, home} {
		_ = os.MkdirAll(d, 0o755)
	}
	// the scratch installation, for the binary and for client.Start (which passes os.Environ())
	os.Setenv("HOME", home)
	os.Unsetenv("XDG_CONFIG_HOME")
	os.Unsetenv("BLACKDAGGER_HOME")
	os.Setenv("BLACKDAGGER_DAGS_DIR", h.env.DAGs)
	os.Setenv("BLACKDAGGER_DATA_DIR", h.env.Data)
	os.Setenv("BLACKDAGGER_LOG_DIR", h.env.Logs)
	os.Setenv("BLACKDAGGER_SUSPEND_FLAGS_DIR", h.env.Flags)
	clearParamEnv()
	h.writeScripts()

	if fl.Replay != "" {
		var rp struct {
			Replay replay `json:"replay"`
		}
		b, err := os.ReadFile(fl.Replay)
		if err == nil {
			err = json.Unmarshal(b, &rp)
		}
		if err != nil {
			fmt.Fprintln(os.Stderr, "replay:", err)
			os.Exit(2)
		}
		h.prepareParams()
		switch {
		case rp.Replay.P != nil:
			h.runParams(*rp.Replay.P)
			fmt.Fprintf(os.Stderr, "replayed params member %s: %d violation(s)\n", rp.Replay.P, len(res.Violations))
		case rp.Replay.O != nil:
			h.runOutput(*rp.Replay.O)
			fmt.Fprintf(os.Stderr, "replayed output member %s: %d violation(s)\n", rp.Replay.O, len(res.Violations))
		}
		res.Write(fl.Out)
		os.RemoveAll(fl.Work)
		return
	}

	h.prepareParams()
	k := 0
	pm := enumParams(fl.Thorough())
	for _, m := range pm {
		if fl.Mine(k) {
			h.guard(func() { h.runParams(m) }, replay{P: &m})
		}
		k++
	}
	om := enumOutputs(fl.Thorough())
	if fl.Sub == "C10params" {
		// the retry side of the output family only
		var keep []omember
		for _, m := range om {
			if (m.Shape == shapeFail || m.Shape == shapeFail2) && len(m.data()) <= pipeCap {
				keep = append(keep, m)
			}
		}
		om = keep
	}
	for _, m := range om {
		if fl.Mine(k) {
			h.guard(func() { h.runOutput(m) }, replay{O: &m})
		}
		k++
	}
	maxTok := 2
	if fl.Thorough() {
		maxTok = 3
	}
	res.Bounds["param_tokens"] = tokens
	res.Bounds["param_sequence_len_le"] = maxTok
	res.Bounds["param_members"] = len(pm)
	res.Bounds["output_members"] = len(om)
	res.Bounds["output_pattern_lengths"] = patternLengths(fl.Thorough())
	res.Rule = "params: every token sequence up to the bound x {YAML default, start value}, each loaded by dag.Load, run in-process and through the real binary (client.Start, start --params, restart, retry); outputs: every payload x {run with a consumer that fails once + retry, run that succeeds}; distinct = distinct member; non-trivial = at least one parameter token resp. a non-empty payload"
	res.Assume("in-process runs wire the scheduler as agent.newScheduler does (handlers, delay, maxActiveRuns from the loaded DAG)")
	res.Assume("reference parser: whitespace-separated tokens; bare word | \"quoted value\" | NAME=bare | NAME=\"quoted value\"; a named parameter also occupies its position as NAME=value (builder_test ParamsWithComplexValues); a non-empty start value replaces the default string as a whole; backslash escapes inside quotes are undocumented => don't care for the reference comparison")
	res.Assume("outputs whose NAME=value exceeds 128 KiB cannot be passed through execve (MAX_ARG_STRLEN): for them only 'the run ends' is required")
	res.Write(fl.Out)
	clearParamEnv()
	os.RemoveAll(fl.Work)
}

// guard turns a panic of code under test into a violation of the member.
func (h *harness) guard(f func(), rp replay) {
	defer func() {
		if r := recover(); r != nil {
			part := "params"
			if rp.O != nil {
				part = "output"
			}
			h.violate("C11/"+part+"/panic", fmt.Sprintf("panic: %v", r), rp)
		}
	}()
	f()
}
