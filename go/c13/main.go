// C13 — any file content is either rejected with an error or yields a
// runnable DAG.
//
// Bounded-exhaustive enumeration of definition files, each pushed through
// every loader entry point of the real code (dag.LoadYAML / LoadMetadata /
// LoadWithoutEval / Load, also as base configuration; DAGStore.List /
// GetDetails / UpdateSpec / Grep; the scheduler daemon's entry reader):
//
//	bytes   every string of length <= 3 over {a : - space \n [ { " \t 0xff}
//	doc     fixed adversarial documents (fixed.go)
//	base    a maximal valid definition using every key of definition/stepDef
//	        (key list by reflection over the real types, doc.go)
//	single  base with one mutation: every node of the base document x
//	        {delete, duplicate, null, int, ..., deep nesting} x leaf pool
//	pair    every pair of mutations at two different hand-type-switched (`any`)
//	        fields (quick: leaf pool {x}; thorough: whole pool)
//
// The oracle is in oracle.go.
package main

import (
	"encoding/json"
	"fmt"
	"os"
	"runtime/pprof"
	"sort"
	"strings"
	"unicode/utf8"

	"github.com/ErdemOzgen/blackdagger/internal/dag"
	"github.com/ErdemOzgen/blackdagger/internal/zzverif/vlib"
)

type runner struct {
	c   *checker
	res *vlib.Result
	fl  *vlib.Flags
	k   int // member counter (same sequence in every shard)

	base *node
	pts  []point
	// findings of single-mutation members, for attributing pair findings
	singleMemo map[mutation]map[string]bool
}

func printable(b []byte) string {
	if !utf8.Valid(b) || len(b) > 1500 {
		return ""
	}
	return string(b)
}

func (r *runner) violate(m member, f *finding, class string) {
	sig := fmt.Sprintf("C13/%s/%s/%s", f.kind, f.what, class)
	sort.Strings(f.eps)
	m.Class = class
	m.Text = printable(m.Data)
	what := class
	if m.Exact != "" {
		what = m.Exact
	}
	detail := fmt.Sprintf("[%s %s] via %s: %s | input (%d bytes): %s", m.Family, what, strings.Join(f.eps, ","), f.detail, len(m.Data), vlib.Short(string(m.Data), 500))
	r.res.Violate(sig, detail, map[string]any{"member": m})
}

// member runs one member if it belongs to this shard.
func (r *runner) member(family, class string, gen func() []byte, muts ...mutation) {
	exact := ""
	if len(muts) > 0 {
		exact = fullName(r.pts, muts...)
	}
	r.k++
	r.res.Counters["family_size:"+family]++ // every shard counts the whole family (divided on merge below)
	if !r.fl.Mine(r.k) {
		return
	}
	data := gen()
	m := member{Family: family, Class: class, Exact: exact, Data: data}
	out := r.c.runGuarded(data)
	r.res.Evaluations++
	r.res.Count("members:"+family, 1)
	if out.isMap && out.nkeys > 0 {
		r.res.Nontrivial(vlib.Hash(string(data)))
		r.res.Count("members_reaching_the_definition_decoder", 1)
	}
	for _, ep := range sortedKeys(out.accepted) {
		r.res.Count("accepted:"+ep, 1)
	}
	if len(out.accepted) == 0 {
		r.res.Count("rejected_by_every_entry_point", 1)
	}
	if r.k%3001 == 7 || (family == "doc" && r.k%29 == 0) {
		r.res.Sample(map[string]any{"family": family, "class": class, "exact": exact, "input": vlib.Short(string(data), 240),
			"accepted_by": sortedKeys(out.accepted), "findings": len(out.fs.list)})
	}
	if family == "single" && len(muts) == 1 {
		r.singleMemo[muts[0]] = keysOf(out.fs)
	}
	for _, f := range out.fs.list {
		cls := class
		if family == "pair" && len(muts) == 2 {
			// attribute to one of the two mutations if it alone shows the same failure
			a, b := r.single(muts[0]), r.single(muts[1])
			if a[f.key()] || b[f.key()] {
				r.res.Count("pair_findings_explained_by_one_mutation", 1)
				continue // that single-mutation member is in the family and reports itself
			}
		}
		r.violate(m, f, cls)
	}
	if family == "base" {
		if len(out.accepted) != nEntryPoints {
			r.res.CheckError("the generated maximal definition is not accepted by every entry point (accepted by %v): a new field probably needs an entry in `overrides` (go/c13/doc.go). YAML: %s",
				sortedKeys(out.accepted), vlib.Short(string(data), 1200))
		}
	}
}

const nEntryPoints = 10

func keysOf(fs *findings) map[string]bool {
	m := map[string]bool{}
	for _, f := range fs.list {
		m[f.key()] = true
	}
	return m
}

// single returns the finding keys of a single-mutation member (running it if this shard has not).
func (r *runner) single(mu mutation) map[string]bool {
	if ks, ok := r.singleMemo[mu]; ok {
		return ks
	}
	out := r.c.runGuarded([]byte(mutate(r.base, r.pts, mu)))
	r.res.Count("single_reruns_for_pair_attribution", 1)
	ks := keysOf(out.fs)
	r.singleMemo[mu] = ks
	return ks
}

func main() {
	fl := vlib.ParseFlags()
	res := vlib.New("c13")
	if p := os.Getenv("VERIF_CPUPROFILE"); p != "" { // harness development aid
		if f, err := os.Create(p); err == nil {
			_ = pprof.StartCPUProfile(f)
			defer pprof.StopCPUProfile()
		}
	}
	c := newChecker(res, fl)
	r := &runner{c: c, res: res, fl: fl, singleMemo: map[mutation]map[string]bool{}}

	if fl.Replay != "" {
		var rp struct {
			Replay struct {
				Member member `json:"member"`
			} `json:"replay"`
		}
		b, err := os.ReadFile(fl.Replay)
		if err == nil {
			err = json.Unmarshal(b, &rp)
		}
		if err != nil {
			fmt.Fprintln(os.Stderr, "replay:", err)
			os.Exit(2)
		}
		m := rp.Replay.Member
		out := c.runGuarded(m.Data)
		res.Evaluations++
		for _, f := range out.fs.list {
			r.violate(m, f, m.Class)
		}
		fmt.Fprintf(os.Stderr, "replayed %s member %q (%d bytes): accepted by %v, %d finding(s)\n", m.Family, m.Class, len(m.Data), sortedKeys(out.accepted), len(out.fs.list))
		for _, v := range res.Violations {
			fmt.Fprintf(os.Stderr, "  %s\n    %s\n", v.Signature, vlib.Short(v.Detail, 400))
		}
		var eps []string
		for ep := range out.errs {
			eps = append(eps, ep)
		}
		sort.Strings(eps)
		for _, ep := range eps {
			fmt.Fprintf(os.Stderr, "  rejected by %s: %s\n", ep, out.errs[ep])
		}
		res.Write(fl.Out)
		os.RemoveAll(fl.Work)
		return
	}

	// ---- (i) byte level
	for n := 0; n <= 3; n++ {
		idx := make([]int, n)
		for {
			b := make([]byte, n)
			for i, x := range idx {
				b[i] = byteAlphabet[x]
			}
			r.member("bytes", "bytes", func() []byte { return b })
			i := n - 1
			for ; i >= 0; i-- {
				idx[i]++
				if idx[i] < len(byteAlphabet) {
					break
				}
				idx[i] = 0
			}
			if i < 0 {
				break
			}
		}
	}
	res.Bounds["byte_level_alphabet"] = "a : - space \\n [ { \" \\t 0xff"
	res.Bounds["byte_level_max_len"] = 3
	docs := fixedDocs()
	for _, d := range docs {
		d := d
		r.member("doc", "doc:"+d.name, func() []byte { return []byte(d.data) })
	}
	res.Bounds["fixed_adversarial_documents"] = len(docs)

	// ---- (ii) grammar level
	schema := dag.VerifSchema()
	var keys []string
	schemaKeys(schema, "", &keys)
	base, _ := baseDoc(schema)
	r.base = base
	r.pts = points(base, schema)
	res.Bounds["definition_keys_by_reflection"] = len(keys)
	res.Bounds["mutation_points_in_base_document"] = len(r.pts)
	res.Bounds["mutation_kinds"] = append(append(append([]string{}, plainKinds...), leafKinds...), listKinds...)
	nlists := 0
	for _, p := range r.pts {
		if nodeAt(base, p.path).k == nList {
			nlists++
		}
	}
	res.Bounds["list_nodes_in_base_document"] = nlists
	var lids []string
	for _, l := range leaves {
		lids = append(lids, l.id+"="+l.s)
	}
	res.Bounds["leaf_pool"] = lids
	// every reflected key must occur in the base document
	// (handler steps are stepDef values like the items of steps: only handlerOn.exit is maximal)
	norm := func(l string) string {
		if c := strings.SplitN(l, ".", 3); len(c) == 3 && c[0] == "handlerOn" {
			return "steps.#." + c[2]
		}
		return l
	}
	have := map[string]bool{}
	for _, p := range r.pts {
		have[norm(p.label)] = true
	}
	for _, k := range keys {
		if !have[norm(k)] && !strings.Contains(k, ".k") {
			res.CheckError("reflected key %s does not occur in the base document", k)
		}
	}
	r.member("base", "base", func() []byte { return []byte(base.yaml()) })

	for pi := range r.pts {
		for _, mu := range mutationsOf(base, r.pts, pi, leaves) {
			mu := mu
			r.member("single", className(r.pts, mu), func() []byte { return []byte(mutate(base, r.pts, mu)) }, mu)
		}
	}

	// pairs among the fields the loader type-switches by hand
	roots := pairRoots(base, r.pts)
	var rl []string
	for _, p := range roots {
		rl = append(rl, r.pts[p].label)
	}
	res.Bounds["pair_roots"] = rl
	// quick: a core subset of kinds with the leaf "x"; thorough: every kind x the whole leaf pool
	pairMuts := func(pt int) []mutation {
		if fl.Thorough() {
			return mutationsOf(base, r.pts, pt, leaves)
		}
		return []mutation{{pt, "delete", ""}, {pt, "null", ""}, {pt, "int", ""}, {pt, "empty-list", ""}, {pt, "string", "x"},
			{pt, "list-of-maps", "x"}, {pt, "map-unknown-key", "x"}, {pt, "map-nonstring-key", "x"}}
	}
	res.Bounds["pair_mutations_per_field"] = len(pairMuts(roots[0]))
	for i := 0; i < len(roots); i++ {
		for j := i + 1; j < len(roots); j++ {
			pa, pb := r.pts[roots[i]], r.pts[roots[j]]
			if isPrefix(pa.path, pb.path) || isPrefix(pb.path, pa.path) {
				continue
			}
			for _, ma := range pairMuts(roots[i]) {
				for _, mb := range pairMuts(roots[j]) {
					ma, mb := ma, mb
					r.member("pair", className(r.pts, ma, mb), func() []byte { return []byte(mutate(base, r.pts, ma, mb)) }, ma, mb)
				}
			}
		}
	}

	// family sizes were counted by every shard: keep them only in shard 0
	for k := range res.Counters {
		if strings.HasPrefix(k, "family_size:") && fl.Shard != 0 {
			delete(res.Counters, k)
		}
	}
	res.Count("entry_point_calls", c.epCalls)
	res.Rule = "every member of the stated finite families (byte strings <= 3 over the alphabet, fixed adversarial documents, maximal definition, every single mutation of every node of it, every pair of mutations at two different hand-type-switched fields) is written to a file and pushed through 10 loader entry points of the real code; distinct = distinct file content; non-trivial = the content decodes to a non-empty YAML mapping, i.e. reaches the definition decoder and the builder's type switches"
	res.Assume("commands reachable through command substitution in enumerated members are `echo x`, `true`, `false` or a non-existent path")
	res.Assume("accepted DAGs are not executed; 'served' = the agent's HandleHTTP status branch on an agent set up (scheduler + graph) for the DAG, 'recorded/read back' = the real JSON history store")
	res.Write(fl.Out)
	os.RemoveAll(fl.Work)
}

// pairRoots: points whose value the loader type-switches by hand (schema kind
// any or map of any) plus params and the precondition lists, taken at top
// level, inside the first (maximal) step and inside handlerOn.exit.
func pairRoots(base *node, pts []point) []int {
	extra := map[string]bool{"params": true, "preconditions": true, "steps.#.preconditions": true, "functions": true}
	var out []int
	for i, p := range pts {
		if !(p.anyTyp || extra[p.label]) {
			continue
		}
		top := ""
		if k := base.keys[p.path[0]]; k.k == nStr {
			top = k.s
		}
		switch top {
		case "steps":
			if len(p.path) < 2 || p.path[1] != 0 {
				continue
			}
		case "handlerOn":
			if len(p.path) < 2 {
				continue
			}
			h := base.vals[p.path[0]]
			if h.k != nMap || h.keys[p.path[1]].s != "exit" {
				continue
			}
		}
		nested := false // keep the outermost fields only
		for _, j := range out {
			if isPrefix(pts[j].path, p.path) {
				nested = true
			}
		}
		if !nested {
			out = append(out, i)
		}
	}
	return out
}
