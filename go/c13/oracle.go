package main

// Entry points and the oracle of C13.
//
// Oracle (exactly the property): every loader entry point returns (a panic or
// a watchdog expiry is a violation); when a definition is accepted, every
// step has a name and something to execute, every schedule expression of the
// definition parses with the loader's own cron parser and carries a parsed
// schedule, signal names are valid, the status of the DAG serialises, reads
// back (model.StatusFromJSON, history store) and is served by the agent's
// status endpoint, and evaluating the accepted preconditions does not panic.

import (
	"bytes"
	"encoding/json"
	"errors"
	"fmt"
	"io"
	"net/http"
	"os"
	"path/filepath"
	"reflect"
	"runtime"
	"sort"
	"strings"
	"sync/atomic"
	"time"

	"github.com/ErdemOzgen/blackdagger/internal/agent"
	"github.com/ErdemOzgen/blackdagger/internal/dag"
	dagsched "github.com/ErdemOzgen/blackdagger/internal/dag/scheduler"
	"github.com/ErdemOzgen/blackdagger/internal/persistence"
	"github.com/ErdemOzgen/blackdagger/internal/persistence/jsondb"
	"github.com/ErdemOzgen/blackdagger/internal/persistence/model"
	"github.com/ErdemOzgen/blackdagger/internal/scheduler"
	"github.com/ErdemOzgen/blackdagger/internal/zzverif/venv"
	"github.com/ErdemOzgen/blackdagger/internal/zzverif/vlib"
	"golang.org/x/sys/unix"
	"gopkg.in/yaml.v2"
)

const modInternal = "github.com/ErdemOzgen/blackdagger/internal/"

// finding: one way a member fails the oracle. kind/what form the signature
// together with the member's class.
type finding struct {
	kind   string // panic | accepted | status | hang
	what   string // origin function / defect class
	detail string
	eps    []string // entry points (or oracle stages) where it was seen
}

func (f finding) key() string { return f.kind + "/" + f.what }

type panicInfo struct {
	fn    string // first frame inside the repository's internal/ packages, e.g. dag.parseScheduleMap
	where string // file:line of that frame
	top   string // innermost non-runtime frame (may be a dependency)
	value string
}

// originOf inspects the stack of a recovered panic (must be called from the
// deferred function): the first frame below the panic machinery that belongs to
// the repository's internal packages (harness packages and the Verif* wrappers
// excluded) is the origin.
func originOf(v any) *panicInfo {
	pcs := make([]uintptr, 128)
	n := runtime.Callers(2, pcs)
	frames := runtime.CallersFrames(pcs[:n])
	type fr struct {
		fn, file string
		line     int
	}
	var all []fr
	for {
		f, more := frames.Next()
		all = append(all, fr{f.Function, f.File, f.Line})
		if !more {
			break
		}
	}
	start := 0
	for i, f := range all {
		if f.fn == "runtime.gopanic" || f.fn == "runtime.sigpanic" || f.fn == "runtime.panicmem" ||
			strings.HasPrefix(f.fn, "runtime.panic") || strings.HasPrefix(f.fn, "runtime.goPanic") {
			start = i + 1
		}
	}
	pi := &panicInfo{fn: "unknown", value: vlib.Short(fmt.Sprint(v), 300)}
	for _, f := range all[start:] {
		if pi.top == "" && !strings.HasPrefix(f.fn, "runtime.") {
			pi.top = fmt.Sprintf("%s (%s:%d)", f.fn, trimPath(f.file), f.line)
		}
		if strings.HasPrefix(f.fn, modInternal) && !strings.Contains(f.fn, "/zzverif/") && !strings.Contains(f.fn, ".Verif") {
			pi.fn = shortFn(f.fn)
			pi.where = fmt.Sprintf("%s:%d", trimPath(f.file), f.line)
			break
		}
	}
	return pi
}

func trimPath(p string) string {
	if i := strings.Index(p, "/internal/"); i >= 0 {
		return p[i+1:]
	}
	if i := strings.Index(p, "/pkg/mod/"); i >= 0 {
		return p[i+9:]
	}
	return filepath.Base(p)
}

// shortFn: github.com/.../internal/dag.(*builder).buildSchedule.func1 -> dag.(*builder).buildSchedule
func shortFn(fn string) string {
	fn = fn[strings.LastIndex(fn, "/")+1:]
	for {
		i := strings.LastIndex(fn, ".")
		if i < 0 {
			break
		}
		suf := fn[i+1:]
		if strings.HasPrefix(suf, "func") || isDigits(suf) {
			fn = fn[:i]
			continue
		}
		break
	}
	if i := strings.Index(fn, "["); i >= 0 { // generic instantiation
		fn = fn[:i]
	}
	return fn
}

func isDigits(s string) bool {
	if s == "" {
		return false
	}
	for _, c := range s {
		if c < '0' || c > '9' {
			return false
		}
	}
	return true
}

// ------------------------------------------------------------ checker ---

type checker struct {
	res      *vlib.Result
	fl       *vlib.Flags
	env      *venv.Env
	store    persistence.DAGStore
	hist     *jsondb.JSONDB
	simple   string // a fixed valid DAG file, used when the member is loaded as base configuration
	seq      int    // unique file number
	baseEnv  map[string]string
	condMemo map[string]*finding
	stage    atomic.Value // entry point / oracle stage in progress (for the watchdog)
	epCalls  int64
}

var fixedNow = time.Date(2026, 1, 2, 3, 4, 5, 0, time.UTC)

func newChecker(res *vlib.Result, fl *vlib.Flags) *checker {
	c := &checker{res: res, fl: fl, condMemo: map[string]*finding{}}
	c.env = venv.New(filepath.Join(fl.Work, "env"))
	c.store = c.env.Stores().DAGStore()
	c.hist = jsondb.New(c.env.Data, true)
	fixed := filepath.Join(fl.Work, "fixed")
	_ = os.MkdirAll(fixed, 0o755)
	c.simple = filepath.Join(fixed, "simple.yaml")
	_ = os.WriteFile(c.simple, []byte("steps:\n  - name: s\n    command: \"true\"\n"), 0o644)
	c.baseEnv = map[string]string{}
	for _, kv := range os.Environ() {
		if i := strings.IndexByte(kv, '='); i > 0 {
			c.baseEnv[kv[:i]] = kv[i+1:]
		}
	}
	return c
}

// restoreEnv undoes the os.Setenv calls the loader makes (env:, params:).
func (c *checker) restoreEnv() {
	for _, kv := range os.Environ() {
		i := strings.IndexByte(kv, '=')
		if i <= 0 {
			continue
		}
		k := kv[:i]
		if v, ok := c.baseEnv[k]; !ok {
			os.Unsetenv(k)
		} else if v != kv[i+1:] {
			os.Setenv(k, v)
		}
	}
}

type member struct {
	Family string `json:"family"`
	Class  string `json:"class"`          // class used in the signature
	Exact  string `json:"exact,omitempty"` // exact mutation(s)
	Data   []byte `json:"data"` // base64 in JSON
	Text   string `json:"text,omitempty"`
}

// call runs f, turning a panic into a panicInfo.
func call(f func()) (pi *panicInfo) {
	defer func() {
		if v := recover(); v != nil {
			pi = originOf(v)
		}
	}()
	f()
	return nil
}

type findings struct {
	list []*finding
}

func (fs *findings) add(kind, what, ep, detail string) {
	for _, f := range fs.list {
		if f.kind == kind && f.what == what {
			for _, e := range f.eps {
				if e == ep {
					return
				}
			}
			f.eps = append(f.eps, ep)
			return
		}
	}
	fs.list = append(fs.list, &finding{kind: kind, what: what, detail: detail, eps: []string{ep}})
}

func (fs *findings) addPanic(pi *panicInfo, ep string) {
	fs.add("panic", pi.fn, ep, fmt.Sprintf("panic %q at %s (innermost frame %s)", pi.value, pi.where, pi.top))
}

// rawSchedules extracts the cron expressions of the *definition*, the way the
// documented shapes carry them (string | list of strings | map start/stop/restart
// -> string | list of strings). ok=false when the document is not a mapping or
// the key is ambiguous.
func rawSchedules(data []byte) (exprs []string, isMap bool, nkeys int) {
	var cm map[string]any
	err := yaml.NewDecoder(bytes.NewReader(data)).Decode(&cm)
	if err != nil && !errors.Is(err, io.EOF) {
		return nil, false, 0
	}
	if cm == nil {
		return nil, false, 0
	}
	var val any
	hits := 0
	for k, v := range cm {
		if strings.EqualFold(k, "schedule") {
			hits++
			val = v
		}
	}
	if hits != 1 {
		return nil, true, len(cm)
	}
	strs := func(v any) []string {
		switch v := v.(type) {
		case string:
			return []string{v}
		case []any:
			var out []string
			for _, e := range v {
				if s, ok := e.(string); ok {
					out = append(out, s)
				}
			}
			return out
		}
		return nil
	}
	switch v := val.(type) {
	case string, []any:
		exprs = strs(v)
	case map[any]any:
		for _, k := range []string{"start", "stop", "restart"} {
			if x, ok := v[k]; ok {
				exprs = append(exprs, strs(x)...)
			}
		}
	}
	return exprs, true, len(cm)
}

// runMember pushes one member through every entry point and the oracle.
func (c *checker) runMember(data []byte) (r *memberResult) {
	fs := &findings{}
	accepted := map[string]bool{}
	r = &memberResult{fs: fs, accepted: accepted, errs: map[string]string{}}
	c.seq++
	name := fmt.Sprintf("m%d_%d", c.fl.Shard, c.seq)
	file := filepath.Join(c.env.DAGs, name+".yaml")
	if err := os.WriteFile(file, data, 0o644); err != nil {
		c.res.CheckError("cannot write member file: %v", err)
		return
	}
	defer os.Remove(file)
	defer c.restoreEnv()
	var rawExprs []string
	rawExprs, r.isMap, r.nkeys = rawSchedules(data)

	type ep struct {
		name string
		meta bool
		run  func() ([]*dag.DAG, error)
	}
	one := func(d *dag.DAG, err error) ([]*dag.DAG, error) {
		if err != nil || d == nil {
			return nil, err
		}
		return []*dag.DAG{d}, nil
	}
	eps := []ep{
		{"LoadYAML", false, func() ([]*dag.DAG, error) { return one(dag.LoadYAML(data)) }},
		{"LoadMetadata", true, func() ([]*dag.DAG, error) { return one(dag.LoadMetadata(file)) }},
		{"LoadWithoutEval", false, func() ([]*dag.DAG, error) { return one(dag.LoadWithoutEval(file)) }},
		{"Load", false, func() ([]*dag.DAG, error) { return one(dag.Load("", file, "")) }},
		{"Load/as-base-config", false, func() ([]*dag.DAG, error) { return one(dag.Load(file, c.simple, "")) }},
		{"DAGStore.List", true, func() ([]*dag.DAG, error) {
			ds, errs, err := c.store.List()
			if err == nil && len(ds) == 0 && len(errs) > 0 {
				err = errors.New(errs[0])
			}
			return ds, err
		}},
		{"DAGStore.GetDetails", false, func() ([]*dag.DAG, error) { return one(c.store.GetDetails(name)) }},
		{"DAGStore.UpdateSpec", false, func() ([]*dag.DAG, error) { return nil, c.store.UpdateSpec(name, data) }},
		{"DAGStore.Grep", true, func() ([]*dag.DAG, error) {
			rs, errs, err := c.store.Grep(".*")
			var ds []*dag.DAG
			for _, r := range rs {
				ds = append(ds, r.DAG)
			}
			if err == nil && len(ds) == 0 && len(errs) > 0 {
				err = errors.New(errs[0])
			}
			return ds, err
		}},
		{"scheduler.entryReader", true, func() ([]*dag.DAG, error) {
			ds, _, err := scheduler.VerifEntryReader(c.env.DAGs, venv.Quiet, c.env.Client(""), fixedNow)
			return ds, err
		}},
	}
	for _, e := range eps {
		c.stage.Store(e.name)
		c.epCalls++
		var ds []*dag.DAG
		var err error
		if pi := call(func() { ds, err = e.run() }); pi != nil {
			fs.addPanic(pi, e.name)
			continue
		}
		if err != nil {
			r.errs[e.name] = vlib.Short(err.Error(), 200)
		}
		if e.name == "DAGStore.UpdateSpec" {
			if err == nil {
				accepted[e.name] = true
			}
			continue
		}
		if err != nil || len(ds) == 0 {
			continue
		}
		accepted[e.name] = true
		for _, d := range ds {
			if d == nil {
				continue
			}
			c.checkAccepted(fs, d, e.name, e.meta, rawExprs)
		}
	}
	return r
}

type memberResult struct {
	fs       *findings
	accepted map[string]bool
	errs     map[string]string // entry point -> error text (rejections)
	isMap    bool              // the document decodes to a mapping (reaches the definition decoder)
	nkeys    int
}

func hasExecutable(s *dag.Step) bool {
	return s.Command != "" || s.CmdWithArgs != "" || s.Script != "" || s.SubWorkflow != nil || s.ExecutorConfig.Type != ""
}

func allSteps(d *dag.DAG) (steps []*dag.Step, where []string) {
	for i := range d.Steps {
		steps = append(steps, &d.Steps[i])
		where = append(where, fmt.Sprintf("steps[%d]", i))
	}
	for _, h := range []struct {
		n string
		s *dag.Step
	}{{"handlerOn.exit", d.HandlerOn.Exit}, {"handlerOn.success", d.HandlerOn.Success},
		{"handlerOn.failure", d.HandlerOn.Failure}, {"handlerOn.cancel", d.HandlerOn.Cancel}} {
		if h.s != nil {
			steps = append(steps, h.s)
			where = append(where, h.n)
		}
	}
	return
}

func jsonErrClass(err error) string {
	var ute *json.UnsupportedTypeError
	var uve *json.UnsupportedValueError
	var se *json.SyntaxError
	var te *json.UnmarshalTypeError
	switch {
	case errors.As(err, &ute):
		return "unsupported-type:" + strings.NewReplacer("interface {}", "any", "[", "(", "]", ")", " ", "").Replace(ute.Type.String())
	case errors.As(err, &uve):
		return "unsupported-value:" + strings.NewReplacer(" ", "", "+", "", "-", "neg").Replace(uve.Str)
	case errors.As(err, &se):
		return "syntax"
	case errors.As(err, &te):
		return "unmarshal-type:" + te.Field
	}
	return strings.NewReplacer(" ", "", "*", "").Replace(reflect.TypeOf(err).String())
}

// checkAccepted applies the acceptance part of the oracle to one DAG.
func (c *checker) checkAccepted(fs *findings, d *dag.DAG, ep string, meta bool, rawExprs []string) {
	// (a) every step has a name and something to execute
	steps, where := allSteps(d)
	for i, s := range steps {
		if s.Name == "" {
			fs.add("accepted", "step-without-name", ep, fmt.Sprintf("%s of the accepted DAG has an empty name", where[i]))
		}
		if !hasExecutable(s) {
			fs.add("accepted", "step-without-executable", ep,
				fmt.Sprintf("%s (%q) of the accepted DAG has no command, script, sub-workflow or executor type", where[i], s.Name))
		}
		// (c) signal names
		if s.SignalOnStop != "" && unix.SignalNum(s.SignalOnStop) == 0 {
			fs.add("accepted", "invalid-signal", ep, fmt.Sprintf("%s has signalOnStop %q", where[i], s.SignalOnStop))
		}
	}
	// (b) schedules: of the definition, and as admitted
	for _, x := range rawExprs {
		if err := dag.VerifParseCron(x); err != nil {
			fs.add("accepted", "unparseable-cron", ep, fmt.Sprintf("definition accepted although its schedule expression %q does not parse: %v", x, err))
		}
	}
	for _, l := range [][]dag.Schedule{d.Schedule, d.StopSchedule, d.RestartSchedule} {
		for _, s := range l {
			if err := dag.VerifParseCron(s.Expression); err != nil {
				fs.add("accepted", "unparseable-cron", ep, fmt.Sprintf("admitted schedule %q does not parse: %v", s.Expression, err))
			} else if s.Parsed == nil {
				fs.add("accepted", "schedule-not-parsed", ep, fmt.Sprintf("admitted schedule %q carries no parsed form (the daemon calls Parsed.Next)", s.Expression))
			}
		}
	}
	if meta {
		return
	}
	// (d) status serialises and reads back
	c.stage.Store(ep + "+status")
	var js []byte
	var jerr error
	if pi := call(func() {
		st := model.NewStatus(d, nil, dagsched.StatusNone, -1, nil, nil)
		js, jerr = st.ToJSON()
	}); pi != nil {
		fs.addPanic(pi, ep+"+status")
	} else if jerr != nil {
		fs.add("status", "not-serialisable/"+jsonErrClass(jerr), ep, "model.NewStatus(dag).ToJSON(): "+jerr.Error())
	} else {
		var back *model.Status
		var berr error
		if pi := call(func() { back, berr = model.StatusFromJSON(string(js)) }); pi != nil {
			fs.addPanic(pi, ep+"+status-read-back")
		} else if berr != nil {
			fs.add("status", "not-readable-back/"+jsonErrClass(berr), ep, "model.StatusFromJSON of the serialised status: "+berr.Error())
		} else if js2, err2 := back.ToJSON(); err2 != nil || !sameJSON(js, js2) {
			fs.add("status", "round-trip-differs", ep, fmt.Sprintf("status JSON changes through StatusFromJSON/ToJSON (err=%v): %s -> %s", err2, vlib.Short(string(js), 300), vlib.Short(string(js2), 300)))
		}
	}
	// (e) preconditions can be evaluated
	c.evalConditions(fs, d, ep)
	// (f) the run-time path of the DAG that `start` loads: status served, recorded, read back
	if ep == "Load" {
		c.serveAndRecord(fs, d, jerr == nil && js != nil)
	}
}

func (c *checker) evalConditions(fs *findings, d *dag.DAG, ep string) {
	var sets [][]dag.Condition
	if len(d.Preconditions) > 0 {
		sets = append(sets, d.Preconditions)
	}
	steps, _ := allSteps(d)
	for _, s := range steps {
		if len(s.Preconditions) > 0 {
			sets = append(sets, s.Preconditions)
		}
	}
	for _, set := range sets {
		key := vlib.Hash(fmt.Sprintf("%q", set))
		f, ok := c.condMemo[key]
		if !ok {
			c.stage.Store(ep + "+EvalConditions")
			c.res.Count("eval_conditions_runs", 1)
			if pi := call(func() { _ = dag.EvalConditions(set) }); pi != nil {
				f = &finding{kind: "panic", what: pi.fn, detail: fmt.Sprintf("dag.EvalConditions(%q): panic %q at %s (innermost frame %s)", set, pi.value, pi.where, pi.top)}
			}
			c.condMemo[key] = f
		}
		if f != nil {
			fs.add(f.kind, f.what, ep+"+EvalConditions", f.detail)
		}
	}
}

// sameJSON: equal as JSON values (json.Marshal writes an invalid UTF-8 byte as the
// escape \ufffd and the re-read U+FFFD as the character itself: same value).
func sameJSON(a, b []byte) bool {
	if bytes.Equal(a, b) {
		return true
	}
	var x, y any
	if json.Unmarshal(a, &x) != nil || json.Unmarshal(b, &y) != nil {
		return false
	}
	return reflect.DeepEqual(x, y)
}

type respWriter struct {
	h    http.Header
	code int
	body bytes.Buffer
}

func (w *respWriter) Header() http.Header { return w.h }
func (w *respWriter) WriteHeader(c int) {
	if w.code == 0 {
		w.code = c
	}
}
func (w *respWriter) Write(b []byte) (int, error) {
	if w.code == 0 {
		w.code = 200
	}
	return w.body.Write(b)
}

func (c *checker) serveAndRecord(fs *findings, d *dag.DAG, serialisable bool) {
	// live-status endpoint of an agent set up for this DAG (nothing is executed)
	c.stage.Store("Load+agent.HandleHTTP")
	a := c.env.Agent("req-c13", d, &agent.Options{})
	w := &respWriter{h: http.Header{}}
	req, _ := http.NewRequest(http.MethodGet, "http://unix/status", nil)
	var serr error
	if pi := call(func() { serr = agent.VerifServeStatus(a, w, req) }); pi != nil {
		fs.addPanic(pi, "Load+agent.HandleHTTP")
	} else if serr != nil {
		c.res.Count("serve_skipped_agent_setup_error", 1) // ill-formed dependency graph etc.: C14's subject
	} else {
		c.res.Count("served", 1)
		if w.code != http.StatusOK {
			fs.add("status", "not-served", "Load+agent.HandleHTTP", fmt.Sprintf("GET /status answered %d %s", w.code, vlib.Short(w.body.String(), 200)))
		} else if _, err := model.StatusFromJSON(w.body.String()); err != nil {
			fs.add("status", "served-status-unreadable/"+jsonErrClass(err), "Load+agent.HandleHTTP", err.Error())
		}
	}
	if !serialisable {
		return
	}
	// history store: write, close, read back
	c.stage.Store("Load+history")
	var got []*model.StatusFile
	var werr error
	st := model.NewStatus(d, nil, dagsched.StatusSuccess, 4242, model.Time(fixedNow), model.Time(fixedNow))
	st.RequestID = "req-c13"
	if pi := call(func() {
		if werr = c.hist.Open(d.Location, fixedNow, "req-c13"); werr != nil {
			return
		}
		werr = c.hist.Write(st)
		if cerr := c.hist.Close(); werr == nil {
			werr = cerr
		}
		got = c.hist.ReadStatusRecent(d.Location, 1)
		_ = c.hist.RemoveAll(d.Location)
	}); pi != nil {
		fs.addPanic(pi, "Load+history")
		return
	}
	c.res.Count("history_round_trips", 1)
	switch {
	case werr != nil:
		fs.add("status", "history-write-failed", "Load+history", werr.Error())
	case len(got) != 1 || got[0].Status == nil:
		fs.add("status", "history-read-back-failed", "Load+history", "status written to the history store is not returned by ReadStatusRecent")
	default:
		a, _ := st.ToJSON()
		b, _ := got[0].Status.ToJSON()
		if !sameJSON(a, b) {
			fs.add("status", "history-round-trip-differs", "Load+history", fmt.Sprintf("%s -> %s", vlib.Short(string(a), 300), vlib.Short(string(b), 300)))
		}
	}
}

// runGuarded runs a member under the watchdog.
func (c *checker) runGuarded(data []byte) *memberResult {
	ch := make(chan *memberResult, 1)
	go func() { ch <- c.runMember(data) }()
	t := time.NewTimer(watchdog)
	defer t.Stop()
	select {
	case r := <-ch:
		return r
	case <-t.C:
		st, _ := c.stage.Load().(string)
		fs := &findings{}
		fs.add("hang", st, st, fmt.Sprintf("no return within %s (stage %s)", watchdog, st))
		return &memberResult{fs: fs, accepted: map[string]bool{}, errs: map[string]string{}}
	}
}

const watchdog = 30 * time.Second

func sortedKeys(m map[string]bool) []string {
	ks := []string{}
	for k, v := range m {
		if v {
			ks = append(ks, k)
		}
	}
	sort.Strings(ks)
	return ks
}
