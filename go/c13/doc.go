package main

// Document trees, the YAML emitter, the maximal valid definition generated
// from the reflected schema, and the mutation operators.

import (
	"fmt"
	"sort"
	"strconv"
	"strings"

	"github.com/ErdemOzgen/blackdagger/internal/dag"
)

type nkind int

const (
	nLit  nkind = iota // emitted verbatim: null, 7, true, .nan
	nStr               // emitted double-quoted
	nList              // flow sequence
	nMap               // flow mapping; keys are nodes (non-string and duplicate keys are expressible)
)

type node struct {
	k     nkind
	lit   string
	s     string
	items []*node
	keys  []*node
	vals  []*node
}

func S(s string) *node   { return &node{k: nStr, s: s} }
func Lit(s string) *node { return &node{k: nLit, lit: s} }
func I(i int) *node      { return Lit(strconv.Itoa(i)) }
func B(b bool) *node     { return Lit(strconv.FormatBool(b)) }
func Null() *node        { return Lit("null") }
func L(items ...*node) *node {
	return &node{k: nList, items: items}
}

// M builds a mapping from alternating key, value arguments; a key may be a
// string (emitted quoted) or a *node.
func M(kv ...any) *node {
	n := &node{k: nMap}
	for i := 0; i+1 < len(kv); i += 2 {
		switch k := kv[i].(type) {
		case string:
			n.keys = append(n.keys, S(k))
		case *node:
			n.keys = append(n.keys, k)
		default:
			panic("M: bad key")
		}
		switch v := kv[i+1].(type) {
		case *node:
			n.vals = append(n.vals, v)
		case string:
			n.vals = append(n.vals, S(v))
		case int:
			n.vals = append(n.vals, I(v))
		case bool:
			n.vals = append(n.vals, B(v))
		default:
			panic("M: bad value")
		}
	}
	return n
}

func (n *node) clone() *node {
	c := &node{k: n.k, lit: n.lit, s: n.s}
	for _, x := range n.items {
		c.items = append(c.items, x.clone())
	}
	for _, x := range n.keys {
		c.keys = append(c.keys, x.clone())
	}
	for _, x := range n.vals {
		c.vals = append(c.vals, x.clone())
	}
	return c
}

func (n *node) emit(sb *strings.Builder) {
	switch n.k {
	case nLit:
		sb.WriteString(n.lit)
	case nStr:
		sb.WriteString(strconv.Quote(n.s))
	case nList:
		sb.WriteByte('[')
		for i, x := range n.items {
			if i > 0 {
				sb.WriteString(", ")
			}
			x.emit(sb)
		}
		sb.WriteByte(']')
	case nMap:
		sb.WriteByte('{')
		for i := range n.keys {
			if i > 0 {
				sb.WriteString(", ")
			}
			n.keys[i].emit(sb)
			sb.WriteString(": ")
			n.vals[i].emit(sb)
		}
		sb.WriteByte('}')
	}
}

func (n *node) yaml() string {
	var sb strings.Builder
	n.emit(&sb)
	sb.WriteByte('\n')
	return sb.String()
}

func (n *node) get(key string) *node {
	for i, k := range n.keys {
		if k.k == nStr && k.s == key {
			return n.vals[i]
		}
	}
	return nil
}

// ---------------------------------------------------------------- base ---

// overrides: values that make the generated maximal definition *valid*.
// Everything not listed gets a default by kind, so a field added to
// definition/stepDef later is used (and mutated) automatically; if its default
// makes the base invalid the harness reports a check error asking for an entry
// here.  Labels are class paths ("steps.#.name"); handler steps look up the
// "steps.#." entries.
var overrides = map[string]func() *node{
	"name":        func() *node { return S("c13max") },
	"group":       func() *node { return S("grp") },
	"description": func() *node { return S("maximal definition") },
	"schedule": func() *node {
		return M("start", L(S("0 1 * * *"), S("5 4 * * 0")), "stop", S("0 2 * * *"), "restart", L(S("0 3 * * *")))
	},
	"logDir": func() *node { return S("/dev/shm/verif-c13-logdir") },
	"env": func() *node {
		return L(M("VERIF_C13_A", "a"), M("VERIF_C13_B", "$VERIF_C13_A"))
	},
	"functions.#.name":           func() *node { return S("f1") },
	"functions.#.params":         func() *node { return S("a b") },
	"functions.#.command":        func() *node { return S("echo $a $b") },
	"smtp.port":                  func() *node { return S("25") },
	"params":                     func() *node { return S(`p1 K=v "q w"`) },
	"tags":                       func() *node { return L(S("t1"), S("T2")) },
	"preconditions.#.condition":  func() *node { return S("`echo x`") },
	"preconditions.#.expected":   func() *node { return S("x") },
	// only the exit handler is maximal; the others are minimal steps (keeps the base document small)
	"handlerOn.success": func() *node { return M("call", M("function", "f2", "args", M("a", "y", "b", 2))) },
	"handlerOn.failure": func() *node { return M("command", L(S("echo"), S("x"))) },
	"handlerOn.cancel":  func() *node { return M("executor", "mail") },
	"steps.#.name":      func() *node { return S("s_all") },
	"steps.#.dir":                func() *node { return S("/tmp") },
	"steps.#.command":            func() *node { return S("true") },
	"steps.#.script":             func() *node { return S("echo x") },
	"steps.#.stdout":             func() *node { return S("/dev/null") },
	"steps.#.stderr":             func() *node { return S("/dev/null") },
	"steps.#.output":             func() *node { return S("OUT") },
	"steps.#.depends":            func() *node { return L(S("s_cmd")) },
	"steps.#.signalOnStop":       func() *node { return S("SIGTERM") },
	"steps.#.run":                func() *node { return S("sub") },
	"steps.#.params":             func() *node { return S("x=1") },
	"steps.#.call.function":      func() *node { return S("f1") },
	"steps.#.call.args":          func() *node { return M("a", 1, "b", "x") },
	"steps.#.preconditions.#.condition": func() *node { return S("a") },
	"steps.#.preconditions.#.expected":  func() *node { return S("re:^a$") },
	"steps.#.executor": func() *node {
		return M("type", "docker", "config", M("image", "alpine", "autoRemove", true,
			"container", M("env", L(S("A=1"))), "pull", false))
	},
}

func overrideFor(label string) func() *node {
	if f, ok := overrides[label]; ok {
		return f
	}
	if strings.HasPrefix(label, "handlerOn.") {
		rest := strings.SplitN(label, ".", 3)
		if len(rest) == 3 {
			if f, ok := overrides["steps.#."+rest[2]]; ok {
				return f
			}
		}
	}
	return nil
}

// extraSteps: one minimal step per way of giving a step something to
// execute, so that a mutation of that one field is not masked by the others.
func extraSteps() []*node {
	return []*node{
		M("name", "s_cmd", "command", "true"),
		M("name", "s_cmdlist", "command", L(S("echo"), I(1), S("x"))),
		M("name", "s_exec", "executor", M("type", "http", "config", M("timeout", 10, "headers", M("A", "b"), "silent", true))),
		M("name", "s_execstr", "executor", "mail"),
		M("name", "s_call", "call", M("function", "f2", "args", M("a", 1, "b", "x"))),
		M("name", "s_call1", "call", M("function", "f1", "args", M("a", "x", "b", 2))),
		M("name", "s_run", "run", "sub", "params", "x=1"),
		M("name", "s_script", "command", "sh", "script", "echo x"),
	}
}

type schemaMap map[*node]*dag.VerifNode

// buildFromSchema generates the value for a schema node at a class path.
func buildFromSchema(s *dag.VerifNode, label string, sm schemaMap) *node {
	var n *node
	if f := overrideFor(label); f != nil && label != "" {
		n = f()
	} else {
		switch s.Kind {
		case "string", "any":
			n = S("x")
		case "int":
			n = I(1)
		case "float":
			n = Lit("1.5")
		case "bool":
			n = B(true)
		case "list":
			n = L(buildFromSchema(s.Elem, label+".#", sm))
		case "map":
			n = &node{k: nMap, keys: []*node{S("k")}, vals: []*node{buildFromSchema(s.Elem, label+".k", sm)}}
		case "struct":
			n = &node{k: nMap}
			for _, f := range s.Fields {
				cl := f.Key
				if label != "" {
					cl = label + "." + f.Key
				}
				n.keys = append(n.keys, S(f.Key))
				n.vals = append(n.vals, buildFromSchema(f, cl, sm))
			}
		default:
			n = S("x")
		}
	}
	sm[n] = s
	return n
}

func baseDoc(schema *dag.VerifNode) (*node, schemaMap) {
	sm := schemaMap{}
	root := buildFromSchema(schema, "", sm)
	if st := root.get("steps"); st != nil && st.k == nList {
		st.items = append(st.items, extraSteps()...)
	}
	// two functions (the second a copy of the reflected first one, renamed); the
	// maximal step, the exit handler and s_call1 call f1, s_call and the success
	// handler call f2, so that a defect that needs "an entry in front of the
	// called function" has a witness among the single mutations.
	if fn := root.get("functions"); fn != nil && fn.k == nList && len(fn.items) == 1 && fn.items[0].k == nMap {
		f2 := fn.items[0].clone()
		if nm := f2.get("name"); nm != nil {
			nm.s = "f2"
		}
		fn.items = append(fn.items, f2)
	}
	return root, sm
}

// schemaKeys lists every key path of the reflected schema (for the result record).
func schemaKeys(s *dag.VerifNode, label string, out *[]string) {
	switch s.Kind {
	case "struct":
		for _, f := range s.Fields {
			cl := f.Key
			if label != "" {
				cl = label + "." + f.Key
			}
			*out = append(*out, cl)
			schemaKeys(f, cl, out)
		}
	case "list":
		schemaKeys(s.Elem, label+".#", out)
	case "map":
		schemaKeys(s.Elem, label+".k", out)
	}
}

// ------------------------------------------------------------- points ---

// point: one node of the base document other than the root.
type point struct {
	path   []int  // child indices from the root (map: entry index, list: item index)
	label  string // full path, e.g. steps.#.executor.config.image
	class  string // class path used in signatures: the part known to the reflected schema, "~" for "inside an untyped value": steps.#.executor.~
	schema *dag.VerifNode
	anyTyp bool // the loader type-switches this value by hand (schema kind any / map of any)
	scope  string
}

// resolve walks the reflected schema along a full path: the deepest schema
// node reached (nil when the path ends inside an untyped value) and the class
// path used in signatures.
func resolve(schema *dag.VerifNode, label string) (*dag.VerifNode, string) {
	cur := schema
	var done []string
	comps := strings.Split(label, ".")
	for i, c := range comps {
		var next *dag.VerifNode
		switch cur.Kind {
		case "struct":
			for _, f := range cur.Fields {
				if f.Key == c {
					next = f
				}
			}
		case "list":
			if c == "#" {
				next = cur.Elem
			}
		case "map":
			next = cur.Elem
		}
		if next == nil {
			_ = i
			return nil, strings.Join(append(done, "~"), ".")
		}
		done = append(done, c)
		cur = next
	}
	return cur, strings.Join(done, ".")
}

func points(root *node, schema *dag.VerifNode) []point {
	var out []point
	var walk func(n *node, path []int, label string)
	walk = func(n *node, path []int, label string) {
		add := func(child *node, i int, cl string) {
			p := append(append([]int(nil), path...), i)
			pt := point{path: p, label: cl}
			pt.schema, pt.class = resolve(schema, cl)
			if s := pt.schema; s != nil && (s.Kind == "any" || (s.Kind == "map" && s.Elem != nil && s.Elem.Kind == "any")) {
				pt.anyTyp = true
			}
			out = append(out, pt)
			walk(child, p, cl)
		}
		switch n.k {
		case nMap:
			for i, k := range n.keys {
				ks := k.s
				if k.k != nStr {
					ks = k.lit
				}
				cl := ks
				if label != "" {
					cl = label + "." + ks
				}
				add(n.vals[i], i, cl)
			}
		case nList:
			for i, it := range n.items {
				add(it, i, label+".#")
			}
		}
	}
	walk(root, nil, "")
	return out
}

// ---------------------------------------------------------- mutations ---

type leaf struct{ id, s string }

var leaves = []leaf{
	{"x", "x"},
	{"cron", "* * * * *"},
	{"signal", "SIGTERM"},
	{"badre", "re:["},
	{"backtick", "`echo x`"},
	{"envref", "$HOME"},
	{"true", "true"},
	{"empty", ""},
}

func leafByID(id string) (leaf, bool) {
	for _, l := range leaves {
		if l.id == id {
			return l, true
		}
	}
	return leaf{}, false
}

// kinds without a leaf / kinds instantiated with every leaf of the pool.
var plainKinds = []string{"delete", "duplicate", "null", "int", "negint", "float", "nan", "bool",
	"empty-list", "empty-map", "list-of-null", "wrap-unknown-key", "wrap-list"}
var leafKinds = []string{"string", "list-of-strings", "list-of-maps", "map-unknown-key", "map-nonstring-key",
	"nested-list-of-maps", "map-list-map", "deep-list", "deep-map"}

// kinds that apply to list nodes only: an element is inserted next to the
// existing (valid) elements. insert-*-between is instantiated for every gap
// (the gap index travels in the leaf field). *-empty-map only for lists that
// hold maps.
var listKinds = []string{"prepend-null", "append-null", "insert-null-between",
	"prepend-empty-map", "append-empty-map", "insert-empty-map-between"}

func nodeAt(root *node, path []int) *node {
	n := root
	for _, i := range path {
		if n.k == nMap {
			n = n.vals[i]
		} else {
			n = n.items[i]
		}
	}
	return n
}

func listMutations(pt int, n *node) []mutation {
	if n.k != nList {
		return nil
	}
	out := []mutation{{pt: pt, kind: "prepend-null"}, {pt: pt, kind: "append-null"}}
	for g := 1; g < len(n.items); g++ {
		out = append(out, mutation{pt: pt, kind: "insert-null-between", leaf: strconv.Itoa(g)})
	}
	hasMap := false
	for _, it := range n.items {
		if it.k == nMap {
			hasMap = true
		}
	}
	if hasMap {
		out = append(out, mutation{pt: pt, kind: "prepend-empty-map"}, mutation{pt: pt, kind: "append-empty-map"})
		for g := 1; g < len(n.items); g++ {
			out = append(out, mutation{pt: pt, kind: "insert-empty-map-between", leaf: strconv.Itoa(g)})
		}
	}
	return out
}

type mutation struct {
	pt   int    // index into the point list
	kind string // plain kind or leaf kind
	leaf string // leaf id ("" for plain kinds)
}

func (m mutation) name() string {
	if m.leaf == "" {
		return m.kind
	}
	return m.kind + ":" + m.leaf
}

const deepN = 10

// replacement builds the value a mutation puts in place of orig (nil => structural: delete / duplicate).
func replacement(kind, leafID string, orig *node) *node {
	lf, _ := leafByID(leafID)
	v := func() *node { return S(lf.s) }
	ins := func(at int, x *node) *node {
		c := orig.clone()
		if c.k != nList {
			return c
		}
		if at < 0 || at > len(c.items) {
			at = len(c.items)
		}
		c.items = append(c.items[:at:at], append([]*node{x}, c.items[at:]...)...)
		return c
	}
	gap, _ := strconv.Atoi(leafID)
	switch kind {
	case "prepend-null":
		return ins(0, Null())
	case "append-null":
		return ins(-1, Null())
	case "insert-null-between":
		return ins(gap, Null())
	case "prepend-empty-map":
		return ins(0, &node{k: nMap})
	case "append-empty-map":
		return ins(-1, &node{k: nMap})
	case "insert-empty-map-between":
		return ins(gap, &node{k: nMap})
	case "null":
		return Null()
	case "int":
		return I(7)
	case "negint":
		return I(-1)
	case "float":
		return Lit("1.5")
	case "nan":
		return Lit(".nan")
	case "bool":
		return B(true)
	case "empty-list":
		return L()
	case "empty-map":
		return &node{k: nMap}
	case "list-of-null":
		return L(Null())
	case "wrap-unknown-key":
		return M("zzUnknown", orig.clone())
	case "wrap-list":
		return L(orig.clone())
	case "string":
		return v()
	case "list-of-strings":
		return L(v(), v())
	case "list-of-maps":
		return L(M("k", v()))
	case "map-unknown-key":
		return M("zzUnknown", v())
	case "map-nonstring-key":
		return M(I(1), v())
	case "nested-list-of-maps":
		return L(L(M("k", v())))
	case "map-list-map":
		return M("k", L(M("k2", v())))
	case "deep-list":
		n := v()
		for i := 0; i < deepN; i++ {
			n = L(n)
		}
		return n
	case "deep-map":
		n := v()
		for i := 0; i < deepN; i++ {
			n = M("k", n)
		}
		return n
	}
	return nil
}

// applyAt mutates (in place) the node reached by path in root.
func applyAt(root *node, path []int, kind, leafID string) {
	parent := root
	for _, i := range path[:len(path)-1] {
		if parent.k == nMap {
			parent = parent.vals[i]
		} else {
			parent = parent.items[i]
		}
	}
	i := path[len(path)-1]
	if parent.k == nMap {
		switch kind {
		case "delete":
			parent.keys = append(parent.keys[:i:i], parent.keys[i+1:]...)
			parent.vals = append(parent.vals[:i:i], parent.vals[i+1:]...)
		case "duplicate":
			parent.keys = append(parent.keys, parent.keys[i].clone())
			parent.vals = append(parent.vals, parent.vals[i].clone())
		default:
			parent.vals[i] = replacement(kind, leafID, parent.vals[i])
		}
		return
	}
	switch kind {
	case "delete":
		parent.items = append(parent.items[:i:i], parent.items[i+1:]...)
	case "duplicate":
		parent.items = append(parent.items, parent.items[i].clone())
	default:
		parent.items[i] = replacement(kind, leafID, parent.items[i])
	}
}

func pathLess(a, b []int) bool {
	for i := 0; i < len(a) && i < len(b); i++ {
		if a[i] != b[i] {
			return a[i] < b[i]
		}
	}
	return len(a) < len(b)
}

func isPrefix(a, b []int) bool {
	if len(a) > len(b) {
		return false
	}
	for i := range a {
		if a[i] != b[i] {
			return false
		}
	}
	return true
}

// mutate returns the YAML text of base with the given mutations applied
// (later paths first, so that earlier indices stay valid).
func mutate(base *node, pts []point, muts ...mutation) string {
	root := base.clone()
	ms := append([]mutation(nil), muts...)
	sort.SliceStable(ms, func(i, j int) bool { return pathLess(pts[ms[j].pt].path, pts[ms[i].pt].path) })
	for _, m := range ms {
		applyAt(root, pts[m.pt].path, m.kind, m.leaf)
	}
	return root.yaml()
}

// className: the class used in signatures (schema path = mutation kind, no leaf).
func className(pts []point, muts ...mutation) string {
	var parts []string
	for _, m := range muts {
		parts = append(parts, fmt.Sprintf("%s=%s", pts[m.pt].class, m.kind))
	}
	return strings.Join(parts, "+")
}

// fullName: the exact mutation (full path, kind, leaf).
func fullName(pts []point, muts ...mutation) string {
	var parts []string
	for _, m := range muts {
		parts = append(parts, fmt.Sprintf("%s=%s", pts[m.pt].label, m.name()))
	}
	return strings.Join(parts, "+")
}

// allMutations of one point, with the given leaf pool.
func mutationsOf(base *node, pts []point, pt int, pool []leaf) []mutation {
	out := listMutations(pt, nodeAt(base, pts[pt].path))
	for _, k := range plainKinds {
		out = append(out, mutation{pt: pt, kind: k})
	}
	for _, k := range leafKinds {
		for _, l := range pool {
			out = append(out, mutation{pt: pt, kind: k, leaf: l.id})
		}
	}
	return out
}
