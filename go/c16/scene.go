package main

import (
	"fmt"
	"os"
	"os/exec"
	"path/filepath"
	"sort"
	"strconv"
	"strings"
	"syscall"
	"time"

	"github.com/ErdemOzgen/blackdagger/internal/dag"
	"github.com/ErdemOzgen/blackdagger/internal/dag/scheduler"
	"github.com/ErdemOzgen/blackdagger/internal/persistence/model"
	"github.com/ErdemOzgen/blackdagger/internal/sock"
	"github.com/ErdemOzgen/blackdagger/internal/zzverif/venv"
)

const (
	watchdog = 90 * time.Second
	tick     = 10 * time.Millisecond
)

var stepNames = []string{"s1", "s2", "onexit"}

// The step script: appends "<request id> <pid of the agent> <step> begin", waits
// for its gate (gate.<request id>.<step>, or gate.all) and appends "... end".
// With fail.<step> present it ends with "end-fail" and exit status 1.  It gives
// up when the observation directory disappears, so no orphan survives a member.
const stepScript = `O="$1"; S="$2"; ID="${DAG_REQUEST_ID:-none}"
echo "$ID $PPID $S begin" >> "$O/markers"
while [ -d "$O" ] && [ ! -e "$O/gate.$ID.$S" ] && [ ! -e "$O/gate.all" ]; do sleep 0.05; done
if [ -e "$O/fail.$S" ]; then echo "$ID $PPID $S end-fail" >> "$O/markers"; exit 1; fi
echo "$ID $PPID $S end" >> "$O/markers"
`

// scene is one scratch installation with one DAG file.
type scene struct {
	dir, inst, obs string
	name, dagFile  string
	sock           string // address derived from the canonical location
	sockA          string // address the first run was seen to bind (spelling members); "" = sock
	bin, vtrace    string
	env            []string
	venv           *venv.Env
	prevReq        string          // request id of the earlier, failed run
	hist0          map[string]bool // history files of the earlier run
}

func newScene(dir, name, bin, vtrace string) (*scene, error) {
	sc := &scene{dir: dir, inst: filepath.Join(dir, "inst"), obs: filepath.Join(dir, "obs"), name: name, bin: bin, vtrace: vtrace}
	_ = os.RemoveAll(dir)
	// dags/sub: so that the spelling dags/sub/../x.yaml also resolves when nobody cleans it
	for _, d := range []string{"home", "dags", "dags/sub", "data", "logs", "suspend"} {
		if err := os.MkdirAll(filepath.Join(sc.inst, d), 0o755); err != nil {
			return nil, err
		}
	}
	if err := os.MkdirAll(sc.obs, 0o755); err != nil {
		return nil, err
	}
	sc.dagFile = filepath.Join(sc.inst, "dags", name+".yaml")
	sc.sock = (&dag.DAG{Location: sc.dagFile}).SockAddr()
	script := filepath.Join(sc.obs, "step.sh")
	yaml := fmt.Sprintf(`steps:
  - name: s1
    command: sh %[1]s %[2]s s1
  - name: s2
    command: sh %[1]s %[2]s s2
    depends:
      - s1
handlerOn:
  exit:
    command: sh %[1]s %[2]s onexit
`, script, sc.obs)
	for p, content := range map[string]string{script: stepScript, sc.dagFile: yaml, filepath.Join(sc.inst, "base.yaml"): ""} {
		if err := os.WriteFile(p, []byte(content), 0o644); err != nil {
			return nil, err
		}
	}
	for _, kv := range os.Environ() {
		k := kv[:strings.IndexByte(kv, '=')]
		if strings.HasPrefix(k, "BLACKDAGGER_") || strings.HasPrefix(k, "XDG_") || strings.HasPrefix(k, "DAG_") ||
			k == "HOME" || k == "TZ" || k == "BASE_PATH" || k == "GOMAXPROCS" {
			continue
		}
		sc.env = append(sc.env, kv)
	}
	sc.env = append(sc.env, "HOME="+filepath.Join(sc.inst, "home"), "TZ=UTC",
		"BLACKDAGGER_DAGS_DIR="+filepath.Join(sc.inst, "dags"), "BLACKDAGGER_DATA_DIR="+filepath.Join(sc.inst, "data"),
		"BLACKDAGGER_LOG_DIR="+filepath.Join(sc.inst, "logs"), "BLACKDAGGER_SUSPEND_FLAGS_DIR="+filepath.Join(sc.inst, "suspend"),
		"BLACKDAGGER_BASE_CONFIG="+filepath.Join(sc.inst, "base.yaml"))
	sc.venv = &venv.Env{Root: sc.inst, DAGs: filepath.Join(sc.inst, "dags"), Data: filepath.Join(sc.inst, "data"),
		Logs: filepath.Join(sc.inst, "logs"), Flags: filepath.Join(sc.inst, "suspend"), LatestToday: true}
	_ = os.Remove(sc.sock)
	return sc, nil
}

// close ends whatever still runs in the scene and removes it.
func (sc *scene) close(ps ...*proc) {
	sc.touch("gate.all")
	for _, p := range ps {
		if p != nil {
			p.kill()
		}
	}
	_ = os.Remove(sc.sock)
	for _, s := range sc.ownSockets() { // (a socket named after another spelling of the location)
		_ = os.Remove(s)
	}
	_ = os.RemoveAll(sc.dir)
}

// ownSockets: every status socket in /tmp that carries this scene's (unique) DAG name.
func (sc *scene) ownSockets() []string {
	m, _ := filepath.Glob("/tmp/@blackdagger-" + sc.name + "-*.sock")
	sort.Strings(m)
	return m
}

func (sc *scene) touch(name string) { _ = os.WriteFile(filepath.Join(sc.obs, name), nil, 0o644) }
func (sc *scene) exists(name string) bool {
	_, err := os.Stat(filepath.Join(sc.obs, name))
	return err == nil
}

// ---------------------------------------------------------------- processes ---

type proc struct {
	cmd  *exec.Cmd
	done chan struct{}
	exit int
	out  string
}

func (sc *scene) start(outName string, argv ...string) (*proc, error) {
	return sc.startIn(sc.inst, outName, argv...)
}

func (sc *scene) startIn(cwd, outName string, argv ...string) (*proc, error) {
	p := &proc{done: make(chan struct{}), out: filepath.Join(sc.dir, outName)}
	f, err := os.Create(p.out)
	if err != nil {
		return nil, err
	}
	p.cmd = exec.Command(argv[0], argv[1:]...)
	p.cmd.Env = sc.env
	p.cmd.Dir = cwd
	p.cmd.Stdout = f
	p.cmd.Stderr = f
	p.cmd.SysProcAttr = &syscall.SysProcAttr{Setpgid: true}
	if err := p.cmd.Start(); err != nil {
		f.Close()
		return nil, err
	}
	go func() {
		err := p.cmd.Wait()
		f.Close()
		p.exit = 0
		if err != nil {
			p.exit = -1
			if ee, ok := err.(*exec.ExitError); ok {
				p.exit = ee.ExitCode()
				if ws, ok := ee.Sys().(syscall.WaitStatus); ok && ws.Signaled() {
					p.exit = 128 + int(ws.Signal())
				}
			}
		}
		close(p.done)
	}()
	return p, nil
}

func (p *proc) ended() bool {
	select {
	case <-p.done:
		return true
	default:
		return false
	}
}

func (p *proc) pid() int { return p.cmd.Process.Pid }

// kill ends the process (vtrace kills its whole traced tree on SIGTERM).
func (p *proc) kill() {
	if p.ended() {
		return
	}
	_ = p.cmd.Process.Signal(syscall.SIGTERM)
	select {
	case <-p.done:
		return
	case <-time.After(3 * time.Second):
	}
	_ = p.cmd.Process.Kill()
	select {
	case <-p.done:
	case <-time.After(3 * time.Second):
	}
}

func (p *proc) output() string {
	b, _ := os.ReadFile(p.out)
	return string(b)
}

// startA launches the first run under the supervisor, naming the file by spelling s; k == 0: not paused.
func (sc *scene) startA(k int, s spelling) (*proc, error) {
	// --with-stat: stat-family calls on paths under the roots are pause points too (the first run
	// performs no modifying call between `listen` and the launch of its first step)
	args := []string{sc.vtrace, "--with-stat", "--root", sc.inst}
	for _, a := range sc.candidateSocks(s) {
		args = append(args, "--root", a)
	}
	args = append(args, "--log", filepath.Join(sc.dir, "traceA"))
	if k > 0 {
		args = append(args, "--pause-at", strconv.Itoa(k), "--ready", filepath.Join(sc.obs, "F"), "--resume", filepath.Join(sc.obs, "G"))
	}
	cwd, arg := sc.spell(s)
	args = append(args, "--", sc.bin, "start", arg)
	return sc.startIn(cwd, "outA", args...)
}

// startB launches the second run, untraced, naming the file by spelling s.
func (sc *scene) startB(kind string, s spelling) (*proc, error) {
	return sc.startSecond("outB", kind, s)
}

func (sc *scene) startSecond(out, kind string, s spelling) (*proc, error) {
	cwd, arg := sc.spell(s)
	if kind == "retry" {
		return sc.startIn(cwd, out, sc.bin, "retry", "--req="+sc.prevReq, arg)
	}
	return sc.startIn(cwd, out, sc.bin, "start", arg)
}

// accepted: does the command (kind, spelling) run the DAG at all when no run is active?  Called at the
// end of a member whose second command was refused with neither "already running" nor a probe timeout
// (e.g. `retry x`: the CLI looks the earlier run up under /…/x, not /…/x.yaml, and finds none).
func (sc *scene) accepted(kind string, s spelling) (bool, error) {
	sc.touch("gate.all")
	before := len(sc.markers())
	p, err := sc.startSecond("outC", kind, s)
	if err != nil {
		return false, err
	}
	select {
	case <-p.done:
	case <-time.After(watchdog):
		p.kill()
		return false, fmt.Errorf("watchdog: the control command did not end within %s", watchdog)
	}
	return len(sc.markers()) > before, nil
}

// ------------------------------------------------------------------ markers ---

type marker struct {
	Req  string
	Pid  int
	Step string
	What string // begin | end | end-fail
}

func (m marker) String() string { return fmt.Sprintf("%s %s", m.Step, m.What) }

func (sc *scene) markers() []marker {
	b, err := os.ReadFile(filepath.Join(sc.obs, "markers"))
	if err != nil {
		return nil
	}
	var out []marker
	for _, l := range strings.Split(string(b), "\n") {
		f := strings.Fields(l)
		if len(f) != 4 {
			continue // a line still being written
		}
		pid, _ := strconv.Atoi(f[1])
		out = append(out, marker{f[0], pid, f[2], f[3]})
	}
	return out
}

// blocked: the run req has a step that has begun, has not ended and whose gate is closed.
func (sc *scene) blocked(ms []marker, req string) bool {
	open := ""
	for _, m := range ms {
		if m.Req != req {
			continue
		}
		if m.What == "begin" {
			open = m.Step
		} else {
			open = ""
		}
	}
	return open != "" && !sc.exists("gate."+req+"."+open) && !sc.exists("gate.all")
}

// histLines is the number of status lines in the (single) uncompacted history file that is not in hist0.
func (sc *scene) histLines() int {
	n := 0
	for _, f := range sc.histFiles() {
		if sc.hist0[f] || strings.HasSuffix(f, "_c.dat") {
			continue
		}
		b, _ := os.ReadFile(filepath.Join(sc.inst, "data", f))
		n += strings.Count(string(b), "\n")
	}
	return n
}

func (sc *scene) histFiles() []string {
	out := venv.Files(filepath.Join(sc.inst, "data"))
	sort.Strings(out)
	return out
}

// openGates opens the gate of every step that has begun, for the runs selected
// by mine.  A run's s1 is held until the agent has written its second status
// line (the "running" status it writes 100 ms after the start), so that this
// write always falls inside s1 — an event, not a delay.
func (sc *scene) openGates(ms []marker, mine func(marker) bool, holdS1 bool) {
	for _, m := range ms {
		if m.What != "begin" || !mine(m) {
			continue
		}
		g := "gate." + m.Req + "." + m.Step
		if sc.exists(g) {
			continue
		}
		if holdS1 && m.Step == "s1" && sc.histLines() < 2 {
			continue
		}
		sc.touch(g)
	}
}

// ------------------------------------------------------------------- status ---

// askStatus queries the status endpoint of the DAG file through the real socket client.
// "running <request id> <pid>", "none" (nobody answers), "timeout", or "error: ...".
func (sc *scene) askStatus() string {
	addr := sc.sock
	if sc.sockA != "" {
		addr = sc.sockA
	}
	ret, err := sock.NewClient(addr).Request("GET", "/status")
	if err != nil {
		if strings.Contains(err.Error(), sock.ErrTimeout.Error()) || strings.Contains(err.Error(), "i/o timeout") {
			return "timeout"
		}
		if strings.Contains(err.Error(), "dial failed") {
			return "none"
		}
		return "error: " + err.Error()
	}
	st, err := model.StatusFromJSON(ret)
	if err != nil {
		return "error: unreadable answer: " + err.Error()
	}
	if st.Status == scheduler.StatusNone {
		return "none"
	}
	return fmt.Sprintf("%s %s %d", st.Status, st.RequestID, int(st.PID))
}

// ------------------------------------------------------------------ history ---

type record struct {
	File   string
	Req    string
	Status string
	Nodes  string
}

// records reads the last status line of every history file that the earlier run did not leave.
func (sc *scene) records() []record {
	var out []record
	for _, f := range sc.histFiles() {
		if sc.hist0[f] {
			continue
		}
		r := record{File: filepath.Base(f)}
		b, _ := os.ReadFile(filepath.Join(sc.inst, "data", f))
		lines := strings.Split(strings.TrimSpace(string(b)), "\n")
		if st, err := model.StatusFromJSON(lines[len(lines)-1]); err == nil {
			r.Req, r.Status = st.RequestID, st.Status.String()
			var ns []string
			for _, n := range st.Nodes {
				ns = append(ns, n.Step.Name+"="+n.Status.String())
			}
			if st.OnExit != nil {
				ns = append(ns, "onExit="+st.OnExit.Status.String())
			}
			r.Nodes = strings.Join(ns, ",")
		} else {
			r.Status = "unreadable"
		}
		out = append(out, r)
	}
	return out
}

// stored is what the real history store returns for a request id.
func (sc *scene) stored(req string) string {
	sf, err := sc.venv.Stores().HistoryStore().FindByRequestID(sc.dagFile, req)
	if err != nil {
		return "error: " + err.Error()
	}
	var ns []string
	for _, n := range sf.Status.Nodes {
		ns = append(ns, n.Step.Name+"="+n.Status.String())
	}
	if sf.Status.OnExit != nil {
		ns = append(ns, "onExit="+sf.Status.OnExit.Status.String())
	}
	return sf.Status.Status.String() + " " + strings.Join(ns, ",")
}

const completeRun = "finished s1=finished,s2=finished,onExit=finished"

// --------------------------------------------------------------- earlier run ---

// earlierRun executes one complete run of the file whose s1 fails, so that
// history exists and a retry has something to execute.
func (sc *scene) earlierRun() error {
	sc.touch("fail.s1")
	sc.touch("gate.all")
	p, err := sc.start("out0", sc.bin, "start", sc.dagFile)
	if err != nil {
		return err
	}
	select {
	case <-p.done:
	case <-time.After(watchdog):
		p.kill()
		return fmt.Errorf("watchdog: the earlier run did not end within %s", watchdog)
	}
	ms := sc.markers()
	want := "s1 begin|s1 end-fail|onexit begin|onexit end"
	var got []string
	for _, m := range ms {
		got = append(got, m.String())
	}
	if p.exit == 0 || strings.Join(got, "|") != want {
		return fmt.Errorf("the earlier (failing) run did not behave as scripted: exit %d, markers %v, output %s", p.exit, got, tail(p.output(), 300))
	}
	sc.prevReq = ms[0].Req
	for _, n := range []string{"fail.s1", "gate.all", "markers"} {
		_ = os.Remove(filepath.Join(sc.obs, n))
	}
	sc.hist0 = map[string]bool{}
	for _, f := range sc.histFiles() {
		sc.hist0[f] = true
	}
	if len(sc.hist0) != 1 {
		return fmt.Errorf("the earlier run left %d history files, expected 1", len(sc.hist0))
	}
	if _, err := os.Stat(sc.sock); err == nil {
		return fmt.Errorf("the earlier run left its socket %s behind", sc.sock)
	}
	return nil
}

func tail(s string, n int) string {
	s = strings.TrimSpace(s)
	if len(s) > n {
		s = "…" + s[len(s)-n:]
	}
	return strings.ReplaceAll(s, "\n", "\\n")
}
