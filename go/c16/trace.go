package main

import (
	"fmt"
	"os"
	"regexp"
	"strconv"
	"strings"
)

// Call is one line of a vtrace log, with its class (call kind + path class).
type Call struct {
	K     int
	Name  string
	Path  string
	Flags string
	Ret   int64
	Done  bool
	Raw   string
	Class string // e.g. connect(sock), mkdir(histdir), create(hist), write(agentlog), create(steplog:s1)
}

// Trace is a parsed vtrace log.
type Trace struct {
	Calls []Call
	End   string
}

func unesc(s string) string {
	if !strings.Contains(s, "\\x") {
		return s
	}
	var sb strings.Builder
	for i := 0; i < len(s); i++ {
		if s[i] == '\\' && i+3 < len(s) && s[i+1] == 'x' {
			if v, err := strconv.ParseUint(s[i+2:i+4], 16, 8); err == nil {
				sb.WriteByte(byte(v))
				i += 3
				continue
			}
		}
		sb.WriteByte(s[i])
	}
	return sb.String()
}

func hasFlag(flags, f string) bool {
	for _, x := range strings.Split(flags, "|") {
		if x == f {
			return true
		}
	}
	return false
}

var stepLogRe = regexp.MustCompile(`^([A-Za-z0-9_]+)\.\d{8}\.[0-9:.]+\.[0-9a-f]+\.log$`)

// pathClass maps a path of the scenario to a name that is the same in every
// member: no scratch directory, no DAG name, no time stamp, no request id.
func (sc *scene) pathClass(p string) string {
	if p == sc.sock || sc.isOwnSocket(p) {
		return "sock"
	}
	if !strings.HasPrefix(p, sc.inst+"/") {
		return "outside"
	}
	r := p[len(sc.inst)+1:]
	switch {
	case r == "dags/"+sc.name+".yaml":
		return "dagfile"
	case r == "base.yaml":
		return "baseconfig"
	case strings.HasPrefix(r, "home"):
		return "home"
	case r == "logs/"+sc.name:
		return "logdir"
	case strings.HasPrefix(r, "logs/"+sc.name+"/"):
		b := r[len("logs/"+sc.name+"/"):]
		if strings.HasPrefix(b, "start_") || strings.HasPrefix(b, "retry_") {
			return "agentlog"
		}
		if m := stepLogRe.FindStringSubmatch(b); m != nil {
			return "steplog:" + m[1]
		}
		return "logs-other"
	case strings.HasPrefix(r, "data/"):
		rest := r[len("data/"):]
		if !strings.Contains(rest, "/") {
			return "histdir"
		}
		if strings.HasSuffix(rest, "_c.dat") {
			return "hist_c"
		}
		if strings.HasSuffix(rest, ".dat") {
			return "hist"
		}
		return "data-other"
	case r == "data" || r == "logs" || r == "dags" || r == "suspend":
		return r
	}
	return "other"
}

// isOwnSocket: a status socket that carries this scene's (unique) DAG name, whatever location was hashed into it.
func (sc *scene) isOwnSocket(p string) bool {
	pre, suf := "/tmp/@blackdagger-"+sc.name+"-", ".sock"
	return strings.HasPrefix(p, pre) && strings.HasSuffix(p, suf) && md5Only.MatchString(p[len(pre):len(p)-len(suf)])
}

var md5Only = regexp.MustCompile(`^[0-9a-f]{32}$`)

func (sc *scene) classify(c *Call) {
	kind := c.Name
	switch c.Name {
	case "open", "openat", "openat2", "creat":
		switch {
		case hasFlag(c.Flags, "O_CREAT"):
			kind = "create"
		case hasFlag(c.Flags, "O_DIRECTORY"):
			kind = "opendir"
		case hasFlag(c.Flags, "O_RDONLY"):
			kind = "open-read"
		default:
			kind = "open-write"
		}
	case "write", "pwrite64", "writev", "pwritev", "pwritev2":
		kind = "write"
	case "rename", "renameat", "renameat2":
		kind = "rename"
	case "unlink", "unlinkat":
		kind = "unlink"
		if c.Flags == "AT_REMOVEDIR" {
			kind = "rmdir"
		}
	case "mkdir", "mkdirat":
		kind = "mkdir"
	case "stat", "lstat", "newfstatat", "statx", "access", "faccessat", "faccessat2", "readlink", "readlinkat":
		kind = "stat" // (vtrace --with-stat) inspects only: a pause point, nothing more
	case "fdatasync":
		kind = "fsync"
	}
	c.Class = kind + "(" + sc.pathClass(c.Path) + ")"
}

func (sc *scene) parseTrace(path string) (*Trace, error) {
	b, err := os.ReadFile(path)
	if err != nil {
		return nil, err
	}
	tr := &Trace{}
	for _, line := range strings.Split(strings.TrimRight(string(b), "\n"), "\n") {
		if line == "" {
			continue
		}
		if strings.HasPrefix(line, "# end ") {
			tr.End = strings.TrimPrefix(line, "# end ")
			continue
		}
		f := strings.Fields(line)
		if len(f) < 4 {
			return nil, fmt.Errorf("malformed trace line %q", line)
		}
		c := Call{Raw: line}
		if c.K, err = strconv.Atoi(f[0]); err != nil {
			return nil, fmt.Errorf("malformed trace line %q", line)
		}
		c.Name = f[2]
		for _, tok := range f[3:] {
			switch {
			case strings.HasPrefix(tok, "ret="):
				if tok != "ret=?" {
					c.Ret, _ = strconv.ParseInt(tok[4:], 10, 64)
					c.Done = true
				}
			case strings.HasPrefix(tok, "len="), strings.HasPrefix(tok, "off="):
			case strings.HasPrefix(tok, "flags="):
				c.Flags = tok[6:]
			default:
				p := tok
				if i := strings.Index(tok, "->"); i > 0 {
					if _, err := strconv.Atoi(tok[:i]); err == nil {
						p = tok[i+2:]
					}
				}
				if strings.HasPrefix(p, "/") && c.Path == "" {
					c.Path = unesc(p)
				}
			}
		}
		if c.K != len(tr.Calls)+1 {
			return nil, fmt.Errorf("trace numbering broken at %q", line)
		}
		sc.classify(&c)
		tr.Calls = append(tr.Calls, c)
	}
	if tr.End == "" {
		return nil, fmt.Errorf("trace %s has no end line", path)
	}
	return tr, nil
}

// Short renders a call without scratch paths, thread ids and fd numbers.
func (sc *scene) short(c Call) string {
	s := c.Raw
	if f := strings.Fields(s); len(f) > 2 {
		s = strings.Join(f[2:], " ")
	}
	s = strings.ReplaceAll(s, sc.inst+"/", "")
	s = strings.ReplaceAll(s, sc.name, "<dag>")
	return s
}

// anchors of a trace (of the whole run, or of the prefix up to a paused call).
type anchors struct {
	probe      int // K of the first connect(sock): the "already running?" probe
	bind       int
	listen     int // K of listen(sock)
	sockUnlink int // K of the first unlink(sock) after listen: the socket server is shut down
}

func findAnchors(calls []Call) anchors {
	var a anchors
	for _, c := range calls {
		switch {
		case c.Class == "connect(sock)" && a.probe == 0:
			a.probe = c.K
		case c.Class == "bind(sock)" && a.bind == 0:
			a.bind = c.K
		case c.Class == "listen(sock)" && a.listen == 0:
			a.listen = c.K
		case c.Class == "unlink(sock)" && a.listen != 0 && a.sockUnlink == 0:
			a.sockUnlink = c.K
		}
	}
	return a
}

// Windows of the first run's life, by what its own trace shows before call K.
const (
	wPreProbe = "pre-probe"     // the probe connect has not returned yet (K <= probe)
	wProbe    = "probe..listen" // probe returned "nobody there", the socket is not listening yet (probe < K <= listen)
	wListen   = "after-listen"  // the socket is listening, its shutdown has not begun (listen < K <= socket unlink)
	wShutdown = "shutdown"      // the socket server is being / has been shut down (K > socket unlink)
)

func windowOf(prefix []Call, k int) string {
	a := findAnchors(prefix)
	switch {
	case a.probe == 0 || k <= a.probe:
		return wPreProbe
	case a.listen == 0 || k <= a.listen:
		return wProbe
	case a.sockUnlink == 0 || k <= a.sockUnlink:
		return wListen
	}
	return wShutdown
}

// stable is the part of a class sequence that every execution of the scenario
// must reproduce exactly: everything except the writes to the agent's own log
// file (issued by three goroutines without mutual order) — see compareRuns.
func stable(calls []Call) []string {
	var out []string
	for _, c := range calls {
		if c.Class == "write(agentlog)" {
			continue
		}
		out = append(out, c.Class)
	}
	return out
}
