// C16 — at most one run of a DAG file is active at a time.
//
// Fault enumeration (pause mode) with the syscall-level supervisor vtrace
// (c/vtrace.c) on two REAL `blackdagger` processes:
//
//	A = `blackdagger start f.yaml` under vtrace; its calling thread is parked at
//	    the entry of its relevant system call K (every other thread keeps running);
//	B = a second `blackdagger start f.yaml` (thorough: also `retry --req=<earlier
//	    run>`) of the SAME file, launched while A is parked and left alone until it
//	    exits or its first step has begun (then it waits at its own gate);
//
// then A is released, the step gates are opened and both run to their end.
// The steps of f.yaml are sh scripts that append "<request id> <agent pid>
// <step> begin|end" to a marker file outside the traced roots and wait for a
// gate file, so which run executed what, and in which order, is observed and
// controlled by the harness (no timing).  K runs over 1..N of A's own relevant
// calls (N from three un-paused baseline runs): configuration reads, log file,
// the "already running?" probe (connect), history mkdir/create/write, stale
// socket unlink, bind, listen, step log files, status writes, handler,
// socket shutdown, history compaction — and, with `vtrace --with-stat`, the
// stat-family calls on paths of the installation.  Those modify nothing; they
// are pause points in stretches where A only inspects the file system, notably
// between `listen` and the start of the execution graph (the stat of the log
// directory in Scheduler.setup), where A issues no modifying call at all.
//
// Oracle (exactly the property).  The first run counts as ACTIVE from the moment
// its status socket listens until its last handler has ended.  While A is
// active B must be refused: exit status non-zero, no marker line, no history
// record of its own; A's status endpoint answers after B exactly as before B
// (when the parked thread itself blocks the endpoint, nothing is demanded of it);
// A completes normally and the real history store returns its complete record.
// Before A listens (windows pre-probe and probe..listen) the two starts are
// "issued at the same moment": either may win, never both execute a step, and
// the one that loses must be refused in the same sense (no step, no handler, no
// history record).  After A's last handler (socket still up, or already shut
// down) B may be refused or run; whichever happens, the runs' step intervals
// must not overlap and both records must be intact.
//
// The window of a member is read from that execution's own trace prefix:
// pre-probe (K <= probe connect), probe..listen (probe < K <= listen),
// after-listen (listen < K <= the unlink that shuts the socket down), shutdown.
// Violation signatures carry the window, never K.
//
// Spelling family (spelling.go).  The members above name the file twice by its canonical
// absolute path.  The same file can be named in many ways on a command line — a doubled
// slash, a `/./` or `/sub/../` segment, a relative path, no extension — and the DAG's
// identity downstream (socket address = the lock, history directory) is whatever location
// the loader derives from the name.  So: first spelling x second spelling x {start, retry},
// the first run parked at a representative instant at which it is active (inside s1, at its
// "running" status write; thorough: also right after listen and at the handler's log file).
// Same oracle; in addition, after both commands ended, the history asked (real loader + real
// store) under every spelling must show exactly the first run.  Signatures carry
// `spelling=<first>-vs-<second>`, unless the same finding also shows with the canonical
// spelling twice (then it does not depend on the spelling and keeps the classic signature).
// Such a member is validated by its own trace (the parked call is the named call of that
// very execution), not against the baseline: a relative name adds stats of the working
// directory, and a tree that derives the location differently adds history directories.
package main

import (
	"encoding/json"
	"fmt"
	"io"
	"log"
	"os"
	"path/filepath"
	"regexp"
	"strings"
	"time"

	"github.com/ErdemOzgen/blackdagger/internal/zzverif/vlib"
)

type member struct {
	K      int    `json:"k"`                // relevant call of A at whose entry its thread is parked (0 with Anchor: taken from the baseline)
	B      string `json:"b"`                // start | retry
	Anchor string `json:"anchor,omitempty"` // named call of the baseline (quick tier's later points)
	// At/Nth (set in replay artefacts): the parked call was the Nth call of class At of its execution.
	// A replay locates the call by them, so an artefact survives a change of the numbering
	// (other supervisor options, a tree that issues more or fewer calls); without them K is used as is.
	At  string `json:"at,omitempty"`
	Nth int    `json:"nth,omitempty"`
	// S1/S2 (spelling family): how the first run and the second command name the DAG file (ids of
	// spelling.go); both empty = the classic family (canonical path twice).
	S1 string `json:"s1,omitempty"`
	S2 string `json:"s2,omitempty"`
}

func (m member) spelled() bool { return m.S1 != "" || m.S2 != "" }

// spellingTag is the signature part of a spelling member ("" for the classic family).
func (m member) spellingTag() string {
	if !m.spelled() {
		return ""
	}
	return "/spelling=" + m.S1 + "-vs-" + m.S2
}

// locate finds the member's call in a trace (or a prefix of one): by name, by (class, occurrence), or K itself.
func (m member) locate(calls []Call) int {
	switch {
	case m.Anchor != "":
		return resolveAnchor(calls, m.Anchor)
	case m.At != "":
		n := 0
		for _, c := range calls {
			if c.Class == m.At {
				if n++; n == m.Nth {
					return c.K
				}
			}
		}
		return 0
	}
	if m.K <= len(calls) {
		return m.K
	}
	return 0
}

func (m member) located() bool { return m.Anchor != "" || m.At != "" }

func (m member) String() string {
	if m.spelled() {
		n := m
		n.S1, n.S2 = "", ""
		return fmt.Sprintf("%s/first=%s/second=%s", n.String(), m.S1, m.S2)
	}
	if m.Anchor != "" {
		return fmt.Sprintf("K=%d(%s)/B=%s", m.K, m.Anchor, m.B)
	}
	if m.At != "" {
		return fmt.Sprintf("K=%d(%s #%d)/B=%s", m.K, m.At, m.Nth, m.B)
	}
	return fmt.Sprintf("K=%d/B=%s", m.K, m.B)
}

type harness struct {
	res    *vlib.Result
	fl     *vlib.Flags
	vtrace string
	bin    string
	base   *baseline
	seq    int
	ctl    map[string]map[string]bool // spelling members: classic signatures found with the canonical spelling twice (per instant, kind)
	offs   map[string]int             // spelling members: where the named call was found last time, relative to the baseline (per first spelling and call)
}

func (hn *harness) newScene(tag string) (*scene, error) {
	hn.seq++
	name := fmt.Sprintf("c16x%d-%d-%d", os.Getpid(), hn.fl.Shard, hn.seq)
	return newScene(filepath.Join(hn.fl.Work, tag+fmt.Sprint(hn.seq)), name, hn.bin, hn.vtrace)
}

// ----------------------------------------------------------------- baseline ---

type baseline struct {
	calls []Call // the longest of the three un-paused traces
	sc    *scene // for rendering only (removed from disk)
	anc   anchors
	n     int
}

var anchorNames = []string{"s1-log-create", "running-status-write", "s2-log-create", "handler-log-create",
	"socket-unlink", "socket-close", "compaction-create"}

// anchor resolves a named call of the baseline to its K (0: not there).
func (b *baseline) anchor(name string) int { return resolveAnchor(b.calls, name) }

// resolveAnchor finds a named call in a trace (or in the prefix of one).
func resolveAnchor(calls []Call, name string) int {
	first := func(class string, after int) int {
		for _, c := range calls {
			if c.K > after && c.Class == class {
				return c.K
			}
		}
		return 0
	}
	switch name {
	case "s1-log-create":
		return first("create(steplog:s1)", 0)
	case "running-status-write":
		if k := first("create(steplog:s1)", 0); k > 0 {
			return first("write(hist)", k)
		}
	case "s2-log-create":
		return first("create(steplog:s2)", 0)
	case "handler-log-create":
		return first("create(steplog:onExit)", 0)
	case "socket-unlink":
		return findAnchors(calls).sockUnlink
	case "socket-close":
		if k := findAnchors(calls).sockUnlink; k > 0 {
			return first("close(sock)", k)
		}
	case "compaction-create":
		return first("create(hist_c)", 0)
	}
	return 0
}

// startupEnd is the last call of the quick tier's dense range: everything up to the launch of the
// first step (configuration, probe, history, bind, listen, the stats of the log directory and of
// the step log before the graph is started, creation of the s1 log file) and one call more.
func (b *baseline) startupEnd() int { return b.anchor("s1-log-create") + 1 }

// plainRun executes A un-paused under `vtrace --log`, opening gates as steps begin.
func (hn *harness) plainRun() (*scene, *Trace, error) {
	sc, err := hn.newScene("base")
	if err != nil {
		return nil, nil, err
	}
	var a *proc
	defer func() { sc.close(a) }()
	if err := sc.earlierRun(); err != nil {
		return nil, nil, err
	}
	if a, err = sc.startA(0, spellings[0]); err != nil {
		return nil, nil, err
	}
	deadline := time.Now().Add(watchdog)
	for !a.ended() {
		sc.openGates(sc.markers(), func(marker) bool { return true }, true)
		if time.Now().After(deadline) {
			return nil, nil, fmt.Errorf("watchdog: the un-paused first run did not end within %s (markers %v)", watchdog, sc.markers())
		}
		time.Sleep(tick)
	}
	ms := sc.markers()
	if a.exit != 0 || runOf(ms, func(marker) bool { return true }) != completeMarkers || len(ms) == 0 {
		return nil, nil, fmt.Errorf("the un-paused first run failed: exit %d, markers %v, output %s", a.exit, ms, tail(a.output(), 400))
	}
	if got := sc.stored(ms[0].Req); got != completeRun {
		return nil, nil, fmt.Errorf("the un-paused first run is stored as %q, expected %q", got, completeRun)
	}
	if recs := sc.records(); len(recs) != 1 || recs[0].Req != ms[0].Req {
		return nil, nil, fmt.Errorf("the un-paused first run left the records %+v", recs)
	}
	if _, err := os.Stat(sc.sock); err == nil {
		return nil, nil, fmt.Errorf("the un-paused first run left its socket behind")
	}
	tr, err := sc.parseTrace(filepath.Join(sc.dir, "traceA"))
	if err != nil {
		return nil, nil, err
	}
	for _, c := range tr.Calls {
		// (a log write of another goroutine may be cut short by the process's exit: only the start-up must have returned)
		if !c.Done && (findAnchors(tr.Calls).listen == 0 || c.K <= findAnchors(tr.Calls).listen) {
			return nil, nil, fmt.Errorf("baseline: start-up call without return value: %s", c.Raw)
		}
	}
	return sc, tr, nil
}

const completeMarkers = "s1 begin|s1 end|s2 begin|s2 end|onexit begin|onexit end"

// runOf joins the marker lines selected by mine.
func runOf(ms []marker, mine func(marker) bool) string {
	var out []string
	for _, m := range ms {
		if mine(m) {
			out = append(out, m.String())
		}
	}
	return strings.Join(out, "|")
}

// startupEnd is the last call of the strictly sequential start-up: listen(sock).
func startupClasses(calls []Call) []string {
	var out []string
	for _, c := range calls {
		out = append(out, c.Class)
		if c.Class == "listen(sock)" {
			break
		}
	}
	return out
}

// milestones: the calls whose mutual order every execution must reproduce.
func milestones(calls []Call) []string {
	var out []string
	listening, unlinked := false, false
	for _, c := range calls {
		switch {
		case strings.HasPrefix(c.Class, "stat("):
			// inspects only
		case c.Class == "unlink(sock)":
			// only the removal that shuts the socket server down; the removal of a stale socket before
			// bind is part of the start-up, later redundant removals (by the serving goroutine) are unordered
			if listening && !unlinked {
				unlinked = true
				out = append(out, c.Class)
			}
		case strings.HasPrefix(c.Class, "create("), strings.HasSuffix(c.Class, "(sock)") && c.Class != "rmdir(sock)",
			c.Class == "mkdir(histdir)", c.Class == "mkdir(logdir)", c.Class == "unlink(hist)":
			listening = listening || c.Class == "listen(sock)"
			out = append(out, c.Class)
		}
	}
	return out
}

func (hn *harness) makeBaseline() error {
	var runs []*Trace
	var scs []*scene
	for i := 0; i < 3; i++ {
		sc, tr, err := hn.plainRun()
		if err != nil {
			return fmt.Errorf("baseline run %d: %v", i, err)
		}
		runs = append(runs, tr)
		scs = append(scs, sc)
	}
	best := 0
	for i, tr := range runs {
		if len(tr.Calls) > len(runs[best].Calls) {
			best = i
		}
		if a, b := strings.Join(startupClasses(tr.Calls), "\n"), strings.Join(startupClasses(runs[0].Calls), "\n"); a != b {
			return fmt.Errorf("scenario not deterministic: two un-paused runs differ in the start-up sequence:\n%s\n---\n%s", b, a)
		}
		if a, b := strings.Join(milestones(tr.Calls), " "), strings.Join(milestones(runs[0].Calls), " "); a != b {
			return fmt.Errorf("scenario not deterministic: two un-paused runs differ in the order of their milestones:\n%s\n---\n%s", b, a)
		}
	}
	b := &baseline{calls: runs[best].Calls, sc: scs[best], n: len(runs[best].Calls)}
	b.anc = findAnchors(b.calls)
	if b.anc.probe == 0 || b.anc.bind == 0 || b.anc.listen == 0 || b.anc.sockUnlink == 0 ||
		!(b.anc.probe < b.anc.bind && b.anc.bind < b.anc.listen && b.anc.listen < b.anc.sockUnlink) {
		return fmt.Errorf("baseline: probe/bind/listen/socket-unlink not found in order: %+v", b.anc)
	}
	for _, n := range anchorNames {
		if b.anchor(n) == 0 {
			return fmt.Errorf("baseline: named call %s not found", n)
		}
	}
	lens := []int{len(runs[0].Calls), len(runs[1].Calls), len(runs[2].Calls)}
	hn.res.Bounds["baseline_relevant_calls"] = fmt.Sprint(lens)
	hn.base = b
	return nil
}

// ------------------------------------------------------------------ members ---

func (hn *harness) members() []member {
	b := hn.base
	var out []member
	if hn.fl.Thorough() {
		for k := 1; k <= b.n+2; k++ { // +2: an execution may issue a couple of calls more than the baselines did
			out = append(out, member{K: k, B: "start"}, member{K: k, B: "retry"})
		}
		return out
	}
	for k := 1; k <= b.startupEnd(); k++ {
		out = append(out, member{K: k, B: "start"})
	}
	for _, n := range anchorNames {
		if b.anchor(n) > b.startupEnd() { // (s1-log-create is part of the start-up range)
			out = append(out, member{B: "start", Anchor: n})
		}
	}
	return out
}

// afterListenStat: the first pause point after `listen` in the baseline is a stat of the log directory
// (Scheduler.setup, before the execution graph is started); returns its occurrence number (0: not so).
func (b *baseline) afterListenStat() int {
	if b.anc.listen == 0 || b.anc.listen >= len(b.calls) || b.calls[b.anc.listen].Class != "stat(logdir)" {
		return 0
	}
	n := 0
	for _, c := range b.calls[:b.anc.listen+1] {
		if c.Class == "stat(logdir)" {
			n++
		}
	}
	return n
}

var secondKinds = []string{"start", "retry"}

// spellingMembers: first spelling x second spelling x kind of second command, the first run parked at a
// representative instant at which it is active (the full enumeration of instants is the classic family's).
//
//	quick:    core x core x {start, retry} inside s1 (the "running" status write);
//	          {canon} x {each wider spelling} both ways x {start, retry} inside s1
//	thorough: all x all x {start, retry} inside s1; core x core x {start, retry} right after listen (the
//	          stat of the log directory, graph not started) and at the creation of the handler's log file;
//	          {canon} x {one doubled slash at boundary i} both ways x {start, retry} inside s1, every i
func (hn *harness) spellingMembers() []member {
	var out []member
	cross := func(set []spelling, at member) {
		for _, a := range set {
			for _, b := range set {
				for _, kind := range secondKinds {
					m := at
					m.S1, m.S2, m.B = a.ID, b.ID, kind
					out = append(out, m)
				}
			}
		}
	}
	inS1 := member{Anchor: "running-status-write"}
	cross(spellingSet(hn.fl.Thorough()), inS1)
	if !hn.fl.Thorough() {
		// the wider spellings against the canonical one, both ways
		for _, s := range spellings {
			for _, kind := range secondKinds {
				if s.Wide {
					m1, m2 := inS1, inS1
					m1.S1, m1.S2, m1.B = "canon", s.ID, kind
					m2.S1, m2.S2, m2.B = s.ID, "canon", kind
					out = append(out, m1, m2)
				}
			}
		}
	}
	if hn.fl.Thorough() {
		if nth := hn.base.afterListenStat(); nth > 0 {
			cross(coreSpellings(), member{At: "stat(logdir)", Nth: nth})
		}
		cross(coreSpellings(), member{Anchor: "handler-log-create"})
		for i := 1; i <= hn.boundaryCount(); i++ {
			id := fmt.Sprintf("dslash-b%d", i)
			for _, kind := range secondKinds {
				m1, m2 := inS1, inS1
				m1.S1, m1.S2, m1.B = "canon", id, kind
				m2.S1, m2.S2, m2.B = id, "canon", kind
				out = append(out, m1, m2)
			}
		}
	}
	return out
}

// result of one member, as sampled and printed.
type observation struct {
	Member       string   `json:"member"`
	Spelling     string   `json:"spelling,omitempty"`
	PausedAt     string   `json:"a_parked_at"`
	Window       string   `json:"window"`
	Position     string   `json:"a_position"`
	StatusBefore string   `json:"status_before_b"`
	B            string   `json:"b"`
	BOutcome     string   `json:"b_outcome"`
	AOutcome     string   `json:"a_outcome"`
	StatusAfter  string   `json:"status_after_b"`
	AExit        int      `json:"a_exit"`
	BExit        int      `json:"b_exit"`
	Markers      []string `json:"markers"`
	Records      []string `json:"history_records"`
	k, nth       int
}

// finding: class of the violation, spelling part of its signature ("" in the classic family), window.
type finding struct{ class, tag, window, detail string }

func (f finding) sig(tagged bool) string {
	if tagged {
		return "C16/" + f.class + f.tag + "/window=" + f.window
	}
	return "C16/" + f.class + "/window=" + f.window
}

var errBeyond = fmt.Errorf("first run ended before call K")

// evalMember executes one member (repeating it until the execution is parked at the intended call).
// obs == nil without error: K lies beyond the end of this execution.
func (hn *harness) evalMember(mb member, verbose bool) (*observation, []finding, error) {
	var lastWhy string
	k := mb.K
	attempts := 3
	if mb.located() {
		// a named call: its number is that of this shard's baseline; calls after the start-up are
		// numbered per execution (log writes of three goroutines interleave), so when this execution's
		// call K is another one the member is repeated with K moved to where the named call was / will be
		if k = mb.locate(hn.base.calls); k == 0 {
			return nil, nil, fmt.Errorf("member %s: the baseline has no such call", mb)
		}
		attempts = 20
		if mb.spelled() {
			// the first run's numbering depends on how it names the file (a relative name costs the
			// stats of the working directory): start from where the call was found last time
			k += hn.offs[mb.offsetKey()]
		}
	}
	for attempt := 0; attempt < attempts; attempt++ {
		obs, finds, why, adjust, err := hn.tryMember(mb, k, verbose)
		if err == errBeyond {
			if mb.located() {
				k--
				lastWhy = "the execution ended before call K"
				continue
			}
			hn.res.Count("k_beyond_end_of_this_execution", 1)
			return nil, nil, nil
		}
		if err != nil {
			return nil, nil, err
		}
		if why != "" {
			lastWhy = why
			k += adjust
			hn.res.Count("members_repeated", 1)
			continue
		}
		if mb.spelled() {
			hn.offs[mb.offsetKey()] = obs.k - mb.locate(hn.base.calls)
		}
		return obs, finds, nil
	}
	return nil, nil, fmt.Errorf("scenario not deterministic: member %s: %s", mb, lastWhy)
}

// spellingDependent tells, for the findings of a spelling member, which ones do not show when the same
// member is executed with the canonical spelling twice (memoised per instant and kind of second command).
// A finding that shows there too does not depend on the spelling and gets the classic signature, so that
// a defect that has nothing to do with spellings is not reported once per pair of spellings.  Only ever
// executed for members that violate the oracle.
func (hn *harness) spellingDependent(mb member, finds []finding) []bool {
	dep := make([]bool, len(finds))
	if !mb.spelled() || len(finds) == 0 {
		return dep
	}
	if mb.S1 == "canon" && mb.S2 == "canon" {
		return dep // this IS the classic member
	}
	key := fmt.Sprintf("%s|%s|%d|%s", mb.Anchor, mb.At, mb.Nth, mb.B)
	ctl, done := hn.ctl[key]
	if !done {
		c := mb
		c.S1, c.S2 = "canon", "canon"
		obs, cf, err := hn.evalMember(c, false)
		hn.res.Count("spelling-control-members(canonical twice, executed because a spelling member violated)", 1)
		if err != nil || obs == nil {
			hn.res.Count("spelling-control-members-failed", 1)
			cf = nil
		}
		ctl = map[string]bool{}
		for _, f := range cf {
			ctl[f.sig(false)] = true
		}
		hn.ctl[key] = ctl
	}
	for i, f := range finds {
		dep[i] = !ctl[f.sig(false)]
	}
	return dep
}

func (hn *harness) runMember(mb member, verbose bool) error {
	obs, finds, err := hn.evalMember(mb, verbose)
	if err != nil || obs == nil {
		return err
	}
	{
		res := hn.res
		res.Evaluations++
		res.Validated++
		if mb.spelled() {
			res.Count("spelling-members:window="+obs.Window, 1)
			res.Count(fmt.Sprintf("spelling-outcome:window=%s:B=%s:%s", obs.Window, obs.B, obs.BOutcome), 1)
			if obs.BOutcome == notAccepted {
				// (the command does not run the DAG under this spelling even when nothing is active: trivial)
				res.Count(fmt.Sprintf("spelling-not-accepted-by-the-cli:B=%s:second=%s", mb.B, mb.S2), 1)
			} else {
				res.Nontrivial(vlib.Hash("spelling", mb.S1, mb.S2, obs.Window, obs.PausedAt, obs.B, obs.BOutcome, obs.AOutcome))
			}
		} else {
			res.Count("members:window="+obs.Window, 1)
			res.Count(fmt.Sprintf("outcome:window=%s:%s:B=%s:%s", obs.Window, obs.Position, obs.B, obs.BOutcome), 1)
			res.Nontrivial(vlib.Hash(obs.Window, obs.PausedAt, obs.Position, obs.B, obs.BOutcome, obs.AOutcome, statusClass(obs.StatusBefore), statusClass(obs.StatusAfter)))
		}
		res.Sample(obs)
		dep := hn.spellingDependent(mb, finds)
		for i, f := range finds {
			res.Violate(f.sig(dep[i]), f.detail, member{K: obs.k, B: mb.B, Anchor: mb.Anchor, At: obs.PausedAt, Nth: obs.nth, S1: mb.S1, S2: mb.S2})
		}
		if verbose {
			b, _ := json.MarshalIndent(obs, "", "  ")
			fmt.Printf("%s\n", b)
			for i, f := range finds {
				fmt.Printf("FINDING %s: %s\n", f.sig(dep[i]), f.detail)
			}
		}
		return nil
	}
}

func (m member) offsetKey() string { return m.S1 + "|" + m.Anchor + "|" + m.At }

const notAccepted = "refused(spelling-not-accepted-by-the-cli)"

// querySpellings: the spellings under which the history is asked at the end of a spelling member.
func (hn *harness) querySpellings(sc *scene) []spelling {
	// (asked in-process: cheap, so every spelling in every tier)
	return append(spellingSet(true), sc.boundarySpellings()...)
}

// lastLine: the last error line of a command's output, else its last line.
func lastLine(s string) string {
	l := strings.Split(strings.TrimSpace(s), "\n")
	for i := len(l) - 1; i >= 0; i-- {
		if strings.Contains(l[i], "level=ERROR") {
			return l[i]
		}
	}
	return l[len(l)-1]
}

func statusClass(s string) string {
	if strings.HasPrefix(s, "running ") {
		return "running"
	}
	if strings.HasPrefix(s, "error") {
		return "error"
	}
	return s
}

func positionOf(ms []marker) string {
	if len(ms) == 0 {
		return "before-steps"
	}
	l := ms[len(ms)-1]
	switch {
	case l.Step == "onexit" && l.What != "begin":
		return "handlers-done"
	case l.What == "begin":
		return "in-" + l.Step
	}
	return "after-" + l.Step
}

// tryMember runs one member.  why != "": the execution did not reach the intended point (repeat).
func (hn *harness) tryMember(mb member, k int, verbose bool) (obs *observation, finds []finding, why string, adjust int, err error) {
	wantClass := ""
	if mb.located() {
		wantClass = hn.base.calls[mb.locate(hn.base.calls)-1].Class
	}
	s1, s2 := spellings[0], spellings[0]
	if mb.spelled() {
		var ok1, ok2 bool
		s1, ok1 = findSpelling(mb.S1)
		s2, ok2 = findSpelling(mb.S2)
		if !ok1 || !ok2 {
			return nil, nil, "", 0, fmt.Errorf("member %s: unknown spelling", mb)
		}
	}
	sc, err := hn.newScene("m")
	if err != nil {
		return nil, nil, "", 0, err
	}
	var a, b *proc
	defer func() { sc.close(a, b) }()
	if err = sc.earlierRun(); err != nil {
		return nil, nil, "", 0, err
	}
	all := func(marker) bool { return true }

	// phase 1: A runs to the entry of its call K
	if a, err = sc.startA(k, s1); err != nil {
		return nil, nil, "", 0, err
	}
	deadline := time.Now().Add(watchdog)
	for !sc.exists("F") {
		if a.ended() {
			if a.exit != 0 {
				return nil, nil, "", 0, fmt.Errorf("member %s: the first run ended with exit %d before reaching call %d: %s", mb, a.exit, k, tail(a.output(), 300))
			}
			return nil, nil, "", 0, errBeyond
		}
		sc.openGates(sc.markers(), all, true)
		if time.Now().After(deadline) {
			return nil, nil, "", 0, fmt.Errorf("watchdog: member %s: the first run neither reached call %d nor ended within %s", mb, k, watchdog)
		}
		time.Sleep(tick)
	}
	tr, err := sc.parseTrace(filepath.Join(sc.dir, "traceA"))
	if err != nil {
		return nil, nil, "", 0, fmt.Errorf("member %s: %v", mb, err)
	}
	if len(tr.Calls) != k || tr.Calls[k-1].Done {
		return nil, nil, fmt.Sprintf("trace at the pause point has %d calls, expected %d with the last one pending", len(tr.Calls), k), 0, nil
	}
	parked := tr.Calls[k-1]
	if mb.spelled() && mb.Anchor != "" {
		// the parked call must be exactly the named call of THIS execution (its trace up to here includes it)
		if at := resolveAnchor(tr.Calls, mb.Anchor); at != k {
			adjust = 1
			if at > 0 {
				adjust = at - k
			}
			return nil, nil, fmt.Sprintf("call %d of this execution (%s) is not its %s", k, parked.Class, mb.Anchor), adjust, nil
		}
	}
	if wantClass != "" && parked.Class != wantClass {
		adjust = 1
		if at := mb.locate(tr.Calls[:k-1]); at > 0 {
			adjust = at - k
		}
		return nil, nil, fmt.Sprintf("call %d of this execution is %s, the call wanted (%s) is %s", k, parked.Class, mb, wantClass), adjust, nil
	}
	if mb.At != "" {
		if at := mb.locate(tr.Calls); at != k {
			adjust = 1
			if at > 0 {
				adjust = at - k
			}
			return nil, nil, fmt.Sprintf("call %d of this execution is not occurrence %d of %s", k, mb.Nth, mb.At), adjust, nil
		}
	}
	// the strictly sequential start-up must be the baseline's, call by call.  (Not for the spelling
	// family: a relative name adds stats of the working directory, and a tree that keys the location
	// differently creates another history directory; such a member is validated by its own trace — the
	// parked call is the named call of this very execution — and its window is read from that trace.)
	bs := startupClasses(hn.base.calls)
	for i, c := range tr.Calls {
		if !mb.spelled() && i < len(bs) && c.Class != bs[i] {
			return nil, nil, fmt.Sprintf("call %d is %s, in the baseline %s", i+1, c.Class, bs[i]), 0, nil
		}
	}
	// later: the milestones passed so far must be a prefix of the baseline's
	if got, want := milestones(tr.Calls[:k-1]), milestones(hn.base.calls); !mb.spelled() && (len(got) > len(want) || strings.Join(got, " ") != strings.Join(want[:len(got)], " ")) {
		return nil, nil, fmt.Sprintf("milestones before call %d are %v, the baseline's are %v", k, got, want), 0, nil
	}
	window := windowOf(tr.Calls, k)
	ms0 := sc.markers()
	position := positionOf(ms0)
	if mb.spelled() {
		for _, c := range tr.Calls[:k-1] {
			if c.Class == "bind(sock)" && c.Done && c.Ret == 0 {
				sc.sockA = c.Path // the status endpoint is asked where the first run was seen to bind
			}
		}
		if window != wListen && resolveAnchor(tr.Calls[:k-1], "s1-log-create") > 0 {
			// no listen on a socket address the supervisor was told about, but the first run has launched
			// its first step: "while steps run" is an instant of its life at which it is active
			window = wListen
			hn.res.Count("spelling-members:active-by-step-launch(no-listen-seen)", 1)
		}
	}
	// the first run counts as active — so that a second start must be refused — from the moment its
	// status socket listens until its last handler has ended; before that the two starts are
	// "issued at the same moment" (either may win, never both)
	active := window == wListen && position != "handlers-done"
	symmetric := window == wPreProbe || window == wProbe
	obs = &observation{Member: mb.String(), PausedAt: parked.Class, Window: window, Position: position, B: mb.B}
	obs.Member = fmt.Sprintf("K=%d/B=%s", k, mb.B)
	if mb.spelled() {
		obs.Spelling = fmt.Sprintf("first run: `start %s` in <installation>/%s; second command: `%s %s` in <installation>/%s", s1.Arg, s1.Cwd, mb.B, s2.Arg, s2.Cwd)
	}
	obs.k = k
	for _, c := range tr.Calls {
		if c.Class == parked.Class {
			obs.nth++
		}
	}
	if verbose {
		fmt.Printf("member %s: first run parked at call %d = %s\n", mb, k, sc.short(parked))
		for _, c := range tr.Calls {
			fmt.Printf("  %3d %-28s %s\n", c.K, c.Class, sc.short(c))
		}
	}

	// phase 2: B while A is parked
	obs.StatusBefore = sc.askStatus()
	if b, err = sc.startB(mb.B, s2); err != nil {
		return nil, nil, "", 0, err
	}
	isB := func(m marker) bool { return m.Pid == b.pid() }
	isA := func(m marker) bool { return m.Pid != b.pid() }
	deadline = time.Now().Add(watchdog)
	for !b.ended() && runOf(sc.markers(), isB) == "" {
		if time.Now().After(deadline) {
			return nil, nil, "", 0, fmt.Errorf("watchdog: member %s: the second run neither ended nor began a step within %s: %s", mb, watchdog, tail(b.output(), 300))
		}
		time.Sleep(tick)
	}
	bEndedWhileParked := b.ended()
	bExitWhileParked := b.exit
	obs.StatusAfter = sc.askStatus()
	ms1 := sc.markers()

	// phase 3: release A; wait until it has ended or waits at a gate
	sc.touch("G")
	deadline = time.Now().Add(watchdog)
	blockedPred := func(mine func(marker) bool) bool {
		ms := sc.markers()
		req := ""
		for _, m := range ms {
			if mine(m) {
				req = m.Req
			}
		}
		return req != "" && sc.blocked(ms, req)
	}
	for !a.ended() && !blockedPred(isA) {
		if time.Now().After(deadline) {
			return nil, nil, "", 0, fmt.Errorf("watchdog: member %s: the released first run neither ended nor reached a gate within %s (markers %v)", mb, watchdog, sc.markers())
		}
		time.Sleep(tick)
	}
	bothInside := !a.ended() && !b.ended() && blockedPred(isA) && blockedPred(isB)
	statusReleased := sc.askStatus()

	// phase 4: open every gate, both run to the end
	deadline = time.Now().Add(watchdog)
	for !a.ended() || !b.ended() {
		sc.openGates(sc.markers(), all, false)
		if time.Now().After(deadline) {
			return nil, nil, "", 0, fmt.Errorf("watchdog: member %s: the runs did not end within %s after all gates were opened (A ended %v, B ended %v, markers %v)", mb, watchdog, a.ended(), b.ended(), sc.markers())
		}
		time.Sleep(tick)
	}

	ms := sc.markers()
	recs := sc.records()
	obs.AExit, obs.BExit = a.exit, b.exit
	reqOf := func(mine func(marker) bool) string {
		for _, m := range ms {
			if mine(m) {
				return m.Req
			}
		}
		return ""
	}
	reqA, reqB := reqOf(isA), reqOf(isB)
	execA, execB := reqA, reqB // request ids of the runs that executed something
	if reqA == "" {
		reqA = announcedReq(a.output())
	}
	if reqB == "" {
		reqB = announcedReq(b.output())
	}
	runA, runB := runOf(ms, isA), runOf(ms, isB)
	label := func(m marker) string {
		if isB(m) {
			return "B:" + m.String()
		}
		return "A:" + m.String()
	}
	for _, m := range ms {
		obs.Markers = append(obs.Markers, label(m))
	}
	for _, r := range recs {
		who := "foreign"
		switch r.Req {
		case "":
			who = "unreadable"
		case reqA:
			who = "A"
		case reqB:
			who = "B"
		}
		obs.Records = append(obs.Records, fmt.Sprintf("%s: %s %s", who, r.Status, r.Nodes))
	}
	bOut := b.output()
	switch {
	case runB != "":
		obs.BOutcome = "executed"
	case b.exit == 0:
		obs.BOutcome = "exit-0-without-executing"
	case strings.Contains(bOut, "is already running"):
		obs.BOutcome = "refused(already-running)"
	case strings.Contains(bOut, "unix socket timeout"):
		obs.BOutcome = "refused(probe-timeout)"
	default:
		obs.BOutcome = "refused(other)"
	}
	aOut := a.output()
	switch {
	case runA != "":
		obs.AOutcome = "executed"
	case a.exit == 0:
		obs.AOutcome = "exit-0-without-executing"
	case strings.Contains(aOut, "is already running"):
		obs.AOutcome = "refused(already-running)"
	case strings.Contains(aOut, "unix socket timeout"):
		obs.AOutcome = "refused(probe-timeout)"
	case strings.Contains(aOut, "failed to start the unix socket"):
		obs.AOutcome = "refused(socket-setup-failed)"
	default:
		obs.AOutcome = "refused(other)"
	}
	if !bEndedWhileParked && runOf(ms1, isB) == "" {
		return nil, nil, "", 0, fmt.Errorf("member %s: internal: B neither ended nor began", mb)
	}
	// spelling family: what the history shows for the file under every spelling (asked of the real loader
	// and the real store, now that both commands have ended), and — when the second command was refused
	// with neither "already running" nor a probe timeout — whether it runs the DAG at all under its spelling
	var byHistory []string
	if mb.spelled() {
		for _, q := range hn.querySpellings(sc) {
			got, err := sc.runsUnder(q)
			want := []string{}
			if execA != "" {
				want = append(want, execA)
			}
			switch {
			case err != nil:
				byHistory = append(byHistory, fmt.Sprintf("%s: %v", q.ID, err))
			case strings.Join(got, " ") != strings.Join(want, " "):
				byHistory = append(byHistory, fmt.Sprintf("%s: %d run(s) %v", q.ID, len(got), got))
			}
		}
		if obs.BOutcome == "refused(other)" {
			ok, err := sc.accepted(mb.B, s2)
			if err != nil {
				return nil, nil, "", 0, fmt.Errorf("member %s: %v", mb, err)
			}
			if !ok {
				obs.BOutcome = notAccepted
			}
		}
	}

	// ---------------------------------------------------------------- oracle ---
	if mb.spelled() {
		obs.Spelling += fmt.Sprintf("; the second command said: %s", canon(sc, tail(lastLine(bOut), 160), "", ""))
	}
	ctx := fmt.Sprintf("first run parked at the entry of its call %d [%s] (window %s, %s); second run = `%s`: %s, exit %d; first run: %s, exit %d; status endpoint before/after the second run: %q / %q; markers %v; new history records %v",
		k, sc.short(parked), window, position, mb.B, obs.BOutcome, b.exit, obs.AOutcome, a.exit, obs.StatusBefore, obs.StatusAfter, obs.Markers, obs.Records)
	add := func(sig, what string) {
		finds = append(finds, finding{sig, mb.spellingTag(), window, canon(sc, what+" — "+ctx, reqA, reqB)})
	}
	addTagged := func(sig, tag, what string) {
		finds = append(finds, finding{sig, tag, window, canon(sc, what+" — "+ctx, reqA, reqB)})
	}
	// the two runs were active at the same time: one's first begin lies before the other's last handler end
	concurrent := func() bool {
		first := func(mine func(marker) bool) int {
			for i, m := range ms {
				if mine(m) {
					return i
				}
			}
			return -1
		}
		last := func(mine func(marker) bool) int {
			for i, m := range ms {
				if mine(m) && m.Step == "onexit" && m.What != "begin" {
					return i
				}
			}
			return len(ms)
		}
		fa, fb := first(isA), first(isB)
		return fa >= 0 && fb >= 0 && fa < last(isB) && fb < last(isA)
	}()
	foreign := func(allowed ...string) string {
		for _, r := range recs {
			ok := false
			for _, a := range allowed {
				ok = ok || (a != "" && r.Req == a)
			}
			if !ok {
				return fmt.Sprintf("%s (request id %q, %s %s)", r.File, r.Req, r.Status, r.Nodes)
			}
		}
		return ""
	}
	// intact: the run completed normally and the real store returns its complete record
	intact := func(who string, p *proc, run, req string) (string, string) {
		if p.exit != 0 || run != completeMarkers {
			return "outcome", fmt.Sprintf("%s did not complete normally: exit %d, executed [%s], output: %s", who, p.exit, run, tail(p.output(), 300))
		}
		if got := sc.stored(req); got != completeRun {
			return "history", fmt.Sprintf("%s completed normally but the history store returns %q for its request id, expected %q", who, got, completeRun)
		}
		n := 0
		for _, r := range recs {
			if r.Req == req {
				n++
			}
		}
		if n != 1 {
			return "history", fmt.Sprintf("%s completed normally but has %d history files", who, n)
		}
		return "", ""
	}
	if mb.spelled() {
		ctx = obs.Spelling + " — " + ctx
	}
	switch {
	case active:
		// A listens and has not finished its handlers: B must be refused
		if runB != "" {
			what := "a second start of the same DAG file executed steps while the first run was active"
			if bothInside {
				what += " (after the release both runs were inside a step at the same time)"
			}
			add("second-start-executes", what)
			break // everything else is a consequence
		}
		if b.exit == 0 {
			add("second-start-not-refused", "the second start exited 0 while the first run was active")
		}
		if !bEndedWhileParked {
			add("second-start-not-refused", "the second start did not end while the first run was parked")
		}
		if f := foreign(execA); f != "" {
			add("refused-start-recorded-a-run", "the refused second start left a history record: "+f)
		}
		if strings.HasPrefix(obs.StatusBefore, "running ") && obs.StatusAfter != obs.StatusBefore {
			add("active-run-disturbed/status-endpoint", "the first run's status endpoint answered before the second start and not (or differently) after it")
		}
		if kind, what := intact("the first run", a, runA, execA); kind != "" {
			add("active-run-disturbed/"+kind, what)
		}
		if len(byHistory) > 0 && len(finds) == 0 { // (with another finding it would be its consequence)
			// (what the history shows depends on how the first run named the file and on how the question
			// names it, not on the second command: the signature carries the first spelling only)
			addTagged("history-under-spelling", "/first="+mb.S1, "after both commands ended the history of the file does not show exactly the first run under every spelling (spelling: runs found): "+strings.Join(byHistory, "; "))
		}
	case symmetric:
		// two starts issued at the same moment (neither listens yet): either may win, never both
		if runA != "" && runB != "" {
			what := "two starts of the same DAG file issued before the first one listened on its status socket both executed steps"
			if bothInside {
				what += " (after the release both runs were inside a step at the same time)"
			}
			add("second-start-executes", what)
			break // everything else is a consequence
		}
		if runA == "" && runB == "" {
			return nil, nil, "", 0, fmt.Errorf("member %s: neither start executed anything (A exit %d: %s; B exit %d: %s)", mb, a.exit, tail(a.output(), 200), b.exit, tail(b.output(), 200))
		}
		winner, wp, wrun, wreq, loser, lp, lout := "the second start", b, runB, execB, "the first start", a, obs.AOutcome
		if runA != "" {
			winner, wp, wrun, wreq, loser, lp, lout = "the first start", a, runA, execA, "the second start", b, obs.BOutcome
		}
		if lp.exit == 0 {
			add("second-start-not-refused", loser+" lost the race, executed nothing and still exited 0")
		}
		if f := foreign(wreq); f != "" {
			add("refused-start-recorded-a-run", fmt.Sprintf("%s lost the race (%s, exit %d, no step executed) and left a history record: %s", loser, lout, lp.exit, f))
		}
		if wp == b && strings.HasPrefix(obs.StatusAfter, "running ") && statusReleased != obs.StatusAfter {
			add("active-run-disturbed/status-endpoint", fmt.Sprintf("the winner's status endpoint answered %q before the loser went on and %q after the loser was refused", obs.StatusAfter, statusReleased))
		}
		if kind, what := intact(winner, wp, wrun, wreq); kind != "" {
			add("active-run-disturbed/"+kind, what)
		}
	default:
		// A's last handler has ended (or its socket server is shut down): B may be refused or run
		if concurrent {
			add("shutdown-window/runs-overlap", "the second run began a step before the first run's last handler ended")
			break
		}
		if kind, what := intact("the first run", a, runA, execA); kind != "" {
			add("shutdown-window/first-run-"+kind, what)
		}
		if runB != "" {
			if kind, what := intact("the second run", b, runB, execB); kind != "" {
				add("shutdown-window/second-run-"+kind, what)
			}
			if f := foreign(execA, execB); f != "" {
				add("shutdown-window/foreign-record", "a history record belongs to neither run: "+f)
			}
		} else {
			if b.exit == 0 {
				add("second-start-not-refused", "the second start executed nothing and still exited 0")
			}
			if f := foreign(execA); f != "" {
				add("refused-start-recorded-a-run", "the refused second start left a history record: "+f)
			}
		}
	}
	_ = bExitWhileParked
	if strings.HasPrefix(obs.StatusBefore, "timeout") {
		hn.res.Count("status_endpoint_blocked_by_the_parked_thread", 1)
	}
	// strip request ids and pids from what is sampled
	obs.StatusBefore, obs.StatusAfter = anonymise(obs.StatusBefore, reqA, reqB), anonymise(obs.StatusAfter, reqA, reqB)
	return obs, finds, "", 0, nil
}

var (
	stampRe = regexp.MustCompile(`\d{8}\.\d\d:\d\d:\d\d\.\d{3}\.[0-9a-f]{8}`)
	md5Re   = regexp.MustCompile(`[0-9a-f]{32}`)
	uuidRe  = regexp.MustCompile(`[0-9a-f]{8}-[0-9a-f]{4}-[0-9a-f]{4}-[0-9a-f]{4}-[0-9a-f]{12}`)
	pidRe   = regexp.MustCompile(`(running <[AB?]>) \d+`)
)

// canon removes what differs from run to run (scratch names, time stamps, request ids, pids)
// from a violation detail, so that the same member gives the same text.
func canon(sc *scene, s, reqA, reqB string) string {
	if reqA != "" {
		s = strings.ReplaceAll(s, reqA, "<A>")
	}
	if reqB != "" {
		s = strings.ReplaceAll(s, reqB, "<B>")
	}
	s = uuidRe.ReplaceAllString(s, "<?>")
	s = pidRe.ReplaceAllString(s, "$1")
	s = strings.ReplaceAll(s, sc.inst, "<installation>")
	s = strings.ReplaceAll(s, sc.name, "<dag>")
	s = stampRe.ReplaceAllString(s, "<time>.<req8>")
	s = md5Re.ReplaceAllString(s, "<md5>")
	return s
}

var reqRe = regexp.MustCompile(`(?:newRequestID|requestID)=([0-9a-f-]{36})`)

// announcedReq is the request id a start / retry announces on its first log line.
func announcedReq(out string) string {
	if m := reqRe.FindAllStringSubmatch(out, -1); m != nil {
		for _, x := range m {
			if strings.Contains(x[0], "newRequestID") {
				return x[1]
			}
		}
		return m[0][1]
	}
	return ""
}

func anonymise(s, reqA, reqB string) string {
	f := strings.Fields(s)
	if len(f) == 3 && f[0] == "running" {
		switch f[1] {
		case reqA:
			return "running (first run)"
		case reqB:
			return "running (second run)"
		}
		return "running (unknown run)"
	}
	return s
}

// --------------------------------------------------------------------- main ---

func main() {
	time.Local = time.UTC
	os.Setenv("TZ", "UTC")
	log.SetOutput(io.Discard)
	fl := vlib.ParseFlags()
	res := vlib.New("c16")
	hn := &harness{res: res, fl: fl, vtrace: os.Getenv("VERIF_VTRACE"), bin: os.Getenv("VERIF_BLACKDAGGER"), offs: map[string]int{}, ctl: map[string]map[string]bool{}}
	res.Rule = "spelling family: a member is (spelling of the first run, spelling of the second command, kind of second command, named instant of the first run); non-trivial when the second command runs the DAG under its spelling when nothing is active (else counted as not accepted by the CLI); distinct by (first, second, kind, window, parked call, outcomes) | a member is (call K of the first run at whose entry its thread is parked, kind of second run); members are distinct and non-trivial when they differ in (window of the first run's life, class of the parked call, step position of the first run, kind of second run, outcome of the second run, answers of the status endpoint before/after)"
	finish := func() {
		for _, s := range globSockets() {
			_ = os.Remove(s)
		}
		_ = os.RemoveAll(fl.Work)
		res.Write(fl.Out)
	}
	if hn.vtrace == "" {
		hn.vtrace = filepath.Join(os.Getenv("VERIF_DIR"), "bin", "vtrace")
	}
	for what, p := range map[string]string{"vtrace": hn.vtrace, "the blackdagger binary ($VERIF_BLACKDAGGER)": hn.bin} {
		if _, err := os.Stat(p); err != nil || p == "" {
			res.CheckError("%s not available (%q): run through bin/vcheck", what, p)
			finish()
			return
		}
	}
	if err := os.MkdirAll(fl.Work, 0o755); err != nil {
		res.CheckError("work dir: %v", err)
		finish()
		return
	}
	day := time.Now().UTC().Format("20060102")

	var replay *member
	if fl.Replay != "" {
		var art struct {
			Replay member `json:"replay"`
		}
		b, err := os.ReadFile(fl.Replay)
		if err == nil {
			err = json.Unmarshal(b, &art)
		}
		if err != nil {
			res.CheckError("cannot read replay artefact: %v", err)
			finish()
			return
		}
		replay = &art.Replay
	}

	if err := hn.makeBaseline(); err != nil {
		res.CheckError("%v", err)
		finish()
		return
	}
	b := hn.base
	res.Bounds["relevant_calls_N"] = b.n
	res.Bounds["probe_K"] = b.anc.probe
	res.Bounds["bind_K"] = b.anc.bind
	res.Bounds["listen_K"] = b.anc.listen
	res.Bounds["socket_unlink_K"] = b.anc.sockUnlink
	res.Bounds["second_run_kinds"] = "start (thorough: + retry of an earlier failed run)"
	res.Bounds["preemptions"] = "one: the first run is parked once, the second run is free-running"
	if replay != nil {
		fmt.Printf("baseline (N=%d, probe=%d bind=%d listen=%d socket-unlink=%d):\n", b.n, b.anc.probe, b.anc.bind, b.anc.listen, b.anc.sockUnlink)
		for _, c := range b.calls {
			fmt.Printf("  %3d %-28s %s\n", c.K, c.Class, b.sc.short(c))
		}
		if err := hn.runMember(*replay, true); err != nil {
			res.CheckError("%v", err)
		}
		finish()
		return
	}
	mbs := hn.members()
	sp := hn.spellingMembers()
	if fl.Shard == 0 {
		res.Count("members_enumerated", int64(len(mbs)))
		res.Count("spelling_members_enumerated", int64(len(sp)))
	}
	var ids []string
	for _, s := range spellings {
		ids = append(ids, fmt.Sprintf("%s=`%s` in %s", s.ID, s.Arg, s.Cwd))
	}
	res.Bounds["spellings"] = strings.Join(ids, "; ") + " ({D} = <installation>/dags, {I} = <installation>, {N} = DAG name, {C} = canonical path, {C//} = every slash doubled; working directory relative to the installation)"
	if fl.Thorough() {
		res.Bounds["spelling_family"] = fmt.Sprintf("first x second over all %d spellings x {start, retry}, first run parked inside s1 (its 'running' status write); first x second over the %d core spellings x {start, retry} parked right after listen (stat of the log directory, occurrence %d) and at the creation of the handler's log file; {canon} x {one slash doubled at boundary i of the canonical path, i = 1..%d} both ways x {start, retry} inside s1",
			len(spellingSet(true)), len(coreSpellings()), b.afterListenStat(), hn.boundaryCount())
	} else {
		res.Bounds["spelling_family"] = fmt.Sprintf("first x second over the %d core spellings x {start, retry} + {canon} x {each of the %d wider spellings} both ways x {start, retry}, first run parked inside s1 (its 'running' status write)", len(coreSpellings()), len(spellings)-len(coreSpellings()))
	}
	if fl.Thorough() {
		res.Bounds["family"] = fmt.Sprintf("every K = 1..N+2 = 1..%d x {start, retry}", b.n+2)
	} else {
		res.Bounds["family"] = fmt.Sprintf("every K from the first call to the creation of the s1 log file + 1 (K = 1..%d; listen is K = %d) plus the named later calls %v, second run = start", b.startupEnd(), b.anc.listen, anchorNames)
	}
	for i, mb := range mbs {
		if !fl.Mine(i) {
			continue
		}
		if err := hn.runMember(mb, false); err != nil {
			res.CheckError("%v", err)
		}
	}
	// (dealt by their own index: the number of classic members is N-dependent and N is per shard)
	for i, mb := range sp {
		if !fl.Mine(i) {
			continue
		}
		if err := hn.runMember(mb, false); err != nil {
			res.CheckError("%v", err)
		}
	}
	if time.Now().UTC().Format("20060102") != day {
		res.CheckError("the check ran across midnight UTC (history file names carry the date) — run it again")
	}
	res.Assume("the first run is parked once (one preemption), at the entry of one of its own file-system / unix-socket calls as numbered by the ptrace supervisor; the second run is free-running; instants between two such calls are represented by the later call")
	res.Assume("the first run is multi-threaded: N is the maximum over three un-paused executions; each member is one real execution parked at its own call K, whose window is read from its own trace; start-up (calls 1..listen) is checked call by call against the baseline, later calls by the order of their milestones")
	finish()
}

func globSockets() []string {
	m, _ := filepath.Glob(fmt.Sprintf("/tmp/@blackdagger-c16x%d-*", os.Getpid()))
	return m
}
