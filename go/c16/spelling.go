package main

// Spellings of ONE DAG file on a command line.
//
// The DAG's identity downstream of the loader is DAG.Location: the status socket
// (the only lock) is named after its hash, the history directory too.  The classic
// family of this check names the file twice in the same way; this family names it
// in every pair of ways, for the first run and for the second command:
//
//	canonical absolute path; a doubled slash at a directory boundary (which is also
//	what `$DAGS/x.yaml` expands to when DAGS ends in a slash); a `/./` segment; a
//	`/sub/../` segment (sub exists); a path relative to the working directory
//	(`./x.yaml` from the DAG directory, `dags/x.yaml` from its parent, …); the name
//	without its extension (`x` for `x.yaml`) where the command accepts it.
//
// NOT in the family: a symbolic link or a hard link to the file.  The property
// speaks of "the same file" and anchors that on "unix socket path derived from the
// DAG file path — the only lock"; a link has another path and (the DAG's name
// being the file's base name) is another DAG to the product: own name, own log
// directory, own history, listed separately.  Demanding that `start link.yaml` be
// refused while `x.yaml` runs would demand more than the property states.

import (
	"fmt"
	"os"
	"path/filepath"
	"sort"
	"strconv"
	"strings"

	"github.com/ErdemOzgen/blackdagger/internal/dag"
)

type spelling struct {
	ID   string
	Cwd  string // working directory of the command, relative to the installation: ".", "dags", "home"
	Arg  string // {D} = <installation>/dags, {I} = <installation>, {N} = DAG name, {C} = canonical path
	Wide bool   // thorough tier only
}

// The order is the enumeration order (never a map).
var spellings = []spelling{
	{ID: "canon", Cwd: ".", Arg: "{D}/{N}.yaml"},
	{ID: "dslash-last", Cwd: ".", Arg: "{D}//{N}.yaml"}, // = $DAGS/x.yaml with DAGS=/…/dags/
	{ID: "dslash-all", Cwd: ".", Arg: "{C//}"},          // every boundary doubled, the leading one too
	{ID: "dot", Cwd: ".", Arg: "{D}/./{N}.yaml"},
	{ID: "dotdot", Cwd: ".", Arg: "{D}/sub/../{N}.yaml"},
	{ID: "rel-dot", Cwd: "dags", Arg: "./{N}.yaml"},
	{ID: "rel-parent", Cwd: ".", Arg: "dags/{N}.yaml"},
	{ID: "noext", Cwd: ".", Arg: "{D}/{N}"},

	{ID: "dslash-mid", Cwd: ".", Arg: "{I}//dags/{N}.yaml", Wide: true}, // = $ROOT/dags/x.yaml with ROOT=/…/
	{ID: "dslash-lead", Cwd: ".", Arg: "/{C}", Wide: true},
	{ID: "tslash3", Cwd: ".", Arg: "{D}///{N}.yaml", Wide: true},
	{ID: "dot-mid", Cwd: ".", Arg: "{I}/./dags/{N}.yaml", Wide: true},
	{ID: "dotdot-up", Cwd: ".", Arg: "{D}/../dags/{N}.yaml", Wide: true},
	{ID: "dot-noext", Cwd: ".", Arg: "{D}/./{N}", Wide: true},
	{ID: "rel-bare", Cwd: "dags", Arg: "{N}.yaml", Wide: true},
	{ID: "rel-noext", Cwd: "dags", Arg: "{N}", Wide: true},
	{ID: "rel-dot-noext", Cwd: "dags", Arg: "./{N}", Wide: true},
	{ID: "rel-dotdot", Cwd: "home", Arg: "../dags/{N}.yaml", Wide: true},
	{ID: "rel-dslash", Cwd: ".", Arg: "dags//{N}.yaml", Wide: true},
	{ID: "rel-sub-dotdot", Cwd: ".", Arg: "dags/sub/../{N}.yaml", Wide: true},
}

// spellingSet: the spellings crossed with each other in a tier.
func spellingSet(thorough bool) []spelling {
	var out []spelling
	for _, s := range spellings {
		if !s.Wide || thorough {
			out = append(out, s)
		}
	}
	return out
}

func coreSpellings() []spelling { return spellingSet(false) }

// boundarySpellings (thorough): one spelling per directory boundary of the canonical path with
// that one slash doubled; b1 is the last boundary (= dslash-last), bN the leading slash.
func (sc *scene) boundarySpellings() []spelling {
	var out []spelling
	n := strings.Count(sc.dagFile, "/")
	for i := 1; i <= n; i++ {
		out = append(out, spelling{ID: fmt.Sprintf("dslash-b%d", i), Cwd: ".", Arg: "{C@" + strconv.Itoa(i) + "}", Wide: true})
	}
	return out
}

// boundaryCount is the number of directory boundaries of a scene's DAG file path (the same in every scene of a run).
func (hn *harness) boundaryCount() int {
	return strings.Count(filepath.Join(hn.fl.Work, "m1", "inst", "dags", "x.yaml"), "/")
}

func findSpelling(id string) (spelling, bool) {
	for _, s := range spellings {
		if s.ID == id {
			return s, true
		}
	}
	if strings.HasPrefix(id, "dslash-b") {
		if i, err := strconv.Atoi(id[len("dslash-b"):]); err == nil && i > 0 {
			return spelling{ID: id, Cwd: ".", Arg: "{C@" + strconv.Itoa(i) + "}", Wide: true}, true
		}
	}
	return spelling{}, false
}

// spell renders a spelling in this scene: working directory (absolute) and argument.
func (sc *scene) spell(s spelling) (cwd, arg string) {
	cwd = filepath.Join(sc.inst, s.Cwd)
	arg = s.Arg
	if strings.HasPrefix(arg, "{C@") {
		i, _ := strconv.Atoi(strings.TrimSuffix(arg[3:], "}"))
		// the i-th slash from the end is doubled
		p := sc.dagFile
		at := len(p)
		for ; i > 0 && at > 0; i-- {
			at = strings.LastIndexByte(p[:at], '/')
		}
		if at < 0 {
			at = 0
		}
		return cwd, p[:at] + "/" + p[at:]
	}
	arg = strings.ReplaceAll(arg, "{C//}", strings.ReplaceAll(sc.dagFile, "/", "//"))
	arg = strings.ReplaceAll(arg, "{C}", sc.dagFile)
	arg = strings.ReplaceAll(arg, "{D}", filepath.Join(sc.inst, "dags"))
	arg = strings.ReplaceAll(arg, "{I}", sc.inst)
	arg = strings.ReplaceAll(arg, "{N}", sc.name)
	return cwd, arg
}

// rawLocation is the path as typed, made absolute WITHOUT cleaning it (what a loader that does not
// normalise would keep as the DAG's location).
func rawLocation(cwd, arg string) string {
	if !strings.HasSuffix(arg, ".yaml") && !strings.HasSuffix(arg, ".yml") {
		arg += ".yaml"
	}
	if strings.HasPrefix(arg, "/") {
		return arg
	}
	return cwd + "/" + arg
}

// candidateSocks: the socket addresses a run started under the spelling may bind: the one of the
// canonical location (always) and the one of the location as typed.  They are only used to tell the
// supervisor which unix sockets are relevant; verdicts never depend on which one was used.
func (sc *scene) candidateSocks(s spelling) []string {
	out := []string{sc.sock}
	cwd, arg := sc.spell(s)
	for _, loc := range []string{rawLocation(cwd, arg), rawLocation(cwd, strings.TrimPrefix(arg, "./"))} {
		a := (&dag.DAG{Location: loc}).SockAddr()
		dup := false
		for _, o := range out {
			dup = dup || o == a
		}
		if !dup {
			out = append(out, a)
		}
	}
	return out
}

// runsUnder asks the real loader (from the spelling's working directory) for the DAG's location under
// a spelling and the real history store for the runs recorded under that location; it returns the
// request ids of the runs other than the scene's earlier run, sorted.
func (sc *scene) runsUnder(s spelling) ([]string, error) {
	cwd, arg := sc.spell(s)
	old, err := os.Getwd()
	if err != nil {
		return nil, err
	}
	if err := os.Chdir(cwd); err != nil {
		return nil, err
	}
	d, err := dag.LoadMetadata(arg)
	if cerr := os.Chdir(old); cerr != nil {
		return nil, cerr
	}
	if err != nil {
		return nil, fmt.Errorf("the loader rejects the spelling: %v", err)
	}
	var out []string
	for _, sf := range sc.venv.Stores().HistoryStore().ReadStatusRecent(d.Location, 50) {
		if sf != nil && sf.Status != nil && sf.Status.RequestID != sc.prevReq {
			out = append(out, sf.Status.RequestID)
		}
	}
	sort.Strings(out)
	return out, nil
}
