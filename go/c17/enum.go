package main

import (
	"encoding/base64"
	"strings"
	"unicode"
)

type basicSecret struct{ User, Pass string }

type scheme struct{ Label, Text string }

type fam struct {
	basics  []basicSecret
	tokens  []string
	bases   []string
	configs []Config
	methods []string
	paths   []string
	schemes []scheme // the "absent" scheme is the separate no-header member
	seps    []scheme
	multi   bool // also multi-valued Authorization headers
}

// family is the finite family that is enumerated exhaustively.  The thorough
// tier is a superset of the quick tier in every dimension.
func family(thorough bool) fam {
	f := fam{
		// u:p, empty password, a user/password prefix-related to the first
		basics: []basicSecret{{"u", "p"}, {"u", ""}, {"u2", "pp"}},
		// token, prefix-related token, empty token
		tokens:  []string{"t", "tt", ""},
		bases:   []string{"", "/base"},
		methods: []string{"GET", "POST", "DELETE", "OPTIONS"},
		paths: []string{
			"/api/v1/dags", "/api/v1/dags/x", "/api", "/api/../api/v1/dags",
			// not API paths (static routes / never routed to the API): only "no bypass" is asserted
			"/", "/dags", "//api/v1/dags", "/x/../api/v1/dags",
		},
		schemes: []scheme{{"Basic", "Basic"}, {"basic", "basic"}, {"Bearer", "Bearer"}, {"bearer", "bearer"}, {"Token", "Token"}, {"empty", ""}},
		seps:    []scheme{{"sp", " "}, {"2sp", "  "}, {"none", ""}, {"tab", "\t"}},
	}
	bothB, bothT := f.basics, f.tokens
	if thorough {
		f.basics = append(f.basics, basicSecret{"", "p"}, basicSecret{"u", "p:q"}, basicSecret{"admin", "s3cret pass"}, basicSecret{"Ünï", "pä€"})
		f.tokens = append(f.tokens, "Bearer", "dTpw" /* = base64(u:p) */, "a.b-c_d~e+f/g=", "a b" /* not a b64token: no-bypass only */)
		f.bases = append(f.bases, "/api", "/base/")
		f.methods = append(f.methods, "PUT", "PATCH", "HEAD")
		f.paths = append(f.paths,
			"/api/", "/api/v1", "/api/v1/dags/x/y", "/api/v1/dags?remoteNode=a&token=t", "/%61pi/v1/dags", "/api%2Fv1/dags", "/api/v1/../../dags",
			"/apix", "/API/v1/dags", "/assets/x.js", "/api%20/x")
		f.schemes = append(f.schemes, scheme{"BASIC", "BASIC"}, scheme{"BEARER", "BEARER"}, scheme{"Digest", "Digest"},
			scheme{"Bearer+Basic", "Bearer Basic"}, scheme{"Basic+Bearer", "Basic Bearer"})
		f.seps = append(f.seps, scheme{"sp-tab", " \t"}, scheme{"colon", ":"}, scheme{"eq", "="})
		f.multi = true
	}
	for _, base := range f.bases {
		f.configs = append(f.configs, Config{Kind: "none", BasePath: base})
		for _, b := range f.basics {
			f.configs = append(f.configs, Config{Kind: "basic", HasBasic: true, User: b.User, Pass: b.Pass, BasePath: base})
		}
		for _, t := range f.tokens {
			f.configs = append(f.configs, Config{Kind: "token", HasToken: true, Token: t, BasePath: base})
		}
		// both: full product of the core secrets; each additional secret of the
		// thorough tier is paired with the first secret of the other kind.
		for _, b := range bothB {
			for _, t := range bothT {
				f.configs = append(f.configs, Config{Kind: "both", HasBasic: true, User: b.User, Pass: b.Pass, HasToken: true, Token: t, BasePath: base})
			}
		}
		for _, b := range f.basics[len(bothB):] {
			f.configs = append(f.configs, Config{Kind: "both", HasBasic: true, User: b.User, Pass: b.Pass, HasToken: true, Token: bothT[0], BasePath: base})
		}
		for _, t := range f.tokens[len(bothT):] {
			f.configs = append(f.configs, Config{Kind: "both", HasBasic: true, User: bothB[0].User, Pass: bothB[0].Pass, HasToken: true, Token: t, BasePath: base})
		}
	}
	return f
}

// targets: every path below the base path, and — when a base path is
// configured — also the same paths outside of it.
func targets(base string, paths []string) []string {
	var out []string
	seen := map[string]bool{}
	prefixes := []string{base}
	if base != "" {
		prefixes = append(prefixes, strings.TrimRight(base, "/"), "")
	}
	for _, pre := range prefixes {
		for _, p := range paths {
			t := pre + p
			if !seen[t] {
				seen[t] = true
				out = append(out, t)
			}
		}
	}
	return out
}

func swapCase(s string) string {
	return strings.Map(func(r rune) rune {
		if unicode.IsUpper(r) {
			return unicode.ToLower(r)
		}
		return unicode.ToUpper(r)
	}, s)
}

func b64(s string) string { return base64.StdEncoding.EncodeToString([]byte(s)) }

func dropLast(s string) string {
	r := []rune(s)
	if len(r) == 0 {
		return s
	}
	return string(r[:len(r)-1])
}

type cred struct{ Kind, Group, Text string }

// credentials: the credential variants for one configuration.  Secrets that
// are not configured take a default value (u / p / t), so the product has the
// same shape under every configuration.  The labels are for reporting only;
// the oracle re-derives what a header presents from its bytes.
func credentials(cfg Config, thorough bool) []cred {
	u, p, t := "u", "p", "t"
	if cfg.HasBasic {
		u, p = cfg.User, cfg.Pass
	}
	if cfg.HasToken {
		t = cfg.Token
	}
	right := b64(u + ":" + p)
	cs := []cred{
		{"empty", "empty", ""}, // first: labels of later variants that collapse to the same bytes are dropped
		{"garbage", "malformed", "x"},
		{"basic-right", "basic-secret", right},
		{"basic-wrong-password", "partial-basic", b64(u + ":wrong")},
		{"basic-password-plus-suffix", "partial-basic", b64(u + ":" + p + "x")},
		{"basic-password-prefix", "partial-basic", b64(u + ":" + dropLast(p))},
		{"basic-empty-password", "partial-basic", b64(u + ":")},
		{"basic-user-wrong-case", "partial-basic", b64(swapCase(u) + ":" + p)},
		{"basic-other-user-right-password", "partial-basic", b64(u + "2:" + p)},
		{"basic-user-prefix-right-password", "partial-basic", b64(dropLast(u) + ":" + p)},
		{"basic-truncated-b64", "partial-basic", dropLast(right)},
		{"basic-no-colon", "partial-basic", b64(u + p)},
		{"basic-user-only", "partial-basic", b64(u)},
		{"basic-plaintext", "basic-secret-nonstandard", u + ":" + p},
		{"basic-unpadded-b64", "basic-secret-nonstandard", base64.RawStdEncoding.EncodeToString([]byte(u + ":" + p))},
		{"password-alone", "partial-basic", p},
		{"user-alone", "partial-basic", u},
		{"invalid-b64", "malformed", "!!!!"},
		{"token-right", "token-secret", t},
		{"token-prefix", "partial-token", dropLast(t)},
		{"token-plus-suffix", "partial-token", t + "x"},
		{"token-doubled", "partial-token", t + t},
		{"token-wrong-case", "partial-token", swapCase(t)},
		{"token-b64", "partial-token", b64(t)},
		{"token-as-password", "partial-token", b64(u + ":" + t)},
		{"token-then-junk", "token-secret-nonstandard", t + " x"},
		{"junk-then-token", "token-secret-nonstandard", "x " + t},
	}
	if thorough {
		cs = append(cs,
			cred{"basic-urlsafe-b64", "basic-secret-nonstandard", base64.URLEncoding.EncodeToString([]byte(u + ":" + p))},
			cred{"basic-right-then-junk", "basic-secret-nonstandard", right + " x"},
			cred{"basic-right-extra-padding", "partial-basic", right + "="},
			cred{"basic-password-wrong-case", "partial-basic", b64(u + ":" + swapCase(p))},
			cred{"basic-double-colon", "partial-basic", b64(u + "::" + p)},
			cred{"basic-swapped", "partial-basic", b64(p + ":" + u)},
			cred{"token-comma-list", "partial-token", t + ","},
			cred{"token-quoted", "partial-token", `"` + t + `"`},
			cred{"token-nul-suffix", "partial-token", t + "\x00"},
			cred{"scheme-word", "malformed", "Bearer"},
		)
	}
	return cs
}

// headers: the Authorization dimension for one configuration — header absent,
// then scheme x separator x credential, de-duplicated by the resulting bytes
// (first label wins), then (thorough) two-valued headers.
func headers(cfg Config, f fam) []Member {
	out := []Member{{Auth: nil, Scheme: "absent", Sep: "-", CredKind: "absent", Group: "absent"}}
	seen := map[string]bool{}
	creds := credentials(cfg, f.multi)
	for _, s := range f.schemes {
		for _, sep := range f.seps {
			for _, c := range creds {
				h := s.Text + sep.Text + c.Text
				if seen[h] {
					continue
				}
				seen[h] = true
				out = append(out, Member{Auth: []string{h}, Scheme: s.Label, Sep: sep.Label, CredKind: c.Kind, Group: c.Group})
			}
		}
	}
	if f.multi {
		u, p, t := "u", "p", "t"
		if cfg.HasBasic {
			u, p = cfg.User, cfg.Pass
		}
		if cfg.HasToken {
			t = cfg.Token
		}
		vals := []cred{
			{"std-basic", "basic-secret", "Basic " + b64(u+":"+p)},
			{"std-bearer", "token-secret", "Bearer " + t},
			{"wrong-basic", "partial-basic", "Basic " + b64(u+":wrong")},
			{"wrong-bearer", "partial-token", "Bearer " + t + "x"},
			{"bare-bearer", "malformed", "Bearer"},
			{"empty", "empty", ""},
		}
		for _, a := range vals {
			for _, b := range vals {
				g := "two-values-wrong"
				out = append(out, Member{Auth: []string{a.Text, b.Text}, Scheme: "two-values", Sep: "-", CredKind: a.Kind + "," + b.Kind, Group: g})
			}
		}
	}
	return out
}
