package main

// Family B: path spellings against the real assembled server.
//
// The server is built by frontend.New (real DAG API handler on a real client
// over a scratch installation, real embedded templates) and started by the
// real server.Serve: middleware.Setup, the generated go-swagger API
// (operations.NewBlackdaggerAPI, Handler.Configure, restapi.NewServer,
// ConfigureAPI -> SetupGlobalMiddleware(api.Serve(...))) and a TCP listener.
// The harness adds one more server.Handler whose Configure wraps every
// operation of the spec (api.AddMiddlewareFor) with a recorder: it sits behind
// the router's lookup, directly in front of the operation's bind / validate /
// handle, and then calls the real operation.
//
// Requests are written as raw HTTP/1.1 bytes.  In bulk they are parsed by
// http.ReadRequest (the parser net/http's server uses) and handed to the
// server's handler; a sub-family is written to the TCP listener as is.

import (
	"bufio"
	"bytes"
	"context"
	"fmt"
	"io"
	"net"
	"net/http"
	"net/http/httptest"
	"os"
	"path/filepath"
	"sort"
	"strings"
	"sync"
	"time"

	"github.com/ErdemOzgen/blackdagger/internal/config"
	"github.com/ErdemOzgen/blackdagger/internal/frontend"
	"github.com/ErdemOzgen/blackdagger/internal/frontend/gen/restapi/operations"
	"github.com/ErdemOzgen/blackdagger/internal/frontend/server"
	"github.com/ErdemOzgen/blackdagger/internal/zzverif/venv"
	"github.com/ErdemOzgen/blackdagger/internal/zzverif/vlib"
)

// recorder is the extra server.Handler.
type recorder struct {
	si      *specInfo
	mu      sync.Mutex
	ops     []string
	wrapped int
}

func (r *recorder) Configure(api *operations.BlackdaggerAPI) {
	api.Init() // builds the per-operation handlers from what the real Handlers registered
	for _, rt := range r.si.Routes {
		var ms []string
		for m := range rt.Ops {
			ms = append(ms, m)
		}
		sort.Strings(ms)
		for _, m := range ms {
			id := rt.Ops[m]
			if _, ok := api.HandlerFor(m, rt.Template); !ok {
				continue
			}
			api.AddMiddlewareFor(m, rt.Template, func(next http.Handler) http.Handler {
				return http.HandlerFunc(func(w http.ResponseWriter, req *http.Request) {
					r.mu.Lock()
					r.ops = append(r.ops, id)
					r.mu.Unlock()
					next.ServeHTTP(w, req)
				})
			})
			r.wrapped++
		}
	}
}

func (r *recorder) take() []string {
	r.mu.Lock()
	defer r.mu.Unlock()
	o := r.ops
	r.ops = nil
	return o
}

type realServer struct {
	cfg    Config
	svr    *server.Server
	h      http.Handler
	addr   string
	rec    *recorder
	cancel context.CancelFunc
	done   chan error
}

func startReal(c Config, env *venv.Env, si *specInfo) (*realServer, error) {
	cfg := &config.Config{
		Host: "127.0.0.1", Port: 0,
		IsBasicAuth: c.HasBasic, BasicAuthUsername: c.User, BasicAuthPassword: c.Pass,
		IsAuthToken: c.HasToken, AuthToken: c.Token,
	}
	svr := frontend.New(cfg, venv.Quiet, env.Client(""))
	server.VerifSetBasePath(svr, c.BasePath)
	rs := &realServer{cfg: c, svr: svr, rec: &recorder{si: si}, done: make(chan error, 1)}
	server.VerifAddHandler(svr, rs.rec)
	ctx, cancel := context.WithCancel(context.Background())
	rs.cancel = cancel
	go func() { rs.done <- svr.Serve(ctx) }()
	deadline := time.Now().Add(60 * time.Second)
	for {
		if p := server.VerifPort(svr); p != 0 {
			addr := fmt.Sprintf("127.0.0.1:%d", p)
			if conn, err := net.DialTimeout("tcp", addr, 5*time.Second); err == nil {
				_ = conn.Close()
				rs.addr = addr
				break
			}
		}
		select {
		case err := <-rs.done:
			cancel()
			return nil, fmt.Errorf("server.Serve returned before listening: %v", err)
		default:
		}
		if time.Now().After(deadline) {
			cancel()
			return nil, fmt.Errorf("server.Serve did not listen within 60 s")
		}
		time.Sleep(500 * time.Microsecond)
	}
	rs.h = server.VerifHandler(svr)
	if rs.h == nil {
		rs.stop()
		return nil, fmt.Errorf("the running server has no handler")
	}
	ops := 0
	for _, rt := range si.Routes {
		ops += len(rt.Ops)
	}
	if rs.rec.wrapped != ops {
		rs.stop()
		return nil, fmt.Errorf("recorder wrapped %d of the %d operations of the spec", rs.rec.wrapped, ops)
	}
	return rs, nil
}

func (rs *realServer) stop() error {
	rs.cancel()
	rs.svr.Shutdown()
	select {
	case <-rs.done:
		return nil
	case <-time.After(60 * time.Second):
		return fmt.Errorf("server.Serve did not return within 60 s after Shutdown")
	}
}

const postBody = `{"action":"verif-noop","value":"x"}`

// wire writes the member as the bytes of an HTTP/1.1 request.
func wire(m Member) []byte {
	var b bytes.Buffer
	fmt.Fprintf(&b, "%s %s HTTP/1.1\r\nHost: verif\r\n", m.Method, m.Target)
	for _, v := range m.Auth {
		fmt.Fprintf(&b, "Authorization: %s\r\n", v)
	}
	body := ""
	if m.Method == "POST" || m.Method == "PUT" || m.Method == "PATCH" {
		body = postBody
		fmt.Fprintf(&b, "Content-Type: application/json\r\nContent-Length: %d\r\n", len(body))
	}
	b.WriteString("Connection: close\r\n\r\n")
	b.WriteString(body)
	return b.Bytes()
}

type realOutcome struct {
	Code     int
	Ops      []string // operations dispatched by the router
	CORS     bool     // answered by the CORS layer behind authentication (OPTIONS)
	Panic    any
	ParseErr string   // net/http's request parser refused the bytes (the server answers 400 itself)
	Auth     []string // Authorization values as the server sees them
	URLPath  string
	RawPath  string
	NetErr   string
}

func corsAnswer(method string, code int, h http.Header) bool {
	return method == http.MethodOptions && code == http.StatusOK && h.Get("Access-Control-Allow-Origin") != "" && h.Get("WWW-Authenticate") == ""
}

// direct: parse the bytes the way net/http's server does and call the handler.
func (rs *realServer) direct(m Member) (o realOutcome) {
	rs.rec.take()
	req, err := http.ReadRequest(bufio.NewReader(bytes.NewReader(wire(m))))
	if err != nil {
		o.ParseErr = err.Error()
		o.Code = http.StatusBadRequest
		return o
	}
	req.RemoteAddr = "127.0.0.1:9"
	o.URLPath, o.RawPath = req.URL.Path, req.URL.RawPath
	o.Auth = req.Header.Values("Authorization")
	rec := httptest.NewRecorder()
	defer func() {
		if p := recover(); p != nil {
			o.Panic = p
			o.Ops = rs.rec.take()
		}
	}()
	rs.h.ServeHTTP(rec, req)
	o.Code = rec.Code
	o.Ops = rs.rec.take()
	o.CORS = corsAnswer(m.Method, rec.Code, rec.Header())
	return o
}

// tcp: write the bytes to the server's listener and read the answer.
func (rs *realServer) tcp(m Member) (o realOutcome) {
	rs.rec.take()
	raw := wire(m)
	if req, err := http.ReadRequest(bufio.NewReader(bytes.NewReader(raw))); err == nil {
		o.URLPath, o.RawPath = req.URL.Path, req.URL.RawPath
		o.Auth = req.Header.Values("Authorization")
	} else {
		o.ParseErr = err.Error()
	}
	conn, err := net.DialTimeout("tcp", rs.addr, 30*time.Second)
	if err != nil {
		o.NetErr = err.Error()
		return o
	}
	defer conn.Close()
	_ = conn.SetDeadline(time.Now().Add(60 * time.Second))
	if _, err := conn.Write(raw); err != nil {
		o.NetErr = err.Error()
		return o
	}
	resp, err := http.ReadResponse(bufio.NewReader(conn), &http.Request{Method: m.Method})
	if err != nil {
		o.NetErr = err.Error()
		return o
	}
	_, _ = io.Copy(io.Discard, resp.Body)
	_ = resp.Body.Close()
	o.Code = resp.StatusCode
	o.Ops = rs.rec.take()
	o.CORS = corsAnswer(m.Method, resp.StatusCode, resp.Header)
	return o
}

// resolution: what the real server, with no auth configured and the same base
// path, does with a request-target — per method the operation its router
// dispatches ("" = none), and whether the CORS layer answers OPTIONS.
type resolution struct {
	Op   map[string]string
	Any  bool // some method dispatches an operation: the target is a spelling of an API route
	CORS bool
}

func (r resolution) resolves(method string) bool {
	if method == http.MethodOptions {
		return r.Any && r.CORS
	}
	return r.Op[method] != ""
}

func (rs *realServer) resolve(methods []string, target string, si *specInfo) resolution {
	r := resolution{Op: map[string]string{}}
	ms := append([]string{}, methods...)
	for _, rt := range si.Routes { // also the spec's own methods, if the tier's method list lacks one
		for m := range rt.Ops {
			found := false
			for _, x := range ms {
				found = found || x == m
			}
			if !found {
				ms = append(ms, m)
			}
		}
	}
	sort.Strings(ms[len(methods):])
	for _, m := range ms {
		o := rs.direct(Member{Method: m, Target: target})
		if len(o.Ops) > 0 {
			r.Op[m] = o.Ops[0]
			r.Any = true
		}
		if m == http.MethodOptions && o.CORS {
			r.CORS = true
		}
	}
	return r
}

// realHeaders selects the credential alphabet of family B from the A family's
// header grammar: none / wrong / right for each scheme (plus the secret under
// the other scheme and the bare forms).
func realHeaders(cfg Config, f fam) []Member {
	type k struct{ scheme, sep, cred string }
	want := map[k]bool{
		{"absent", "-", "absent"}:               true,
		{"Basic", "sp", "basic-right"}:          true,
		{"Basic", "sp", "basic-wrong-password"}: true,
		{"Basic", "sp", "basic-empty-password"}: true,
		{"Basic", "sp", "token-as-password"}:    true,
		{"Basic", "sp", "token-right"}:          true,
		{"Basic", "none", "empty"}:              true,
		{"Bearer", "sp", "token-right"}:         true,
		{"Bearer", "sp", "token-plus-suffix"}:   true,
		{"Bearer", "sp", "token-prefix"}:        true,
		{"Bearer", "sp", "basic-right"}:         true,
		{"Bearer", "sp", "garbage"}:             true,
		{"Bearer", "none", "empty"}:             true,
		{"empty", "none", "token-right"}:        true,
	}
	if f.multi { // thorough
		for _, x := range []k{
			{"basic", "sp", "basic-right"}, {"bearer", "sp", "token-right"}, {"Token", "sp", "token-right"},
			{"Basic", "sp", "basic-user-wrong-case"}, {"Basic", "sp", "basic-password-prefix"}, {"Basic", "sp", "basic-password-plus-suffix"},
			{"Basic", "sp", "basic-plaintext"}, {"Basic", "sp", "basic-truncated-b64"}, {"Basic", "2sp", "basic-right"},
			{"Bearer", "sp", "token-wrong-case"}, {"Bearer", "sp", "token-doubled"}, {"Bearer", "sp", "token-then-junk"},
			{"Bearer", "2sp", "token-right"}, {"empty", "none", "basic-right"},
		} {
			want[x] = true
		}
	}
	var out []Member
	for _, h := range headers(cfg, f) {
		if want[k{h.Scheme, h.Sep, h.CredKind}] {
			out = append(out, h)
		}
	}
	if f.multi {
		for _, h := range headers(cfg, f) {
			if h.Scheme == "two-values" && (h.CredKind == "wrong-basic,std-bearer" || h.CredKind == "wrong-bearer,wrong-basic" || h.CredKind == "std-basic,wrong-bearer") {
				out = append(out, h)
			}
		}
	}
	return out
}

// coreConfig: family B runs under the configurations built from the core
// secrets (the quick tier's: u:p, u:"", u2:pp; t, tt, ""); the exotic secrets
// of the thorough tier vary the header dimension, which family A covers.
func coreConfig(c Config) bool {
	core := family(false)
	okB, okT := !c.HasBasic, !c.HasToken
	for _, b := range core.basics {
		okB = okB || (c.HasBasic && b.User == c.User && b.Pass == c.Pass)
	}
	for _, t := range core.tokens {
		okT = okT || (c.HasToken && t == c.Token)
	}
	return okB && okT
}

func cfgLabel(c Config) string {
	if c.BasePath != "" {
		return c.Kind + "+base"
	}
	return c.Kind
}

// sigClass: the path class as it appears in signatures.
func sigClass(class string) string { return strings.ReplaceAll(class, ":", "-") }

// verdict is the oracle's answer for one member of family B.
type verdict struct {
	Kind     string // "" = fine; bypass | valid-refused | not-401 | refused-without-auth-configured | panic
	Cred     string
	Class    class
	Resolves bool
	Reached  bool
	Skip     string // the member was not judged (parse / network error)
}

// judgeReal is the oracle of family B.
func judgeReal(m Member, r resolution, o realOutcome) verdict {
	var v verdict
	if o.NetErr != "" {
		v.Skip = "net"
		return v
	}
	if o.ParseErr != "" {
		v.Skip = "parse"
		return v
	}
	seen := m
	seen.Auth = o.Auth // what the server's parser made of the header bytes
	v.Class = classify(seen, o.URLPath, o.RawPath)
	cl := v.Class
	authOn := m.Cfg.HasBasic || m.Cfg.HasToken
	carries := cl.CarriesBasic || cl.CarriesToken
	v.Cred = credClassOf(m, cl)
	v.Reached = len(o.Ops) > 0 || (m.Method == http.MethodOptions && o.CORS && r.Any)
	v.Resolves = r.resolves(m.Method)
	switch {
	case o.Panic != nil:
		v.Kind = "panic"
	case !authOn:
		// no auth configured: every request passes — the header must not matter
		if v.Resolves && !v.Reached {
			v.Kind = "refused-without-auth-configured"
		}
	case !carries && v.Reached:
		// (1) without a configured secret no operation is dispatched — whatever the spelling
		v.Kind = "bypass"
	case cl.Standard != "" && v.Resolves && !v.Reached:
		// (2) standard-form credentials reach every operation the router resolves the spelling to
		v.Kind, v.Cred = "valid-refused", "standard-"+cl.Standard
	case !carries && v.Resolves && o.Code != http.StatusUnauthorized:
		// (3) a spelling the router resolves to an operation, presented without a secret, is answered 401
		v.Kind = "not-401"
	}
	return v
}

func plainKey(route, method string, auth []string) string {
	h := "\x00absent"
	if auth != nil {
		h = strings.Join(auth, "\x01")
	}
	return route + "\x02" + method + "\x02" + h
}

// checkReal applies the oracle to one member of family B and reports.
// plain: verdict kinds of the plain spelling of the same route under the same
// configuration, method and header — a violation that the plain spelling shows
// as well is not a matter of the spelling and is reported under
// path-class=plain.
func (c *checker) checkReal(m Member, r resolution, o realOutcome, plain map[string]string) {
	res := c.res
	res.Evaluations++
	res.Count("B:evaluations", 1)
	res.Count("B:path-class:"+m.PathClass, 1)
	if m.Via == "tcp" {
		res.Count("B:over-tcp", 1)
	}
	v := judgeReal(m, r, o)
	switch v.Skip {
	case "net":
		res.CheckError("B: %s: network error talking to the harness's own server: %s", m, o.NetErr)
		return
	case "parse":
		res.Count("B:refused-by-net/http-request-parser", 1)
		return
	}
	cl := v.Class
	authOn := m.Cfg.HasBasic || m.Cfg.HasToken
	if v.Resolves {
		res.Count("B:resolved-to-an-operation:"+m.PathClass, 1)
	}
	if authOn && m.PathClass != "plain" && v.Resolves {
		res.Nontrivial(vlib.Hash("B", m.Cfg.String(), m.Method, m.Target, strings.Join(m.Auth, "\x01")))
	}
	if authOn {
		switch {
		case cl.Standard != "":
			res.Count("B:class:standard-form-correct", 1)
		case cl.CarriesBasic || cl.CarriesToken:
			res.Count("B:class:dont-care(non-standard presentation of a correct secret)", 1)
		default:
			res.Count("B:class:no-secret-presented", 1)
		}
	}
	if k := "B:" + m.PathClass; !c.sampled[k] && authOn && v.Resolves && len(res.Samples) < 5 && strings.HasPrefix(m.PathClass, "dotdot-out-of-") && m.Auth == nil {
		c.sampled[k] = true
		res.Sample(map[string]any{"family": "B (real assembled server)", "member": m.String(), "path_class": m.PathClass, "status": o.Code,
			"operations_dispatched": o.Ops, "dispatches_with_no_auth_configured": r.Op[m.Method]})
	}
	if v.Kind == "" {
		return
	}
	pc, note := sigClass(m.PathClass), ""
	// the route the spelling actually lands on (it need not be the one it was derived from)
	ref := m.Route
	op := r.Op[m.Method]
	if len(o.Ops) > 0 {
		op = o.Ops[0]
	}
	if op == "" {
		var ks []string
		for k := range r.Op {
			ks = append(ks, k)
		}
		sort.Strings(ks)
		if len(ks) > 0 {
			op = r.Op[ks[0]]
		}
	}
	if t, ok := c.routeOfOp[op]; ok {
		ref = t
	}
	if m.PathClass != "plain" && plain[plainKey(ref, m.Method, m.Auth)] == v.Kind {
		pc, note = "plain", " (the plain spelling of the route shows the same violation: reported under path-class=plain)"
	}
	sig := fmt.Sprintf("C17/%s/cfg=%s/path-class=%s/cred=%s", v.Kind, cfgLabel(m.Cfg), pc, v.Cred)
	if c.vio[sig] {
		res.Count("vio:"+sig, 1)
		return
	}
	c.vio[sig] = true
	res.Violate(sig, fmt.Sprintf("%s [%s, path class %s %s, route %s]%s -> status %d, operations dispatched %v, cors-answer=%v, panic=%v; same target with no auth configured: dispatches %v (any=%v); reference: carriesBasic=%v carriesToken=%v standard=%q; server saw URL.Path=%q RawPath=%q Authorization=%q",
		m, m.Via, m.PathClass, m.Variant, m.Route, note, o.Code, o.Ops, o.CORS, o.Panic, r.Op, r.Any, cl.CarriesBasic, cl.CarriesToken, cl.Standard, o.URLPath, o.RawPath, o.Auth), m)
}

// plainVerdicts: the verdict kinds of the plain spellings of all routes under
// the running configuration (reference for checkReal; not counted as members —
// the plain spellings are members of the family in their own right).
func plainVerdicts(rs *realServer, si *specInfo, rplain map[string]resolution, methods []string, hdrs []Member) map[string]string {
	out := map[string]string{}
	for _, rt := range si.Routes {
		target := strings.TrimRight(rs.cfg.BasePath, "/") + join(cat(si.BaseSegs, rt.Segs)) + rt.Query
		for _, method := range methods {
			for _, h := range hdrs {
				m := h
				m.Cfg, m.Method, m.Target = rs.cfg, method, target
				if v := judgeReal(m, rplain[rt.Template], rs.direct(m)); v.Kind != "" {
					out[plainKey(rt.Template, method, h.Auth)] = v.Kind
				}
			}
		}
	}
	return out
}

// runReal enumerates family B for this shard.  Blocks are (base path, target);
// a shard runs every configuration, method and header for its blocks.
func (c *checker) runReal(f fam, block *int) {
	res, fl := c.res, c.fl
	si, err := loadSpec()
	if err != nil {
		res.CheckError("B: cannot analyse the embedded spec: %v", err)
		return
	}
	c.setRoutes(si)
	env := venv.New(filepath.Join(fl.Work, "inst"))
	var nTargets, nResolved, nHeaders int64
	classes := map[string]bool{}
	for _, base := range f.bases {
		all := si.pathTargets(base, fl.Thorough())
		nTargets += int64(len(all))
		var mine []spelling
		for _, s := range all {
			classes[s.Class] = true
			*block++
			if fl.Mine(*block) {
				mine = append(mine, s)
			}
		}
		if len(mine) == 0 {
			continue
		}
		var cfgs []Config
		for _, cfg := range f.configs {
			if cfg.BasePath == base && coreConfig(cfg) {
				cfgs = append(cfgs, cfg)
			}
		}
		if len(cfgs) == 0 || cfgs[0].Kind != "none" {
			res.CheckError("B: the configuration list of base path %q does not start with 'none'", base)
			return
		}
		R := make([]resolution, len(mine))
		rplain := map[string]resolution{}
		tcpCfg := map[int]bool{0: true}
		for i, cfg := range cfgs {
			if cfg.Kind == "both" {
				tcpCfg[i] = true
				break
			}
		}
		for ci, cfg := range cfgs {
			rs, err := startReal(cfg, env, si)
			if err != nil {
				res.CheckError("B: cannot start the real server for %s: %v", cfg, err)
				return
			}
			hdrs := realHeaders(cfg, f)
			if int64(len(hdrs)) > nHeaders {
				nHeaders = int64(len(hdrs))
			}
			if ci == 0 {
				if err := c.sanity(rs, si, base); err != nil {
					res.CheckError("B: %v", err)
					_ = rs.stop()
					return
				}
				for _, rt := range si.Routes {
					rplain[rt.Template] = rs.resolve(f.methods, strings.TrimRight(base, "/")+join(cat(si.BaseSegs, rt.Segs))+rt.Query, si)
				}
				for i, s := range mine {
					R[i] = rs.resolve(f.methods, s.Target, si)
					if R[i].Any {
						nResolved++
					}
					// the plain spelling of a route must dispatch the spec's operation for each of its methods
					if s.Class == "plain" && base == strings.TrimRight(base, "/") {
						for _, rt := range si.Routes {
							if rt.Template != s.Route {
								continue
							}
							for m, id := range rt.Ops {
								if R[i].Op[m] != id {
									res.CheckError("B: with no auth configured %s %s dispatches %q, the spec says %q", m, s.Target, R[i].Op[m], id)
								}
							}
						}
					}
				}
			}
			plain := plainVerdicts(rs, si, rplain, f.methods, hdrs)
			for i, s := range mine {
				for _, method := range f.methods {
					for _, h := range hdrs {
						m := h
						m.Cfg, m.Method, m.Target = cfg, method, s.Target
						m.Family, m.PathClass, m.Variant, m.Route, m.Via = "real", s.Class, s.Variant, s.Route, "direct"
						od := rs.direct(m)
						c.checkReal(m, R[i], od, plain)
						// sub-family over the wire: no header, and the first header of the list that is in standard form
						if tcpCfg[ci] && (h.Auth == nil || (h.CredKind == "basic-right" && h.Scheme == "Basic")) {
							m.Via = "tcp"
							ot := rs.tcp(m)
							c.checkReal(m, R[i], ot, plain)
							if ot.NetErr == "" && (ot.Code != od.Code || strings.Join(ot.Ops, ",") != strings.Join(od.Ops, ",")) {
								res.Count("B:tcp-differs-from-direct", 1)
								res.CheckError("B: %s: over TCP status %d ops %v, handed to the handler directly status %d ops %v (parse error %q)", m, ot.Code, ot.Ops, od.Code, od.Ops, od.ParseErr)
							}
						}
					}
				}
			}
			if err := rs.stop(); err != nil {
				res.CheckError("B: %v", err)
				return
			}
		}
	}
	res.Bounds["B:request-targets (all base paths)"] = nTargets
	res.Bounds["B:headers_per_configuration_max"] = nHeaders
	res.Bounds["B:routes"] = fmt.Sprint(routeNames(si))
	var cs []string
	for k := range classes {
		cs = append(cs, k)
	}
	sort.Strings(cs)
	res.Bounds["B:path-classes"] = len(cs)
	res.Count("B:targets-that-resolve-to-an-operation(no auth configured)", nResolved)
}

func (c *checker) setRoutes(si *specInfo) {
	c.routeOfOp = map[string]string{}
	for _, rt := range si.Routes {
		for _, id := range rt.Ops {
			c.routeOfOp[id] = rt.Template
		}
	}
}

func routeNames(si *specInfo) []string {
	var out []string
	for _, r := range si.Routes {
		var ms []string
		for m := range r.Ops {
			ms = append(ms, m)
		}
		sort.Strings(ms)
		out = append(out, strings.Join(ms, "|")+" "+join(si.BaseSegs)+r.Template)
	}
	return out
}

// sanity: the places the grammar climbs out of exist in the running server
// (so the prefix list is not stale): the Swagger UI and the UI page.  (go-openapi
// runtime v0.28 serves the spec document at /swagger.json, which the prefix
// check of the chain sends to the UI page; <api base>/swagger.json is only the
// conventional place and stays in the prefix list as such.)
func (c *checker) sanity(rs *realServer, si *specInfo, base string) error {
	b := strings.TrimRight(base, "/")
	if b != base {
		return nil // a base path with a trailing slash serves nothing below itself; nothing to check
	}
	for _, t := range []struct {
		path string
		want int
	}{
		{b + join(si.BaseSegs) + "/docs", 200},
		{b + "/dags", 200},
	} {
		o := rs.direct(Member{Method: "GET", Target: t.path})
		if o.Code != t.want || len(o.Ops) != 0 {
			return fmt.Errorf("with no auth configured GET %s answers %d (ops %v), expected %d and no operation: the prefix list of the path grammar is stale", t.path, o.Code, o.Ops, t.want)
		}
	}
	return nil
}

// replayReal re-runs one stored member of family B.
func (c *checker) replayReal(m Member, f fam) {
	res := c.res
	si, err := loadSpec()
	if err != nil {
		res.CheckError("B: cannot analyse the embedded spec: %v", err)
		return
	}
	c.setRoutes(si)
	env := venv.New(filepath.Join(c.fl.Work, "inst"))
	none := Config{Kind: "none", BasePath: m.Cfg.BasePath}
	rs, err := startReal(none, env, si)
	if err != nil {
		res.CheckError("B: %v", err)
		return
	}
	r := rs.resolve(f.methods, m.Target, si)
	rplain := map[string]resolution{}
	for _, rt := range si.Routes {
		rplain[rt.Template] = rs.resolve(f.methods, strings.TrimRight(m.Cfg.BasePath, "/")+join(cat(si.BaseSegs, rt.Segs))+rt.Query, si)
	}
	_ = rs.stop()
	rs, err = startReal(m.Cfg, env, si)
	if err != nil {
		res.CheckError("B: %v", err)
		return
	}
	var o realOutcome
	if m.Via == "tcp" {
		o = rs.tcp(m)
	} else {
		o = rs.direct(m)
	}
	h := m
	c.checkReal(m, r, o, plainVerdicts(rs, si, rplain, []string{m.Method}, []Member{h}))
	_ = rs.stop()
	fmt.Fprintf(os.Stderr, "replayed %s [%s]\n  -> status %d ops=%v cors=%v panic=%v; with no auth configured the target dispatches %v\n", m, m.Via, o.Code, o.Ops, o.CORS, o.Panic, r.Op)
}
