package main

import (
	"encoding/base64"
	"regexp"
	"strings"
)

// class is the reference classification of a request, computed from the
// request bytes and the configuration only.
type class struct {
	APIPath      bool
	CarriesBasic bool   // presents the configured password for the configured user (any presentation)
	CarriesToken bool   // presents the configured (non-empty) token (any presentation)
	Standard     string // "basic" / "bearer" when the header is exactly the standard form of a configured secret
}

// RFC 6750 §2.1: b64token = 1*( ALPHA / DIGIT / "-" / "." / "_" / "~" / "+" / "/" ) *"="
var b64token = regexp.MustCompile(`^[A-Za-z0-9\-._~+/]+=*$`)

// candidates returns every piece of an Authorization value that a lenient
// server could take for "the credential": the value, its whitespace-delimited
// fields, and the remainder after each whitespace character.
func candidates(v string) []string {
	out := []string{v, strings.TrimSpace(v)}
	out = append(out, strings.FieldsFunc(v, func(r rune) bool { return r == ' ' || r == '\t' })...)
	for i := 0; i < len(v); i++ {
		if v[i] == ' ' || v[i] == '\t' {
			out = append(out, v[i+1:], strings.TrimLeft(v[i+1:], " \t"))
		}
	}
	return out
}

func basicForms(user, pass string) []string {
	up := user + ":" + pass
	return []string{
		up,
		base64.StdEncoding.EncodeToString([]byte(up)),
		base64.RawStdEncoding.EncodeToString([]byte(up)),
		base64.URLEncoding.EncodeToString([]byte(up)),
		base64.RawURLEncoding.EncodeToString([]byte(up)),
	}
}

func classify(m Member, urlPath, rawPath string) class {
	var c class
	cfg := m.Cfg
	// API path: base path removed, then /api or /api/...
	p, ok := urlPath, true
	if cfg.BasePath != "" {
		ok = strings.HasPrefix(p, cfg.BasePath) && (rawPath == "" || strings.HasPrefix(rawPath, cfg.BasePath))
		p = strings.TrimPrefix(p, cfg.BasePath)
	}
	c.APIPath = ok && (p == "/api" || strings.HasPrefix(p, "/api/"))

	for _, v := range m.Auth {
		cands := candidates(v)
		if cfg.HasBasic {
			forms := basicForms(cfg.User, cfg.Pass)
			for _, cand := range cands {
				for _, f := range forms {
					if cand == f {
						c.CarriesBasic = true
					}
				}
			}
		}
		if cfg.HasToken && cfg.Token != "" {
			for _, cand := range cands {
				if cand == cfg.Token {
					c.CarriesToken = true
				}
			}
		}
	}
	if len(m.Auth) == 1 {
		v := m.Auth[0]
		if cfg.HasBasic && !strings.Contains(cfg.User, ":") &&
			v == "Basic "+base64.StdEncoding.EncodeToString([]byte(cfg.User+":"+cfg.Pass)) {
			c.Standard = "basic"
		}
		if cfg.HasToken && b64token.MatchString(cfg.Token) && v == "Bearer "+cfg.Token {
			c.Standard = "bearer"
		}
	}
	return c
}
