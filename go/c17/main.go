// C17 — no API request gets through without valid credentials when auth is on.
//
// Exhaustive enumeration of the product
//
//	auth configuration x base path x HTTP method x request path x Authorization header
//
// through the real middleware chain, wired exactly as the server wires it
// (internal/frontend/server/server.go: middleware.Setup(Options{Handler: static
// routes, BasePath, Logger, AuthToken, AuthBasic}); gen/restapi/configure_blackdagger.go:
// middleware.SetupGlobalMiddleware(api handler)).  The API handler and the
// static-route handler are replaced by two sentinels; requests are delivered
// with httptest.
//
// The classification of a request (carries a configured secret / standard form
// / API path) is computed from the request bytes and the configuration by the
// reference in oracle.go — never from the labels the enumerator attached.
//
// Family B (real.go, paths.go) adds the path dimension: every route of the
// embedded swagger spec x every spelling of a small grammar (slashes, `.` and
// `..` segments out of every other place of the URL space, percent-encodings,
// case, ;params, early ?, absolute-form) x methods x a none/wrong/right
// credential alphabet x configuration, against the REAL assembled server
// (frontend.New + server.Serve: real chain, real go-swagger router and
// operations), with "reached an API handler" observed directly in front of the
// operation the router dispatched to, and "is this spelling an API route"
// decided by the same server with no auth configured.
package main

import (
	"encoding/json"
	"fmt"
	"net/http"
	"net/http/httptest"
	"os"
	"os/signal"
	"strings"
	"syscall"
	"time"

	"github.com/ErdemOzgen/blackdagger/internal/frontend/middleware"
	"github.com/ErdemOzgen/blackdagger/internal/zzverif/venv"
	"github.com/ErdemOzgen/blackdagger/internal/zzverif/vlib"
)

// Config is one auth configuration of the server.
type Config struct {
	Kind     string `json:"kind"` // none | basic | token | both
	HasBasic bool   `json:"has_basic"`
	User     string `json:"user"`
	Pass     string `json:"pass"`
	HasToken bool   `json:"has_token"`
	Token    string `json:"token"`
	BasePath string `json:"base_path"`
}

func (c Config) String() string {
	s := c.Kind
	if c.HasBasic {
		s += fmt.Sprintf(" basic=%q:%q", c.User, c.Pass)
	}
	if c.HasToken {
		s += fmt.Sprintf(" token=%q", c.Token)
	}
	return s + fmt.Sprintf(" basePath=%q", c.BasePath)
}

// Member is one request under one configuration.
type Member struct {
	Cfg    Config `json:"cfg"`
	Method string `json:"method"`
	Target string `json:"target"` // request-target as on the request line
	// Authorization header values; nil = header absent.  Normally one value
	// = Scheme+Sep+Cred.
	Auth     []string `json:"auth"`
	Scheme   string   `json:"scheme_label"`
	Sep      string   `json:"sep_label"`
	CredKind string   `json:"cred_kind"`
	Group    string   `json:"cred_group"`
	// family B (real assembled server, path spellings); empty for family A
	Family    string `json:"family,omitempty"`
	PathClass string `json:"path_class,omitempty"`
	Variant   string `json:"path_variant,omitempty"`
	Route     string `json:"route,omitempty"`
	Via       string `json:"via,omitempty"` // direct | tcp
}

func (m Member) String() string {
	h := "absent"
	if m.Auth != nil {
		qs := make([]string, len(m.Auth))
		for i, v := range m.Auth {
			qs[i] = fmt.Sprintf("%q", v)
		}
		h = strings.Join(qs, ",")
	}
	return fmt.Sprintf("[%s] %s %q Authorization=%s (%s/%s/%s)", m.Cfg, m.Method, m.Target, h, m.Scheme, m.Sep, m.CredKind)
}

// chain is the assembled real middleware stack for one configuration.
type chain struct {
	h           http.Handler
	apiHits     int
	defaultHits int
}

// build reproduces the server's wiring: Setup stores the configuration in
// package-level variables of the middleware package, SetupGlobalMiddleware
// wraps the API handler.  One configuration at a time per process.
func build(c Config) *chain {
	ch := &chain{}
	api := http.HandlerFunc(func(w http.ResponseWriter, _ *http.Request) {
		ch.apiHits++
		w.Header().Set("X-Verif-Sentinel", "api")
		w.WriteHeader(http.StatusNoContent)
	})
	static := http.HandlerFunc(func(w http.ResponseWriter, _ *http.Request) {
		ch.defaultHits++
		w.Header().Set("X-Verif-Sentinel", "static")
		w.WriteHeader(http.StatusAccepted)
	})
	opts := &middleware.Options{Handler: static, BasePath: c.BasePath, Logger: venv.Quiet}
	if c.HasToken {
		opts.AuthToken = &middleware.AuthToken{Token: c.Token}
	}
	if c.HasBasic {
		opts.AuthBasic = &middleware.AuthBasic{Username: c.User, Password: c.Pass}
	}
	middleware.Setup(opts)
	ch.h = middleware.SetupGlobalMiddleware(api)
	return ch
}

type outcome struct {
	Code        int
	APIHits     int
	DefaultHits int
	Passed      bool // the request got behind the authentication layers
	Panic       any
	URLPath     string
	RawPath     string
}

func (ch *chain) serve(m Member) (o outcome) {
	ch.apiHits, ch.defaultHits = 0, 0
	defer func() {
		if p := recover(); p != nil {
			o.Panic = p
			o.APIHits, o.DefaultHits = ch.apiHits, ch.defaultHits
			o.Passed = ch.apiHits > 0
		}
	}()
	req := httptest.NewRequest(m.Method, m.Target, nil)
	o.URLPath, o.RawPath = req.URL.Path, req.URL.RawPath
	for _, v := range m.Auth {
		req.Header.Add("Authorization", v)
	}
	rec := httptest.NewRecorder()
	ch.h.ServeHTTP(rec, req)
	o.Code = rec.Code
	o.APIHits, o.DefaultHits = ch.apiHits, ch.defaultHits
	o.Passed = ch.apiHits > 0
	// The CORS layer sits *behind* both auth layers and answers every OPTIONS
	// request itself (also with no auth configured), so for OPTIONS "got behind
	// authentication" is observed as "answered by the CORS layer".
	if m.Method == http.MethodOptions && ch.defaultHits == 0 && rec.Code == http.StatusOK &&
		rec.Header().Get("Access-Control-Allow-Origin") != "" && rec.Header().Get("WWW-Authenticate") == "" {
		o.Passed = true
	}
	return o
}

// credClassOf: credential class for signatures — what the header looks like
// relative to the *configured* secrets (the enumerator's group label is
// relative to default secrets when a mechanism is not configured).
func credClassOf(m Member, cl class) string {
	credClass := m.Group
	switch {
	case cl.CarriesBasic:
		credClass = "basic-secret"
	case cl.CarriesToken:
		credClass = "token-secret"
	case strings.HasPrefix(m.Group, "basic-secret") || m.Group == "partial-basic":
		credClass = "wrong-basic-credentials"
	case strings.HasPrefix(m.Group, "token-secret") || m.Group == "partial-token":
		credClass = "wrong-token"
	}
	return credClass
}

type checker struct {
	res     *vlib.Result
	fl      *vlib.Flags
	n       int64
	sampled map[string]bool
	vio     map[string]bool
	// family B: operation id -> route template of the spec
	routeOfOp map[string]string
}

// check runs one member against the chain and applies the oracle.
func (c *checker) check(ch *chain, m Member) {
	res := c.res
	res.Evaluations++
	c.n++
	o := ch.serve(m)
	cl := classify(m, o.URLPath, o.RawPath)
	authOn := m.Cfg.HasBasic || m.Cfg.HasToken
	carries := cl.CarriesBasic || cl.CarriesToken

	if authOn && m.Auth != nil && cl.APIPath {
		res.Nontrivial(vlib.Hash(m.Cfg.String(), m.Method, m.Target, strings.Join(m.Auth, "\x01")))
	}
	credClass := credClassOf(m, cl)
	sig := func(kind string) string {
		return fmt.Sprintf("C17/%s/cfg=%s/scheme=%s/cred=%s", kind, m.Cfg.Kind, m.Scheme, credClass)
	}
	desc := func() string {
		return fmt.Sprintf("%s -> status %d, api handler hits %d, static handler hits %d, passed=%v; reference: apiPath=%v carriesBasic=%v carriesToken=%v standard=%q",
			m, o.Code, o.APIHits, o.DefaultHits, o.Passed, cl.APIPath, cl.CarriesBasic, cl.CarriesToken, cl.Standard)
	}
	violate := func(kind, detail string) {
		s := sig(kind)
		if c.vio[s] {
			res.Count("vio:"+s, 1) // further members of the same class are counted, one replay per class and shard is kept
			return
		}
		c.vio[s] = true
		res.Violate(s, detail, m)
	}
	if o.Panic != nil {
		violate("panic", fmt.Sprintf("%s; panic: %v", desc(), o.Panic))
		return
	}
	cls := ""
	switch {
	case !authOn:
		res.Count("class:no-auth-configured", 1)
		cls = "no-auth"
	case !cl.APIPath:
		res.Count("class:not-an-api-path", 1)
		if carries {
			cls = "not-an-api-path"
		}
	case cl.Standard != "":
		res.Count("class:standard-form-correct", 1)
		cls = "standard-form-correct"
	case carries:
		res.Count("class:dont-care(non-standard presentation of a correct secret)", 1)
		if o.Passed {
			res.Count("dont-care:passed", 1)
			cls = "dont-care-passed"
		} else {
			res.Count("dont-care:refused", 1)
			cls = "dont-care-refused"
		}
	default:
		res.Count("class:no-secret-presented", 1)
		cls = "no-secret-presented"
	}
	if cls != "" && !c.sampled[cls] && (m.Auth != nil || cls == "no-auth") {
		c.sampled[cls] = true
		res.Sample(map[string]any{"class": cls, "member": m.String(), "status": o.Code, "api_handler_reached": o.APIHits > 0, "passed_auth": o.Passed,
			"carries_basic": cl.CarriesBasic, "carries_token": cl.CarriesToken, "standard_form": cl.Standard, "api_path": cl.APIPath})
	}

	// (1) no bypass — for every path, API or not: getting behind authentication
	//     (in particular reaching the API handler) needs a configured secret.
	if authOn && o.Passed && !carries {
		violate("bypass", desc())
		return
	}
	if !cl.APIPath {
		return
	}
	// (2) standard-form correct credentials (and every request when no auth is
	//     configured) reach the API handler.
	if (!authOn || cl.Standard != "") && !o.Passed {
		k := "valid-refused"
		if !authOn {
			k = "refused-without-auth-configured"
		} else {
			credClass = "standard-" + cl.Standard
		}
		violate(k, desc())
		return
	}
	// (3) presenting neither secret is answered 401 (and, by (1), has no effect).
	if authOn && !carries && o.Code != http.StatusUnauthorized {
		violate("not-401", desc())
	}
}

func main() {
	// server.Serve (family B) installs its own SIGINT/SIGTERM handling, which
	// would otherwise keep this process alive on those signals
	sigc := make(chan os.Signal, 1)
	signal.Notify(sigc, syscall.SIGINT, syscall.SIGTERM, syscall.SIGHUP, syscall.SIGQUIT)
	go func() { <-sigc; os.Exit(130) }()
	fl := vlib.ParseFlags()
	res := vlib.New("c17")
	c := &checker{res: res, fl: fl, sampled: map[string]bool{}, vio: map[string]bool{}}

	if fl.Replay != "" {
		var rp struct {
			Replay Member `json:"replay"`
		}
		b, err := os.ReadFile(fl.Replay)
		if err == nil {
			err = json.Unmarshal(b, &rp)
		}
		if err != nil || rp.Replay.Method == "" {
			fmt.Fprintln(os.Stderr, "replay: cannot read member:", err)
			os.Exit(2)
		}
		m := rp.Replay
		if m.Family == "real" {
			c.replayReal(m, family(true))
			for _, v := range res.Violations {
				fmt.Fprintf(os.Stderr, "  %s\n", v.Signature)
			}
			fmt.Fprintf(os.Stderr, "  %d violation(s)\n", len(res.Violations))
			res.Write(fl.Out)
			os.RemoveAll(fl.Work)
			return
		}
		ch := build(m.Cfg)
		o := ch.serve(m)
		c.check(ch, m)
		fmt.Fprintf(os.Stderr, "replayed %s\n  -> status %d apiHits=%d staticHits=%d passed=%v panic=%v: %d violation(s)\n",
			m, o.Code, o.APIHits, o.DefaultHits, o.Passed, o.Panic, len(res.Violations))
		for _, v := range res.Violations {
			fmt.Fprintf(os.Stderr, "  %s\n", v.Signature)
		}
		res.Write(fl.Out)
		os.RemoveAll(fl.Work)
		return
	}

	fam := family(fl.Thorough())
	tA := time.Now()
	block := 0
	var maxHdrs int64
	for _, cfg := range fam.configs {
		hdrs := headers(cfg, fam)
		maxHdrs = max64(maxHdrs, int64(len(hdrs)))
		var ch *chain
		for _, method := range fam.methods {
			for _, target := range targets(cfg.BasePath, fam.paths) {
				block++
				if !fl.Mine(block) {
					continue
				}
				if ch == nil {
					ch = build(cfg) // package-level configuration: one at a time
				}
				for _, h := range hdrs {
					m := h
					m.Cfg, m.Method, m.Target = cfg, method, target
					c.check(ch, m)
				}
			}
		}
	}
	blocksA := block
	tB := time.Now()
	res.Count("A:wall_ms(sum over shards)", time.Since(tA).Milliseconds())
	c.runReal(fam, &block)
	res.Count("B:wall_ms(sum over shards)", time.Since(tB).Milliseconds())
	res.Bounds["configurations"] = len(fam.configs)
	res.Bounds["headers_per_configuration_max"] = maxHdrs
	res.Bounds["basic_secrets"] = fmt.Sprint(fam.basics)
	res.Bounds["token_secrets"] = fmt.Sprintf("%q", fam.tokens)
	res.Bounds["base_paths"] = fmt.Sprintf("%q", fam.bases)
	res.Bounds["methods"] = fmt.Sprint(fam.methods)
	res.Bounds["paths"] = fmt.Sprintf("%q", fam.paths)
	res.Bounds["schemes"] = fmt.Sprintf("%q", fam.schemes)
	res.Bounds["separators"] = fmt.Sprintf("%q", fam.seps)
	res.Bounds["blocks(config x method x target)"] = blocksA
	res.Bounds["B:blocks(base path x target)"] = block - blocksA
	res.Rule = "family A: full product configuration x base path x method x request-target x Authorization header (absent | scheme x separator x credential variant, de-duplicated by header bytes per configuration), every member served by the real chain middleware.Setup + SetupGlobalMiddleware with sentinel handlers; distinct = distinct (configuration, method, target, header bytes); non-trivial = auth configured, Authorization header present, API path. " +
		"family B: full product (configuration from the core secrets) x base path x method x (route of the embedded spec x spelling of the path grammar, de-duplicated by target bytes) x credential alphabet (absent | wrong / right / other-scheme / bare, per scheme), every member written as raw HTTP/1.1 bytes, parsed by net/http's request parser and served by the handler of the real running server (frontend.New + server.Serve); the absent-header and standard-Basic members under the first none and first both configuration additionally over the server's TCP listener; non-trivial = auth configured, spelling other than plain, resolved to an operation by the router"
	res.Assume("wiring: middleware.Setup(Options{Handler: static sentinel, BasePath, Logger, AuthToken, AuthBasic}) + middleware.SetupGlobalMiddleware(api sentinel), as server.Serve / configureAPI do; requests are handed to the handler by httptest (no TCP listener, so net/http's wire-level header trimming is not in the loop)")
	res.Assume("'API path' = after removing the configured base path the URL path is /api or starts with /api/ (the swagger base path is /api/v1); for other paths (static routes, paths outside the base path, the / redirect) only 'the API handler is not reached without a configured secret' is asserted")
	res.Assume("a request 'presents' a secret when a whitespace-delimited field, or the remainder after any whitespace, of an Authorization value equals the configured token, or equals user:password in plain or any base64 alphabet; only `Basic <std-base64(user:password)>` and `Bearer <token>` count as standard form; everything else that presents a correct secret is don't-care")
	res.Assume("an empty configured token, or one outside the RFC 6750 b64token alphabet (e.g. containing a space), has no standard presentation: only 'no bypass' is asserted for it")
	res.Assume("family B: the server is frontend.New(config) started by server.Serve on 127.0.0.1:0 with a real client over an empty scratch installation; an overlay file in package server (go_inpkg/c17) only sets the base-path field New would set from NewServerArgs.BasePath (frontend.New forwards no base path), appends one more server.Handler (the recorder) and reads the running handler / port")
	res.Assume("family B: 'reaches an API handler' = the go-swagger router dispatched the request to an operation: a recorder wrapped around every operation of the spec with api.AddMiddlewareFor (behind the route lookup, in front of bind / validate / handle) ran; it then calls the real operation. For OPTIONS (answered by the CORS layer behind authentication, never routed): the CORS answer, for targets that some method resolves to an operation")
	res.Assume("family B: 'the spelling is an API route' is decided by the real server itself: the same bytes under the configuration without auth and the same base path dispatch an operation; 401 is demanded only for those, reaching an operation without a secret is a violation for every spelling")
	res.Assume("family B: bulk delivery hands the request parsed by http.ReadRequest (the server's own parser) to the running server's handler; the over-TCP sub-family must give the same status and dispatch (else CHECK-ERROR)")
	res.Assume("family B: a violation that the plain spelling of the route the request lands on shows as well (same configuration, method, header) is reported under path-class=plain")
	res.Assume("OPTIONS: the CORS layer behind the auth layers answers every OPTIONS request itself (200 + Access-Control-Allow-Origin) also with no auth configured; that answer is what counts as 'reached' for OPTIONS")
	res.Write(fl.Out)
	os.RemoveAll(fl.Work)
}

func max64(a, b int64) int64 {
	if a > b {
		return a
	}
	return b
}
