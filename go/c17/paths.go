package main

// Path-spelling family ("family B"): every API route of the embedded swagger
// spec, written in every spelling of a small grammar, to be sent to the real
// assembled server byte-for-byte.

import (
	"fmt"
	"sort"
	"strings"

	"github.com/ErdemOzgen/blackdagger/internal/frontend/gen/restapi"
	"github.com/go-openapi/loads"
)

// apiRoute is one path template of the spec.
type apiRoute struct {
	Template string            `json:"template"` // e.g. /dags/{dagId}
	Segs     []string          `json:"segs"`     // concrete segments, path parameters instantiated with "x"
	Fixed    []bool            `json:"fixed"`    // segment i is literal text of the template
	Query    string            `json:"query"`    // "?q=x": the required query parameters
	Ops      map[string]string `json:"ops"`      // METHOD -> operation id
}

type specInfo struct {
	BaseSegs []string // segments of the spec's basePath (/api/v1)
	Routes   []apiRoute
	First    []string // distinct first segments of the routes
}

// loadSpec enumerates the routes from the spec embedded in the generated
// server (the same document server.Serve analyses).
func loadSpec() (*specInfo, error) {
	doc, err := loads.Analyzed(restapi.SwaggerJSON, "")
	if err != nil {
		return nil, err
	}
	si := &specInfo{BaseSegs: splitSegs(doc.BasePath())}
	ops := doc.Analyzer.Operations() // METHOD -> path -> op
	byPath := map[string]*apiRoute{}
	var methods []string
	for m := range ops {
		methods = append(methods, m)
	}
	sort.Strings(methods)
	for _, m := range methods {
		var paths []string
		for p := range ops[m] {
			paths = append(paths, p)
		}
		sort.Strings(paths)
		for _, p := range paths {
			op := ops[m][p]
			r := byPath[p]
			if r == nil {
				r = &apiRoute{Template: p, Ops: map[string]string{}}
				for _, s := range splitSegs(p) {
					if strings.HasPrefix(s, "{") && strings.HasSuffix(s, "}") {
						r.Segs, r.Fixed = append(r.Segs, "x"), append(r.Fixed, false)
					} else {
						r.Segs, r.Fixed = append(r.Segs, s), append(r.Fixed, true)
					}
				}
				byPath[p] = r
			}
			r.Ops[strings.ToUpper(m)] = op.ID
			var q []string
			for _, prm := range doc.Analyzer.ParamsFor(m, p) {
				if prm.In == "query" && prm.Required {
					q = append(q, prm.Name+"=x")
				}
			}
			sort.Strings(q)
			if len(q) > 0 && r.Query == "" {
				r.Query = "?" + strings.Join(q, "&")
			}
		}
	}
	var tpl []string
	for p := range byPath {
		tpl = append(tpl, p)
	}
	sort.Strings(tpl)
	seen := map[string]bool{}
	for _, p := range tpl {
		r := byPath[p]
		si.Routes = append(si.Routes, *r)
		if len(r.Segs) > 0 && !seen[r.Segs[0]] {
			seen[r.Segs[0]] = true
			si.First = append(si.First, r.Segs[0])
		}
	}
	if len(si.Routes) == 0 || len(si.BaseSegs) == 0 {
		return nil, fmt.Errorf("embedded spec has no routes or no base path")
	}
	return si, nil
}

func splitSegs(p string) []string {
	var out []string
	for _, s := range strings.Split(p, "/") {
		if s != "" {
			out = append(out, s)
		}
	}
	return out
}

func join(segs []string) string { return "/" + strings.Join(segs, "/") }

func cat(parts ...[]string) []string {
	var out []string
	for _, p := range parts {
		out = append(out, p...)
	}
	return out
}

func insert(segs []string, i int, add ...string) []string {
	out := append([]string{}, segs[:i]...)
	out = append(out, add...)
	return append(out, segs[i:]...)
}

// prefix is a first-level place of the server's URL space that is NOT the
// route itself: a `..` spelling climbs out of it and back into the route.
type prefix struct {
	Name string
	Segs []string // relative to the configured base path
}

// prefixes: everything go-swagger serves next to the operations (UI, its
// OAuth2 callback, the spec document — go-openapi/runtime's defaults below the
// spec's base path), every first-level segment and every concrete route of the
// spec, the parents of the API, and the static routes of
// internal/frontend/server/routes.go (/assets/*, /* = the UI page).
func (si *specInfo) prefixes() []prefix {
	api := si.BaseSegs
	ps := []prefix{
		{"docs", cat(api, []string{"docs"})},
		{"swagger.json", cat(api, []string{"swagger.json"})},
		{"docs-oauth2-callback", cat(api, []string{"docs", "oauth2-callback"})},
	}
	for _, f := range si.First {
		ps = append(ps, prefix{"api-" + f, cat(api, []string{f})})
	}
	for _, r := range si.Routes {
		if len(r.Segs) > 1 {
			ps = append(ps, prefix{"api-" + strings.Join(r.Segs, "-"), cat(api, r.Segs)})
		}
	}
	ps = append(ps, prefix{"api-unknown", cat(api, []string{"zz"})})
	for i := len(api); i >= 1; i-- {
		ps = append(ps, prefix{"api-parent-" + fmt.Sprint(i), append([]string{}, api[:i]...)})
	}
	ps = append(ps,
		prefix{"api-other-version", cat(api[:len(api)-1], []string{"zz"})},
		prefix{"assets", []string{"assets"}},
		prefix{"assets-file", []string{"assets", "x.js"}},
		prefix{"root-swagger.json", []string{"swagger.json"}},
		prefix{"ui-page", []string{"dags"}},
		prefix{"ui-unknown", []string{"zz"}},
	)
	return ps
}

// spelling is one request-target together with the class of the grammar
// production that wrote it.
type spelling struct {
	Class   string
	Variant string
	Target  string
	Route   string
}

func upper(s string) string { return strings.ToUpper(s) }

func pctFirst(s string, upperHex bool) string {
	if s == "" {
		return s
	}
	f := "%%%02x"
	if upperHex {
		f = "%%%02X"
	}
	return fmt.Sprintf(f, s[0]) + s[1:]
}

// climb writes "P/../.. /rest": out of prefix p (below base) and back into
// the route.  minimal: only up to the deepest common ancestor of p and the
// route; otherwise all the way to the base path's root.
func climb(p prefix, route []string, minimal bool, dd string, sepBefore, sepAfter string) (string, bool) {
	common := 0
	if minimal {
		for common < len(p.Segs) && common < len(route) && p.Segs[common] == route[common] {
			common++
		}
		if common == len(p.Segs) { // p is an ancestor of the route (or the route): step out of its last segment and back in
			common--
		}
	}
	k := len(p.Segs) - common
	if k <= 0 || common > len(route) {
		return "", false
	}
	var b strings.Builder
	b.WriteString(join(p.Segs))
	for i := 0; i < k; i++ {
		b.WriteString(sepBefore + dd)
	}
	if rest := route[common:]; len(rest) > 0 { // (p deeper than the route: "/api/v1/dags/x/.." is the route /api/v1/dags)
		b.WriteString(sepAfter + strings.Join(rest, "/"))
	}
	return b.String(), true
}

// spellings enumerates the grammar for one route under one base path.
// Everything is deterministic; duplicates (same target bytes) keep the first
// class.
func (si *specInfo) spellings(base string, r apiRoute, thorough bool) []spelling {
	var out []spelling
	bs := splitSegs(base)
	route := cat(si.BaseSegs, r.Segs) // below the base path
	fixed := make([]bool, 0, len(bs)+len(route))
	for range bs {
		fixed = append(fixed, true)
	}
	for range si.BaseSegs {
		fixed = append(fixed, true)
	}
	fixed = append(fixed, r.Fixed...)
	q := r.Query
	add := func(class, variant, path string) {
		out = append(out, spelling{Class: class, Variant: variant, Target: path + q, Route: r.Template})
	}
	addRaw := func(class, variant, target string) {
		out = append(out, spelling{Class: class, Variant: variant, Target: target, Route: r.Template})
	}

	emit := func(pre string, bs []string) {
		all := cat(bs, route)
		n := len(all)
		baseStr := ""
		if len(bs) > 0 {
			baseStr = join(bs)
		}
		reduced := pre != "" // outside the base path: core classes only (plain, trailing slash, one `..` out of every prefix)
		add(pre+"plain", "", join(all))
		add(pre+"trailing-slash", "", join(all)+"/")
		if !reduced {
			for i := 0; i < n; i++ {
				add(pre+"double-slash", fmt.Sprint("@", i), join(insert(all, i, "")))
			}
			if thorough {
				add(pre+"double-slash", "@all", "/"+strings.Join(all, "//"))
				add(pre+"double-slash", "@end2", join(all)+"//")
				add(pre+"double-slash", "@0x3", "//"+join(all))
			}
			for i := 0; i <= n; i++ {
				add(pre+"dot-segment", fmt.Sprint("@", i), join(insert(all, i, ".")))
				add(pre+"pct-dot-segment", fmt.Sprint("@", i), join(insert(all, i, "%2e")))
				if thorough {
					add(pre+"pct-dot-segment", fmt.Sprint("upper@", i), join(insert(all, i, "%2E")))
				}
			}
			for i := 0; i <= n; i++ {
				add(pre+"dotdot-via-unknown", fmt.Sprint("@", i), join(insert(all, i, "zz", "..")))
				if thorough {
					add(pre+"pct-dotdot-via-unknown", fmt.Sprint("@", i), join(insert(all, i, "zz", "%2e%2e")))
					add(pre+"dotdot-via-unknown", fmt.Sprint("2@", i), join(insert(all, i, "zz", "yy", "..", "..")))
				}
			}
			for i := 1; i <= n; i++ {
				add(pre+"dotdot-repeat-own-segment", fmt.Sprint("@", i), join(insert(all, i, "..", all[i-1])))
			}
			add(pre+"dotdot-over-root", "1", "/.."+join(all))
			add(pre+"dotdot-over-root", "2", "/../.."+join(all))
			add(pre+"dotdot-over-root", "mid", join(insert(all, 1, "..", "..", all[0])))
		}
		// out of every other first-level place and back into the route
		for _, p := range si.prefixes() {
			cls := "dotdot-out-of-" + p.Name
			for _, minimal := range []bool{true, false} {
				v := "full"
				if minimal {
					v = "min"
				}
				if s, ok := climb(p, route, minimal, "..", "/", "/"); ok {
					add(pre+cls, v, baseStr+s)
				}
				if reduced {
					break
				}
				if s, ok := climb(p, route, minimal, "..", "/", "//"); ok {
					add(pre+cls, v+"+double-slash", baseStr+s)
				}
			}
			if reduced {
				continue
			}
			if len(bs) > 0 && thorough {
				// ... and out of the base path as well
				pp := prefix{p.Name, cat(bs, p.Segs)}
				if s, ok := climb(pp, all, false, "..", "/", "/"); ok {
					add(pre+cls, "through-base", s)
				}
			}
			dds := []string{"%2e%2e", ".%2e"}
			if thorough {
				dds = append(dds, "%2E%2E", "%2e.", "%252e%252e")
			}
			for _, dd := range dds {
				if s, ok := climb(p, route, true, dd, "/", "/"); ok {
					add(pre+"pct-"+cls, dd, baseStr+s)
				}
			}
			slashes := []string{"%2f"}
			if thorough {
				slashes = append(slashes, "%2F", "%5c", "\\")
			}
			for _, sl := range slashes {
				if s, ok := climb(p, route, true, "..", sl, "/"); ok {
					add(pre+"pct-slash-"+cls, sl+"-before", baseStr+s)
				}
				if s, ok := climb(p, route, true, "..", "/", sl); ok {
					add(pre+"pct-slash-"+cls, sl+"-after", baseStr+s)
				}
				if s, ok := climb(p, route, true, "..", sl, sl); ok {
					add(pre+"pct-slash-"+cls, sl+"-both", baseStr+s)
				}
			}
			// oddities on the way out: ;params, an early ?, a fragment mark, a NUL
			if s, ok := climb(p, route, true, "..", ";/", "/"); ok {
				add(pre+"semicolon-"+cls, "param-on-prefix", baseStr+s)
			}
			if s, ok := climb(p, route, true, "..;", "/", "/"); ok {
				add(pre+"semicolon-"+cls, "param-on-dotdot", baseStr+s)
			}
			if s, ok := climb(p, route, true, "..", "?/", "/"); ok {
				addRaw(pre+"question-"+cls, "query-starts-after-prefix", baseStr+s)
			}
			if s, ok := climb(p, route, true, "..", "/", "?/"); ok {
				addRaw(pre+"question-"+cls, "query-starts-after-dotdot", baseStr+s)
			}
			if thorough {
				if s, ok := climb(p, route, true, "..", "#/", "/"); ok {
					add(pre+"fragment-"+cls, "", baseStr+s)
				}
				if s, ok := climb(p, route, true, "..", "%00/", "/"); ok {
					add(pre+"nul-"+cls, "", baseStr+s)
				}
				// two hops: out of the route's own first segment into p, and back
				if len(r.Segs) > 0 && len(p.Segs) > len(si.BaseSegs) && strings.Join(p.Segs[:len(si.BaseSegs)], "/") == strings.Join(si.BaseSegs, "/") {
					hop := cat(si.BaseSegs, []string{r.Segs[0], ".."}, p.Segs[len(si.BaseSegs):])
					for range p.Segs[len(si.BaseSegs):] {
						hop = append(hop, "..")
					}
					add(pre+"dotdot-double-hop-"+p.Name, "", baseStr+join(cat(hop, r.Segs)))
				}
			}
		}
		if reduced {
			return
		}
		// decoys: the value of a path parameter named like, or (once percent-decoded
		// and cleaned) climbing to, each of the other places — the router takes it
		// as the parameter of the operation
		for pi := range r.Segs {
			if r.Fixed[pi] {
				continue
			}
			at := len(bs) + len(si.BaseSegs) + pi // index of the parameter in all
			for _, p := range si.prefixes() {
				last := p.Segs[len(p.Segs)-1]
				c := append([]string{}, all...)
				c[at] = last
				add(pre+"param-named-like-"+p.Name, "", join(c))
				slashes := []string{"%2f"}
				if thorough {
					slashes = append(slashes, "%2F", "%5c")
				}
				for _, sl := range slashes {
					// from the parameter's directory up to the base path's root, then down to p
					val := strings.Repeat(".."+sl, len(si.BaseSegs)+pi) + strings.Join(p.Segs, sl)
					c := append([]string{}, all...)
					c[at] = val
					add(pre+"param-decoy-"+p.Name, sl, join(c))
					if thorough {
						c = append([]string{}, all...)
						c[at] = strings.ReplaceAll(val, "..", "%2e%2e")
						add(pre+"param-decoy-"+p.Name, sl+"+%2e%2e", join(c))
					}
				}
			}
		}
		// percent-encoded slash / letter, case
		for i := 1; i < n; i++ {
			add(pre+"pct-slash", fmt.Sprint("%2f@", i), join(all[:i])+"%2f"+strings.Join(all[i:], "/"))
			if thorough {
				add(pre+"pct-slash", fmt.Sprint("%2F@", i), join(all[:i])+"%2F"+strings.Join(all[i:], "/"))
			}
		}
		add(pre+"pct-slash", "%2f@0", "/%2f"+strings.Join(all, "/"))
		for i := 0; i < n; i++ {
			if !fixed[len(fixed)-n+i] {
				continue
			}
			c := append([]string{}, all...)
			c[i] = pctFirst(all[i], false)
			add(pre+"pct-letter", fmt.Sprint("@", i), join(c))
			c = append([]string{}, all...)
			c[i] = upper(all[i])
			add(pre+"case", fmt.Sprint("upper@", i), join(c))
			if thorough {
				c = append([]string{}, all...)
				c[i] = upper(all[i][:1]) + all[i][1:]
				add(pre+"case", fmt.Sprint("capital@", i), join(c))
			}
		}
		c := make([]string, n)
		for i := range all {
			c[i] = all[i]
			if fixed[len(fixed)-n+i] {
				c[i] = upper(all[i])
			}
		}
		add(pre+"case", "upper@all", join(c))
		// semicolon / ? / absolute-form oddities on the plain spelling
		for i := 0; i < n; i++ {
			c := append([]string{}, all...)
			c[i] = all[i] + ";x=1"
			add(pre+"semicolon", fmt.Sprint("param@", i), join(c))
		}
		add(pre+"semicolon", "segment", join(insert(all, n, ";")))
		addRaw(pre+"question", "empty-query", join(all)+"?")
		addRaw(pre+"question", "dotdot-in-query", join(all)+"?x=/../docs"+strings.Replace(q, "?", "&", 1))
		addRaw(pre+"question", "early", join(all[:n-1])+"?/"+all[n-1])
		add(pre+"absolute-form", "plain", "http://verif"+join(all))
		if s, ok := climb(si.prefixes()[0], route, true, "..", "/", "/"); ok {
			add(pre+"absolute-form", "dotdot-out-of-docs", "http://verif"+baseStr+s)
		}
		if thorough {
			add(pre+"backslash", "", "/"+strings.Join(all, "\\"))
			add(pre+"absolute-form", "other-scheme", "zz://verif"+join(all))
		}
	}
	emit("", bs)
	if len(bs) > 0 {
		// the same route spelled as if no base path were configured
		emit("outside-base:", nil)
	}
	return out
}

// pathTargets is the B family's path dimension for one base path: all routes
// x all spellings, de-duplicated by target bytes (first class wins).
func (si *specInfo) pathTargets(base string, thorough bool) []spelling {
	var out []spelling
	seen := map[string]bool{}
	for _, r := range si.Routes {
		for _, s := range si.spellings(base, r, thorough) {
			if seen[s.Target] {
				continue
			}
			seen[s.Target] = true
			out = append(out, s)
		}
	}
	return out
}
