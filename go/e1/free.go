package main

import (
	"bytes"
	"context"
	"encoding/json"
	"fmt"
	"os"
	"os/exec"
	"path/filepath"
	"sort"
	"strconv"
	"strings"
	"time"

	"github.com/ErdemOzgen/blackdagger/internal/dag"
	"github.com/ErdemOzgen/blackdagger/internal/dag/scheduler"
	"github.com/ErdemOzgen/blackdagger/internal/zzverif/venv"
	"github.com/ErdemOzgen/blackdagger/internal/zzverif/vexec"
)

// Conformance ("binding the model to the implementation"): the un-instrumented
// twin of this binary (real goroutines, real sync/time, the scheduler's real
// 100 ms pause) runs one configuration freely — once with the scripted
// executor, once with real `sh` child processes through the real
// commandExecutor — and reports the outcome key; the exploring process checks
// that the key is one of the outcomes it enumerated for that configuration.

type freeOut struct {
	Key   string `json:"key"`
	Final string `json:"final"`
	Err   string `json:"err,omitempty"`
}

// outcomeKey must be computed identically by the explorer and by the free run.
func outcomeKey(nodes []NodeFinal, handlers map[string]NodeFinal, status string, attempts map[string]int, handlerOrder []string) string {
	var parts []string
	for _, n := range nodes {
		parts = append(parts, fmt.Sprintf("%s=%s/r%d", n.Name, n.Status, n.RetryCount))
	}
	var hs []string
	for k, n := range handlers {
		hs = append(hs, k+"="+n.Status)
	}
	sort.Strings(hs)
	var at []string
	for k, v := range attempts {
		if v > 0 {
			at = append(at, fmt.Sprintf("%s:%d", k, v))
		}
	}
	sort.Strings(at)
	return strings.Join(parts, " ") + "|" + strings.Join(hs, " ") + "|run=" + status + "|" + strings.Join(at, ",") + "|" + strings.Join(handlerOrder, ">")
}

func (x *Exec) outcomeKey() string {
	attempts := map[string]int{}
	var order []string
	for _, e := range x.Events {
		if e.Kind == "start" {
			attempts[e.Step]++
			if handlerNames[e.Step] {
				order = append(order, e.Step)
			}
		}
	}
	return outcomeKey(x.Nodes, x.Handlers, x.Status, attempts, order)
}

// runFree executes cfg without the cooperative runtime. real=true: steps are real sh processes.
func runFree(cfg *Config, work string, real bool) freeOut {
	logDir := filepath.Join(work, "logs")
	_ = os.MkdirAll(logDir, 0o755)
	steps, scripts := buildSteps(cfg)
	trace := filepath.Join(work, "trace")
	mkReal := func(name string, sc *vexec.Script) dag.Step {
		// attempt counter in a file; exit 1 for the first Fail attempts (always when Fail < 0)
		cnt := filepath.Join(work, "cnt-"+name)
		fail := sc.Fail
		if fail < 0 {
			fail = 1 << 20
		}
		dur := ""
		if sc.DurMs > 0 {
			dur = fmt.Sprintf("sleep %d.%03d; ", sc.DurMs/1000, sc.DurMs%1000)
		}
		script := fmt.Sprintf(`n=$(cat %q 2>/dev/null || echo 0); n=$((n+1)); echo $n > %q; echo "%s $n" >> %q; %s[ $n -gt %d ]`, cnt, cnt, name, trace, dur, fail)
		return dag.Step{Name: name, Command: "sh", Args: []string{"-c", script}}
	}
	if real {
		for i := range steps {
			s := mkReal(steps[i].Name, scripts[steps[i].Name])
			s.Depends, s.ContinueOn, s.RetryPolicy, s.Preconditions = steps[i].Depends, steps[i].ContinueOn, steps[i].RetryPolicy, steps[i].Preconditions
			s.Dir = work
			steps[i] = s
		}
	}
	hstep := func(name string) *dag.Step {
		if _, ok := cfg.Handlers[name]; !ok {
			return nil
		}
		if real {
			s := mkReal(name, scripts[name])
			s.Dir = work
			return &s
		}
		s := vexec.Step(name)
		return &s
	}
	world := vexec.NewWorld(scripts)
	g, err := scheduler.NewExecutionGraph(venv.Quiet, steps...)
	if err != nil {
		return freeOut{Err: err.Error()}
	}
	sc := scheduler.New(&scheduler.Config{LogDir: logDir, Logger: venv.Quiet, MaxActiveRuns: cfg.MaxActive,
		Timeout: time.Duration(cfg.TimeoutMs) * time.Millisecond, Delay: time.Duration(cfg.DelayMs) * time.Millisecond,
		OnExit: hstep("onExit"), OnSuccess: hstep("onSuccess"), OnFailure: hstep("onFailure"), OnCancel: hstep("onCancel"), ReqID: "req"})
	d := &dag.DAG{Name: "prog", Location: filepath.Join(work, "prog.yaml")}
	ctx := dag.NewContext(context.Background(), d, nil, "req", "")
	var done chan *scheduler.Node
	if !cfg.DoneNil {
		done = make(chan *scheduler.Node)
		go func() {
			for range done {
			}
		}()
	}
	errc := make(chan error, 1)
	go func() { errc <- sc.Schedule(ctx, g, done) }()
	select {
	case <-errc:
	case <-time.After(120 * time.Second):
		return freeOut{Err: "free run did not end within 120 s"}
	}
	if done != nil {
		close(done)
	}
	var nodes []NodeFinal
	for _, n := range g.Nodes() {
		nodes = append(nodes, final(n))
	}
	handlers := map[string]NodeFinal{}
	for _, h := range []dag.HandlerType{dag.HandlerOnSuccess, dag.HandlerOnFailure, dag.HandlerOnCancel, dag.HandlerOnExit} {
		if n := sc.HandlerNode(h); n != nil {
			handlers[string(h)] = final(n)
		}
	}
	attempts := map[string]int{}
	var order []string
	if real {
		b, _ := os.ReadFile(trace)
		for _, l := range strings.Split(strings.TrimSpace(string(b)), "\n") {
			f := strings.Fields(l)
			if len(f) == 2 {
				n, _ := strconv.Atoi(f[1])
				if n > attempts[f[0]] {
					attempts[f[0]] = n
				}
				if handlerNames[f[0]] {
					order = append(order, f[0])
				}
			}
		}
	} else {
		for _, e := range world.Snapshot() {
			if e.Kind == "start" {
				attempts[e.Step]++
				if handlerNames[e.Step] {
					order = append(order, e.Step)
				}
			}
		}
	}
	status := sc.Status(g).String()
	return freeOut{Key: outcomeKey(nodes, handlers, status, attempts, order), Final: fmt.Sprint(nodes)}
}

// freeMain: `e1-free -free <config.json> [-real]` prints a freeOut.
func freeMain(cfgFile string, real bool, work string) {
	b, err := os.ReadFile(cfgFile)
	var cfg Config
	if err == nil {
		err = json.Unmarshal(b, &cfg)
	}
	if err != nil {
		fmt.Fprintln(os.Stderr, "free:", err)
		os.Exit(2)
	}
	out := runFree(&cfg, work, real)
	_ = json.NewEncoder(os.Stdout).Encode(out)
}

// racePass runs cfg freely under the race detector (the cooperative hand-offs hide races from it) and returns
// the number of reports and the top of the first one. Informational: unsynchronised accesses are a stated limit.
func racePass(cfg *Config, work string) (int, string, error) {
	helper := os.Getenv("VERIF_HELPER_E1_FREE_RACE")
	if helper == "" {
		return 0, "", fmt.Errorf("no race twin built")
	}
	dir, _ := os.MkdirTemp(work, "race-")
	defer os.RemoveAll(dir)
	cf := filepath.Join(dir, "cfg.json")
	b, _ := json.Marshal(cfg)
	_ = os.WriteFile(cf, b, 0o644)
	cmd := exec.Command(helper, "-work", dir, "-free", cf)
	cmd.Env = []string{"GOMAXPROCS=4", "PATH=" + os.Getenv("PATH"), "HOME=" + os.Getenv("HOME"), "TZ=UTC", "LANG=C", "GORACE=halt_on_error=0 exitcode=0"}
	var so, se bytes.Buffer
	cmd.Stdout, cmd.Stderr = &so, &se
	if e := cmd.Run(); e != nil {
		return 0, "", fmt.Errorf("race twin failed: %v: %s", e, firstLines(se.String(), 10))
	}
	out := se.String()
	n := strings.Count(out, "WARNING: DATA RACE")
	first := ""
	if i := strings.Index(out, "WARNING: DATA RACE"); i >= 0 {
		var keep []string
		for _, l := range strings.Split(out[i:], "\n") {
			if strings.Contains(l, "internal/") && !strings.Contains(l, "zzverif") {
				keep = append(keep, strings.TrimSpace(l))
			}
			if len(keep) >= 4 {
				break
			}
		}
		first = strings.Join(keep, " | ")
	}
	return n, first, nil
}

// conform asks the free-running twin for the outcome of cfg and checks membership.
func conform(cfg *Config, outcomes map[string]struct{}, work string, real bool) (ok bool, key string, err error) {
	helper := os.Getenv("VERIF_HELPER_E1_FREE")
	if helper == "" {
		return false, "", fmt.Errorf("no free-running twin built")
	}
	dir, _ := os.MkdirTemp(work, "free-")
	defer os.RemoveAll(dir)
	cf := filepath.Join(dir, "cfg.json")
	b, _ := json.Marshal(cfg)
	_ = os.WriteFile(cf, b, 0o644)
	args := []string{"-work", dir, "-free", cf}
	if real {
		args = append(args, "-real")
	}
	cmd := exec.Command(helper, args...)
	// a minimal environment: the exploring process accumulates STEP_<id>_DAG_EXECUTION_LOG_PATH variables
	cmd.Env = []string{"GOMAXPROCS=4", "PATH=" + os.Getenv("PATH"), "HOME=" + os.Getenv("HOME"), "TZ=UTC", "LANG=C"}
	var so, se bytes.Buffer
	cmd.Stdout, cmd.Stderr = &so, &se
	if e := cmd.Run(); e != nil {
		return false, "", fmt.Errorf("free twin failed: %v: %s", e, firstLines(se.String(), 15))
	}
	var fo freeOut
	if e := json.Unmarshal(so.Bytes(), &fo); e != nil {
		return false, "", fmt.Errorf("free twin output: %v", e)
	}
	if fo.Err != "" {
		return false, "", fmt.Errorf("free twin: %s", fo.Err)
	}
	_, ok = outcomes[fo.Key]
	return ok, fo.Key, nil
}
