package main

import (
	"fmt"
	"strings"
)

var sigNum = map[string]int{"": 15, "SIGTERM": 15, "SIGINT": 2, "SIGKILL": 9, "SIGHUP": 1, "SIGUSR1": 10}

// ---- C05: stop and timeout always bring a run to an end.
func oracleC05(x *Exec) []verdict {
	var out []verdict
	cfg := x.Cfg
	mode := "stop"
	if cfg.TimeoutMs > 0 {
		mode = "timeout"
	}
	if !x.Returned || x.Outcome.Status.String() == "hang" {
		cls := "steps-exit-on-signal"
		for _, s := range cfg.Steps {
			if s.IgnoreTerm {
				cls = "step-ignores-SIGTERM"
			}
		}
		for _, e := range x.Events {
			if (e.Kind == "start" && e.Canceled && !handlerNames[e.Step]) || (e.Kind == "kill" && e.Why == "no-process") {
				cls = "process-started-after-stop-accepted"
			}
		}
		what := "the run never ended"
		if x.Returned {
			what = "the run returned but the stop request handler never finished"
		}
		out = append(out, verdict{"C05/" + mode + "/no-termination(" + x.Outcome.Status.String() + ")/" + cls, what + ": " + firstLines(x.Outcome.Detail, 14)})
		return out
	}
	ps := x.perStep()
	if cfg.TimeoutMs > 0 && !cfg.Stop {
		// after the deadline no new process starts; onExit (if any) runs last
		for _, e := range x.Events {
			if e.Kind == "start" && !handlerNames[e.Step] && e.T > int64(cfg.TimeoutMs) {
				out = append(out, verdict{"C05/timeout/step-started-after-deadline", fmt.Sprintf("%s started at %d ms, timeout %d ms: %s", e.Step, e.T, cfg.TimeoutMs, x.trace())})
			}
		}
		if _, ok := cfg.Handlers["onExit"]; ok {
			last := ""
			for _, e := range x.Events {
				if e.Kind == "start" {
					last = e.Step
				}
			}
			if last != "onExit" {
				out = append(out, verdict{"C05/timeout/exit-handler-not-executed-last(last=" + last + ")", x.trace()})
			}
		}
		return out
	}
	if !cfg.Stop || x.StopAt < 0 {
		return out
	}
	// index at which the stop was accepted: first event emitted with the flag set
	acc := len(x.Events)
	var tStop int64 = -1
	for i, e := range x.Events {
		if e.Kind == "stop" {
			tStop = e.T
		}
		if e.Canceled && i < acc {
			acc = i
		}
	}
	// (1) no step that had not started is started after acceptance
	for i, e := range x.Events {
		if e.Kind == "start" && !handlerNames[e.Step] && e.Attempt == 1 && i >= acc && e.Canceled {
			out = append(out, verdict{"C05/stop/step-started-after-stop-accepted", fmt.Sprintf("%s started (event %d) after the stop had been accepted: %s", e.Step, i, x.trace())})
		}
	}
	// (2) every step running when the stop was accepted is sent the stop signal; ignoring steps are killed in time
	for i := range cfg.Steps {
		s := &cfg.Steps[i]
		st := ps[s.Name]
		if st == nil {
			continue
		}
		// open attempt at acc?
		openAt := -1
		for k, si := range st.starts {
			if si < acc {
				ended := k < len(st.ends) && st.ends[k] < acc
				if !ended {
					openAt = k
				}
			}
		}
		if openAt < 0 {
			if s.Repeat {
				// no iteration was in progress when the stop was accepted: it must not be repeated again
				for _, si := range st.starts {
					if si >= acc && x.Events[si].Canceled {
						out = append(out, verdict{"C05/stop/repeating-step-repeated-after-stop", fmt.Sprintf("%s started another iteration (event %d) after the stop had been accepted between two iterations: %s", s.Name, si, x.trace())})
						break
					}
				}
			}
			continue
		}
		endIdx := len(x.Events)
		if openAt < len(st.ends) {
			endIdx = st.ends[openAt]
		}
		want := sigNum[s.SigOnStop]
		if cfg.SigTerm {
			want = 15 // an OS signal received by the agent is forwarded as it is (no signalOnStop override)
		}
		gotWant, gotKill := false, false
		var tKill int64 = -1
		for j := acc; j < endIdx && j < len(x.Events); j++ {
			e := x.Events[j]
			if e.Kind == "kill" && e.Step == s.Name && e.Why != "no-process" {
				if e.Sig == want {
					gotWant = true
				}
				if e.Sig == 9 {
					gotKill = true
					if tKill < 0 {
						tKill = e.T
					}
				}
			}
		}
		endedByItself := openAt < len(st.ends) && x.Events[endIdx].Why != "signal" && x.Events[endIdx].Why != "ctx"
		if s.Repeat {
			// allowed to finish its current iteration; must not be repeated again
			for _, si := range st.starts {
				if si > endIdx {
					out = append(out, verdict{"C05/stop/repeating-step-repeated-after-stop", x.trace()})
				}
			}
			continue
		}
		if !gotWant && !endedByItself {
			out = append(out, verdict{fmt.Sprintf("C05/stop/running-step-not-signalled(want=%d)", want), fmt.Sprintf("%s was running when the stop was accepted but never received signal %d: %s", s.Name, want, x.trace())})
		}
		if s.IgnoreTerm && s.Hang {
			limit := tStop + int64(cfg.CleanupMs) + 3100
			if !gotKill {
				out = append(out, verdict{"C05/stop/ignoring-step-never-killed", fmt.Sprintf("%s ignores the stop signal and never received SIGKILL: %s", s.Name, x.trace())})
			} else if tKill > limit {
				out = append(out, verdict{"C05/stop/ignoring-step-killed-late", fmt.Sprintf("%s got SIGKILL at %d ms, stop at %d ms, maxCleanUpTime %d ms", s.Name, tKill, tStop, cfg.CleanupMs)})
			}
		}
	}
	// (2b) a step whose command was never executed must not be reported finished after a stop
	for i := range cfg.Steps {
		s := &cfg.Steps[i]
		st := ps[s.Name]
		f := x.finalOf(s.Name)
		if (st == nil || len(st.starts) == 0) && f != nil && f.Status == "finished" && !s.Unmet {
			out = append(out, verdict{"C05/stop/unexecuted-step-reported-finished", fmt.Sprintf("%s never executed (the stop came first) but is reported finished: %s | %s", s.Name, x.finalsString(), x.trace())})
		}
	}
	// (3) the run ends as canceled with the cancel and exit handlers — when the stop cut something short
	cut := false
	for _, n := range x.Nodes {
		if n.Status == "canceled" || n.Status == "not started" {
			cut = true
		}
	}
	if cut {
		if x.Status != "canceled" {
			out = append(out, verdict{"C05/stop/status(want=canceled,got=" + x.Status + ")", x.finalsString()})
		}
		var order []string
		for _, e := range x.Events {
			if e.Kind == "start" && handlerNames[e.Step] {
				order = append(order, e.Step)
			}
		}
		var want []string
		for _, h := range []string{"onCancel", "onExit"} {
			if _, ok := cfg.Handlers[h]; ok {
				want = append(want, h)
			}
		}
		if strings.Join(order, ",") != strings.Join(want, ",") {
			out = append(out, verdict{fmt.Sprintf("C05/stop/handlers(want=[%s],got=[%s])", strings.Join(want, ","), strings.Join(order, ",")), x.trace()})
		}
	}
	return out
}

func c05family(thorough bool, add func(cfg *Config, bound int, maxExec int64, oracles ...string)) {
	hang := func(s StepCfg) StepCfg { s.Hang = true; return s }
	ign := func(s StepCfg) StepCfg { s.Hang, s.IgnoreTerm = true, true; return s }
	sig := func(s StepCfg, n string) StepCfg { s.SigOnStop = n; return s }
	rep := func(s StepCfg, ms int) StepCfg { s.Repeat, s.RepeatMs = true, ms; return s }
	h := map[string]string{"onCancel": "ok", "onExit": "ok", "onFailure": "ok", "onSuccess": "ok"}
	// maximum clean-up time: the quick tier ends the grace period at the agent's first look at its timers (3 s); the thorough tier lets one repeated signal (5 s) happen before the forced kill
	cleanupMs := 1000
	if thorough {
		cleanupMs = 10000
	}
	variants := func(mk func(mod func(StepCfg) StepCfg) []StepCfg) [][]StepCfg {
		return [][]StepCfg{
			mk(func(s StepCfg) StepCfg { return s }), // ends by itself at any time
			mk(hang),                                 // ends only when signalled
			mk(ign),                                  // ignores SIGTERM, only SIGKILL ends it
		}
	}
	var progs [][]StepCfg
	progs = append(progs, variants(func(m func(StepCfg) StepCfg) []StepCfg { return []StepCfg{m(st("a"))} })...)
	progs = append(progs, variants(func(m func(StepCfg) StepCfg) []StepCfg { return []StepCfg{m(st("a")), st("b", "a")} })...)
	progs = append(progs, variants(func(m func(StepCfg) StepCfg) []StepCfg { return []StepCfg{m(st("a")), m(st("b"))} })...)
	progs = append(progs, variants(func(m func(StepCfg) StepCfg) []StepCfg {
		return []StepCfg{retrying(st("a"), 1, 1, 2000), m(st("b", "a"))}
	})...)
	progs = append(progs, [][]StepCfg{
		{sig(hang(st("a")), "SIGINT")},
		{sig(ign(st("a")), "SIGINT")},
		// signalOnStop is per step: a step without one gets SIGTERM whatever its neighbours declare
		{sig(hang(st("a")), "SIGINT"), hang(st("b"))},
		{hang(st("a")), sig(hang(st("b")), "SIGINT")},
		{sig(st("a"), "SIGINT"), hang(st("b", "a"))},
		{rep(st("a"), 1000), st("b")},
		{rep(st("a"), 1000)},
		{retrying(st("a"), -1, 2, 2000)},
	}...)
	if thorough {
		progs = append(progs, []StepCfg{sig(hang(st("a")), "SIGINT"), sig(hang(st("b")), "SIGUSR1"), hang(st("c"))})
	}
	for i, p := range progs {
		for _, viaSig := range []bool{false, true} {
			if viaSig && !thorough && i%3 != 1 {
				continue
			}
			cfg := &Config{Steps: p, Agent: true, Stop: true, CleanupMs: cleanupMs, Handlers: h, SigTerm: viaSig}
			add(cfg, 0, 4000000, "C05")
		}
	}
	// launch delay: the stop can arrive while the loop waits out the delay between two launches
	delayed := [][]StepCfg{{st("a"), st("b")}, {hang(st("a")), st("b")}, {st("a"), st("b", "a")}}
	if thorough {
		delayed = append(delayed, []StepCfg{st("a"), st("b"), st("c")})
	}
	for _, p := range delayed {
		add(&Config{Steps: p, Agent: true, Stop: true, CleanupMs: cleanupMs, Handlers: h, DelayMs: 1000}, 0, 4000000, "C05")
	}
	// preemptive windows (between executor creation and process start; between the cancel check and the status flip)
	pbs := [][]StepCfg{{hang(st("a"))}}
	if thorough {
		pbs = append(pbs, []StepCfg{st("a"), hang(st("b", "a"))}, []StepCfg{hang(st("a")), st("b", "a")}, []StepCfg{hang(st("a")), hang(st("b"))}, []StepCfg{retrying(st("a"), 1, 1, 2000), hang(st("b", "a"))})
	}
	for _, p := range pbs {
		add(&Config{Steps: p, Agent: true, Stop: true, CleanupMs: cleanupMs, Handlers: h, DoneSync: thorough}, 1, 2000000, "C05")
	}
	// DAG timeout with steps that hang
	for _, p := range [][]StepCfg{{hang(st("a"))}, {hang(st("a")), st("b", "a")}, {st("a"), hang(st("b", "a"))}, {hang(st("a")), hang(st("b"))}} {
		add(&Config{Steps: p, Agent: true, TimeoutMs: 1000, CleanupMs: cleanupMs, Handlers: h}, 0, 400000, "C05")
	}
}
