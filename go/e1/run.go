package main

import (
	"context"
	"fmt"
	"os"
	"runtime"
	"sort"
	"strings"
	"syscall"
	"time"

	"github.com/ErdemOzgen/blackdagger/internal/agent"
	"github.com/ErdemOzgen/blackdagger/internal/dag"
	"github.com/ErdemOzgen/blackdagger/internal/dag/scheduler"
	"github.com/ErdemOzgen/blackdagger/internal/persistence/model"
	"github.com/ErdemOzgen/blackdagger/internal/zzverif/venv"
	"github.com/ErdemOzgen/blackdagger/internal/zzverif/vexec"
	"github.com/ErdemOzgen/blackdagger/internal/zzverif/vlib"
	"github.com/ErdemOzgen/blackdagger/internal/zzverif/vrt"
)

// StepCfg is one step of a program.
type StepCfg struct {
	Name       string   `json:"name"`
	Depends    []string `json:"depends,omitempty"`
	Fail       int      `json:"fail,omitempty"`       // first Fail attempts fail; -1 always
	CreateFail int      `json:"createFail,omitempty"` // first CreateFail attempts fail before a process exists
	Unmet      bool     `json:"unmet,omitempty"`      // own precondition unmet
	Limit      int      `json:"limit,omitempty"`      // retry limit (RetryPolicy present iff HasRetry)
	HasRetry   bool     `json:"retry,omitempty"`
	IntervalMs int      `json:"intervalMs,omitempty"`
	CoF        bool     `json:"cof,omitempty"`
	CoS        bool     `json:"cos,omitempty"`
	Hang       bool     `json:"hang,omitempty"`
	IgnoreTerm bool     `json:"ignoreTerm,omitempty"`
	Repeat     bool     `json:"repeat,omitempty"`
	RepeatMs   int      `json:"repeatMs,omitempty"`
	SigOnStop  string   `json:"signalOnStop,omitempty"`
	DurMs      int      `json:"durMs,omitempty"` // every attempt takes this long (virtual time)
	Met        bool     `json:"met,omitempty"`   // has a precondition that is met
}

// Config is one program + environment of the scheduler-level harness.
type Config struct {
	Steps     []StepCfg         `json:"steps"`
	MaxActive int               `json:"maxActiveRuns,omitempty"`
	DelayMs   int               `json:"delayMs,omitempty"`
	TimeoutMs int               `json:"timeoutMs,omitempty"`
	Handlers  map[string]string `json:"handlers,omitempty"` // onSuccess/onFailure/onCancel/onExit -> "ok"|"fail"
	DoneNil   bool              `json:"doneNil,omitempty"`  // Schedule(ctx, g, nil) instead of a consumed channel
	DoneSync  bool              `json:"doneSync,omitempty"` // unbuffered done channel + consumer thread (exactly the agent's arrangement); default: buffered, drained at the end
	Stop      bool              `json:"stop,omitempty"`     // a thread calls Scheduler.Signal(SIGTERM) at an explored instant
	Agent     bool              `json:"agent,omitempty"`    // drive the run through a real agent.Agent (setup + scheduler + the /stop path a.signal)
	CleanupMs int               `json:"maxCleanUpMs,omitempty"`
	SigTerm   bool              `json:"sigterm,omitempty"`            // with Agent+Stop: deliver an OS signal (a.Signal(SIGTERM)) instead of the /stop request
	Observe   bool              `json:"observe,omitempty"`            // C08(a): call Agent.Status() at every decision and check it against the trace
	Recorded  []string          `json:"recorded,omitempty"`           // retry of a recorded run: recorded status text per step (C10)
	RecRetry  []int             `json:"recordedRetryCount,omitempty"` // with Recorded: the retry count the record holds per step
	OutBytes  int               `json:"outBytes,omitempty"`           // bytes every attempt prints to stdout (0 = silent)
	Bound     int               `json:"bound"`
}

func (c *Config) Key() string { return vlib.Hash(fmt.Sprintf("%+v", *c)) }

func (c *Config) String() string {
	var sb strings.Builder
	for _, s := range c.Steps {
		fmt.Fprintf(&sb, "%s", s.Name)
		if len(s.Depends) > 0 {
			fmt.Fprintf(&sb, "<-%s", strings.Join(s.Depends, "+"))
		}
		var at []string
		if s.Unmet {
			at = append(at, "unmet")
		}
		if s.Fail != 0 {
			at = append(at, fmt.Sprintf("fail%d", s.Fail))
		}
		if s.CreateFail != 0 {
			at = append(at, fmt.Sprintf("createfail%d", s.CreateFail))
		}
		if s.HasRetry {
			at = append(at, fmt.Sprintf("retry%d/%dms", s.Limit, s.IntervalMs))
		}
		if s.CoF {
			at = append(at, "coF")
		}
		if s.CoS {
			at = append(at, "coS")
		}
		if s.Hang {
			at = append(at, "hang")
		}
		if s.DurMs != 0 {
			at = append(at, fmt.Sprintf("dur%dms", s.DurMs))
		}
		if s.Met {
			at = append(at, "met")
		}
		if s.IgnoreTerm {
			at = append(at, "ignTERM")
		}
		if s.Repeat {
			at = append(at, fmt.Sprintf("repeat/%dms", s.RepeatMs))
		}
		if s.SigOnStop != "" {
			at = append(at, "signalOnStop="+s.SigOnStop)
		}
		if len(at) > 0 {
			fmt.Fprintf(&sb, "{%s}", strings.Join(at, ","))
		}
		sb.WriteByte(' ')
	}
	if c.MaxActive > 0 {
		fmt.Fprintf(&sb, "maxActive=%d ", c.MaxActive)
	}
	if c.DelayMs > 0 {
		fmt.Fprintf(&sb, "delay=%dms ", c.DelayMs)
	}
	if c.TimeoutMs > 0 {
		fmt.Fprintf(&sb, "timeout=%dms ", c.TimeoutMs)
	}
	if len(c.Handlers) > 0 {
		var hs []string
		for k, v := range c.Handlers {
			hs = append(hs, k+"="+v)
		}
		sort.Strings(hs)
		fmt.Fprintf(&sb, "handlers[%s] ", strings.Join(hs, ","))
	}
	if c.DoneNil {
		sb.WriteString("done=nil ")
	}
	if c.DoneSync {
		sb.WriteString("done=sync ")
	}
	if c.OutBytes > 0 {
		fmt.Fprintf(&sb, "out=%dB ", c.OutBytes)
	}
	if c.Agent {
		fmt.Fprintf(&sb, "agent(maxCleanUp=%dms) ", c.CleanupMs)
	}
	if c.SigTerm {
		sb.WriteString("via-signal ")
	}
	if c.Recorded != nil {
		fmt.Fprintf(&sb, "retry-of[%s] ", strings.Join(c.Recorded, ","))
		if c.RecRetry != nil {
			fmt.Fprintf(&sb, "recorded-retry-counts%v ", c.RecRetry)
		}
	}
	if c.Stop {
		sb.WriteString("stop ")
	}
	fmt.Fprintf(&sb, "PB(%d)", c.Bound)
	return sb.String()
}

func (c *Config) step(name string) *StepCfg {
	for i := range c.Steps {
		if c.Steps[i].Name == name {
			return &c.Steps[i]
		}
	}
	return nil
}

// NodeFinal is the final state of one node.
type NodeFinal struct {
	Name       string `json:"name"`
	Status     string `json:"status"`
	RetryCount int    `json:"retryCount"`
	DoneCount  int    `json:"doneCount"`
	HasErr     bool   `json:"hasErr"`
	Err        string `json:"err,omitempty"`
	Started    bool   `json:"started"`
	Finished   bool   `json:"finished"`
	StartLEFin bool   `json:"startLEFinish"`
}

// Ev is a harness-level event interleaved with the executor events.
type Ev struct {
	vexec.Event
	Thread   int  `json:"th"`
	Canceled bool `json:"c,omitempty"` // the scheduler had accepted a stop when the event was emitted
}

// Exec is everything the oracles see of one execution.
type Exec struct {
	Cfg       *Config
	Events    []Ev
	Nodes     []NodeFinal
	Handlers  map[string]NodeFinal
	Status    string // scheduler.Status(g) after Schedule returned
	Err       string
	Outcome   vrt.Outcome
	Choices   []int
	StopAt    int // index in Events at which the stop request was accepted (-1 none)
	Returned  bool
	highWater int
	// C08(a): verdicts of live status observations, and the status the agent reports after the run
	liveVerdicts []verdict
	finalStatus  *model.Status
	observations int
}

func (x *Exec) trace() string {
	var sb strings.Builder
	for i, e := range x.Events {
		if i > 0 {
			sb.WriteByte(' ')
		}
		sb.WriteString(e.Event.String())
	}
	return sb.String()
}

func (x *Exec) finalsString() string {
	var parts []string
	for _, n := range x.Nodes {
		parts = append(parts, fmt.Sprintf("%s=%s/r%d", n.Name, n.Status, n.RetryCount))
	}
	var hs []string
	for k, n := range x.Handlers {
		hs = append(hs, fmt.Sprintf("%s=%s", k, n.Status))
	}
	sort.Strings(hs)
	return strings.Join(parts, " ") + " | " + strings.Join(hs, " ") + " | run=" + x.Status + " " + x.Outcome.Status.String()
}

type runner struct {
	logDir  string
	horizon int
	// state hashing
	states   map[uint64]struct{}
	curTrace *[]Ev
	execs    int64
}

func buildSteps(cfg *Config) ([]dag.Step, map[string]*vexec.Script) {
	scripts := map[string]*vexec.Script{}
	var steps []dag.Step
	for _, s := range cfg.Steps {
		st := vexec.Step(s.Name, s.Depends...)
		st.ContinueOn = dag.ContinueOn{Failure: s.CoF, Skipped: s.CoS}
		if s.HasRetry {
			st.RetryPolicy = &dag.RetryPolicy{Limit: s.Limit, Interval: time.Duration(s.IntervalMs) * time.Millisecond}
		}
		// single conditions and lists alternate with the step's position; in a list the unmet entry comes first
		list := len(steps)%2 == 0
		if s.Unmet {
			st.Preconditions = []dag.Condition{{Condition: "0", Expected: "1"}}
			if list {
				st.Preconditions = append(st.Preconditions, dag.Condition{Condition: "1", Expected: "1"})
			}
		} else if s.Met {
			st.Preconditions = []dag.Condition{{Condition: "1", Expected: "1"}}
			if list {
				st.Preconditions = append(st.Preconditions, dag.Condition{Condition: "1", Expected: "1"})
			}
		}
		if s.Repeat {
			st.RepeatPolicy = dag.RepeatPolicy{Repeat: true, Interval: time.Duration(s.RepeatMs) * time.Millisecond}
		}
		st.SignalOnStop = s.SigOnStop
		steps = append(steps, st)
		scripts[s.Name] = &vexec.Script{Fail: s.Fail, CreateFail: s.CreateFail, Hang: s.Hang, IgnoreTerm: s.IgnoreTerm, OutBytes: cfg.OutBytes, DurMs: s.DurMs}
	}
	for h, beh := range cfg.Handlers {
		sc := &vexec.Script{}
		if beh == "fail" {
			sc.Fail = -1
		}
		scripts[h] = sc
	}
	return steps, scripts
}

func handlerStep(cfg *Config, name string) *dag.Step {
	if _, ok := cfg.Handlers[name]; !ok {
		return nil
	}
	s := vexec.Step(name)
	return &s
}

func final(n *scheduler.Node) NodeFinal {
	d := n.Data()
	st := d.State
	return NodeFinal{Name: d.Step.Name, Status: st.Status.String(), RetryCount: st.RetryCount, DoneCount: st.DoneCount,
		HasErr: st.Error != nil, Err: errStr(st.Error), Started: !st.StartedAt.IsZero(), Finished: !st.FinishedAt.IsZero(),
		StartLEFin: st.StartedAt.IsZero() || st.FinishedAt.IsZero() || !st.StartedAt.After(st.FinishedAt)}
}

// once runs one execution of cfg under the given choice prefix.
func (r *runner) once(cfg *Config, prefix []int, trace func(string)) (*Exec, *recChooser) {
	r.execs++
	if r.execs%2000 == 0 {
		// log files of steps are (re)created by Node.setup; descriptors leaked by the code under
		// test (relaunched nodes) are closed by the finalizers of the unreachable os.Files
		_ = os.RemoveAll(r.logDir)
		runtime.GC()
		// Node.setup exports STEP_<id>_DAG_EXECUTION_LOG_PATH for an ever growing node id: drop them
		for _, kv := range os.Environ() {
			if strings.HasPrefix(kv, "STEP_") {
				if i := strings.IndexByte(kv, '='); i > 0 {
					_ = os.Unsetenv(kv[:i])
				}
			}
		}
	}
	steps, scripts := buildSteps(cfg)
	x := &Exec{Cfg: cfg, StopAt: -1, Handlers: map[string]NodeFinal{}}
	ch := &recChooser{prefix: prefix, keepDesc: trace != nil}
	vexec.ClockMsHook = func() int64 { return vrt.Clock().Milliseconds() }
	world := vexec.NewWorld(scripts)
	var scRef **scheduler.Scheduler
	world.OnEvent = func(e vexec.Event) {
		c := false
		if scRef != nil && *scRef != nil {
			c = (*scRef).VerifCanceled()
		}
		x.Events = append(x.Events, Ev{Event: e, Thread: vrt.CurID(), Canceled: c})
	}
	vexec.WaitHook = func(step string, cond func() bool) { vrt.Point(vrt.KWait, step, cond, true) }
	vexec.SleepHook = func(ms int) { vrt.Effect(); vrt.Sleep(time.Duration(ms) * time.Millisecond) }
	vexec.YieldHook = func(what string) { vrt.Point(vrt.KYield, what, nil, false) }
	vrt.ResetChans()
	vrt.OnWake = func(th int) {
		x.Events = append(x.Events, Ev{Event: vexec.Event{Kind: "wake", T: vrt.Clock().Milliseconds()}, Thread: th})
	}
	var g *scheduler.ExecutionGraph
	var sc *scheduler.Scheduler
	var observe func()
	scRef = &sc
	body := func() {
		var err error
		if cfg.Agent {
			env := venv.New(r.logDir + "-agent")
			d := env.DAG("prog", steps...)
			d.MaxActiveRuns = cfg.MaxActive
			d.Timeout = time.Duration(cfg.TimeoutMs) * time.Millisecond
			d.Delay = time.Duration(cfg.DelayMs) * time.Millisecond
			d.MaxCleanUpTime = time.Duration(cfg.CleanupMs) * time.Millisecond
			d.HandlerOn = dag.HandlerOn{Exit: handlerStep(cfg, "onExit"), Success: handlerStep(cfg, "onSuccess"), Failure: handlerStep(cfg, "onFailure"), Cancel: handlerStep(cfg, "onCancel")}
			a := env.Agent("req", d, &agent.Options{})
			if err = a.VerifSetup(); err != nil {
				x.Err = "setup: " + err.Error()
				return
			}
			g, sc = a.VerifGraph(), a.VerifScheduler()
			if cfg.Observe {
				observe = func() {
					vrt.Oracle(func() {
						x.observations++
						if len(x.liveVerdicts) < 4 {
							x.liveVerdicts = append(x.liveVerdicts, liveCheck(x, a.Status())...)
						}
					})
				}
				defer func() { observe = nil }()
			}
			done := make(chan *scheduler.Node, 8192)
			if cfg.DoneSync {
				done = make(chan *scheduler.Node)
				vrt.Go(func() { // the agent's status writer
					for {
						n, ok := vrt.Recv2(done)
						if !ok {
							return
						}
						x.Events = append(x.Events, Ev{Event: vexec.Event{Kind: "done", Step: n.Data().Step.Name, T: vrt.Clock().Milliseconds()}, Thread: vrt.CurID()})
					}
				})
			}
			if cfg.Stop {
				vrt.Go(func() {
					vrt.Point(vrt.KWait, "stop-request", nil, true)
					x.StopAt = len(x.Events)
					x.Events = append(x.Events, Ev{Event: vexec.Event{Kind: "stop", T: vrt.Clock().Milliseconds()}, Thread: vrt.CurID()})
					if cfg.SigTerm {
						a.Signal(syscall.SIGTERM)
					} else {
						a.VerifStop()
					}
					x.Events = append(x.Events, Ev{Event: vexec.Event{Kind: "stop-returned", T: vrt.Clock().Milliseconds()}, Thread: vrt.CurID()})
				})
			}
			err = a.VerifSchedule(context.Background(), done)
			x.Returned = true
			if err != nil {
				x.Err = err.Error()
			}
			x.Status = sc.Status(g).String()
			x.Events = append(x.Events, Ev{Event: vexec.Event{Kind: "returned", T: vrt.Clock().Milliseconds()}, Thread: vrt.CurID()})
			if cfg.Observe {
				vrt.Oracle(func() { x.finalStatus = a.Status() })
			}
			vrt.Close(done)
			return
		}
		if cfg.Recorded != nil {
			g, err = retryGraph(steps, cfg.Recorded, cfg.RecRetry)
		} else {
			g, err = scheduler.NewExecutionGraph(venv.Quiet, steps...)
		}
		if err != nil {
			x.Err = "graph: " + err.Error()
			return
		}
		sc = scheduler.New(&scheduler.Config{
			LogDir: r.logDir, Logger: venv.Quiet, MaxActiveRuns: cfg.MaxActive,
			Timeout: time.Duration(cfg.TimeoutMs) * time.Millisecond, Delay: time.Duration(cfg.DelayMs) * time.Millisecond,
			OnExit: handlerStep(cfg, "onExit"), OnSuccess: handlerStep(cfg, "onSuccess"),
			OnFailure: handlerStep(cfg, "onFailure"), OnCancel: handlerStep(cfg, "onCancel"), ReqID: "req",
		})
		d := &dag.DAG{Name: "prog", Location: "/nonexistent/prog.yaml"}
		ctx := dag.NewContext(context.Background(), d, nil, "req", "")
		var done chan *scheduler.Node
		if !cfg.DoneNil && !cfg.DoneSync {
			done = make(chan *scheduler.Node, 8192)
		}
		if cfg.DoneSync {
			done = make(chan *scheduler.Node)
			vrt.Go(func() { // the agent's status writer: consumes node notifications
				for {
					n, ok := vrt.Recv2(done)
					if !ok {
						return
					}
					x.Events = append(x.Events, Ev{Event: vexec.Event{Kind: "done", Step: n.Data().Step.Name, T: vrt.Clock().Milliseconds()}, Thread: vrt.CurID()})
				}
			})
		}
		if cfg.Stop {
			vrt.Go(func() {
				// the stop request can arrive at any explored instant
				vrt.Point(vrt.KWait, "stop-request", nil, true)
				x.StopAt = len(x.Events)
				x.Events = append(x.Events, Ev{Event: vexec.Event{Kind: "stop", T: vrt.Clock().Milliseconds()}, Thread: vrt.CurID()})
				sc.Signal(g, syscall.SIGTERM, nil, false)
			})
		}
		err = sc.Schedule(ctx, g, done)
		x.Returned = true
		if err != nil {
			x.Err = err.Error()
		}
		x.Status = sc.Status(g).String()
		x.Events = append(x.Events, Ev{Event: vexec.Event{Kind: "returned", T: vrt.Clock().Milliseconds()}, Thread: vrt.CurID()})
		if done != nil {
			vrt.Close(done)
		}
	}
	rt := vrt.Prepare(ch, r.horizon)
	rt.Budget = cfg.Bound
	rt.Trace = trace
	if r.states != nil {
		rt.OnDecision = func(rr *vrt.Runtime) {
			if observe != nil {
				observe()
			}
			h := rr.StateHash()
			h = (h ^ uint64(len(x.Events))) * 1099511628211
			if n := len(x.Events); n > 0 {
				e := &x.Events[n-1]
				for i := 0; i < len(e.Step); i++ {
					h = (h ^ uint64(e.Step[i])) * 1099511628211
				}
				h = (h ^ uint64(e.Attempt)<<8 ^ uint64(len(e.Kind))) * 1099511628211
			}
			r.states[h] = struct{}{}
		}
	}
	x.Outcome = rt.Run(body)
	x.Choices = ch.choices
	if g != nil {
		for _, n := range g.Nodes() {
			x.Nodes = append(x.Nodes, final(n))
		}
		if x.Status == "" && sc != nil {
			x.Status = "(not returned)"
		}
		for _, h := range []dag.HandlerType{dag.HandlerOnSuccess, dag.HandlerOnFailure, dag.HandlerOnCancel, dag.HandlerOnExit} {
			if sc != nil {
				if n := sc.HandlerNode(h); n != nil {
					x.Handlers[string(h)] = final(n)
				}
			}
		}
	}
	return x, ch
}

func errStr(e error) string {
	if e == nil {
		return ""
	}
	return e.Error()
}

// failCause classifies why a node ended failed although its last attempt succeeded.
func (x *Exec) failCause(name string) string {
	f := x.finalOf(name)
	if f != nil && strings.Contains(f.Err, "file already closed") {
		return "teardown-on-closed-file"
	}
	return "other"
}

func lastEv(ev []Ev) string {
	if len(ev) == 0 {
		return ""
	}
	return ev[len(ev)-1].Event.String()
}
