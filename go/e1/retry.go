package main

import (
	"encoding/json"
	"fmt"
	"strings"
	"time"

	"github.com/ErdemOzgen/blackdagger/internal/dag"
	"github.com/ErdemOzgen/blackdagger/internal/dag/scheduler"
	"github.com/ErdemOzgen/blackdagger/internal/persistence/model"
	"github.com/ErdemOzgen/blackdagger/internal/zzverif/venv"
)

var statusByText = map[string]scheduler.NodeStatus{
	"not started": scheduler.NodeStatusNone, "running": scheduler.NodeStatusRunning, "failed": scheduler.NodeStatusError,
	"canceled": scheduler.NodeStatusCancel, "finished": scheduler.NodeStatusSuccess, "skipped": scheduler.NodeStatusSkipped,
}

var recAlphabet = []string{"not started", "running", "failed", "canceled", "finished", "skipped"}

// retryGraph builds the graph of a retry exactly as the agent does: the recorded
// node table goes through the persisted JSON form (model.Status) and Node.ToNode.
func retryGraph(steps []dag.Step, recorded []string, recRetry []int) (*scheduler.ExecutionGraph, error) {
	st := &model.Status{RequestID: "orig", Name: "prog"}
	t0 := time.Date(2029, 12, 31, 23, 0, 0, 0, time.UTC)
	for i, s := range steps {
		state := scheduler.NodeState{Status: statusByText[recorded[i]]}
		if recorded[i] != "not started" && recorded[i] != "skipped" && recorded[i] != "canceled" {
			state.StartedAt = t0
			state.Log = "/nonexistent/old.log"
		}
		if recorded[i] == "finished" || recorded[i] == "failed" {
			state.FinishedAt = t0.Add(time.Second)
			state.DoneCount = 1
		}
		if recorded[i] == "failed" {
			state.Error = fmt.Errorf("exit status 1")
		}
		if recRetry != nil {
			state.RetryCount = recRetry[i]
			state.DoneCount += recRetry[i]
		}
		st.Nodes = append(st.Nodes, model.FromNode(scheduler.NodeData{Step: s, State: state}))
	}
	js, err := st.ToJSON()
	if err != nil {
		return nil, err
	}
	back, err := model.StatusFromJSON(string(js))
	if err != nil {
		return nil, err
	}
	var nodes []*scheduler.Node
	for _, n := range back.Nodes {
		nodes = append(nodes, n.ToNode())
	}
	return scheduler.NewExecutionGraphForRetry(venv.Quiet, nodes...)
}

func recRetryOf(cfg *Config, i int) int {
	if cfg.RecRetry == nil {
		return 0
	}
	return cfg.RecRetry[i]
}

// consistentRecord: can a finished, stopped or crashed run leave this table behind?
func consistentRecord(cfg *Config, rec []string) bool {
	idx := map[string]int{}
	for i, s := range cfg.Steps {
		idx[s.Name] = i
	}
	for i := range cfg.Steps {
		s := &cfg.Steps[i]
		allLicense, failBlock, skipBlock, undecided := true, false, false, false
		for _, dn := range s.Depends {
			d := &cfg.Steps[idx[dn]]
			switch rec[idx[dn]] {
			case "finished":
			case "failed":
				if !d.CoF {
					allLicense, failBlock = false, true
				}
			case "skipped":
				if !d.CoS {
					allLicense, skipBlock = false, true
				}
			case "canceled":
				allLicense, failBlock = false, true
			default: // not started / running: dependency undecided
				allLicense, undecided = false, true
			}
		}
		switch rec[i] {
		case "not started":
			// always possible (stopped / crashed before it was looked at) unless a blocker must already have labelled it:
			// labelling happens lazily in the loop, so "not started" next to a blocker is possible as well
		case "running", "finished", "failed":
			if !allLicense || s.Unmet {
				return false
			}
			if rec[i] == "finished" && failK(s) > limitOf(s) {
				return false
			}
			if rec[i] == "failed" && failK(s) <= limitOf(s) {
				return false
			}
		case "skipped":
			if !(allLicense && s.Unmet) && !skipBlock {
				return false
			}
		case "canceled":
			// stopped while running (dependencies licensing) or blocked by a failed/canceled dependency
			if !(allLicense && !s.Unmet) && !failBlock {
				return false
			}
		}
		_ = undecided
	}
	return true
}

// ---- C10: retry re-executes exactly the unfinished part.
func oracleC10(x *Exec) []verdict {
	var out []verdict
	cfg := x.Cfg
	rec := cfg.Recorded
	if !x.Returned {
		var run []string
		for i, r := range rec {
			if r == "running" {
				run = append(run, cfg.Steps[i].Name)
			}
		}
		cls := "no-running-node-recorded"
		if len(run) > 0 {
			cls = "recorded-running-node"
		}
		out = append(out, verdict{"C10/retry-never-terminates(" + x.Outcome.Status.String() + ")/" + cls, "the retry never ended: " + firstLines(x.Outcome.Detail, 12)})
		return out
	}
	idx := map[string]int{}
	for i, s := range cfg.Steps {
		idx[s.Name] = i
	}
	// steps that must be re-executed: not completed successfully in the record, plus everything downstream
	redo := make([]bool, len(cfg.Steps))
	for i, r := range rec {
		if r == "failed" || r == "canceled" || r == "running" || r == "not started" {
			redo[i] = true
		}
	}
	for iter := 0; iter < len(cfg.Steps); iter++ {
		for i, s := range cfg.Steps {
			for _, dn := range s.Depends {
				if redo[idx[dn]] {
					redo[i] = true
				}
			}
		}
	}
	ps := x.perStep()
	for i := range cfg.Steps {
		s := &cfg.Steps[i]
		st := ps[s.Name]
		nStart := 0
		if st != nil {
			nStart = len(st.starts)
		}
		f := x.finalOf(s.Name)
		if !redo[i] {
			if nStart > 0 || (st != nil && len(st.creates) > 0) {
				out = append(out, verdict{"C10/kept-step-executed(recorded=" + rec[i] + ")", fmt.Sprintf("%s was recorded %s and has no unfinished ancestor, but the retry executed it", s.Name, rec[i])})
			}
			if f == nil || f.Status != rec[i] {
				got := "?"
				if f != nil {
					got = f.Status
				}
				out = append(out, verdict{"C10/kept-step-state-changed(" + rec[i] + "->" + got + ")", fmt.Sprintf("%s: recorded %s, after the retry %s", s.Name, rec[i], got)})
			}
			continue
		}
		// must be re-processed: executed, unless its own precondition is unmet or a dependency (re-run with all-ok
		// scripts here) does not license it
		licensed := true
		for _, dn := range s.Depends {
			if !licenses(cfg.step(dn), x.finalOf(dn)) {
				licensed = false
			}
		}
		if s.HasRetry && licensed && !s.Unmet {
			// the re-executed step runs as its definition says: a fresh retry budget
			want := limitOf(s)
			if k := failK(s); k < want {
				want = k
			}
			want++
			if nStart != want {
				out = append(out, verdict{fmt.Sprintf("C10/reexecuted-step-retry-budget(want=%d,got=%d)", want, nStart), fmt.Sprintf("%s (fail first %d, retry limit %d; recorded %s with retry count %d) was executed %d times by the retry, its own definition gives %d; final %s", s.Name, s.Fail, s.Limit, rec[i], recRetryOf(cfg, i), nStart, want, f.Status)})
			} else if f != nil && f.RetryCount != nStart-1 {
				out = append(out, verdict{"C10/reexecuted-step-retry-count-mismatch", fmt.Sprintf("%s: %d extra attempts made by the retry, recorded retry count %d (the record it started from had %d)", s.Name, nStart-1, f.RetryCount, recRetryOf(cfg, i))})
			}
			continue
		}
		switch {
		case licensed && !s.Unmet && nStart == 0:
			out = append(out, verdict{"C10/unfinished-step-not-reexecuted(recorded=" + rec[i] + ")", fmt.Sprintf("%s (recorded %s, or downstream of an unfinished step) was not executed by the retry; final %s", s.Name, rec[i], f.Status)})
		case nStart > 1:
			out = append(out, verdict{"C10/step-executed-more-than-once", fmt.Sprintf("%s executed %d times by the retry", s.Name, nStart)})
		}
		// dependency order
		if st != nil {
			for _, at := range st.starts {
				for _, dn := range s.Depends {
					di := idx[dn]
					dt := ps[dn]
					if !redo[di] {
						continue // kept result
					}
					ended := false
					if dt != nil {
						for k, e := range dt.ends {
							if e < at && (dt.endOK[k] || cfg.Steps[di].CoF) {
								ended = true
							}
						}
						for _, ss := range dt.starts {
							if ss > at {
								ended = false
							}
						}
					}
					if (dt == nil || len(dt.starts) == 0) && licenses(cfg.step(dn), x.finalOf(dn)) {
						// the dependency was re-processed without being executed (skipped again, by its own
						// precondition or by an upstream skip) and its continueOn lets dependents proceed
						ended = true
					}
					if !ended && !(cfg.Steps[di].Unmet && cfg.Steps[di].CoS) {
						out = append(out, verdict{"C10/reexecution-out-of-dependency-order", fmt.Sprintf("%s started before its re-executed dependency %s had finished: %s", s.Name, dn, x.trace())})
					}
				}
			}
		}
	}
	return out
}

func c10family(thorough bool, add func(cfg *Config, bound int, maxExec int64, oracles ...string)) (tables int) {
	maxN := 3
	emit := func(n int, scripts []scriptT) {
		programs(famOpts{n: n, scripts: scripts, maxActive: []int{0}, delays: []int{0}, coAll: false}, func(c *Config) {
			// every status vector over the alphabet, filtered to those a run can leave behind
			total := 1
			for i := 0; i < n; i++ {
				total *= len(recAlphabet)
			}
			for code := 0; code < total; code++ {
				rec := make([]string, n)
				cc := code
				for i := 0; i < n; i++ {
					rec[i] = recAlphabet[cc%len(recAlphabet)]
					cc /= len(recAlphabet)
				}
				if !consistentRecord(c, rec) {
					continue
				}
				rc := *c
				rc.Recorded = rec
				// the retry itself runs with every step succeeding (the recorded failure is what is being retried),
				// except steps whose own precondition is unmet
				rc.Steps = append([]StepCfg(nil), c.Steps...)
				for i := range rc.Steps {
					rc.Steps[i].Fail, rc.Steps[i].HasRetry, rc.Steps[i].Limit = 0, false, 0
				}
				tables++
				add(&rc, 0, 200000, "C10")
			}
		})
	}
	// retry budget: a step with a retryPolicy that had used (part of) its retries in the recorded run gets a fresh budget
	for L := 1; L <= 2; L++ {
		for k := 0; k <= L+1; k++ {
			for _, ra := range []struct {
				st string
				rc int
			}{{"failed", L}, {"canceled", 1}, {"running", 1}, {"not started", 1}, {"failed", 0}} {
				a := retrying(st("a"), k, L, 0)
				for _, shape := range []int{1, 2} {
					c := &Config{Steps: []StepCfg{a}, Recorded: []string{ra.st}, RecRetry: []int{ra.rc}}
					if shape == 2 {
						c = &Config{Steps: []StepCfg{a, st("b", "a")}, Recorded: []string{ra.st, "not started"}, RecRetry: []int{ra.rc, 0}}
						if ra.st == "failed" {
							c.Recorded[1] = "canceled"
						}
					}
					tables++
					add(c, 0, 200000, "C10")
				}
			}
		}
	}
	base := []scriptT{scriptsFull[0], scriptsFull[1], scriptsFull[2]}
	for n := 1; n <= maxN; n++ {
		if n == 3 && !thorough {
			emit(n, []scriptT{scriptsFull[0], scriptsFull[1]})
			continue
		}
		emit(n, base)
	}
	if thorough {
		emit(4, []scriptT{scriptsFull[0], scriptsFull[1]})
	}
	_ = strings.Join
	_ = json.Marshal
	return
}
