package main

import "fmt"

var stepNames = []string{"a", "b", "c", "d"}

// dags enumerates every acyclic dependency relation on n labelled steps
// (adj[i] bit j = step i depends on step j). Listing order is a,b,c,…: the
// real loop launches in list order, so labelled graphs are distinct programs.
func dags(n int) [][]uint {
	var out [][]uint
	total := uint64(1) << uint(n*n)
	for m := uint64(0); m < total; m++ {
		adj := make([]uint, n)
		ok := true
		for i := 0; i < n && ok; i++ {
			adj[i] = uint(m >> uint(i*n) & (1<<uint(n) - 1))
			if adj[i]>>uint(i)&1 == 1 {
				ok = false
			}
		}
		if !ok || cyclic(n, adj) {
			continue
		}
		out = append(out, adj)
	}
	return out
}

func cyclic(n int, adj []uint) bool {
	color := make([]int, n)
	var visit func(i int) bool
	visit = func(i int) bool {
		color[i] = 1
		for j := 0; j < n; j++ {
			if adj[i]>>uint(j)&1 == 0 {
				continue
			}
			if color[j] == 1 || (color[j] == 0 && visit(j)) {
				return true
			}
		}
		color[i] = 2
		return false
	}
	for i := 0; i < n; i++ {
		if color[i] == 0 && visit(i) {
			return true
		}
	}
	return false
}

// script alphabet
type scriptT struct {
	name             string
	createFail       int
	fail, limit      int
	retry, unmet     bool
	canFail, canSkip bool
}

var scriptsFull = []scriptT{
	{name: "ok"},
	{name: "fail", fail: -1, canFail: true},
	{name: "unmet", unmet: true, canSkip: true},
	{name: "fail1-retry1", fail: 1, retry: true, limit: 1},
	{name: "fail2-retry1", fail: 2, retry: true, limit: 1, canFail: true},
	{name: "fail1-retry2", fail: 1, retry: true, limit: 2},
	{name: "createfail1-retry1", createFail: 1, retry: true, limit: 1, canFail: false},
}

var scriptsReduced = []scriptT{scriptsFull[0], scriptsFull[1], scriptsFull[2], scriptsFull[3]}

type famOpts struct {
	n          int
	scripts    []scriptT
	maxActive  []int
	delays     []int
	intervalMs int
	coAll      bool // enumerate continueOn on every step with dependents (else only where it can matter)
	maxRetry   int  // if > 0: at most this many steps with a retry policy per program
}

// programs enumerates the program family (deterministic order).
func programs(o famOpts, emit func(*Config)) {
	n := o.n
	for _, adj := range dags(n) {
		hasDependents := make([]bool, n)
		for i := 0; i < n; i++ {
			for j := 0; j < n; j++ {
				if adj[i]>>uint(j)&1 == 1 {
					hasDependents[j] = true
				}
			}
		}
		// which steps can be skipped because of an upstream skip (transitively)?
		idx := make([]int, n)
		var rec func(pos int)
		rec = func(pos int) {
			if pos == n {
				if o.maxRetry > 0 {
					k := 0
					for i := 0; i < n; i++ {
						if o.scripts[idx[i]].retry {
							k++
						}
					}
					if k > o.maxRetry {
						return
					}
				}
				// continueOn assignments
				type coOpt struct{ f, s bool }
				opts := make([][]coOpt, n)
				canSkip := make([]bool, n)
				for iter := 0; iter < n; iter++ {
					for i := 0; i < n; i++ {
						if o.scripts[idx[i]].canSkip {
							canSkip[i] = true
						}
						for j := 0; j < n; j++ {
							if adj[i]>>uint(j)&1 == 1 && canSkip[j] {
								canSkip[i] = true
							}
						}
					}
				}
				for i := 0; i < n; i++ {
					opts[i] = []coOpt{{}}
					if !hasDependents[i] {
						continue
					}
					f := o.coAll || o.scripts[idx[i]].canFail
					s := o.coAll || canSkip[i]
					if f {
						opts[i] = append(opts[i], coOpt{f: true})
					}
					if s {
						opts[i] = append(opts[i], coOpt{s: true})
					}
					if f && s {
						opts[i] = append(opts[i], coOpt{true, true})
					}
				}
				co := make([]int, n)
				var rec2 func(p int)
				rec2 = func(p int) {
					if p == n {
						for _, ma := range o.maxActive {
							for _, dl := range o.delays {
								cfg := &Config{MaxActive: ma, DelayMs: dl}
								for i := 0; i < n; i++ {
									sc := o.scripts[idx[i]]
									st := StepCfg{Name: stepNames[i], Fail: sc.fail, CreateFail: sc.createFail, Unmet: sc.unmet, HasRetry: sc.retry, Limit: sc.limit,
										CoF: opts[i][co[i]].f, CoS: opts[i][co[i]].s}
									if sc.retry {
										st.IntervalMs = o.intervalMs
									}
									for j := 0; j < n; j++ {
										if adj[i]>>uint(j)&1 == 1 {
											st.Depends = append(st.Depends, stepNames[j])
										}
									}
									cfg.Steps = append(cfg.Steps, st)
								}
								emit(cfg)
							}
						}
						return
					}
					for c := range opts[p] {
						co[p] = c
						rec2(p + 1)
					}
				}
				rec2(0)
				return
			}
			for s := range o.scripts {
				idx[pos] = s
				rec(pos + 1)
			}
		}
		rec(0)
	}
}

func st(name string, deps ...string) StepCfg { return StepCfg{Name: name, Depends: deps} }

func createFailing(s StepCfg, n int) StepCfg { s.CreateFail = n; return s }

func retrying(s StepCfg, fail, limit, intervalMs int) StepCfg {
	s.Fail, s.HasRetry, s.Limit, s.IntervalMs = fail, true, limit, intervalMs
	return s
}

// sharp: configurations explored with preemptions (the windows the NP mode cannot reach).
func sharp() []*Config {
	a, b, c := "a", "b", "c"
	fail := func(s StepCfg) StepCfg { s.Fail = -1; return s }
	cof := func(s StepCfg) StepCfg { s.CoF = true; return s }
	unmet := func(s StepCfg) StepCfg { s.Unmet = true; return s }
	cos := func(s StepCfg) StepCfg { s.CoS = true; return s }
	return []*Config{
		{Steps: []StepCfg{retrying(st(a), 1, 1, 0), st(b, a)}},               // retry then dependent, no interval
		{Steps: []StepCfg{retrying(st(a), 1, 1, 1000), st(b, a)}},            // … with an interval
		{Steps: []StepCfg{st(a), st(b), st(c, a, b)}},                        // two parallel steps joining
		{Steps: []StepCfg{retrying(st(a), 1, 1, 1000), st(b)}, MaxActive: 1}, // limit 1, one of two parallel steps retries
		{Steps: []StepCfg{cof(fail(st(a))), st(b, a)}},                       // continueOn.failure
		{Steps: []StepCfg{fail(st(a)), st(b, a), st(c)}},                     // failure containment next to an independent step
		{Steps: []StepCfg{cos(unmet(st(a))), st(b, a)}},                      // continueOn.skipped
		{Steps: []StepCfg{retrying(st(a), 2, 1, 0), st(b, a)}},               // retries exhausted
		{Steps: []StepCfg{st(a), st(b, a), st(c, b)}, DelayMs: 1000},         // chain with launch delay
		{Steps: []StepCfg{retrying(st(a), 1, 2, 0), retrying(st(b), 1, 1, 0)}, MaxActive: 2},
		{Steps: []StepCfg{cof(createFailing(retrying(st(a), 0, 1, 1000), 1)), st(b, a)}}, // first attempt fails before a process exists, continueOn.failure
	}
}

func describeFam(o famOpts) string {
	var sc []string
	for _, s := range o.scripts {
		sc = append(sc, s.name)
	}
	extra := ""
	if o.maxRetry > 0 {
		extra = fmt.Sprintf(", at most %d retrying step(s) per program", o.maxRetry)
	}
	return fmt.Sprintf("all acyclic dependency relations on %d labelled steps x scripts%v x continueOn(%s) x maxActiveRuns%v x delay%vms, retry interval %dms"+extra,
		o.n, sc, map[bool]string{true: "all four values on every step with dependents", false: "values that can matter"}[o.coAll], o.maxActive, o.delays, o.intervalMs)
}
