package main

import (
	"fmt"
	"strings"
)

// A verdict is one oracle failure on one execution.
type verdict struct {
	sig    string
	detail string
}

func (c *Config) mode() string {
	if c.DoneNil {
		return "done=nil"
	}
	return "done=chan"
}

const inf = 1 << 30

// failK: number of leading attempts that fail (creation failures come first, then failing processes).
func failK(s *StepCfg) int {
	if s.Fail < 0 {
		return inf
	}
	return s.Fail + s.CreateFail
}

func limitOf(s *StepCfg) int {
	if s.HasRetry {
		return s.Limit
	}
	return 0
}

var handlerNames = map[string]bool{"onSuccess": true, "onFailure": true, "onCancel": true, "onExit": true}

type stepTrace struct {
	starts, ends []int // event indices
	endOK        []bool
	creates      []int
}

func (x *Exec) perStep() map[string]*stepTrace {
	m := map[string]*stepTrace{}
	get := func(n string) *stepTrace {
		if m[n] == nil {
			m[n] = &stepTrace{}
		}
		return m[n]
	}
	for i, e := range x.Events {
		switch e.Kind {
		case "create":
			get(e.Step).creates = append(get(e.Step).creates, i)
		case "start":
			get(e.Step).starts = append(get(e.Step).starts, i)
		case "createfail":
			// an attempt that failed before a process existed: it began and ended (unsuccessfully) at once
			st := get(e.Step)
			st.starts = append(st.starts, i)
			st.ends = append(st.ends, i)
			st.endOK = append(st.endOK, false)
		case "end":
			st := get(e.Step)
			st.ends = append(st.ends, i)
			st.endOK = append(st.endOK, e.OK)
		}
	}
	return m
}

func (x *Exec) finalOf(name string) *NodeFinal {
	for i := range x.Nodes {
		if x.Nodes[i].Name == name {
			return &x.Nodes[i]
		}
	}
	return nil
}

// ---- C01: a step never starts before everything it depends on has finished its last attempt in a licensing state.
func oracleC01(x *Exec) []verdict {
	var out []verdict
	ps := x.perStep()
	for _, s := range x.Cfg.Steps {
		st := ps[s.Name]
		if st == nil {
			continue
		}
		for _, i := range st.starts {
			for _, dn := range s.Depends {
				d := x.Cfg.step(dn)
				dt := ps[dn]
				if dt == nil {
					dt = &stepTrace{}
				}
				// attempts of d before i
				nStart, nEnd, lastOK := 0, 0, false
				for _, j := range dt.starts {
					if j < i {
						nStart++
					}
				}
				for k, j := range dt.ends {
					if j < i {
						nEnd++
						lastOK = dt.endOK[k]
					}
				}
				laterStart := len(dt.starts) > nStart
				switch {
				case nStart > nEnd:
					out = append(out, verdict{"C01/start-while-dependency-attempt-running/" + x.Cfg.mode(),
						fmt.Sprintf("%s started (event %d) while an attempt of its dependency %s was still running", s.Name, i, dn)})
				case laterStart:
					out = append(out, verdict{"C01/start-before-dependency-last-attempt/" + x.Cfg.mode(),
						fmt.Sprintf("%s started (event %d) but its dependency %s was (re)started afterwards", s.Name, i, dn)})
				case nStart == 0:
					// dependency never ran: only a skipped dependency with continueOn.skipped licenses
					f := x.finalOf(dn)
					if f == nil || f.Status != "skipped" || !d.CoS {
						fs := "?"
						if f != nil {
							fs = f.Status
						}
						out = append(out, verdict{"C01/start-after-unexecuted-dependency(" + fs + ")/" + x.Cfg.mode(),
							fmt.Sprintf("%s started (event %d) although its dependency %s never ran (final %s, continueOn.skipped=%v)", s.Name, i, dn, fs, d.CoS)})
					}
				case !lastOK && !d.CoF:
					out = append(out, verdict{"C01/start-after-failed-dependency-without-continueOn/" + x.Cfg.mode(),
						fmt.Sprintf("%s started (event %d) after its dependency %s failed its last attempt without continueOn.failure", s.Name, i, dn)})
				case !lastOK && d.CoF:
					// failed for good? (retries must be exhausted: no later start — checked above)
				}
			}
		}
	}
	return out
}

// licensing state of a dependency for C02
func licenses(d *StepCfg, f *NodeFinal) bool {
	switch f.Status {
	case "finished":
		return true
	case "failed":
		return d.CoF
	case "skipped":
		return d.CoS
	}
	return false
}

// ---- C02: final step states follow the DAG semantics (run not stopped).
func oracleC02(x *Exec) []verdict {
	out := oracleC02raw(x)
	for i := range out {
		out[i].sig += "/" + x.Cfg.mode()
	}
	return out
}

func oracleC02raw(x *Exec) []verdict {
	var out []verdict
	if x.Cfg.Stop || x.Cfg.TimeoutMs > 0 || !x.Returned {
		return nil
	}
	ps := x.perStep()
	for i := range x.Cfg.Steps {
		s := &x.Cfg.Steps[i]
		f := x.finalOf(s.Name)
		if f == nil {
			out = append(out, verdict{"C02/no-final-state", s.Name})
			continue
		}
		st := ps[s.Name]
		executed := st != nil && len(st.starts) > 0
		created := st != nil && len(st.creates) > 0
		allLicense := true
		failBlock, skipBlock := false, false
		for _, dn := range s.Depends {
			d := x.Cfg.step(dn)
			df := x.finalOf(dn)
			if !licenses(d, df) {
				allLicense = false
				switch df.Status {
				case "failed", "canceled":
					failBlock = true
				case "skipped":
					skipBlock = true
				default:
					out = append(out, verdict{"C02/dependency-not-final(" + df.Status + ")", fmt.Sprintf("run ended with %s in state %s", dn, df.Status)})
				}
			}
		}
		if allLicense {
			want := ""
			switch {
			case s.Unmet:
				want = "skipped"
				if executed || created {
					out = append(out, verdict{"C02/step-with-unmet-precondition-executed", fmt.Sprintf("%s has an unmet precondition but was executed", s.Name)})
				}
			case failK(s) <= limitOf(s):
				want = "finished"
			default:
				want = "failed"
			}
			if !s.Unmet && !executed {
				out = append(out, verdict{"C02/licensed-step-not-executed(" + f.Status + ")", fmt.Sprintf("every dependency of %s lets it proceed, but it was never executed (final %s)", s.Name, f.Status)})
			} else if f.Status != want {
				cause := ""
				if want == "finished" && f.Status == "failed" {
					cause = "/" + x.failCause(s.Name)
				}
				out = append(out, verdict{"C02/licensed-step-wrong-state(want=" + want + ",got=" + f.Status + ")" + cause, fmt.Sprintf("%s: outcome dictates %s, reported %s", s.Name, want, f.Status)})
			}
		} else {
			if executed || created {
				cause := ""
				for _, dn := range s.Depends {
					if df := x.finalOf(dn); df != nil && df.Status == "failed" && x.failCause(dn) != "other" {
						cause = "/dependency-" + x.failCause(dn)
					}
				}
				out = append(out, verdict{"C02/blocked-step-executed" + cause, fmt.Sprintf("%s is downstream of a blocking dependency but was executed (final %s)", s.Name, f.Status)})
			}
			ok := (failBlock && f.Status == "canceled") || (skipBlock && f.Status == "skipped")
			if !ok {
				cause := ""
				for _, dn := range s.Depends {
					if df := x.finalOf(dn); df != nil && df.Status == "failed" && x.failCause(dn) != "other" {
						cause = "/dependency-" + x.failCause(dn)
					}
				}
				out = append(out, verdict{"C02/blocked-step-wrong-state(" + f.Status + ")" + cause, fmt.Sprintf("%s is blocked (failed/canceled dep=%v, skipped dep=%v) but reported %s", s.Name, failBlock, skipBlock, f.Status)})
			}
		}
	}
	return out
}

// ---- C03: exactly-once execution, bounded retries, retry count.
func oracleC03(x *Exec) []verdict {
	var out []verdict
	ps := x.perStep()
	// attempts never overlap (checked in every run, stopped or not)
	for name, st := range ps {
		if handlerNames[name] {
			continue
		}
		open := 0
		for i, e := range x.Events {
			_ = i
			if e.Step != name {
				continue
			}
			if e.Kind == "start" {
				open++
				if open > 1 {
					out = append(out, verdict{"C03/overlapping-attempts/" + x.Cfg.mode(), fmt.Sprintf("%s: a second attempt started while one was running", name)})
				}
			}
			if e.Kind == "end" {
				open--
			}
		}
		_ = st
	}
	if x.Cfg.Stop || x.Cfg.TimeoutMs > 0 {
		return out
	}
	if !x.Returned {
		out = append(out, verdict{"C03/run-did-not-complete(" + x.Outcome.Status.String() + ")/" + x.Cfg.mode(), "the run never ended: " + firstLines(x.Outcome.Detail, 12)})
		return out
	}
	for i := range x.Cfg.Steps {
		s := &x.Cfg.Steps[i]
		if s.Repeat {
			continue
		}
		f := x.finalOf(s.Name)
		st := ps[s.Name]
		n := 0
		if st != nil {
			n = len(st.starts)
		}
		runnable := !s.Unmet
		for _, dn := range s.Depends {
			if !licenses(x.Cfg.step(dn), x.finalOf(dn)) {
				runnable = false
			}
		}
		want := 0
		if runnable {
			k := failK(s)
			if k > limitOf(s) {
				k = limitOf(s)
			}
			want = 1 + k
		}
		if n != want {
			cause := ""
			for _, dn := range s.Depends {
				if df := x.finalOf(dn); df != nil && df.Status == "failed" && x.failCause(dn) != "other" {
					cause = "/dependency-" + x.failCause(dn)
				}
			}
			out = append(out, verdict{fmt.Sprintf("C03/attempt-count(want=%d,got=%d)%s/%s", want, n, cause, x.Cfg.mode()), fmt.Sprintf("%s (fail first %d, retry limit %d, runnable=%v): executed %d times, expected %d", s.Name, s.Fail, limitOf(s), runnable, n, want)})
			continue
		}
		if runnable && f != nil {
			if f.RetryCount != n-1 {
				out = append(out, verdict{"C03/retry-count-mismatch/" + x.Cfg.mode(), fmt.Sprintf("%s: %d extra attempts made, recorded retry count %d", s.Name, n-1, f.RetryCount)})
			}
			wantState := "failed"
			if failK(s) <= limitOf(s) {
				wantState = "finished"
			}
			if f.Status != wantState {
				cause := ""
				if wantState == "finished" && f.Status == "failed" {
					cause = "/" + x.failCause(s.Name)
				}
				out = append(out, verdict{"C03/final-state(want=" + wantState + ",got=" + f.Status + ")" + cause + "/" + x.Cfg.mode(), fmt.Sprintf("%s: after %d attempts expected %s, reported %s", s.Name, n, wantState, f.Status)})
			}
		}
	}
	return out
}

// ---- C15: never more than maxActiveRuns commands executing (retry waits count).
func oracleC15(x *Exec) []verdict {
	var out []verdict
	k := x.Cfg.MaxActive
	open := map[string]bool{}
	retryWait := map[string]int{} // step -> worker thread currently in its retry interval
	high := 0
	ps := x.perStep()
	for i, e := range x.Events {
		if handlerNames[e.Step] {
			continue
		}
		switch e.Kind {
		case "start":
			open[e.Step] = true
			delete(retryWait, e.Step)
		case "end":
			delete(open, e.Step)
			s := x.Cfg.step(e.Step)
			if s != nil && !e.OK && s.HasRetry && s.IntervalMs > 0 && e.Why == "exit1" {
				// will this worker retry? yes iff a later start of the step exists
				later := false
				for _, j := range ps[e.Step].starts {
					if j > i {
						later = true
					}
				}
				if later {
					retryWait[e.Step] = e.Thread
				}
			}
		case "wake":
			for st, th := range retryWait {
				if th == e.Thread {
					delete(retryWait, st)
				}
			}
		}
		n := len(open) + len(retryWait)
		if n > high {
			high = n
		}
		if k > 0 && n > k {
			out = append(out, verdict{"C15/limit-exceeded/" + x.Cfg.mode(), fmt.Sprintf("maxActiveRuns=%d but %d steps executing at event %d (%s); running=%v retry-wait=%v", k, n, i, e.Event.String(), keys(open), keysI(retryWait))})
			break
		}
	}
	x.highWater = high
	if !x.Cfg.Stop && x.Cfg.TimeoutMs == 0 && !x.Returned {
		out = append(out, verdict{"C15/run-did-not-complete(" + x.Outcome.Status.String() + ")/" + x.Cfg.mode(), "the run never ended: " + firstLines(x.Outcome.Detail, 12)})
	}
	return out
}

func keys(m map[string]bool) []string {
	var o []string
	for k := range m {
		o = append(o, k)
	}
	return o
}
func keysI(m map[string]int) []string {
	var o []string
	for k := range m {
		o = append(o, k)
	}
	return o
}

func firstLines(s string, n int) string {
	l := strings.Split(s, "\n")
	if len(l) > n {
		l = l[:n]
	}
	return strings.Join(l, "\n")
}

// ---- C04: run outcome and lifecycle handlers.
func oracleC04(x *Exec) []verdict {
	var out []verdict
	if !x.Returned {
		out = append(out, verdict{"C04/run-did-not-complete(" + x.Outcome.Status.String() + ")", "the run never ended: " + firstLines(x.Outcome.Detail, 12)})
		return out
	}
	if x.Cfg.TimeoutMs > 0 {
		return nil
	}
	allOK, anyFailed, anyCanceled, anyUnfinished := true, false, false, false
	for _, n := range x.Nodes {
		switch n.Status {
		case "finished", "skipped":
		case "failed":
			allOK, anyFailed = false, true
		case "canceled":
			allOK, anyCanceled = false, true
		default:
			allOK, anyUnfinished = false, true
		}
	}
	_ = anyCanceled
	// index of the last step-level event
	lastStepEv := -1
	for i, e := range x.Events {
		if (e.Kind == "start" || e.Kind == "end" || e.Kind == "create") && !handlerNames[e.Step] {
			lastStepEv = i
		}
	}
	// stop accepted before the steps completed?
	stoppedEarly := false
	stopLate := false
	if x.StopAt >= 0 {
		// steps complete at lastStepEv (or never started anything)
		if x.StopAt < lastStepEv {
			stoppedEarly = true
		} else {
			// the stop arrived around/after the last step event: it may or may not have pre-empted steps that had not started
			stopLate = true
		}
	}
	want := ""
	switch {
	case stoppedEarly && !allOK:
		want = "canceled"
	case stoppedEarly && allOK:
		want = "finished" // every step nevertheless completed successfully: not "stopped before completing"
	case stopLate:
		want = "" // don't care: outcome depends on whether anything was cut short
	case allOK:
		want = "finished"
	case anyFailed:
		want = "failed"
	}
	if anyUnfinished && x.StopAt < 0 {
		out = append(out, verdict{"C04/step-left-unfinished", "run returned with a step neither finished nor failed/canceled/skipped: " + x.finalsString()})
	}
	if stopLate {
		// still: status must be one of the consistent labels
		switch {
		case allOK && x.Status != "finished":
			out = append(out, verdict{"C04/status(want=finished,got=" + x.Status + ")/late-stop", x.finalsString()})
		case !allOK && x.Status != "canceled" && x.Status != "failed":
			out = append(out, verdict{"C04/status(got=" + x.Status + ")/late-stop", x.finalsString()})
		}
	} else if want != "" && x.Status != want {
		out = append(out, verdict{"C04/status(want=" + want + ",got=" + x.Status + ")", fmt.Sprintf("steps: %s; stop=%v", x.finalsString(), x.StopAt >= 0)})
	}
	// handlers
	matching := map[string]string{"finished": "onSuccess", "failed": "onFailure", "canceled": "onCancel"}[x.Status]
	ps := x.perStep()
	var order []string
	for i, e := range x.Events {
		if e.Kind == "start" && handlerNames[e.Step] {
			order = append(order, e.Step)
			if i < lastStepEv {
				out = append(out, verdict{"C04/handler-before-steps-finished(" + e.Step + ")", fmt.Sprintf("handler %s started at event %d, a step event follows at %d: %s", e.Step, i, lastStepEv, x.trace())})
			}
		}
	}
	mk := func(matching string) string {
		var w []string
		if _, ok := x.Cfg.Handlers[matching]; ok && matching != "" {
			w = append(w, matching)
		}
		if _, ok := x.Cfg.Handlers["onExit"]; ok {
			w = append(w, "onExit")
		}
		return strings.Join(w, ",")
	}
	wants := []string{mk(matching)}
	if stopLate {
		// the stop arrived when every step had already ended (e.g. while a handler was running): whether the
		// run then counts as "stopped before completing" is not fixed by the property; the handler set chosen
		// from the outcome of the steps is accepted as well
		fromSteps := "onSuccess"
		if !allOK {
			fromSteps = "onFailure"
		}
		wants = append(wants, mk(fromSteps))
	}
	got := strings.Join(order, ",")
	okOrder := false
	for _, w := range wants {
		if w == got {
			okOrder = true
		}
	}
	if !okOrder {
		out = append(out, verdict{fmt.Sprintf("C04/handlers(status=%s,want=[%s],got=[%s])", x.Status, wants[0], got), x.trace()})
	}
	for h := range x.Cfg.Handlers {
		if st := ps[h]; st != nil && len(st.starts) > 1 {
			out = append(out, verdict{"C04/handler-ran-twice(" + h + ")", x.trace()})
		}
	}
	return out
}
