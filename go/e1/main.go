// e1 — stateless model checker of the real step scheduler
// (internal/dag/scheduler, machine-instrumented at check time) under the
// cooperative runtime vrt. One binary serves the scheduler-level properties;
// -sub selects the property (oracle + configuration family).
package main

import (
	"encoding/json"
	"flag"
	"fmt"
	"os"
	"path/filepath"
	"runtime/pprof"
	"sort"
	"strings"
	"time"

	"github.com/ErdemOzgen/blackdagger/internal/zzverif/vlib"
	"github.com/ErdemOzgen/blackdagger/internal/zzverif/vrt"
)

type job struct {
	cfg     *Config
	oracles []func(*Exec) []verdict
	maxExec int64
	big     bool // explored by all shards (subtree sharding)
	conform bool // outcome set is checked against the free-running twin (vexec and real sh)
}

type replayT struct {
	Sub     string  `json:"sub"`
	Config  *Config `json:"config"`
	Choices []int   `json:"choices"`
}

var allOracles = map[string]func(*Exec) []verdict{
	"C01": oracleC01, "C02": oracleC02, "C03": oracleC03, "C15": oracleC15, "C04": oracleC04, "C10": oracleC10, "C05": oracleC05, "C08": oracleC08,
}

var (
	flagFree = flag.String("free", "", "free-running twin: run this configuration file without the cooperative runtime and print the outcome")
	flagReal = flag.Bool("real", false, "with -free: steps are real sh child processes")
)

func main() {
	fl := vlib.ParseFlags()
	if *flagFree != "" {
		freeMain(*flagFree, *flagReal, fl.Work)
		return
	}
	if pf := os.Getenv("VERIF_E1_CPUPROFILE"); pf != "" {
		f, _ := os.Create(pf)
		pprof.StartCPUProfile(f)
		defer pprof.StopCPUProfile()
	}
	if strings.HasSuffix(fl.Sub, "real") {
		realMain(fl)
		return
	}
	res := vlib.New("e1:" + fl.Sub)
	r := &runner{logDir: filepath.Join(fl.Work, "logs"), horizon: 20000, states: map[uint64]struct{}{}}
	budget := 2400
	if !fl.Thorough() {
		budget = 900
	}
	deadline := time.Now().Add(time.Duration(envInt("VERIF_E1_BUDGET_S", budget)) * time.Second)

	if fl.Replay != "" {
		replay(fl, res, r)
		return
	}
	onlyJob := envInt("VERIF_E1_ONLYJOB", -1)
	if os.Getenv("VERIF_E1_BRANCHSTATS") != "" {
		vrt.BranchStats = map[string]int{}
		defer func() { fmt.Fprintln(os.Stderr, "branch stats:", vrt.BranchStats) }()
	}

	confEvery := 400
	if fl.Thorough() {
		confEvery = 40
	}
	var jobs []job
	seenJob := map[string]bool{}
	add := func(cfg *Config, bound int, maxExec int64, oracles ...string) {
		c := *cfg
		c.Bound = bound
		// the thorough tier generates the quick tier's jobs first (see below): a job both tiers contain is kept once
		if k := c.Key(); seenJob[k] {
			return
		} else {
			seenJob[k] = true
		}
		j := job{cfg: &c, maxExec: maxExec, big: bound > 0 || c.Agent}
		// conformance: every 40th small program of a family and the buffered variants of the sharp list
		if !c.Agent && !c.Stop && c.Recorded == nil && c.TimeoutMs == 0 && !c.DoneSync && !c.DoneNil && (bound == 0 && len(jobs)%confEvery == 7) {
			j.conform = true
		}
		for _, o := range oracles {
			j.oracles = append(j.oracles, allOracles[o])
		}
		jobs = append(jobs, j)
	}
	var famDesc []string
	family := func(o famOpts, oracles ...string) {
		famDesc = append(famDesc, describeFam(o))
		programs(o, func(c *Config) { add(c, 0, 2000000, oracles...) })
	}
	sub := fl.Sub
	// The thorough tier first does everything the quick tier does, then its wider families: whatever the time
	// budget cuts off at the end is then the widest part, never something the quick tier covers.
	tiers := []bool{fl.Thorough()}
	if fl.Thorough() {
		tiers = []bool{false, true}
	}
	for _, thorough := range tiers {
		switch sub {
		case "C01", "C02", "C03":
			family(famOpts{n: 1, scripts: scriptsFull, maxActive: []int{0, 1}, delays: []int{0, 1000}, intervalMs: 1000, coAll: true}, sub)
			family(famOpts{n: 2, scripts: scriptsFull, maxActive: []int{0, 1, 2}, delays: []int{0, 1000}, intervalMs: 1000, coAll: true}, sub)
			if thorough {
				family(famOpts{n: 3, scripts: scriptsFull, maxActive: []int{0, 1, 2}, delays: []int{0}, intervalMs: 1000, coAll: false}, sub)
				family(famOpts{n: 3, scripts: scriptsReduced, maxActive: []int{0}, delays: []int{1000}, intervalMs: 0, coAll: true}, sub)
				family(famOpts{n: 4, scripts: scriptsReduced[:3], maxActive: []int{0, 1}, delays: []int{0}, intervalMs: 0, coAll: false}, sub)
			} else {
				family(famOpts{n: 3, scripts: scriptsReduced, maxActive: []int{0, 1}, delays: []int{0}, intervalMs: 1000, coAll: false, maxRetry: 1}, sub)
			}
			pb := 1
			var capPB int64 = 2000000
			if thorough {
				capPB = 0
			}
			famDesc = append(famDesc, durFamily(thorough, add, sub, []int{0, 1}))
			// retry matrix (the property's own quantifier): every limit 0..L and "fail the first k attempts"
			// with k below, at and above the limit (and always), alone and with a dependent; PB(0) with both
			// intervals, PB(1) without an interval in the three done arrangements
			maxL := 3
			if thorough {
				maxL = 4
			}
			famDesc = append(famDesc, fmt.Sprintf("retry matrix: limit 0..%d x fail-first-k (k = 0..limit+2, always) x {alone, with a dependent, with a dependent and continueOn.failure} x interval {0,1s}: PB(0); PB(1) for interval 0 in the three done arrangements", maxL))
			for L := 0; L <= maxL; L++ {
				for _, k := range append(seq(0, L+2), -1) {
					for _, iv := range []int{0, 1000} {
						a := retrying(st("a"), k, L, iv)
						ac := a
						ac.CoF = true
						for _, steps := range [][]StepCfg{{a}, {a, st("b", "a")}, {ac, st("b", "a")}} {
							c := &Config{Steps: steps}
							add(c, 0, 2000000, sub)
							if iv == 0 && (thorough || (k >= L && k <= L+1 && L >= 1 && L <= 2)) {
								add(c, 1, capPB, sub)
								cs := *c
								cs.DoneSync, cs.OutBytes = true, 10
								add(&cs, 1, capPB, sub)
								cn := *c
								cn.DoneNil, cn.OutBytes = true, 10
								add(&cn, 1, capPB, sub)
							}
						}
					}
				}
			}
			for i, c := range sharp() {
				// the agent's arrangement: unbuffered done channel consumed by a status-writer thread; steps print
				cs := *c
				cs.DoneSync, cs.OutBytes = true, 10
				if thorough || i < 4 {
					add(&cs, pb, capPB, sub)
				}
				// buffered done channel, silent steps
				add(c, pb, capPB, sub)
				if thorough && i < 6 {
					add(&cs, 2, 3000000, sub)
				}
				// the public API form Schedule(ctx, g, nil), as the repository's own tests call it
				cn := *c
				cn.DoneNil, cn.OutBytes = true, 10
				if thorough || i < 4 {
					add(&cn, pb, capPB, sub)
				}
			}
			res.Bounds["preemption_bound_sharp_list"] = map[bool]int{false: 1, true: 2}[thorough]
			res.Bounds["np_complete_n_le"] = 3
		case "C15":
			c15family(thorough, add)
			famDesc = append(famDesc, durFamily(thorough, add, sub, []int{1, 2}))
			// the limit next to failure containment, skips and arbitrary dependency shapes (a step that is
			// refused or canceled must not hold a slot): the general program family under every limit
			family(famOpts{n: 2, scripts: scriptsFull, maxActive: []int{1, 2}, delays: []int{0}, intervalMs: 1000, coAll: true}, sub)
			if thorough {
				family(famOpts{n: 3, scripts: scriptsReduced, maxActive: []int{1, 2, 3}, delays: []int{0}, intervalMs: 1000, coAll: false}, sub)
				family(famOpts{n: 4, scripts: scriptsReduced[:3], maxActive: []int{1, 2, 3}, delays: []int{0}, intervalMs: 0, coAll: false}, sub)
			} else {
				family(famOpts{n: 3, scripts: scriptsReduced, maxActive: []int{1, 2}, delays: []int{0}, intervalMs: 1000, coAll: false, maxRetry: 1}, sub)
			}
			famDesc = append(famDesc, "w in 1..3 parallel steps (+ join), maxActiveRuns 0..w+1, per-step scripts {ok, fail1-retry1(interval 1s), fail}")
		case "C04":
			c04family(thorough, add)
			famDesc = append(famDesc, "programs on <=2 steps (3 thorough) x outcome scripts x every subset of {onSuccess,onFailure,onCancel,onExit} scripted ok/fail x {no stop, stop at every explored instant}")
		case "C08":
			// agent-level programs observed at every decision: all programs on <= 2 steps (3 thorough) over the script alphabet
			maxN := 2
			if thorough {
				maxN = 3
			}
			for n := 1; n <= maxN; n++ {
				sc := scriptsFull
				if n == 3 {
					sc = scriptsReduced
				}
				ma := []int{0}
				if thorough {
					ma = []int{0, 1}
				}
				programs(famOpts{n: n, scripts: sc, maxActive: ma, delays: []int{0}, intervalMs: 1000, coAll: false, maxRetry: 1}, func(c *Config) {
					cc := *c
					cc.Agent, cc.Observe, cc.CleanupMs = true, true, 10000
					cc.Handlers = map[string]string{"onExit": "ok", "onFailure": "ok"}
					add(&cc, 0, 300000, "C08")
				})
			}
			for i, c := range sharp() {
				if i > 1 && !thorough {
					break
				}
				cc := *c
				cc.Agent, cc.Observe, cc.CleanupMs, cc.DoneSync, cc.OutBytes = true, true, 10000, true, 10
				add(&cc, 1, 1000000, "C08")
			}
			famDesc = append(famDesc, "agent-level (real agent.Agent, Agent.Status() called at every scheduling decision and after the run): all programs on <=2 steps (3 thorough) x scripts x maxActiveRuns {0,1}, PB(0); PB(1) on the sharp list with the agent's channel arrangement")
		case "C05":
			c05family(thorough, add)
			famDesc = append(famDesc, "agent-level: {single step, chain of 2, two parallel, retrying step + dependent} x {step ends by itself, ends only on signal, ignores SIGTERM} + signalOnStop, repeating and always-failing-retry steps; stop through the /stop path (a.signal(SIGTERM,true)) and through a.Signal(SIGTERM) at every explored instant; PB(1) on 3 programs; DAG timeout 1 s with hanging steps; maxCleanUpTime 10 s (virtual)")
		case "C10":
			n := c10family(thorough, add)
			res.Counters["recorded_tables"] = int64(n)
			famDesc = append(famDesc, "programs on <=3 steps (4 thorough) x scripts {ok, fail, unmet} x every recorded status vector over {not started, running, failed, canceled, finished, skipped} that a finished, stopped or crashed run can leave (consistency filter), through the persisted JSON form; the retry runs with all steps succeeding")
		default:
			fmt.Fprintln(os.Stderr, "e1: unknown -sub", sub)
			os.Exit(2)
		}
	}
	famDesc = dedupStrings(famDesc)

	outcomes := map[string]struct{}{}
	var raceSamples []string
	var totalStates int64
	small := 0
	for i, j := range jobs {
		if !j.big {
			small++
			if !fl.Mine(small) {
				continue
			}
		}
		if onlyJob >= 0 && i != onlyJob {
			continue
		}
		if time.Now().After(deadline) {
			res.Cap("time budget reached before all configurations were explored")
			break
		}
		jobStart := time.Now()
		ex := &Explorer{Bound: j.cfg.Bound, MaxExec: j.maxExec, Horizon: r.horizon}
		if j.big && fl.Shards > 1 {
			ex.Shards, ex.Shard = fl.Shards, fl.Shard
			ex.MaxExec = j.maxExec / int64(fl.Shards)
		}
		r.states = map[uint64]struct{}{}
		cfgKey := j.cfg.Key()
		nontrivial := false
		perCfgOutcomes := map[string]struct{}{}
		perCfgKeys := map[string]struct{}{}
		horizonHits := 0
		cfgBad := false // a violation or a hang in this configuration: the free-running twin would only wait for its timeout
		ex.Each(func(prefix []int) (*recChooser, bool) {
			x, ch := r.once(j.cfg, prefix, nil)
			if time.Now().After(deadline) {
				res.Cap("time budget reached inside a configuration (exploration of that configuration cut short)")
				return ch, false
			}
			if !ex.Mine(prefix) {
				ex.Skipped++
				return ch, true
			}
			res.Evaluations++
			if x.Outcome.Branches > 0 {
				nontrivial = true
			}
			switch x.Outcome.Status {
			case vrt.Redundant:
				res.Count("executions_cut_as_stutter_equivalent", 1)
				return ch, true
			case vrt.Aborted:
				res.CheckError("execution aborted: %s\nconfig: %s choices: %v", firstLines(x.Outcome.Detail, 30), j.cfg, x.Choices)
				return ch, false
			case vrt.Horizon:
				res.Cap(fmt.Sprintf("horizon of %d points hit", r.horizon))
				horizonHits++
				if horizonHits > 200 {
					// executions that run into the horizon are long; a configuration that keeps producing them is cut short
					res.Cap("more than 200 executions of one configuration ran into the horizon (exploration of that configuration cut short)")
					for _, o := range j.oracles {
						for _, v := range o(x) {
							report(res, fl, r, x, v)
						}
					}
					return ch, false
				}
			case vrt.Panicked:
				report(res, fl, r, x, verdict{sub + "/panic-in-scheduler", x.Outcome.Detail})
			case vrt.Hang:
				res.Count("hang_executions", 1)
				cfgBad = true
			}
			ok := true
			for _, o := range j.oracles {
				for _, v := range o(x) {
					report(res, fl, r, x, v)
					ok = false
					cfgBad = true
				}
			}
			if j.conform && x.Returned {
				perCfgKeys[x.outcomeKey()] = struct{}{}
			}
			key := x.finalsString() + "|" + summarize(x)
			if _, seen := perCfgOutcomes[key]; !seen {
				perCfgOutcomes[key] = struct{}{}
				if len(res.Samples) < 5 && (len(x.Events) > 6 || len(res.Samples) == 0) && res.Evaluations%7 == 1 {
					res.Sample(map[string]any{"config": j.cfg.String(), "choices": choicesString(x.Choices), "trace": x.trace(), "final": x.finalsString()})
				}
			}
			if x.observations > 0 {
				res.Validated += int64(x.observations)
			}
			if sub == "C15" && x.highWater > 0 {
				res.Counters[fmt.Sprintf("high_water=%d", x.highWater)]++
			}
			_ = ok
			return ch, true
		})
		if os.Getenv("VERIF_E1_PROGRESS") != "" {
			fmt.Fprintf(os.Stderr, "job %d %s: execs=%d decisions=%d states=%d elapsed=%v\n", i, j.cfg, ex.Execs, ex.Decisions, len(r.states), time.Since(jobStart))
		}
		if j.conform && os.Getenv("VERIF_HELPER_E1_FREE_RACE") != "" && sub == "C03" {
			if n, first, err := racePass(j.cfg, fl.Work); err == nil {
				res.Count("race_pass_runs", 1)
				res.Count("race_reports", int64(n))
				if n > 0 {
					res.Counters["race_pass_runs_with_reports"]++
					if len(raceSamples) < 3 {
						raceSamples = append(raceSamples, first)
					}
				}
			} else {
				res.CheckError("race pass of %s: %v", j.cfg, err)
			}
		}
		if j.conform && cfgBad {
			res.Count("conformance_skipped_after_violation_or_hang", 1)
		}
		if j.conform && !cfgBad && !ex.Capped && os.Getenv("VERIF_HELPER_E1_FREE") != "" && (sub == "C01" || sub == "C02" || sub == "C03" || sub == "C15") {
			for _, real := range []bool{false, true} {
				if real {
					// an attempt that fails before a process exists is a feature of the scripted executor only
					skip := false
					for _, s := range j.cfg.Steps {
						if s.CreateFail > 0 {
							skip = true
						}
					}
					if skip {
						continue
					}
				}
				okc, key, err := conform(j.cfg, perCfgKeys, fl.Work, real)
				kind := map[bool]string{false: "scripted executor, free-running", true: "real sh processes, free-running"}[real]
				switch {
				case err != nil:
					res.CheckError("conformance (%s) of %s: %v", kind, j.cfg, err)
				case !okc:
					var have []string
					for k := range perCfgKeys {
						have = append(have, k)
					}
					res.CheckError("conformance (%s): the free run of %s ended in an outcome the explorer did not enumerate:\n  free: %s\n  explored (%d): %s", kind, j.cfg, key, len(have), strings.Join(have, "\n            "))
				default:
					res.Validated++
					res.Count("conformance_runs_"+map[bool]string{false: "vexec", true: "sh"}[real], 1)
				}
			}
		}
		if ex.Capped {
			res.Cap(fmt.Sprintf("execution cap per configuration hit (PB(%d) configurations only)", j.cfg.Bound))
			res.Count("configs_capped", 1)
		}
		if !j.big || fl.Shard == 0 {
			res.Count("configs", 1)
		}
		res.Count("tree_top_executions_replicated_across_shards", ex.Skipped)
		res.Count(fmt.Sprintf("configs_PB%d", j.cfg.Bound), 1)
		res.Count(fmt.Sprintf("executions_PB%d", j.cfg.Bound), ex.Execs)
		res.Transitions += ex.Decisions
		totalStates += int64(len(r.states))
		if nontrivial {
			for k := range perCfgOutcomes {
				res.Nontrivial(vlib.Hash(cfgKey, k))
			}
		}
		for k := range perCfgOutcomes {
			outcomes[k] = struct{}{}
		}
	}
	if len(raceSamples) > 0 {
		res.Bounds["race_detector_reports(informational, free-running twin)"] = raceSamples
	}
	res.States = totalStates
	res.Counters["distinct_outcome_vectors"] = int64(len(outcomes))
	res.Bounds["families"] = famDesc
	res.Rule = "one evaluation = one complete execution of the real (instrumented) Scheduler.Schedule under the cooperative runtime; every choice sequence within the preemption bound is enumerated by prefix replay; distinct = distinct (program, final states + event summary) pair; non-trivial = the program had at least one decision with >= 2 continuations"
	res.Assume("child processes are modelled by the scripted executor (go/vexec); synchronisation is explored at sync/time/channel operations of scheduler.go, node.go, graph.go; unsynchronised accesses are not scheduling points")
	res.Assume("virtual time: computation is instantaneous relative to timers unless a preemption is spent")
	res.Write(fl.Out)
	os.RemoveAll(fl.Work)
}

func dedupStrings(in []string) []string {
	seen := map[string]bool{}
	var out []string
	for _, x := range in {
		if !seen[x] {
			seen[x] = true
			out = append(out, x)
		}
	}
	return out
}

func seq(a, b int) []int {
	var out []int
	for i := a; i <= b; i++ {
		out = append(out, i)
	}
	return out
}

func envInt(k string, d int) int {
	if v := os.Getenv(k); v != "" {
		var n int
		if _, err := fmt.Sscanf(v, "%d", &n); err == nil {
			return n
		}
	}
	return d
}

// summarize: order-insensitive event summary (attempt counts, handler order).
func summarize(x *Exec) string {
	cnt := map[string]int{}
	var hs []string
	for _, e := range x.Events {
		if e.Kind == "start" {
			cnt[e.Step]++
			if handlerNames[e.Step] {
				hs = append(hs, e.Step)
			}
		}
	}
	var ks []string
	for k, v := range cnt {
		ks = append(ks, fmt.Sprintf("%s:%d", k, v))
	}
	sort.Strings(ks)
	return strings.Join(ks, ",") + "|" + strings.Join(hs, ">")
}

// report double-checks a violation by replaying its choice list twice.
func report(res *vlib.Result, fl *vlib.Flags, r *runner, x *Exec, v verdict) {
	sig := v.sig
	if res.Counters["vio:"+sig] >= 3 {
		res.Counters["vio:"+sig]++
		return
	}
	t1, _ := r.once(x.Cfg, x.Choices, nil)
	t2, _ := r.once(x.Cfg, x.Choices, nil)
	if t1.trace() != x.trace() || t2.trace() != x.trace() || t1.finalsString() != x.finalsString() {
		res.CheckError("nondeterminism not owned: replay of %v on %s diverged\n orig: %s\n rep1: %s\n rep2: %s", x.Choices, x.Cfg, x.trace(), t1.trace(), t2.trace())
		return
	}
	detail := fmt.Sprintf("%s\nprogram: %s\nfinal: %s\ntrace: %s\nchoices: %s", v.detail, x.Cfg, x.finalsString(), x.trace(), choicesString(x.Choices))
	res.Violate(sig, detail, replayT{Sub: fl.Sub, Config: x.Cfg, Choices: x.Choices})
}

func replay(fl *vlib.Flags, res *vlib.Result, r *runner) {
	var rp struct {
		Replay replayT `json:"replay"`
	}
	b, err := os.ReadFile(fl.Replay)
	if err == nil {
		err = json.Unmarshal(b, &rp)
	}
	if err != nil || rp.Replay.Config == nil {
		fmt.Fprintln(os.Stderr, "replay:", err)
		os.Exit(2)
	}
	sub := rp.Replay.Sub
	if fl.Sub != "" {
		sub = fl.Sub
	}
	x, _ := r.once(rp.Replay.Config, rp.Replay.Choices, func(s string) { fmt.Println("  " + s) })
	res.Evaluations = 1
	fmt.Printf("program: %s\nchoices: %v\ntrace: %s\nfinal: %s\noutcome: %s %s\n", x.Cfg, x.Choices, x.trace(), x.finalsString(), x.Outcome.Status, firstLines(x.Outcome.Detail, 20))
	if o := allOracles[sub]; o != nil {
		for _, v := range o(x) {
			fmt.Printf("ORACLE %s: %s\n", v.sig, v.detail)
			res.Violate(v.sig, v.detail, rp.Replay)
		}
	}
	res.Write(fl.Out)
}
