package main

func c15family(thorough bool, add func(cfg *Config, bound int, maxExec int64, oracles ...string)) {
	type sc struct {
		fail, limit int
		retry       bool
	}
	alphabet := []sc{{}, {fail: 1, limit: 1, retry: true}, {fail: -1}}
	maxW := 3
	for w := 1; w <= maxW; w++ {
		n := 1
		for i := 0; i < w; i++ {
			n *= len(alphabet)
		}
		for code := 0; code < n; code++ {
			nRetry := 0
			for c, i := code, 0; i < w; i++ {
				if alphabet[c%len(alphabet)].retry {
					nRetry++
				}
				c /= len(alphabet)
			}
			if w == 3 && ((!thorough && nRetry > 1) || nRetry > 2) {
				continue
			}
			for k := 0; k <= w+1; k++ {
				for join := 0; join < 2; join++ {
					cfg := &Config{MaxActive: k}
					c := code
					var names []string
					for i := 0; i < w; i++ {
						a := alphabet[c%len(alphabet)]
						c /= len(alphabet)
						s := StepCfg{Name: stepNames[i], Fail: a.fail, HasRetry: a.retry, Limit: a.limit, CoF: true}
						if a.retry {
							s.IntervalMs = 1000
						}
						cfg.Steps = append(cfg.Steps, s)
						names = append(names, s.Name)
					}
					if join == 1 {
						cfg.Steps = append(cfg.Steps, StepCfg{Name: "j", Depends: names})
					}
					add(cfg, 0, 600000, "C15")
				}
			}
		}
	}
	// preemptive exploration of the sharpest configuration: two parallel steps, limit 1, one retries
	sharpC := &Config{MaxActive: 1, Steps: []StepCfg{retrying(st("a"), 1, 1, 1000), st("b")}}
	sharpD := &Config{MaxActive: 2, Steps: []StepCfg{retrying(st("a"), 1, 1, 1000), st("b"), st("c")}}
	if thorough {
		add(sharpC, 2, 1500000, "C15")
		add(sharpD, 1, 0, "C15")
	} else {
		add(sharpC, 1, 300000, "C15")
	}
}

func c04family(thorough bool, add func(cfg *Config, bound int, maxExec int64, oracles ...string)) {
	hn := []string{"onSuccess", "onFailure", "onCancel", "onExit"}
	var hsets []map[string]string
	for m := 0; m < 16; m++ {
		h := map[string]string{}
		for i, n := range hn {
			if m>>uint(i)&1 == 1 {
				h[n] = "ok"
			}
		}
		hsets = append(hsets, h)
	}
	for i := range hn {
		h := map[string]string{}
		for j, n := range hn {
			h[n] = "ok"
			if i == j {
				h[n] = "fail"
			}
		}
		hsets = append(hsets, h)
	}
	hsets = append(hsets, map[string]string{"onSuccess": "fail", "onFailure": "fail", "onCancel": "fail", "onExit": "fail"})
	scripts := []scriptT{scriptsFull[0], scriptsFull[1], scriptsFull[2]}
	withRetry := []scriptT{scriptsFull[0], scriptsFull[1], scriptsFull[3]}
	maxN := 2
	if thorough {
		maxN = 3
	}
	for n := 1; n <= maxN; n++ {
		hs := hsets
		if n == 3 {
			hs = []map[string]string{hsets[15], hsets[len(hsets)-1], hsets[0]}
		}
		programs(famOpts{n: n, scripts: scripts, maxActive: []int{0}, delays: []int{0}, coAll: false}, func(c *Config) {
			for _, h := range hs {
				for stop := 0; stop < 2; stop++ {
					cc := *c
					cc.Handlers = h
					cc.Stop = stop == 1
					add(&cc, 0, 0, "C04")
				}
			}
		})
		if n == 2 {
			// a retried step next to steps that fail: the outcome of the run must still reflect every step
			full := map[string]string{"onSuccess": "ok", "onFailure": "ok", "onCancel": "ok", "onExit": "ok"}
			programs(famOpts{n: n, scripts: withRetry, maxActive: []int{0}, delays: []int{0}, intervalMs: 1000, coAll: false}, func(c *Config) {
				hasRetry := false
				for _, s := range c.Steps {
					if s.HasRetry {
						hasRetry = true
					}
				}
				if !hasRetry {
					return
				}
				cc := *c
				cc.Handlers = full
				add(&cc, 0, 0, "C04")
			})
		}
	}
}
