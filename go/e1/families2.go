package main

import (
	"fmt"
	"strings"
)

func c15family(thorough bool, add func(cfg *Config, bound int, maxExec int64, oracles ...string)) {
	type sc struct {
		fail, limit int
		retry       bool
	}
	alphabet := []sc{{}, {fail: 1, limit: 1, retry: true}, {fail: -1}}
	maxW := 3
	for w := 1; w <= maxW; w++ {
		n := 1
		for i := 0; i < w; i++ {
			n *= len(alphabet)
		}
		for code := 0; code < n; code++ {
			nRetry := 0
			for c, i := code, 0; i < w; i++ {
				if alphabet[c%len(alphabet)].retry {
					nRetry++
				}
				c /= len(alphabet)
			}
			if w == 3 && ((!thorough && nRetry > 1) || nRetry > 2) {
				continue
			}
			for k := 0; k <= w+1; k++ {
				for join := 0; join < 2; join++ {
					cfg := &Config{MaxActive: k}
					c := code
					var names []string
					for i := 0; i < w; i++ {
						a := alphabet[c%len(alphabet)]
						c /= len(alphabet)
						s := StepCfg{Name: stepNames[i], Fail: a.fail, HasRetry: a.retry, Limit: a.limit, CoF: true}
						if a.retry {
							s.IntervalMs = 1000
						}
						cfg.Steps = append(cfg.Steps, s)
						names = append(names, s.Name)
					}
					if join == 1 {
						cfg.Steps = append(cfg.Steps, StepCfg{Name: "j", Depends: names})
					}
					add(cfg, 0, 600000, "C15")
				}
			}
		}
	}
	// repeating steps: between two iterations the step still holds its slot; the run is ended by a stop at every explored instant
	dur := func(s StepCfg, ms int) StepCfg { s.DurMs = ms; return s }
	rep := func(s StepCfg, ms int) StepCfg { s.Repeat, s.RepeatMs = true, ms; return s }
	for _, k := range []int{1, 2} {
		for _, p := range [][]StepCfg{
			{rep(st("a"), 1000), dur(st("b"), 1500), st("c")},
			{dur(st("a"), 1500), rep(st("b"), 1000), st("c")},
			{rep(dur(st("a"), 250), 1000), dur(st("b"), 1500), dur(st("c"), 250)},
		} {
			add(&Config{Steps: p, MaxActive: k, Stop: true}, 0, 60000, "C15")
		}
	}
	// preemptive exploration of the sharpest configuration: two parallel steps, limit 1, one retries
	sharpC := &Config{MaxActive: 1, Steps: []StepCfg{retrying(st("a"), 1, 1, 1000), st("b")}}
	sharpD := &Config{MaxActive: 2, Steps: []StepCfg{retrying(st("a"), 1, 1, 1000), st("b"), st("c")}}
	if thorough {
		add(sharpC, 2, 1500000, "C15")
		add(sharpD, 1, 0, "C15")
	} else {
		add(sharpC, 1, 300000, "C15")
	}
}

func c04family(thorough bool, add func(cfg *Config, bound int, maxExec int64, oracles ...string)) {
	hn := []string{"onSuccess", "onFailure", "onCancel", "onExit"}
	var hsets []map[string]string
	for m := 0; m < 16; m++ {
		h := map[string]string{}
		for i, n := range hn {
			if m>>uint(i)&1 == 1 {
				h[n] = "ok"
			}
		}
		hsets = append(hsets, h)
	}
	for i := range hn {
		h := map[string]string{}
		for j, n := range hn {
			h[n] = "ok"
			if i == j {
				h[n] = "fail"
			}
		}
		hsets = append(hsets, h)
	}
	hsets = append(hsets, map[string]string{"onSuccess": "fail", "onFailure": "fail", "onCancel": "fail", "onExit": "fail"})
	scripts := []scriptT{scriptsFull[0], scriptsFull[1], scriptsFull[2]}
	withRetry := []scriptT{scriptsFull[0], scriptsFull[1], scriptsFull[3]}
	maxN := 2
	if thorough {
		maxN = 3
	}
	for n := 1; n <= maxN; n++ {
		hs := hsets
		if n == 3 {
			hs = []map[string]string{hsets[15], hsets[len(hsets)-1], hsets[0]}
		}
		programs(famOpts{n: n, scripts: scripts, maxActive: []int{0}, delays: []int{0}, coAll: false}, func(c *Config) {
			for _, h := range hs {
				for stop := 0; stop < 2; stop++ {
					cc := *c
					cc.Handlers = h
					cc.Stop = stop == 1
					add(&cc, 0, 0, "C04")
				}
			}
		})
		if n == 2 {
			// a retried step next to steps that fail: the outcome of the run must still reflect every step
			full := map[string]string{"onSuccess": "ok", "onFailure": "ok", "onCancel": "ok", "onExit": "ok"}
			programs(famOpts{n: n, scripts: withRetry, maxActive: []int{0}, delays: []int{0}, intervalMs: 1000, coAll: false}, func(c *Config) {
				hasRetry := false
				for _, s := range c.Steps {
					if s.HasRetry {
						hasRetry = true
					}
				}
				if !hasRetry {
					return
				}
				cc := *c
				cc.Handlers = full
				add(&cc, 0, 0, "C04")
			})
		}
	}
}

// depVariants: the spellings of one dependency set in a `depends` list — every order, and every order
// with one entry repeated at any position (canonical order first).
func depVariants(d []string) [][]string {
	var out [][]string
	seen := map[string]bool{}
	var rec func(cur []string, maxLen int)
	rec = func(cur []string, maxLen int) {
		if len(cur) >= len(d) {
			cover := map[string]bool{}
			for _, x := range cur {
				cover[x] = true
			}
			if len(cover) == len(d) {
				k := strings.Join(cur, ",")
				if !seen[k] {
					seen[k] = true
					out = append(out, append([]string(nil), cur...))
				}
			}
		}
		if len(cur) == maxLen {
			return
		}
		for _, x := range d {
			rec(append(cur, x), maxLen)
		}
	}
	rec(nil, len(d))
	rec(nil, len(d)+1)
	return out
}

// durFamily: programs whose steps take time (an attempt lasts 2.5 polling pauses of the scheduling loop, so
// that "a dependency is still executing when the loop scans" is reachable without spending a preemption),
// with met preconditions, and with every spelling of each dependency list (order, repeated entries).
func durFamily(thorough bool, add func(cfg *Config, bound int, maxExec int64, oracles ...string), sub string, maxActives []int) string {
	type sc struct {
		fail, dur  int
		met, unmet bool
	}
	alphabet := []sc{{}, {dur: 250}, {fail: -1}, {dur: 250, met: true}}
	if thorough {
		alphabet = append(alphabet, sc{fail: -1, dur: 250}, sc{unmet: true})
	}
	n := 3
	for _, adj := range dags(n) {
		deps := make([][]string, n)
		hasDependents := make([]bool, n)
		for i := 0; i < n; i++ {
			for j := 0; j < n; j++ {
				if adj[i]>>uint(j)&1 == 1 {
					deps[i] = append(deps[i], stepNames[j])
					hasDependents[j] = true
				}
			}
		}
		// spellings: canonical everywhere, or exactly one step with a non-canonical spelling
		type spelling [][]string
		spell := []spelling{{deps[0], deps[1], deps[2]}}
		for i := 0; i < n; i++ {
			if len(deps[i]) == 0 {
				continue
			}
			for _, v := range depVariants(deps[i])[1:] {
				s := spelling{deps[0], deps[1], deps[2]}
				s[i] = v
				spell = append(spell, s)
			}
		}
		total := 1
		for i := 0; i < n; i++ {
			total *= len(alphabet)
		}
		for code := 0; code < total; code++ {
			idx := make([]int, n)
			nDur := 0
			for c, i := code, 0; i < n; i++ {
				idx[i] = c % len(alphabet)
				c /= len(alphabet)
				if alphabet[idx[i]].dur > 0 {
					nDur++
				}
			}
			for si, sp := range spell {
				if si > 0 && nDur == 0 {
					continue // a spelling can only matter when some step is still executing at a scan
				}
				for _, ma := range maxActives {
					// continueOn.failure on every failing step with dependents, or on none
					for cof := 0; cof < 2; cof++ {
						cfg := &Config{MaxActive: ma}
						any := false
						for i := 0; i < n; i++ {
							a := alphabet[idx[i]]
							s := StepCfg{Name: stepNames[i], Depends: sp[i], Fail: a.fail, DurMs: a.dur, Met: a.met, Unmet: a.unmet}
							if cof == 1 && (a.fail != 0 || a.unmet) && hasDependents[i] {
								s.CoF, s.CoS = a.fail != 0, a.unmet
								any = true
							}
							cfg.Steps = append(cfg.Steps, s)
						}
						if cof == 1 && !any {
							continue
						}
						add(cfg, 0, 2000000, sub)
					}
				}
			}
		}
	}
	return "durations and spellings: all acyclic dependency relations on 3 labelled steps x per-step scripts {ok, ok lasting 250 ms, fail, met precondition + 250 ms" +
		map[bool]string{true: ", fail lasting 250 ms, unmet precondition", false: ""}[thorough] +
		"} x every spelling of one step's depends list (each order, each order with one entry repeated) x maxActiveRuns " + fmt.Sprint(maxActives) + " x continueOn {none, on every failing/skipped step with dependents}; PB(0)"
}
