package main

import (
	"fmt"
	"strings"

	"github.com/ErdemOzgen/blackdagger/internal/zzverif/vrt"
)

// recChooser replays a prefix of choices, then takes option 0, and records
// every decision (menu size, option costs) so that the explorer can enumerate
// the alternatives.
type recChooser struct {
	prefix   []int
	choices  []int
	ns       []int
	desc     []func() []string
	keepDesc bool
}

func (c *recChooser) Choose(d vrt.Decision) int {
	idx := 0
	if len(c.choices) < len(c.prefix) {
		idx = c.prefix[len(c.choices)]
	}
	c.choices = append(c.choices, idx)
	c.ns = append(c.ns, d.N)
	if c.keepDesc {
		c.desc = append(c.desc, d.Desc)
	}
	return idx
}

// Explorer enumerates every choice sequence of an execution body whose total
// preemption cost is <= Bound (depth-first, prefix replay on fresh instances).
type Explorer struct {
	Bound     int
	MaxExec   int64 // cap on executions per configuration (0 = none)
	Horizon   int
	Execs     int64
	Capped    bool
	Decisions int64

	// Subtree sharding (big configurations): every shard runs the root execution (all default
	// choices; visited by shard 0 only) and owns the level-1 subtrees — one per alternative
	// (position, option) of the root execution — whose prefix hashes to it.
	Shards, Shard int
	Skipped       int64
}

func (e *Explorer) ownsPrefix(p []int) bool {
	if e.Shards <= 1 {
		return true
	}
	h := uint32(2166136261)
	for _, c := range p {
		h = (h ^ uint32(c+1)) * 16777619
	}
	h = (h ^ uint32(len(p))) * 16777619
	h ^= h >> 13
	return int(h%uint32(e.Shards)) == e.Shard
}

// Mine reports whether the execution reached through prefix is visited by this shard.
func (e *Explorer) Mine(prefix []int) bool { return e.Shards <= 1 || len(prefix) > 0 || e.Shard == 0 }

// Each calls run(prefix) for every execution; run returns the recorded chooser.
// visit returns false to stop the exploration of this configuration early.
func (e *Explorer) Each(run func(prefix []int) (*recChooser, bool)) {
	stack := [][]int{nil}
	for len(stack) > 0 {
		prefix := stack[len(stack)-1]
		stack = stack[:len(stack)-1]
		if e.MaxExec > 0 && e.Execs >= e.MaxExec {
			e.Capped = true
			return
		}
		c, cont := run(prefix)
		e.Execs++
		e.Decisions += int64(len(c.choices))
		if !cont {
			return
		}
		// every offered option is affordable (the runtime filters menus by the remaining budget);
		// push alternatives deepest-first so that the DFS stays close to the last execution
		for i := len(prefix); i < len(c.choices); i++ {
			for alt := c.ns[i] - 1; alt >= 1; alt-- {
				p := make([]int, i+1)
				copy(p, c.choices[:i])
				p[i] = alt
				if len(prefix) == 0 && !e.ownsPrefix(p) {
					continue
				}
				stack = append(stack, p)
			}
		}
	}
}

func choicesString(ch []int) string {
	var sb strings.Builder
	for i, c := range ch {
		if i > 0 {
			sb.WriteByte(',')
		}
		fmt.Fprintf(&sb, "%d", c)
	}
	return sb.String()
}
