package main

// The real-process family (free-running twin binary only, `-sub C0xreal`): every
// program of a small family is run once through the real, un-instrumented
// scheduler with real `sh` children through the real command executor, with the
// step attributes that the scripted executor cannot carry (`output:` capture,
// stdout/stderr redirect files, `script:`), and the oracles of the property are
// applied to the trace the children themselves write. No schedule exploration
// here (that is the instrumented harness' job): the deciding enumeration is over
// programs x attribute sets; what it adds is Node.Execute's attribute-dependent
// paths and the real executor below the scheduler.

import (
	"context"
	"encoding/json"
	"fmt"
	"os"
	"path/filepath"
	"strconv"
	"strings"
	"time"

	"github.com/ErdemOzgen/blackdagger/internal/dag"
	"github.com/ErdemOzgen/blackdagger/internal/dag/scheduler"
	"github.com/ErdemOzgen/blackdagger/internal/zzverif/venv"
	"github.com/ErdemOzgen/blackdagger/internal/zzverif/vexec"
	"github.com/ErdemOzgen/blackdagger/internal/zzverif/vlib"
)

type realAttrs struct {
	Output bool `json:"output,omitempty"` // every step has `output: OUT_<NAME>` and prints to stdout
	Files  bool `json:"files,omitempty"`  // every step has stdout: and stderr: redirect files
	Script bool `json:"script,omitempty"` // the body is given as `script:` (run by sh) instead of sh -c
}

func (a realAttrs) String() string {
	var p []string
	if a.Output {
		p = append(p, "output")
	}
	if a.Files {
		p = append(p, "stdout+stderr-files")
	}
	if a.Script {
		p = append(p, "script")
	}
	if len(p) == 0 {
		return "plain"
	}
	return strings.Join(p, "+")
}

type realReplay struct {
	Sub    string    `json:"sub"`
	Real   bool      `json:"real"`
	Config *Config   `json:"config"`
	Attrs  realAttrs `json:"attrs"`
}

// runReal executes cfg freely with real children and returns what the oracles look at.
func runReal(cfg *Config, at realAttrs, work string) (*Exec, error) {
	_ = os.RemoveAll(work)
	logDir := filepath.Join(work, "logs")
	if err := os.MkdirAll(logDir, 0o755); err != nil {
		return nil, err
	}
	trace := filepath.Join(work, "trace")
	steps, scripts := buildSteps(cfg)
	for i := range steps {
		name := steps[i].Name
		sc := scripts[name]
		fail := sc.Fail
		if fail < 0 {
			fail = 1 << 20
		}
		cnt := filepath.Join(work, "cnt-"+name)
		dur := ""
		if sc.DurMs > 0 {
			dur = fmt.Sprintf("sleep %d.%03d; ", sc.DurMs/1000, sc.DurMs%1000)
		}
		body := fmt.Sprintf(`n=$(cat %q 2>/dev/null || echo 0); n=$((n+1)); echo $n > %q; echo "S %s $n" >> %q; echo "out-%s-$n"; echo "err-%s-$n" >&2; %sif [ $n -gt %d ]; then echo "E %s $n ok" >> %q; exit 0; else echo "E %s $n fail" >> %q; exit 3; fi`,
			cnt, cnt, name, trace, name, name, dur, fail, name, trace, name, trace)
		s := dag.Step{Name: name, Dir: work}
		if at.Script {
			s.Command, s.Script = "sh", body+"\n"
		} else {
			s.Command, s.Args = "sh", []string{"-c", body}
		}
		if at.Output {
			s.Output = "OUT_" + strings.ToUpper(name)
		}
		if at.Files {
			s.Stdout, s.Stderr = filepath.Join(work, name+".out"), filepath.Join(work, name+".err")
		}
		s.Depends, s.ContinueOn, s.RetryPolicy, s.Preconditions = steps[i].Depends, steps[i].ContinueOn, steps[i].RetryPolicy, steps[i].Preconditions
		steps[i] = s
	}
	g, err := scheduler.NewExecutionGraph(venv.Quiet, steps...)
	if err != nil {
		return nil, err
	}
	sc := scheduler.New(&scheduler.Config{LogDir: logDir, Logger: venv.Quiet, MaxActiveRuns: cfg.MaxActive,
		Delay: time.Duration(cfg.DelayMs) * time.Millisecond, ReqID: "req"})
	d := &dag.DAG{Name: "prog", Location: filepath.Join(work, "prog.yaml")}
	ctx := dag.NewContext(context.Background(), d, nil, "req", "")
	done := make(chan *scheduler.Node)
	go func() {
		for range done {
		}
	}()
	errc := make(chan error, 1)
	go func() { errc <- sc.Schedule(ctx, g, done) }()
	x := &Exec{Cfg: cfg, StopAt: -1, Handlers: map[string]NodeFinal{}}
	select {
	case <-errc:
		x.Returned = true
		close(done)
	case <-time.After(90 * time.Second):
		// the run never ended: report what is known (the oracles flag it)
	}
	b, _ := os.ReadFile(trace)
	for _, l := range strings.Split(strings.TrimSpace(string(b)), "\n") {
		f := strings.Fields(l)
		if len(f) < 3 {
			continue
		}
		n, _ := strconv.Atoi(f[2])
		switch f[0] {
		case "S":
			x.Events = append(x.Events, Ev{Event: vexec.Event{Kind: "start", Step: f[1], Attempt: n}})
		case "E":
			ok := len(f) > 3 && f[3] == "ok"
			why := ""
			if !ok {
				why = "exit1"
			}
			x.Events = append(x.Events, Ev{Event: vexec.Event{Kind: "end", Step: f[1], Attempt: n, OK: ok, Why: why}})
		}
	}
	if x.Returned {
		for _, n := range g.Nodes() {
			x.Nodes = append(x.Nodes, final(n))
		}
		x.Status = sc.Status(g).String()
	}
	for i := range steps {
		_ = os.Unsetenv("OUT_" + strings.ToUpper(steps[i].Name))
	}
	return x, nil
}

func realFamily(thorough bool, emit func(*Config, realAttrs)) string {
	scr := []scriptT{{name: "ok"}, {name: "fail", fail: -1, canFail: true}, {name: "fail1-retry1", fail: 1, retry: true, limit: 1},
		{name: "fail2-retry2", fail: 2, retry: true, limit: 2}, {name: "fail2-retry1", fail: 2, retry: true, limit: 1, canFail: true}, {name: "unmet", unmet: true, canSkip: true}}
	attrs := []realAttrs{{}, {Output: true}, {Files: true}, {Output: true, Files: true}, {Script: true, Output: true}}
	// quick: the attribute sets that reach every attribute at least once, maxActiveRuns unset; thorough: the full product and 3 steps
	a2, ma, sc2 := []realAttrs{{Output: true}, {Output: true, Files: true}, {Script: true}}, []int{0}, []scriptT{scr[0], scr[1], scr[2], scr[4], scr[5]}
	if thorough {
		a2, ma, sc2 = attrs, []int{0, 1}, scr
	}
	for _, n := range []int{1, 2} {
		for _, at := range a2 {
			programs(famOpts{n: n, scripts: sc2, maxActive: ma, delays: []int{0}, intervalMs: 0, coAll: false}, func(c *Config) { emit(c, at) })
		}
	}
	var a3 []realAttrs
	if thorough {
		a3 = attrs
	}
	for _, at := range a3 {
		programs(famOpts{n: 3, scripts: []scriptT{scr[0], scr[1], scr[2]}, maxActive: []int{0}, delays: []int{0}, intervalMs: 0, coAll: false, maxRetry: 1}, func(c *Config) { emit(c, at) })
	}
	var names []string
	for _, s := range sc2 {
		names = append(names, s.name)
	}
	return fmt.Sprintf("real processes: all acyclic dependency relations on <=2 labelled steps x scripts %v x continueOn(values that can matter) x maxActiveRuns%v x attribute sets %v; 3 steps x [ok fail fail1-retry1] (<=1 retrying step) x attribute sets %v; one free run each, real sh children through the real command executor", names, ma, a2, a3)
}

func realMain(fl *vlib.Flags) {
	sub := strings.TrimSuffix(fl.Sub, "real")
	oracle := allOracles[sub]
	res := vlib.New("e1-real:" + sub)
	if oracle == nil {
		res.CheckError("no oracle for %q", fl.Sub)
		res.Write(fl.Out)
		return
	}
	work := filepath.Join(fl.Work, "real")
	check := func(cfg *Config, at realAttrs) {
		x, err := runReal(cfg, at, work)
		if err != nil {
			res.CheckError("real run of %s [%s]: %v", cfg, at, err)
			return
		}
		res.Evaluations++
		res.Nontrivial(vlib.Hash(cfg.Key(), at.String()))
		res.Count("real_runs:"+at.String(), 1)
		if !x.Returned {
			res.Violate(sub+"/run-did-not-end/real-process/"+at.String(), fmt.Sprintf("program %s [%s]: Schedule did not return within 90 s; trace: %s", cfg, at, x.trace()), realReplay{Sub: fl.Sub, Real: true, Config: cfg, Attrs: at})
			return
		}
		for _, v := range oracle(x) {
			sig := v.sig + "/real-process/" + at.String()
			if res.Counters["vio:"+sig] >= 3 {
				res.Counters["vio:"+sig]++
				continue
			}
			res.Violate(sig, fmt.Sprintf("%s\nprogram: %s [%s] (real sh children)\nfinal: %s\ntrace: %s", v.detail, cfg, at, x.finalsString(), x.trace()), realReplay{Sub: fl.Sub, Real: true, Config: cfg, Attrs: at})
		}
		if len(res.Samples) < 4 && res.Evaluations%97 == 5 {
			res.Sample(map[string]any{"program": cfg.String(), "attributes": at.String(), "trace": x.trace(), "final": x.finalsString()})
		}
	}
	if fl.Replay != "" {
		var rp struct {
			Replay realReplay `json:"replay"`
		}
		b, err := os.ReadFile(fl.Replay)
		if err == nil {
			err = json.Unmarshal(b, &rp)
		}
		if err == nil && rp.Replay.Real && rp.Replay.Config != nil {
			check(rp.Replay.Config, rp.Replay.Attrs)
		}
		res.Write(fl.Out)
		os.RemoveAll(fl.Work)
		return
	}
	k := 0
	desc := realFamily(fl.Thorough(), func(c *Config, at realAttrs) {
		k++
		if !fl.Mine(k) {
			return
		}
		cc := *c
		check(&cc, at)
	})
	res.Bounds["families"] = []string{desc}
	res.Rule = "one evaluation = one free run of the real scheduler with real sh children (no schedule control) for one (program, attribute set); the oracle of the property is applied to the start/end lines the children append to a trace file and to the final node states; distinct = distinct (program, attribute set)"
	res.Assume("real time: the children's own trace lines order starts and ends; a dependent's start line after its dependency's end line is what a respected dependency always gives")
	res.Write(fl.Out)
	os.RemoveAll(fl.Work)
}
