package main

import (
	"fmt"

	"github.com/ErdemOzgen/blackdagger/internal/persistence/model"
)

// C08(a): the status the agent reports (Agent.Status, what /status serves and
// what is persisted) is truthful at every observation instant and at the end.

// liveCheck compares one live snapshot with the event trace so far.
func liveCheck(x *Exec, st *model.Status) []verdict {
	var out []verdict
	open := map[string]bool{}
	okEnd := map[string]bool{}
	failEnds := map[string]int{}
	starts := map[string]int{}
	for _, e := range x.Events {
		switch e.Kind {
		case "start":
			open[e.Step] = true
			starts[e.Step]++
			okEnd[e.Step] = false
		case "createfail":
			// an attempt that failed before a process existed
			starts[e.Step]++
			okEnd[e.Step] = false
			failEnds[e.Step]++
		case "end":
			delete(open, e.Step)
			okEnd[e.Step] = e.OK
			if !e.OK {
				failEnds[e.Step]++
			}
		}
	}
	for _, n := range st.Nodes {
		name := n.Step.Name
		s := n.StatusText
		switch {
		case open[name] && s != "running" && x.StopAt < 0:
			out = append(out, verdict{"C08/live/step-executing-but-reported-" + s, fmt.Sprintf("%s has a running command but is reported %s", name, s)})
		case s == "finished" && !okEnd[name]:
			out = append(out, verdict{"C08/live/reported-finished-without-successful-attempt", fmt.Sprintf("%s reported finished; trace: %s", name, x.trace())})
		case s == "failed" && failEnds[name] == 0 && starts[name] > 0 && x.failCauseLive(n.Error) == "other":
			out = append(out, verdict{"C08/live/reported-failed-without-failed-attempt", fmt.Sprintf("%s reported failed (%s); trace: %s", name, n.Error, x.trace())})
		case s == "not started" && open[name]:
			out = append(out, verdict{"C08/live/reported-not-started-while-executing", name})
		}
		if n.RetryCount > failEnds[name] {
			out = append(out, verdict{"C08/live/retry-count-exceeds-failed-attempts", fmt.Sprintf("%s: retry count %d, failed attempts so far %d", name, n.RetryCount, failEnds[name])})
		}
		if starts[name] > 0 && n.Log == "" {
			out = append(out, verdict{"C08/live/log-path-missing-after-start", name})
		}
		if n.StartedAt != "" && n.StartedAt != "-" && n.FinishedAt != "" && n.FinishedAt != "-" && n.StartedAt > n.FinishedAt && s != "running" {
			out = append(out, verdict{"C08/live/start-after-finish", fmt.Sprintf("%s: started %s finished %s", name, n.StartedAt, n.FinishedAt)})
		}
	}
	return out
}

func (x *Exec) failCauseLive(err string) string {
	if err != "" && (contains(err, "file already closed")) {
		return "teardown-on-closed-file"
	}
	return "other"
}

func contains(s, sub string) bool {
	for i := 0; i+len(sub) <= len(s); i++ {
		if s[i:i+len(sub)] == sub {
			return true
		}
	}
	return false
}

// oracleC08 checks the final (persisted) status against what happened.
func oracleC08(x *Exec) []verdict {
	out := append([]verdict(nil), x.liveVerdicts...)
	if !x.Returned || x.finalStatus == nil {
		if x.Outcome.Status.String() == "hang" && !x.Cfg.Stop {
			out = append(out, verdict{"C08/final/run-did-not-end", firstLines(x.Outcome.Detail, 10)})
		}
		return out
	}
	out = append(out, liveCheck(x, x.finalStatus)...)
	ps := x.perStep()
	for _, n := range x.finalStatus.Nodes {
		name := n.Step.Name
		st := ps[name]
		attempts := 0
		if st != nil {
			attempts = len(st.starts)
		}
		if attempts > 0 && n.RetryCount != attempts-1 && x.StopAt < 0 {
			out = append(out, verdict{"C08/final/attempts-vs-retry-count", fmt.Sprintf("%s: %d attempts, recorded retry count %d", name, attempts, n.RetryCount)})
		}
		if n.StatusText == "running" {
			out = append(out, verdict{"C08/final/step-still-running-in-final-status", name})
		}
	}
	if x.finalStatus.StatusText == "running" {
		out = append(out, verdict{"C08/final/run-reported-running-after-end", x.finalsString()})
	}
	return out
}
