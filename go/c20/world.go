package main

import (
	"context"
	"crypto/sha1"
	"encoding/hex"
	"encoding/json"
	"fmt"
	"net/http/httptest"
	"os"
	"path/filepath"
	"regexp"
	"sort"
	"strings"
	"syscall"
	"time"

	"github.com/ErdemOzgen/blackdagger/internal/agent"
	"github.com/ErdemOzgen/blackdagger/internal/client"
	"github.com/ErdemOzgen/blackdagger/internal/dag"
	"github.com/ErdemOzgen/blackdagger/internal/dag/scheduler"
	fdag "github.com/ErdemOzgen/blackdagger/internal/frontend/dag"
	"github.com/ErdemOzgen/blackdagger/internal/frontend/gen/restapi/operations"
	"github.com/ErdemOzgen/blackdagger/internal/frontend/gen/restapi/operations/dags"
	"github.com/ErdemOzgen/blackdagger/internal/persistence"
	"github.com/ErdemOzgen/blackdagger/internal/persistence/jsondb"
	"github.com/ErdemOzgen/blackdagger/internal/persistence/model"
	"github.com/ErdemOzgen/blackdagger/internal/sock"
	"github.com/ErdemOzgen/blackdagger/internal/zzverif/venv"
	"github.com/ErdemOzgen/blackdagger/internal/zzverif/vexec"
	"github.com/go-openapi/runtime"
	"github.com/go-openapi/runtime/middleware"
)

const stubName = "blackdagger-c20-stub"

// stubMain: the harness binary, invoked under the stub's name, records its argv (one JSON line) and exits 0.
func stubMain() {
	logf := filepath.Join(filepath.Dir(filepath.Dir(os.Args[0])), "stub.log")
	b, _ := json.Marshal(os.Args[1:])
	f, err := os.OpenFile(logf, os.O_APPEND|os.O_CREATE|os.O_WRONLY, 0o644)
	if err != nil {
		os.Exit(3)
	}
	_, _ = f.Write(append(b, '\n'))
	_ = f.Close()
	os.Exit(0)
}

type liveAgent struct {
	name string
	a    *agent.Agent
	done chan error
	sock string
}

// world is one scratch installation with the real handler on top.
type world struct {
	env    *venv.Env
	base   base
	stores persistence.DataStores // the data stores of the handler's client (long-lived: its history store caches)
	cl     client.Client
	api    *operations.BlackdaggerAPI
	stub   string
	agents []*liveAgent
	socks  []string
	day    string
}

func (w *world) loc(name string) string { return filepath.Join(w.env.DAGs, name+".yaml") }

var errCap = fmt.Errorf("cap")

func setup(dir string, b base) (*world, error) {
	// stay clear of the first seconds of a (UTC) day: the recorded runs are dated a few seconds back and
	// "the latest status of today" must see them
	for {
		n := time.Now()
		if n.Hour() == 0 && n.Minute() == 0 && n.Second() < 8 {
			time.Sleep(time.Second)
			continue
		}
		break
	}
	w := &world{env: venv.New(dir), base: b, day: time.Now().Format("20060102")}
	if err := os.MkdirAll(filepath.Join(dir, "bin"), 0o755); err != nil {
		return nil, err
	}
	self, err := os.Executable()
	if err != nil {
		return nil, err
	}
	w.stub = filepath.Join(dir, "bin", stubName)
	if err := os.Symlink(self, w.stub); err != nil {
		return nil, err
	}
	for _, n := range []string{"d1", "d2"} {
		if err := os.WriteFile(w.loc(n), []byte(dagText(stepsOf[n], "one")), 0o644); err != nil {
			return nil, err
		}
	}
	w.stores = w.env.Stores()
	w.cl = client.New(w.stores, w.stub, w.env.Root, venv.Quiet)
	w.api = &operations.BlackdaggerAPI{}
	fdag.NewHandler(&fdag.NewHandlerArgs{Client: w.cl}, nil, "").Configure(w.api)

	now := time.Now()
	for _, n := range []string{"d1", "d2"} {
		for i, r := range runsOf(b, n) {
			if r.Live {
				continue
			}
			// every run is recorded under the definition it ran with; the newest one's stays in place
			if b.Steps != nil {
				if err := os.WriteFile(w.loc(n), []byte(dagText(stepsOfRun(b, n, i), "one")), 0o644); err != nil {
					return nil, err
				}
			}
			if err := w.record(n, r.ID, r.State, now.Add(-time.Duration(r.Age)*time.Second)); err != nil {
				return nil, err
			}
		}
	}
	for _, n := range []string{"d1", "d2"} {
		for _, r := range runsOf(b, n) {
			if r.Live {
				if err := w.startAgent(n, r.ID); err != nil {
					return nil, err
				}
			}
		}
	}
	return w, nil
}

// record writes a completed (or, for "crashed", an abandoned) run through the real history store,
// with store objects of its own, as a separate agent process would.
func (w *world) record(name, reqID, state string, at time.Time) error {
	d, err := dag.LoadWithoutEval(w.loc(name))
	if err != nil {
		return err
	}
	end := at.Add(300 * time.Millisecond)
	var st *model.Status
	set := func(i int, s scheduler.NodeStatus, errText string) {
		n := st.Nodes[i]
		n.Status, n.StatusText, n.Error = s, s.String(), errText
		n.StartedAt, n.FinishedAt = model.FormatTime(at), model.FormatTime(end)
		n.Log = filepath.Join(w.env.Logs, name, fmt.Sprintf("%s.%s.log", n.Step.Name, trunc8(reqID)))
		n.DoneCount = 1
	}
	switch state {
	case "finished":
		st = model.NewStatus(d, nil, scheduler.StatusSuccess, 4242, &at, &end)
		for i := range st.Nodes {
			set(i, scheduler.NodeStatusSuccess, "")
		}
	case "failed": // every step succeeded but the last one
		st = model.NewStatus(d, nil, scheduler.StatusError, 4242, &at, &end)
		for i := range st.Nodes {
			set(i, scheduler.NodeStatusSuccess, "")
		}
		set(len(st.Nodes)-1, scheduler.NodeStatusError, "exit status 1")
	case "canceled":
		st = model.NewStatus(d, nil, scheduler.StatusCancel, 4242, &at, &end)
		set(0, scheduler.NodeStatusCancel, "")
	case "crashed":
		st = model.NewStatus(d, nil, scheduler.StatusRunning, 999999, &at, nil)
		set(0, scheduler.NodeStatusRunning, "")
		st.Nodes[0].FinishedAt, st.Nodes[0].DoneCount = "-", 0
	default:
		return fmt.Errorf("unknown state %q", state)
	}
	st.RequestID = reqID
	st.Log = filepath.Join(w.env.Logs, name, "agent_"+trunc8(reqID)+".log")
	hs := w.env.Stores().HistoryStore()
	if err := hs.Open(w.loc(name), at, reqID); err != nil {
		return err
	}
	if err := hs.Write(st); err != nil {
		return err
	}
	return hs.Close()
}

// startAgent runs the DAG with the real agent in this process; its first step hangs in the scripted executor,
// so the run stays "running" and the real unix-socket server answers.
func (w *world) startAgent(name, reqID string) error {
	steps := stepsOf[name]
	cur := vexec.Current()
	if cur == nil {
		cur = vexec.NewWorld(map[string]*vexec.Script{})
	}
	cur.Scripts[steps[0]] = &vexec.Script{Hang: true}
	d := w.env.DAG(name, vexec.Step(steps[0]), vexec.Step(steps[1], steps[0]))
	a := w.env.Agent(reqID, d, &agent.Options{})
	la := &liveAgent{name: name, a: a, done: make(chan error, 1), sock: d.SockAddr()}
	w.socks = append(w.socks, la.sock)
	t0 := time.Now()
	go func() { la.done <- a.Run(context.Background()) }()
	w.agents = append(w.agents, la)
	// generous wait for "socket is up and the step is running"
	deadline := time.Now().Add(90 * time.Second)
	for {
		select {
		case err := <-la.done:
			la.done <- err
			return fmt.Errorf("agent of %s ended during start-up: %v", name, err)
		default:
		}
		if cur.OpenCount() > 0 {
			if out, err := sock.NewClient(la.sock).Request("GET", "/status"); err == nil {
				if st, err := model.StatusFromJSON(out); err == nil && st.Status == scheduler.StatusRunning && len(st.Nodes) == 2 && st.Nodes[0].Status == scheduler.NodeStatusRunning {
					break
				}
			}
		}
		if time.Now().After(deadline) {
			return fmt.Errorf("%w: agent of %s not up after 90 s", errCap, name)
		}
		time.Sleep(2 * time.Millisecond)
	}
	// the agent records "running" with its own "+100 ms" status write (the only write until a step ends):
	// wait until that record is on disk before anything is observed
	_ = t0
	key := fmt.Sprintf("run:%s:%s:", name, reqID)
	if os.Getenv("C20_SELFTEST_AGAIN") != "" && strings.Contains(w.env.Root, "-0"+string(os.PathSeparator)) {
		// self-test of the restart path: the first attempt of every live member is declared "written too early"
		return fmt.Errorf("%w: self-test", errAgain)
	}
	for {
		d := w.dump()
		if d[key+"Status"] == "1" && d[key+"Nodes[0].Status"] == "1" {
			return nil
		}
		// The agent writes the status twice before a step ends: right after opening the history file and 100 ms
		// later. On an overloaded machine the second write can come before the first step is running; nothing
		// more will be written then. Such a member is started again (no verdict is involved).
		if w.liveRunLines(name, reqID) >= 2 {
			time.Sleep(20 * time.Millisecond)
			if d = w.dump(); d[key+"Status"] == "1" && d[key+"Nodes[0].Status"] == "1" {
				return nil
			}
			return fmt.Errorf("%w: the agent of %s wrote its +100 ms status before its first step was running (overloaded machine)", errAgain, name)
		}
		if time.Now().After(deadline) {
			return fmt.Errorf("%w: the live run of %s was not recorded as running within 90 s", errCap, name)
		}
		time.Sleep(5 * time.Millisecond)
	}
}

var errAgain = fmt.Errorf("again")

// liveRunLines: number of complete status lines in the (not yet compacted) history file of a live run.
func (w *world) liveRunLines(name, reqID string) int {
	dirs, _ := os.ReadDir(w.env.Data)
	for _, dir := range dirs {
		if m := md5dir.FindStringSubmatch(dir.Name()); m == nil || m[1] != name {
			continue
		}
		files, _ := os.ReadDir(filepath.Join(w.env.Data, dir.Name()))
		for _, f := range files {
			if !strings.HasSuffix(f.Name(), "."+trunc8(reqID)+".dat") {
				continue
			}
			b, _ := os.ReadFile(filepath.Join(w.env.Data, dir.Name(), f.Name()))
			return strings.Count(string(b), "\n")
		}
	}
	return 0
}

func (w *world) agentOf(name string) *liveAgent {
	for _, la := range w.agents {
		if la.name == name {
			return la
		}
	}
	return nil
}

// waitEnd waits (generously) until the run of a live agent has returned.
func (w *world) waitEnd(la *liveAgent) error {
	select {
	case err := <-la.done:
		la.done <- err
		return nil
	case <-time.After(90 * time.Second):
		return fmt.Errorf("%w: run of %s did not end within 90 s after it was stopped", errCap, la.name)
	}
}

// shutdown ends live agents one at a time.
func (w *world) shutdown() {
	for _, la := range w.agents {
		select {
		case err := <-la.done:
			la.done <- err
			continue
		default:
		}
		go la.a.Signal(syscall.SIGTERM)
		_ = w.waitEnd(la)
	}
	for _, s := range w.socks {
		_ = os.Remove(s)
	}
}

func respCode(r middleware.Responder) (int, string) {
	rec := httptest.NewRecorder()
	r.WriteResponse(rec, runtime.JSONProducer())
	return rec.Code, strings.TrimSpace(rec.Body.String())
}

func (w *world) stubLines() []string {
	b, err := os.ReadFile(filepath.Join(w.env.Root, "stub.log"))
	if err != nil {
		return nil
	}
	var out []string
	for _, l := range strings.Split(string(b), "\n") {
		if l != "" {
			out = append(out, l)
		}
	}
	return out
}

// issue performs one API call through the generated operation handler the real handler configured.
func (w *world) issue(a action, req string) (accepted bool, info string) {
	body := dags.PostDagActionBody{Params: a.Params, RequestID: req, Step: a.Step, Value: a.Value}
	if a.Act != "" {
		act := a.Act
		body.Action = &act
	}
	r := w.api.DagsPostDagActionHandler.Handle(dags.PostDagActionParams{DagID: a.Dag, Body: body})
	code, msg := respCode(r)
	if len(msg) > 200 {
		msg = msg[:200] + "..."
	}
	return code == 200, fmt.Sprintf("HTTP %d %s", code, msg)
}

var md5dir = regexp.MustCompile(`^(.*)-[0-9a-f]{32}$`)
var histFile = regexp.MustCompile(`^(.*)\.(\d{8})\.\d{2}:\d{2}:\d{2}\.\d{3}\.([^.]*?)(_c)?\.dat$`)

func ident(b []byte) string {
	h := sha1.Sum(b)
	return fmt.Sprintf("%s:%d", hex.EncodeToString(h[:6]), len(b))
}

// dump reads the whole installation from disk (not through the client under test).
func (w *world) dump() dump {
	d := dump{}
	if des, err := os.ReadDir(w.env.DAGs); err == nil {
		for _, de := range des {
			b, _ := os.ReadFile(filepath.Join(w.env.DAGs, de.Name()))
			d["def:"+de.Name()] = ident(b)
		}
	}
	if des, err := os.ReadDir(w.env.Flags); err == nil {
		for _, de := range des {
			d["flag:"+de.Name()] = "set"
		}
	}
	for i, l := range w.stubLines() {
		d[fmt.Sprintf("stub:%d", i)] = l
	}
	dirs, _ := os.ReadDir(w.env.Data)
	for _, dir := range dirs {
		if !dir.IsDir() {
			d["data-stray:"+dir.Name()] = "file"
			continue
		}
		dagName := dir.Name()
		if m := md5dir.FindStringSubmatch(dagName); m != nil {
			dagName = m[1]
		}
		files, _ := os.ReadDir(filepath.Join(w.env.Data, dir.Name()))
		for _, f := range files {
			p := filepath.Join(w.env.Data, dir.Name(), f.Name())
			st, err := jsondb.ParseFile(p)
			if err != nil || st == nil {
				d[fmt.Sprintf("runfile:%s:?%s", dagName, f.Name())] = fmt.Sprintf("unreadable: %v", err)
				continue
			}
			key := dagName + ":" + st.RequestID
			pat := f.Name()
			if m := histFile.FindStringSubmatch(pat); m != nil {
				pat = m[1] + ".<time>." + m[3] // compaction (_c) and the exact time are not the property's business
			}
			if old, dup := d["runfile:"+key]; dup {
				pat = old + "+" + pat
			}
			d["runfile:"+key] = pat
			for _, kv := range flatStatus(st, false) {
				d["run:"+key+":"+kv[0]] = kv[1]
			}
		}
	}
	w.views(d)
	return d
}

// liveNow: the DAG has a live agent in this world whose run has not returned.
func (w *world) liveNow(name string) bool {
	la := w.agentOf(name)
	if la == nil {
		return false
	}
	select {
	case err := <-la.done:
		la.done <- err
		return false
	default:
		return true
	}
}

// views adds the history as the HistoryStore interface returns it: through the store instance of the handler's
// client ("api": long-lived, with its status cache — what the next API request is answered from) and through a
// fresh instance ("fresh": what another process sees). For every DAG with a definition file: lookup by request id
// of every id on record anywhere in the base state and of an unknown one, the recent-history list, the latest
// status. The API shows a run recorded as running whose process is gone as failed (client.GetLatestStatus relabels
// the cached object in place), so such a status is written relabelled here; what is on disk stays visible in run:.
func (w *world) views(d dump) {
	fresh := jsondb.New(w.env.Data, w.env.LatestToday)
	defer fresh.VerifC06Stop()
	insts := []struct {
		name string
		hs   persistence.HistoryStore
	}{{"api", w.stores.HistoryStore()}, {"fresh", fresh}}
	var names []string
	if des, err := os.ReadDir(w.env.DAGs); err == nil {
		for _, de := range des {
			if n := strings.TrimSuffix(de.Name(), ".yaml"); n != de.Name() {
				names = append(names, n)
			}
		}
	}
	put := func(prefix, dagName string, st *model.Status) {
		for _, kv := range flatStatus(st, st.Status == scheduler.StatusRunning && !w.liveNow(dagName)) {
			d[prefix+kv[0]] = kv[1]
		}
	}
	// request ids looked up under a DAG: through the api instance its own runs, the newest run of every other DAG
	// and the unknown id; through the fresh instance the runs of the DAG the edits address (d1, or d3 after a rename)
	idsFor := func(inst, dagName string) []string {
		var out []string
		for _, dn := range []string{"d1", "d2"} {
			rs := runsOf(w.base, dn)
			switch {
			case dn == dagName || (dagName == "d3" && dn == "d1"):
				if inst != "api" && dn != "d1" {
					continue
				}
				for _, r := range rs {
					out = append(out, r.ID)
				}
			case inst == "api" && len(rs) > 0:
				out = append(out, rs[len(rs)-1].ID)
			}
		}
		if inst == "api" {
			out = append(out, unknownID)
		}
		return out
	}
	for _, in := range insts {
		for _, n := range names {
			loc := w.loc(n)
			for _, id := range idsFor(in.name, n) {
				k := fmt.Sprintf("find[%s]:%s:%s", in.name, n, id)
				sf, err := in.hs.FindByRequestID(loc, id)
				if err != nil || sf == nil || sf.Status == nil {
					d[k] = "not found"
					continue
				}
				put(k+":", n, sf.Status)
			}
			var ids []string
			for i, sf := range in.hs.ReadStatusRecent(loc, 10) {
				if sf == nil || sf.Status == nil {
					ids = append(ids, "?nil")
					continue
				}
				ids = append(ids, sf.Status.RequestID)
				put(fmt.Sprintf("recent[%s]:%s:%d:", in.name, n, i), n, sf.Status)
			}
			d[fmt.Sprintf("recent[%s]:%s", in.name, n)] = strings.Join(ids, ",")
			k := fmt.Sprintf("latest[%s]:%s", in.name, n)
			if st, err := in.hs.ReadStatusToday(loc); err != nil || st == nil {
				d[k] = "none"
			} else {
				put(k+":", n, st)
			}
		}
	}
}

// flatMemo: leaves of a status by its JSON text (the same records are flattened many times per member).
var flatMemo = map[string][][2]string{}

// flatStatus: every leaf of a status as (JSON path, value); relabel: written as the API shows a run recorded as
// running whose process is gone (failed).
func flatStatus(st *model.Status, relabel bool) [][2]string {
	js, _ := st.ToJSON()
	mk := fmt.Sprintf("%v|%s", relabel, js)
	if lv, ok := flatMemo[mk]; ok {
		return lv
	}
	var v any
	_ = json.Unmarshal(js, &v)
	if mp, isMap := v.(map[string]any); isMap && relabel {
		mp["Status"], mp["StatusText"] = float64(scheduler.StatusError), scheduler.StatusError.String()
	}
	tmp := dump{}
	flatten(":", v, tmp)
	var lv [][2]string
	for k, val := range tmp {
		lv = append(lv, [2]string{k[1:], val})
	}
	if len(flatMemo) > 4096 {
		flatMemo = map[string][][2]string{}
	}
	flatMemo[mk] = lv
	return lv
}

func flatten(prefix string, v any, out dump) {
	switch t := v.(type) {
	case map[string]any:
		keys := make([]string, 0, len(t))
		for k := range t {
			keys = append(keys, k)
		}
		sort.Strings(keys)
		for _, k := range keys {
			p := prefix + k
			if !strings.HasSuffix(prefix, ":") {
				p = prefix + "." + k
			}
			flatten(p, t[k], out)
		}
	case []any:
		if len(t) == 0 {
			out[prefix] = "[]"
		}
		for i, e := range t {
			flatten(fmt.Sprintf("%s[%d]", prefix, i), e, out)
		}
	default:
		b, _ := json.Marshal(t)
		out[prefix] = string(b)
	}
}
