package main

import (
	"fmt"
	"sort"
	"strings"
)

// ---- alphabet -----------------------------------------------------------------

// action is one API call: POST /dags/{DagID} with an action body. Symbolic request ids
// ("latest", "middle", "older", "other-dag", "unknown") are resolved against the installation when issued.
type action struct {
	Key    string `json:"key"`           // name in the alphabet
	Dag    string `json:"dag"`           // addressed DAG id
	Act    string `json:"act,omitempty"` // body.action ("" = action field absent)
	Params string `json:"params,omitempty"`
	Req    string `json:"req,omitempty"` // "", latest, middle, older (= oldest), other-dag, unknown
	Step   string `json:"step,omitempty"`
	Value  string `json:"value,omitempty"`
}

const (
	validText2  = "description: two\nsteps:\n  - name: s1\n    command: \"true\"\n  - name: s2\n    command: \"true\"\n    depends:\n      - s1\n"
	invalidText = "steps:\n  - name: s1\n   command: [unclosed\n"
)

func dagText(steps []string, descr string) string {
	var sb strings.Builder
	fmt.Fprintf(&sb, "description: %s\nsteps:\n", descr)
	for i, st := range steps {
		fmt.Fprintf(&sb, "  - name: %s\n    command: \"true\"\n", st)
		if i > 0 {
			fmt.Fprintf(&sb, "    depends:\n      - %s\n", steps[i-1])
		}
	}
	return sb.String()
}

var stepsOf = map[string][]string{"d1": {"s1", "s2"}, "d2": {"t1", "t2"}}

// alphabet, simplest first.
var alphabet = []action{
	{Key: "start", Dag: "d1", Act: "start"},
	{Key: "stop", Dag: "d1", Act: "stop"},
	{Key: "mark-success(latest,s1)", Dag: "d1", Act: "mark-success", Req: "latest", Step: "s1"},
	{Key: "mark-failed(latest,s2)", Dag: "d1", Act: "mark-failed", Req: "latest", Step: "s2"},
	{Key: "mark-failed(latest,s1)", Dag: "d1", Act: "mark-failed", Req: "latest", Step: "s1"},
	{Key: "mark-success(latest,s2)", Dag: "d1", Act: "mark-success", Req: "latest", Step: "s2"},
	{Key: "mark-failed(older,s2)", Dag: "d1", Act: "mark-failed", Req: "older", Step: "s2"},
	{Key: "mark-success(older,s1)", Dag: "d1", Act: "mark-success", Req: "older", Step: "s1"},
	{Key: "start(params=plain)", Dag: "d1", Act: "start", Params: "a b K=v"},
	{Key: "start(params=quotes)", Dag: "d1", Act: "start", Params: `x="1 2" y='z' "q"`},
	{Key: "start(params=newlines)", Dag: "d1", Act: "start", Params: "l1\nl2\r\nl3"},
	{Key: "start(params=shell)", Dag: "d1", Act: "start", Params: "`date` $HOME $(id) \\n ; rm"},
	{Key: "retry(latest)", Dag: "d1", Act: "retry", Req: "latest"},
	{Key: "retry(older)", Dag: "d1", Act: "retry", Req: "older"},
	{Key: "retry(unknown-id)", Dag: "d1", Act: "retry", Req: "unknown"},
	{Key: "retry(no-id)", Dag: "d1", Act: "retry"},
	{Key: "suspend(true)", Dag: "d1", Act: "suspend", Value: "true"},
	{Key: "suspend(false)", Dag: "d1", Act: "suspend", Value: "false"},
	{Key: "mark-success(no-id,s1)", Dag: "d1", Act: "mark-success", Step: "s1"},
	{Key: "mark-failed(latest,no-step)", Dag: "d1", Act: "mark-failed", Req: "latest"},
	{Key: "mark-success(latest,wrong-step)", Dag: "d1", Act: "mark-success", Req: "latest", Step: "nope"},
	{Key: "mark-failed(latest,step-of-other-dag)", Dag: "d1", Act: "mark-failed", Req: "latest", Step: "t1"},
	{Key: "mark-success(id-of-other-dag,s1)", Dag: "d1", Act: "mark-success", Req: "other-dag", Step: "s1"},
	{Key: "mark-failed(unknown-id,s1)", Dag: "d1", Act: "mark-failed", Req: "unknown", Step: "s1"},
	{Key: "save(valid)", Dag: "d1", Act: "save", Value: validText2},
	{Key: "save(invalid)", Dag: "d1", Act: "save", Value: invalidText},
	{Key: "rename(free)", Dag: "d1", Act: "rename", Value: "d3"},
	{Key: "rename(taken)", Dag: "d1", Act: "rename", Value: "d2"},
	{Key: "rename(empty)", Dag: "d1", Act: "rename", Value: ""},
	{Key: "unknown-action", Dag: "d1", Act: "explode", Req: "latest", Step: "s1", Value: "true"},
	{Key: "no-action", Dag: "d1", Act: "", Req: "latest", Step: "s1"},
	{Key: "unknown-dag:start", Dag: "ghost", Act: "start"},
	{Key: "unknown-dag:stop", Dag: "ghost", Act: "stop"},
	{Key: "unknown-dag:mark-success(id-of-d1,s1)", Dag: "ghost", Act: "mark-success", Req: "d1-latest", Step: "s1"},
	{Key: "unknown-dag:suspend", Dag: "ghost", Act: "suspend", Value: "true"},
	{Key: "d2:start", Dag: "d2", Act: "start"},
	{Key: "d2:stop", Dag: "d2", Act: "stop"},
	{Key: "d2:mark-failed(latest,t1)", Dag: "d2", Act: "mark-failed", Req: "latest", Step: "t1"},
	// the middle one of three recorded runs (only issued from base states that record three runs of d1)
	{Key: "mark-success(middle,s2)", Dag: "d1", Act: "mark-success", Req: "middle", Step: "s2"},
	{Key: "mark-failed(middle,s1)", Dag: "d1", Act: "mark-failed", Req: "middle", Step: "s1"},
	{Key: "retry(middle)", Dag: "d1", Act: "retry", Req: "middle"},
}

// applicable: actions addressing "the middle run" exist only where d1 has three runs on record.
func applicable(b base, a action) bool {
	return a.Req != "middle" || len(runsOf(b, a.Dag)) >= 3
}

// Step names of the base states whose recorded runs have different step lists (base.Steps).
var stepNames = []string{"check", "extract", "transform", "load", "validate"}

// stepEdits: mark-success / mark-failed for every (run, step name) pair, e.g. "mark-failed(older,step=load)".
var stepEdits = func() []action {
	var out []action
	for _, req := range []string{"older", "middle", "latest"} {
		for _, st := range stepNames {
			for _, act := range []string{"mark-success", "mark-failed"} {
				out = append(out, action{Key: fmt.Sprintf("%s(%s,step=%s)", act, req, st), Dag: "d1", Act: act, Req: req, Step: st})
			}
		}
	}
	return out
}()

// alphabetOf: the actions issued from a base state. Bases whose runs have different step lists: the status edits
// of every (run, step name) pair over the union of the step names of all runs; every other base: the alphabet
// (without the actions that address a middle run where there is none).
func alphabetOf(b base) []action {
	var out []action
	if b.Steps == nil {
		for _, a := range alphabet {
			if applicable(b, a) {
				out = append(out, a)
			}
		}
		return out
	}
	union := map[string]bool{}
	for _, l := range b.Steps {
		for _, st := range l {
			union[st] = true
		}
	}
	for _, a := range stepEdits {
		if union[a.Step] && applicable(b, a) {
			out = append(out, a)
		}
	}
	return out
}

var actionByKey = func() map[string]action {
	m := map[string]action{}
	for _, a := range alphabet {
		m[a.Key] = a
	}
	for _, a := range stepEdits {
		m[a.Key] = a
	}
	return m
}()

// base states: state of d1 / state of d2.
//
// IDs = "" : the original bases — two runs on record per DAG (one finished run + the live one when running),
// request ids distinct in their first 8 characters.
// IDs != "": d1 has three runs (Hist = states of the two older ones, oldest first, then D1; when D1 is
// running: Hist + the live run), d2 has two; the request ids of ALL runs of the installation come from
// one family with respect to the 8 characters the history store puts into a run's file name:
//
//	distinct-8   full-length ids, pairwise distinct in their first 8 characters
//	shared-8     full-length ids that all share their first 8 characters (both DAGs)
//	nested       per DAG: a 4-character id, a 6-character id extending it, a full-length id extending both;
//	             shortest = oldest
//	nested-rev   the same ids, shortest = newest
type base struct {
	Name        string   `json:"name"`
	D1          string   `json:"d1"`
	D2          string   `json:"d2"`
	IDs         string   `json:"ids,omitempty"`
	Hist        []string `json:"hist,omitempty"`
	Depth1Quick bool     `json:"depth1_quick,omitempty"` // quick tier: sequences of one action only
	// Steps != nil: the step list each recorded run of d1 was recorded with, oldest first (the definition file is the
	// newest one's); the actions issued from such a base are alphabetOf's status edits. nil: every run has stepsOf.
	Steps [][]string `json:"steps,omitempty"`
}

var bases = []base{
	{Name: "never-run", D1: "none", D2: "finished"},
	{Name: "finished", D1: "finished", D2: "finished"},
	{Name: "failed", D1: "failed", D2: "finished"},
	{Name: "canceled", D1: "canceled", D2: "finished"},
	{Name: "crashed", D1: "crashed", D2: "finished"},
	{Name: "running", D1: "running", D2: "finished"},
	{Name: "finished+other-running", D1: "finished", D2: "running"},
	// three recorded runs of d1 (failed, finished, failed), request ids of every family
	{Name: "3-runs/failed/ids-distinct-8", D1: "failed", D2: "finished", IDs: "distinct-8", Hist: []string{"failed", "finished"}, Depth1Quick: true},
	{Name: "3-runs/failed/ids-shared-8", D1: "failed", D2: "finished", IDs: "shared-8", Hist: []string{"failed", "finished"}},
	{Name: "3-runs/failed/ids-nested", D1: "failed", D2: "finished", IDs: "nested", Hist: []string{"failed", "finished"}},
	{Name: "3-runs/finished/ids-nested-rev", D1: "finished", D2: "failed", IDs: "nested-rev", Hist: []string{"failed", "failed"}, Depth1Quick: true},
	{Name: "3-runs/crashed/ids-shared-8", D1: "crashed", D2: "finished", IDs: "shared-8", Hist: []string{"finished", "failed"}, Depth1Quick: true},
	{Name: "3-runs/running/ids-shared-8", D1: "running", D2: "finished", IDs: "shared-8", Hist: []string{"failed", "finished"}},
	// the definition changed between the recorded runs of d1: every run has its own step list
	{Name: "steps/inserted-in-front", D1: "failed", D2: "finished", Hist: []string{"failed"},
		Steps: [][]string{{"extract", "transform", "load"}, {"check", "extract", "transform", "load"}}},
	{Name: "steps/removed", D1: "failed", D2: "finished", Hist: []string{"failed"},
		Steps: [][]string{{"extract", "transform", "load"}, {"extract", "load"}}},
	{Name: "steps/swapped", D1: "failed", D2: "finished", Hist: []string{"failed"},
		Steps: [][]string{{"extract", "transform", "load"}, {"transform", "extract", "load"}}},
	{Name: "steps/renamed", D1: "failed", D2: "finished", Hist: []string{"failed"},
		Steps: [][]string{{"extract", "transform", "load"}, {"extract", "validate", "load"}}},
	{Name: "steps/3-runs/inserted-then-swapped-and-removed", D1: "finished", D2: "finished", Hist: []string{"failed", "failed"},
		Steps: [][]string{{"extract", "transform", "load"}, {"check", "extract", "transform", "load"}, {"transform", "check", "extract"}}},
}

// stepsOfRun: the step list the i-th run (oldest first) of a DAG was recorded with in a base state.
func stepsOfRun(b base, dag string, i int) []string {
	if dag == "d1" && b.Steps != nil && i < len(b.Steps) {
		return b.Steps[i]
	}
	return stepsOf[dag]
}

// recRun is one run of a base state (Live: the run of the in-process agent, not written by the harness).
type recRun struct {
	ID, State string
	Age       int // seconds before the member starts
	Live      bool
}

// runsOf: the runs of one DAG in a base state, oldest first.
func runsOf(b base, dag string) []recRun {
	st := map[string]string{"d1": b.D1, "d2": b.D2}[dag]
	if st == "" || st == "none" {
		return nil
	}
	states := []string{"finished"}
	if len(b.Hist) > 0 && dag == "d1" {
		states = append([]string(nil), b.Hist...)
	}
	states = append(states, st)
	slots := map[int][]string{2: {"old", "new"}, 3: {"old", "mid", "new"}}[len(states)]
	var out []recRun
	for i, s := range states {
		slot := slots[i]
		if s == "running" {
			slot = "liv"
		}
		out = append(out, recRun{ID: idOf(b.IDs, dag, slot, i, len(states)), State: s, Age: 2 * (len(states) - i), Live: s == "running"})
	}
	return out
}

// idOf: request id of the run in `slot` (position pos of n, oldest first) of a DAG under an id family.
func idOf(family, dag, slot string, pos, n int) string {
	switch family {
	case "shared-8":
		return fmt.Sprintf("5ha2ed8p-%s0-0000-0000-00000000%s", slot, dag)
	case "nested", "nested-rev":
		ids := []string{dag + "r7", dag + "r7c2", dag + "r7c2e9-0000-0000-0000-0000000000" + dag}
		if n == 2 {
			ids = []string{ids[0], ids[2]}
		}
		if family == "nested-rev" {
			pos = n - 1 - pos
		}
		return ids[pos]
	}
	return runID(dag, slot)
}

// trunc8: the part of a request id the history store puts into the file name.
func trunc8(id string) string {
	if len(id) > 8 {
		return id[:8]
	}
	return id
}

// idRelation: how a request id relates to the other ids on record for the same DAG, with respect to the 8
// characters that go into the file name ("" = unrelated: signature facet of the edit verdicts).
func idRelation(id string, runs []string) string {
	share, isPrefix, extends := false, false, false
	for _, r := range runs {
		switch {
		case r == id:
		case strings.HasPrefix(r, id):
			isPrefix = true
		case strings.HasPrefix(id, r):
			extends = true
		case trunc8(r) == trunc8(id):
			share = true
		}
	}
	var p []string
	if share {
		p = append(p, "shares-first-8")
	}
	if isPrefix {
		p = append(p, "is-prefix-of-another")
	}
	if extends {
		p = append(p, "extends-another")
	}
	if len(p) == 0 {
		return ""
	}
	return "/addressed-id=" + strings.Join(p, "+")
}

func (b base) live() bool { return b.D1 == "running" || b.D2 == "running" }

type member struct {
	Base    string   `json:"base"`
	Actions []string `json:"actions"`
}

func (m member) String() string { return m.Base + " : " + strings.Join(m.Actions, " ; ") }

// ---- reference model ------------------------------------------------------------

type dagModel struct {
	State string              // none | finished | failed | canceled | crashed | running
	Runs  []string            // request ids, oldest first
	Steps map[string][]string // request id -> the step list that run was recorded with
}

type refModel struct {
	D        map[string]*dagModel
	Poisoned string // non-empty: an accepted action the property is silent about moved the installation out of the modelled space
}

func newModel(b base) *refModel {
	m := &refModel{D: map[string]*dagModel{}}
	for _, d := range []struct{ n, s string }{{"d1", b.D1}, {"d2", b.D2}} {
		dm := &dagModel{State: d.s, Steps: map[string][]string{}}
		for i, r := range runsOf(b, d.n) {
			dm.Runs = append(dm.Runs, r.ID)
			dm.Steps[r.ID] = stepsOfRun(b, d.n, i)
		}
		m.D[d.n] = dm
	}
	return m
}

func runID(dag, which string) string {
	return fmt.Sprintf("%s%s000-0000-0000-0000-00000000%s", dag, which, dag)
}

const unknownID = "nosuch00-0000-0000-0000-000000000000"

// resolve turns a symbolic request id into a concrete one (against the model's view of the addressed DAG).
func (m *refModel) resolve(a action) string {
	pick := func(d *dagModel, which string) string {
		if d == nil || len(d.Runs) == 0 {
			return unknownID // a DAG that never ran has no run to address
		}
		switch which {
		case "older":
			return d.Runs[0]
		case "middle":
			if len(d.Runs) < 3 {
				return unknownID
			}
			return d.Runs[len(d.Runs)/2]
		}
		return d.Runs[len(d.Runs)-1]
	}
	switch a.Req {
	case "":
		return ""
	case "unknown":
		return unknownID
	case "latest", "older", "middle":
		return pick(m.D[a.Dag], a.Req)
	case "other-dag":
		for _, n := range []string{"d2", "d1", "d3"} {
			if n != a.Dag && m.D[n] != nil && len(m.D[n].Runs) > 0 {
				return pick(m.D[n], "latest")
			}
		}
		return unknownID
	case "d1-latest":
		for _, n := range []string{"d1", "d3"} {
			if m.D[n] != nil {
				return pick(m.D[n], "latest")
			}
		}
		return unknownID
	}
	return a.Req
}

// expectation of one action
type expect struct {
	Class string // "accept" | "refuse" | "silent" (the property does not say whether it is admissible)
	Why   string // the sentence / reason
	Kind  string // for accepted ones: "start" | "edit" | "" (effects the property is silent about)
	// edit:
	Dag, Run, Step string
	StepIdx        int
	To             int // node status the step must get (4 success / 2 failed)
}

const (
	nodeError   = 2
	nodeSuccess = 4
)

func (m *refModel) expect(a action, req string) expect {
	d := m.D[a.Dag]
	if a.Act == "" {
		return expect{Class: "refuse", Why: "malformed: no action"}
	}
	known := map[string]bool{"start": true, "suspend": true, "stop": true, "retry": true, "mark-success": true, "mark-failed": true, "save": true, "rename": true}
	if !known[a.Act] {
		return expect{Class: "refuse", Why: "malformed: unknown action"}
	}
	if d == nil {
		return expect{Class: "refuse", Why: "malformed: unknown DAG"}
	}
	running := d.State == "running"
	switch a.Act {
	case "start":
		if running {
			return expect{Class: "refuse", Why: "a start is refused while the DAG is running"}
		}
		return expect{Class: "accept", Kind: "start", Dag: a.Dag, Why: "start of a DAG that is not running (the property only states the refusal; an accepted one must hand the parameters over unchanged)"}
	case "stop":
		if !running {
			return expect{Class: "refuse", Why: "a stop is refused when the DAG is not running"}
		}
		return expect{Class: "accept", Kind: "", Why: "stop of a running DAG"}
	case "mark-success", "mark-failed":
		if req == "" {
			return expect{Class: "refuse", Why: "malformed: status edit without request id"}
		}
		if a.Step == "" {
			return expect{Class: "refuse", Why: "malformed: status edit without step"}
		}
		if running {
			return expect{Class: "refuse", Why: "manual status edits are refused while the DAG is running"}
		}
		own := false
		for _, r := range d.Runs {
			if r == req {
				own = true
			}
		}
		if !own {
			return expect{Class: "refuse", Why: "malformed: the request id is not a run of the addressed DAG"}
		}
		idx := -1
		for i, s := range d.Steps[req] { // the ADDRESSED run's own step list decides
			if s == a.Step {
				idx = i
			}
		}
		if idx < 0 {
			return expect{Class: "refuse", Why: "malformed: the run has no such step"}
		}
		to := nodeSuccess
		if a.Act == "mark-failed" {
			to = nodeError
		}
		return expect{Class: "accept", Kind: "edit", Dag: a.Dag, Run: req, Step: a.Step, StepIdx: idx, To: to, Why: "status edit of a recorded run of a DAG that is not running"}
	case "retry":
		if req == "" {
			return expect{Class: "refuse", Why: "malformed: retry without request id"}
		}
		return expect{Class: "silent", Kind: "retry", Dag: a.Dag, Run: req, Why: "retry: admissibility not stated by the property (an accepted one must hand the addressed run to the command)"}
	case "suspend":
		return expect{Class: "silent", Why: "suspend: not stated by the property"}
	case "save":
		if a.Value == invalidText {
			return expect{Class: "refuse", Why: "malformed: the text is not a definition"}
		}
		return expect{Class: "silent", Why: "save of a valid text: not stated by this property (C18)"}
	case "rename":
		if a.Value == "" {
			return expect{Class: "refuse", Why: "malformed: rename without a new name"}
		}
		return expect{Class: "silent", Why: "rename: not stated by this property (C18)"}
	}
	return expect{Class: "silent"}
}

// after updates the model after an action that was answered `accepted`.
func (m *refModel) after(a action, accepted bool) {
	if !accepted {
		return
	}
	d := m.D[a.Dag]
	if d == nil {
		return
	}
	switch a.Act {
	case "stop":
		if d.State == "running" {
			d.State = "canceled" // the harness waits for the run to end before it goes on
		}
	case "rename":
		if a.Value == "" {
			return
		}
		if d.State == "running" {
			m.Poisoned = "rename of a running DAG (the live run keeps answering on the socket of the old name)"
			return
		}
		if m.D[a.Value] != nil {
			m.Poisoned = "rename onto an existing DAG was accepted (C18's finding); histories are merged"
			return
		}
		m.D[a.Value] = d
		delete(m.D, a.Dag)
	}
}

// ---- dumps -----------------------------------------------------------------------

// A dump is the installation flattened to path -> leaf value:
//
//	def:<file>                      text id / hash of a file in the DAGs directory
//	flag:<file>                     a file in the suspend-flag directory
//	stub:<n>                        argv of the n-th invocation of the executable (JSON)
//	runfile:<dag>:<reqid>           file name pattern of the run's history file
//	run:<dag>:<reqid>:<json path>   every leaf of the run's last recorded status
//
// and the history as the store interface returns it, through the store instance the handler's client
// uses (inst = api) and through a fresh one (inst = fresh), see world.views:
//
//	find[inst]:<dag>:<reqid>[:<json path>]   lookup by request id under every defined DAG: leaves of the status, or
//	                                         "not found" (api: every run of that DAG, the newest run of every other
//	                                         DAG, an unknown id; fresh: every run of the DAG the edits address)
//	recent[inst]:<dag>                       request ids of the recent-history list, newest first
//	recent[inst]:<dag>:<pos>:<json path>     leaves of the pos-th status of that list
//	latest[inst]:<dag>[:<json path>]         leaves of the latest status (of today), or "none"
type dump map[string]string

func isView(path string) bool {
	return strings.HasPrefix(path, "find[") || strings.HasPrefix(path, "recent[") || strings.HasPrefix(path, "latest[")
}

// locate splits a history path (on-disk record or view) into the DAG, the run it speaks about and the JSON
// path inside that run's status. Positions of the recent list and the latest status are turned into request
// ids with the dump taken BEFORE the action. run == "" : the path is about the DAG's history as a whole
// (the order of the recent list, "not found", "none") or the run cannot be told.
func locate(path string, prev dump) (dag, run, rest string, ok bool) {
	p := strings.SplitN(path, ":", 4)
	if len(p) < 2 {
		return
	}
	get := func(i int) string {
		if i < len(p) {
			return p[i]
		}
		return ""
	}
	switch {
	case p[0] == "run" || p[0] == "runfile" || strings.HasPrefix(p[0], "find["):
		return p[1], get(2), get(3), len(p) >= 3
	case strings.HasPrefix(p[0], "recent["):
		if len(p) < 4 {
			return p[1], "", "", true
		}
		ids := strings.Split(prev[p[0]+":"+p[1]], ",")
		var pos int
		if _, err := fmt.Sscanf(p[2], "%d", &pos); err == nil && pos < len(ids) {
			return p[1], ids[pos], p[3], true
		}
		return p[1], "", p[3], true
	case strings.HasPrefix(p[0], "latest["):
		if len(p) < 3 {
			return p[1], "", "", true
		}
		id := strings.Trim(prev[p[0]+":"+p[1]+":RequestId"], `"`)
		return p[1], id, strings.Join(p[2:], ":"), true
	}
	return
}

type change struct {
	Path, Old, New string
}

func diffDumps(a, b dump) []change {
	var out []change
	for k, v := range a {
		if w, ok := b[k]; !ok {
			out = append(out, change{k, v, "<gone>"})
		} else if w != v {
			out = append(out, change{k, v, w})
		}
	}
	for k, w := range b {
		if _, ok := a[k]; !ok {
			out = append(out, change{k, "<absent>", w})
		}
	}
	// what is on disk first, then what the store interface returns
	sort.Slice(out, func(i, j int) bool {
		if vi, vj := isView(out[i].Path), isView(out[j].Path); vi != vj {
			return vj
		}
		return out[i].Path < out[j].Path
	})
	return out
}

// where classifies a changed path relative to an addressed (dag, run, step index); prev = the dump before the action.
func where(prev dump, path, dag, run string, stepIdx int) string {
	switch {
	case strings.HasPrefix(path, "def:"):
		return "definition"
	case strings.HasPrefix(path, "flag:"):
		return "suspend-flag"
	case strings.HasPrefix(path, "stub:"):
		return "spawned-command"
	}
	pd, pr, rest, ok := locate(path, prev)
	if !ok {
		return "other"
	}
	if pd != dag {
		return "other-dag"
	}
	if run == "" {
		return "history"
	}
	if pr == "" {
		return "history-listing" // the order / membership of the recent list, a lookup turning into "not found", ...
	}
	if pr != run {
		return "other-run"
	}
	if rest != "" && stepIdx >= 0 {
		if strings.HasPrefix(rest, fmt.Sprintf("Nodes[%d].", stepIdx)) {
			return "addressed-step-other-field"
		}
		if strings.HasPrefix(rest, "Nodes[") {
			return "other-step"
		}
	}
	return "other-field-of-run"
}

func fmtChanges(cs []change, max int) string {
	var s []string
	for i, c := range cs {
		if i == max {
			s = append(s, fmt.Sprintf("... %d more", len(cs)-max))
			break
		}
		s = append(s, fmt.Sprintf("%s: %s -> %s", c.Path, clip(c.Old), clip(c.New)))
	}
	return strings.Join(s, "; ")
}

func clip(s string) string {
	s = strings.ReplaceAll(s, "\n", "\\n")
	if len(s) > 90 {
		return s[:90] + "..."
	}
	return s
}

// documented quoting of start parameters (client.go: Start / escapeArg; cmd/start.go: removeQuotes):
// the value of -p is the parameter string with CR and LF written as \r and \n, wrapped in double quotes.
func quoteParams(p string) string {
	p = strings.ReplaceAll(p, "\r", `\r`)
	p = strings.ReplaceAll(p, "\n", `\n`)
	return `"` + p + `"`
}
