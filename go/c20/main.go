// C20 — control actions through the API respect the state of the run.
//
// Explicit-state search (engine E2) over sequences of API actions issued, through the generated
// operation handlers configured by the real dag.Handler, against real stores in a scratch
// installation: 2 DAGs with 2-3 recorded runs each, the addressed DAG in every base state (never run,
// finished, failed, canceled, crashed, running = a live in-process agent.Run with a hanging scripted
// step and the real unix-socket server), plus base states with three runs of the addressed DAG whose
// request ids are distinct in / share / are nested prefixes around the 8 characters the history store
// puts into a run's file name. The executable of the client is a recording stub (this binary under
// another name). After every action the answer class and a full dump of the installation — all history
// records of all DAGs, all definitions, suspend flags, stub log, read from disk, and the whole history
// as the HistoryStore interface returns it (every run looked up by request id, recent list, latest
// status; through the handler's store instance and a fresh one) — are compared with a reference model
// that encodes the sentences of the property.
//
// Members with a live agent run in a child process of this binary: on the pinned tree the agent's
// end-of-run status writer can race with historyStore.Close and crash the process; such a crash is
// retried and, if persistent, reported as CheckError — never as a verdict.
package main

import (
	"encoding/json"
	"fmt"
	"os"
	"os/exec"
	"path/filepath"
	"strings"
	"time"

	"github.com/ErdemOzgen/blackdagger/internal/dag"
	"github.com/ErdemOzgen/blackdagger/internal/zzverif/vlib"
)

// outcome of one member
type outcome struct {
	Sig        string           `json:"sig"`
	Detail     string           `json:"detail"`
	CheckError string           `json:"check_error,omitempty"`
	Actions    int              `json:"actions"`   // actions applied on the real code
	Validated  int              `json:"validated"` // actions whose answer and full dump were compared with the model
	Counters   map[string]int64 `json:"counters"`
	States     []string         `json:"states"` // model states visited (canonical)
	Vec        []string         `json:"vec"`    // per action: answer and changed paths (for samples)
}

func baseByName(n string) (base, bool) {
	for _, b := range bases {
		if b.Name == n {
			return b, true
		}
	}
	return base{}, false
}

func (m *refModel) key() string {
	var p []string
	for _, n := range []string{"d1", "d2", "d3"} {
		if d := m.D[n]; d != nil {
			p = append(p, fmt.Sprintf("%s=%s#%d", n, d.State, len(d.Runs)))
		}
	}
	return strings.Join(p, ",")
}

// runMember executes one member in this process.
func runMember(dir string, mb member) (oc outcome) {
	oc.Counters = map[string]int64{}
	b, ok := baseByName(mb.Base)
	if !ok {
		oc.CheckError = "unknown base " + mb.Base
		return
	}
	w, err := setup(dir, b)
	if err != nil {
		if w != nil {
			w.shutdown()
		}
		oc.CheckError = "setup: " + err.Error()
		return
	}
	defer func() {
		if w.day != time.Now().Format("20060102") && oc.Sig != "" {
			oc.CheckError, oc.Sig = "member ran across midnight; result discarded: "+oc.Sig, ""
		}
		writeOutcome(oc) // child process: the outcome is on disk before the live agents are ended
		w.shutdown()
	}()
	m := newModel(b)
	prev := w.dump()
	if what := historyMismatch(m, prev); what != "" {
		// No action issued yet, so this is not a verdict of this property. The actions are issued all the same (an
		// edit that goes wrong because of it is reported as such); a member that ends without a verdict is a check
		// error: the base state is not what the harness recorded, nothing was validated from it.
		baseMismatch := fmt.Sprintf("base state %s: the recorded history is not returned as recorded: %s", mb.Base, what)
		defer func() {
			if oc.Sig == "" && oc.CheckError == "" {
				oc.CheckError = baseMismatch
			} else if oc.Sig != "" {
				oc.Detail += " [" + baseMismatch + "]"
			}
		}()
	}
	extra := "" // marks on the model state that come from silent actions (definition text, suspend flag)
	oc.States = append(oc.States, mb.Base+"|"+m.key())
	for i, key := range mb.Actions {
		a, ok := actionByKey[key]
		if !ok {
			oc.CheckError = "unknown action " + key
			return
		}
		req := m.resolve(a)
		ex := m.expect(a, req)
		var accepted bool
		var info string
		func() {
			defer func() {
				if r := recover(); r != nil {
					oc.Sig = fmt.Sprintf("C20/%s/panic", actClass(a))
					oc.Detail = fmt.Sprintf("%s: action %d (%s): panic in the handler: %v", mb, i, key, r)
				}
			}()
			accepted, info = w.issue(a, req)
		}()
		oc.Actions++
		if oc.Sig != "" {
			return
		}
		nStub := 0
		for k := range prev {
			if strings.HasPrefix(k, "stub:") {
				nStub++
			}
		}
		// asynchronous effects the harness has to wait for (generous caps => CheckError)
		if accepted && a.Act == "start" {
			deadline := time.Now().Add(60 * time.Second)
			for len(w.stubLines()) <= nStub {
				if time.Now().After(deadline) {
					oc.CheckError = fmt.Sprintf("%s: action %d (%s) was accepted but the executable was not invoked within 60 s", mb, i, key)
					return
				}
				time.Sleep(time.Millisecond)
			}
		}
		if accepted && a.Act == "stop" {
			if la := w.agentOf(a.Dag); la != nil {
				if err := w.waitEnd(la); err != nil {
					oc.CheckError = fmt.Sprintf("%s: action %d (%s): %v", mb, i, key, err)
					return
				}
			}
		}
		cur := w.dump()
		ch := diffDumps(prev, cur)
		oc.Vec = append(oc.Vec, fmt.Sprintf("%s => %s, %d path(s) changed", key, tf(accepted, "accepted", "refused"), len(ch)))
		oc.Counters[fmt.Sprintf("answer:%s/%s=%s", stateOf(m, a), actClass(a)+argClass(a), tf(accepted, "accepted", "refused"))]++
		if m.Poisoned != "" {
			oc.Counters["actions_not_validated_after_out_of_model_transition"]++
			prev = cur
			continue
		}
		sig, detail := judge(w, m, a, req, ex, accepted, info, prev, cur, ch)
		if sig != "" && actClass(a) == "edit" {
			sig += stepFacet(m, a.Dag, req)
		}
		if sig != "" {
			oc.Sig = sig
			oc.Detail = fmt.Sprintf("%s: action %d (%s, request id %q) in state %s: %s", mb, i, key, req, stateOf(m, a), detail)
			return
		}
		oc.Validated++
		if ex.Class == "silent" || (ex.Class == "accept" && ex.Kind == "") {
			oc.Counters[fmt.Sprintf("not_stated_by_property:%s/%s=%s", actClass(a), argClass(a), tf(accepted, "accepted", "refused"))]++
			if accepted && a.Act == "rename" && m.D[a.Value] != nil && a.Value != a.Dag {
				oc.Counters["observed_not_flagged:rename-onto-existing-DAG-accepted(C18)"]++
			}
		}
		m.after(a, accepted)
		if accepted && ex.Class == "silent" {
			switch a.Act {
			case "save":
				extra += "+saved"
			case "suspend":
				extra += "+suspend=" + a.Value
			}
		}
		oc.States = append(oc.States, mb.Base+"|"+m.key()+extra)
		prev = cur
	}
	return
}

// stepFacet: signature facet of edit verdicts — the addressed run is not the latest one and was recorded with
// another step list than the latest run of its DAG.
func stepFacet(m *refModel, dag, run string) string {
	d := m.D[dag]
	if d == nil || len(d.Runs) == 0 {
		return ""
	}
	latest := d.Runs[len(d.Runs)-1]
	mine, ok := d.Steps[run]
	if !ok || run == latest || strings.Join(mine, "\x00") == strings.Join(d.Steps[latest], "\x00") {
		return ""
	}
	return "/addressed-run-has-other-steps-than-latest-run"
}

func stateOf(m *refModel, a action) string {
	if d := m.D[a.Dag]; d != nil {
		return "state=" + d.State
	}
	return "state=unknown-dag"
}

func actClass(a action) string {
	switch a.Act {
	case "mark-success", "mark-failed":
		return "edit"
	case "":
		return "no-action"
	case "start", "stop", "retry", "suspend", "save", "rename":
		return a.Act
	}
	return "unknown-action"
}

func argClass(a action) string {
	i := strings.Index(a.Key, "(")
	if i < 0 {
		return ""
	}
	return a.Key[i:]
}

func tf(b bool, t, f string) string {
	if b {
		return t
	}
	return f
}

// judge compares answer and dump changes with what the property states.
func judge(w *world, m *refModel, a action, req string, ex expect, accepted bool, info string, prev, cur dump, ch []change) (string, string) {
	ac := actClass(a)
	st := stateOf(m, a)
	malformed := strings.HasPrefix(ex.Why, "malformed")
	argc := strings.TrimPrefix(strings.TrimPrefix(ex.Why, "malformed: "), "malformed")
	argc = strings.ReplaceAll(argc, " ", "-")
	switch ex.Class {
	case "refuse":
		if accepted {
			switch {
			case malformed:
				return fmt.Sprintf("C20/%s/malformed-accepted/%s", ac, argc), fmt.Sprintf("must be refused (%s) but was accepted (%s); changed: %s", ex.Why, info, fmtChanges(ch, 6))
			case a.Act == "start":
				return "C20/start/accepted-while-running", fmt.Sprintf("%s, but the answer was %s; changed: %s", ex.Why, info, fmtChanges(ch, 6))
			case a.Act == "stop":
				return "C20/stop/accepted-while-not-running/" + st, fmt.Sprintf("%s, but the answer was %s; changed: %s", ex.Why, info, fmtChanges(ch, 6))
			default:
				return "C20/edit/accepted-while-running", fmt.Sprintf("%s, but the answer was %s; changed: %s", ex.Why, info, fmtChanges(ch, 6))
			}
		}
		if len(ch) > 0 {
			kind := "refused"
			if malformed {
				kind = "malformed"
			}
			return fmt.Sprintf("C20/%s/%s-but-changed-%s/%s", ac, kind, where(prev, ch[0].Path, a.Dag, "", -1), tf(malformed, argc, st)),
				fmt.Sprintf("answer %s (%s) but the installation changed: %s", info, ex.Why, fmtChanges(ch, 8))
		}
		return "", ""
	case "accept":
		if !accepted {
			// the property states when an action must be refused, not that it must be accepted otherwise
			if len(ch) > 0 {
				return fmt.Sprintf("C20/%s/refused-but-changed-%s/%s", ac, where(prev, ch[0].Path, a.Dag, "", -1), st), fmt.Sprintf("answer %s but the installation changed: %s", info, fmtChanges(ch, 8))
			}
			return "", ""
		}
		switch ex.Kind {
		case "start":
			return judgeStart(w, a, prev, ch)
		case "edit":
			return judgeEdit(m, ex, prev, cur, ch)
		}
		return "", "" // accepted stop: what it does to the run is not this property's business
	default: // silent
		if accepted && ex.Kind == "retry" {
			return judgeRetry(w, a, ex, ch)
		}
		if !accepted && len(ch) > 0 {
			return fmt.Sprintf("C20/%s/refused-but-changed-%s/%s", ac, where(prev, ch[0].Path, a.Dag, "", -1), st), fmt.Sprintf("answer %s but the installation changed: %s", info, fmtChanges(ch, 8))
		}
		return "", ""
	}
}

func paramClass(a action) string {
	if a.Params == "" {
		return "params=none"
	}
	return strings.Trim(argClass(a), "()")
}

// judgeStart: exactly one invocation of the executable, for this DAG, with the parameters unchanged; nothing else.
func judgeStart(w *world, a action, prev dump, ch []change) (string, string) {
	var calls []change
	for _, c := range ch {
		if strings.HasPrefix(c.Path, "stub:") && c.Old == "<absent>" {
			calls = append(calls, c)
			continue
		}
		return fmt.Sprintf("C20/start/accepted-start-changed-%s", where(prev, c.Path, a.Dag, "", -1)), "an accepted start changed more than spawning the command: " + fmtChanges(ch, 8)
	}
	if len(calls) != 1 {
		return "C20/start/spawned-more-than-once", fmt.Sprintf("%d invocations of the executable: %s", len(calls), fmtChanges(calls, 4))
	}
	var argv []string
	_ = json.Unmarshal([]byte(calls[0].New), &argv)
	loc := w.loc(a.Dag)
	if len(argv) < 2 || argv[0] != "start" || argv[len(argv)-1] != loc {
		return "C20/start/wrong-command/" + paramClass(a), fmt.Sprintf("executable invoked with %q, expected start ... %s", argv, loc)
	}
	got, has := "", false
	rest := argv[1 : len(argv)-1]
	for i := 0; i < len(rest); i++ {
		switch {
		case rest[i] == "-p" || rest[i] == "--params":
			if i+1 < len(rest) {
				got, has = rest[i+1], true
				i++
			}
		case strings.HasPrefix(rest[i], "--params="):
			got, has = strings.TrimPrefix(rest[i], "--params="), true
		case rest[i] == "-q" || rest[i] == "--quiet":
		default:
			return "C20/start/wrong-command/" + paramClass(a), fmt.Sprintf("executable invoked with unexpected argument %q in %q", rest[i], argv)
		}
	}
	want := quoteParams(a.Params)
	if a.Params == "" {
		if has && got != "" && got != `""` {
			return "C20/start/params-altered/" + paramClass(a), fmt.Sprintf("no parameters given but the command got -p %q", got)
		}
		return "", ""
	}
	if !has || got != want {
		return "C20/start/params-altered/" + paramClass(a), fmt.Sprintf("parameters %q must reach the command as -p %q (documented quoting), got %q (argv %q)", a.Params, want, got, argv)
	}
	return "", ""
}

// judgeRetry: an accepted retry hands exactly the addressed run (the given request id) of the addressed DAG to the
// command, once. (Whether a retry is admissible, and anything else it does, is not stated by the property.)
func judgeRetry(w *world, a action, ex expect, ch []change) (string, string) {
	var calls []change
	for _, c := range ch {
		if strings.HasPrefix(c.Path, "stub:") && c.Old == "<absent>" {
			calls = append(calls, c)
		}
	}
	want := []string{"retry", "--req=" + ex.Run, w.loc(a.Dag)}
	if len(calls) != 1 {
		return "C20/retry/not-spawned-exactly-once", fmt.Sprintf("%d invocations of the executable after an accepted retry of run %s: %s", len(calls), ex.Run, fmtChanges(calls, 4))
	}
	var argv []string
	_ = json.Unmarshal([]byte(calls[0].New), &argv)
	if strings.Join(argv, "\x00") != strings.Join(want, "\x00") {
		return "C20/retry/other-run-or-command/" + strings.Trim(argClass(a), "()"), fmt.Sprintf("an accepted retry of run %s must reach the executable as %q, got %q", ex.Run, want, argv)
	}
	return "", ""
}

// relabelling: top-level Status 1 -> 2 / StatusText "running" -> "failed" of a run.
func isRelabel(rest string, c change) bool {
	return (rest == "Status" && c.Old == "1" && c.New == "2") || (rest == "StatusText" && c.Old == `"running"` && c.New == `"failed"`)
}

// judgeEdit: exactly the addressed step of exactly the addressed run changed (apart from relabelling as failed
// a run still recorded as running whose process is gone) — on disk and in everything the history store returns
// (lookup of every request id, recent list, latest status; through the handler's store instance and a fresh one).
func judgeEdit(m *refModel, ex expect, prev, cur dump, ch []change) (string, string) {
	sig, detail := judgeEdit1(m, ex, prev, cur, ch)
	if sig != "" && sig != "C20/edit/relabelled-live-run-as-failed" {
		if d := m.D[ex.Dag]; d != nil {
			sig += idRelation(ex.Run, d.Runs)
		}
	}
	return sig, detail
}

func judgeEdit1(m *refModel, ex expect, prev, cur dump, ch []change) (string, string) {
	pfx := fmt.Sprintf("run:%s:%s:Nodes[%d].", ex.Dag, ex.Run, ex.StepIdx)
	if name := prev[pfx+"Step.Name"]; name != fmt.Sprintf("%q", ex.Step) {
		return "", "" // (cannot happen: the model's step table is the recorded one)
	}
	text := map[int]string{nodeSuccess: `"finished"`, nodeError: `"failed"`}
	wantS, wantT := fmt.Sprint(ex.To), text[ex.To]
	stepS, stepT := fmt.Sprintf("Nodes[%d].Status", ex.StepIdx), fmt.Sprintf("Nodes[%d].StatusText", ex.StepIdx)
	for _, c := range ch {
		dg, run, rest, ok := locate(c.Path, prev)
		view := ""
		if isView(c.Path) {
			view = "(as-returned-by-the-store)"
		}
		if ok && dg == ex.Dag && run == ex.Run && (rest == stepS || rest == stepT) {
			continue
		}
		if ok && run != "" && isRelabel(rest, c) {
			// relabelling of a run still recorded as running — allowed only when its process is gone
			if d := m.D[dg]; d != nil && d.State == "running" {
				return "C20/edit/relabelled-live-run-as-failed", "a status edit relabelled a live run as failed: " + fmtChanges(ch, 8)
			}
			continue
		}
		return "C20/edit/changed-" + where(prev, c.Path, ex.Dag, ex.Run, ex.StepIdx) + view, fmt.Sprintf("an accepted edit of step %s of run %s changed more than that step's status: %s", ex.Step, ex.Run, fmtChanges(ch, 8))
	}
	// the addressed step must now carry the requested status: on disk ...
	if cur[pfx+"Status"] != wantS || cur[pfx+"StatusText"] != wantT {
		return "C20/edit/addressed-step-not-changed", fmt.Sprintf("after the accepted edit step %s of run %s has Status=%s StatusText=%s, expected %s %s", ex.Step, ex.Run, cur[pfx+"Status"], cur[pfx+"StatusText"], wantS, wantT)
	}
	// ... and in what a lookup of the run by its request id returns
	for _, inst := range viewInstances {
		k := fmt.Sprintf("find[%s]:%s:%s:", inst, ex.Dag, ex.Run)
		if _, looked := cur[k+"RequestId"]; !looked && inst != "api" && cur[strings.TrimSuffix(k, ":")] == "" {
			continue // not looked up through this instance
		}
		if cur[k+stepS] != wantS || cur[k+stepT] != wantT {
			return "C20/edit/addressed-step-not-changed(as-returned-by-the-store)", fmt.Sprintf("after the accepted edit the lookup of run %s by request id (%s store instance) returns step %s with Status=%s StatusText=%s, expected %s %s", ex.Run, inst, ex.Step, cur[k+stepS], cur[k+stepT], wantS, wantT)
		}
	}
	// the whole history as the store returns it is the history of the reference model
	if what := historyMismatch(m, cur); what != "" {
		return "C20/edit/history-differs-from-model", "after the accepted edit: " + what
	}
	return "", ""
}

var viewInstances = []string{"api", "fresh"}

// historyMismatch compares what the history store returns (every view in the dump) with the reference model:
// per DAG of the model the recent list holds exactly the model's runs, newest first; a lookup of each of them by
// request id, the entry of the recent list and (for the newest) the latest status carry, leaf by leaf, the status
// recorded for that run on disk; ids of other DAGs and the unknown id are not found. A run recorded as running
// whose process is gone may be shown relabelled as failed. "" = no mismatch.
func historyMismatch(m *refModel, d dump) string {
	// index: "<kind>:<dag>:<run or position>" (latest: "<kind>:<dag>") -> JSON path -> value
	idx := map[string]map[string]string{}
	for k, v := range d {
		p := strings.SplitN(k, ":", 4)
		var head, rest string
		switch {
		case strings.HasPrefix(k, "latest[") && len(p) >= 3:
			head, rest = p[0]+":"+p[1], strings.Join(p[2:], ":")
		case len(p) == 4 && (p[0] == "run" || strings.HasPrefix(p[0], "find[") || strings.HasPrefix(p[0], "recent[")):
			head, rest = p[0]+":"+p[1]+":"+p[2], p[3]
		default:
			continue
		}
		if idx[head] == nil {
			idx[head] = map[string]string{}
		}
		idx[head][rest] = v
	}
	leaves := func(prefix string) map[string]string { return idx[strings.TrimSuffix(prefix, ":")] }
	same := func(what string, got, want map[string]string, live bool) string {
		if len(got) == 0 {
			return what + " returns nothing"
		}
		for k, v := range want {
			g, ok := got[k]
			if ok && g == v {
				continue
			}
			if ok && !live && isRelabel(k, change{Old: v, New: g}) {
				continue
			}
			return fmt.Sprintf("%s: %s is %s, recorded is %s", what, k, clip(g), clip(v))
		}
		for k := range got {
			if _, ok := want[k]; !ok {
				return fmt.Sprintf("%s: has %s, the recorded status has not", what, k)
			}
		}
		return ""
	}
	for _, name := range []string{"d1", "d2", "d3"} {
		dm := m.D[name]
		if dm == nil {
			continue
		}
		live := dm.State == "running"
		var newestFirst []string
		for i := len(dm.Runs) - 1; i >= 0; i-- {
			newestFirst = append(newestFirst, dm.Runs[i])
		}
		own := map[string]bool{}
		for _, inst := range viewInstances {
			if got, want := d[fmt.Sprintf("recent[%s]:%s", inst, name)], strings.Join(newestFirst, ","); got != want {
				return fmt.Sprintf("the recent-history list of %s (%s store instance) holds runs [%s], the model [%s]", name, inst, got, want)
			}
			for pos, id := range newestFirst {
				own[id] = true
				rec := leaves(fmt.Sprintf("run:%s:%s:", name, id))
				if len(rec) == 0 {
					return fmt.Sprintf("run %s of %s is not on record on disk", id, name)
				}
				fk := fmt.Sprintf("find[%s]:%s:%s", inst, name, id)
				found := leaves(fk + ":")
				if d[fk] == "not found" || (inst == "api" && len(found) == 0) {
					return fmt.Sprintf("lookup of run %s of %s by request id (%s store instance) finds nothing", id, name, inst)
				}
				if len(found) > 0 { // (through the fresh instance only the runs of the DAG the edits address are looked up)
					if s := same(fmt.Sprintf("lookup of run %s of %s by request id (%s store instance)", id, name, inst), found, rec, live); s != "" {
						return s
					}
				}
				if s := same(fmt.Sprintf("entry %d of the recent-history list of %s (%s store instance)", pos, name, inst), leaves(fmt.Sprintf("recent[%s]:%s:%d:", inst, name, pos)), rec, live); s != "" {
					return s
				}
				if pos == 0 {
					if s := same(fmt.Sprintf("latest status of %s (%s store instance)", name, inst), leaves(fmt.Sprintf("latest[%s]:%s:", inst, name)), rec, live); s != "" {
						return s
					}
				}
			}
			if len(newestFirst) == 0 {
				if v := d[fmt.Sprintf("latest[%s]:%s", inst, name)]; !strings.HasPrefix(v, "none") {
					return fmt.Sprintf("latest status of %s (%s store instance) is %q, the model has no run", name, inst, v)
				}
			}
			// request ids that are not runs of this DAG are not found under it
			for k, v := range d {
				pre := fmt.Sprintf("find[%s]:%s:", inst, name)
				if !strings.HasPrefix(k, pre) {
					continue
				}
				id := strings.SplitN(k[len(pre):], ":", 2)[0]
				if !own[id] && v != "not found" {
					return fmt.Sprintf("lookup of request id %s under %s (%s store instance) returns a status (%s), it is not a run of that DAG", id, name, inst, clip(k+"="+v))
				}
			}
		}
	}
	return ""
}

// ---- driver ------------------------------------------------------------------------

type checker struct {
	res    *vlib.Result
	fl     *vlib.Flags
	n      int
	states map[string]bool
}

// child runs one member in a child process of this binary.
func (c *checker) child(dir string, mb member) (outcome, error) {
	_ = os.MkdirAll(dir, 0o755)
	mf, of := filepath.Join(dir, "member.json"), filepath.Join(dir, "outcome.json")
	b, _ := json.Marshal(mb)
	if err := os.WriteFile(mf, b, 0o644); err != nil {
		return outcome{}, err
	}
	self, _ := os.Executable()
	cmd := exec.Command(self, "-sub", "child", "-replay", mf, "-out", of, "-work", filepath.Join(dir, "w"))
	cmd.Env = append(os.Environ(), "GOMAXPROCS=2")
	logf, _ := os.Create(filepath.Join(dir, "child.log"))
	cmd.Stdout, cmd.Stderr = logf, logf
	err := cmd.Start()
	if err != nil {
		return outcome{}, err
	}
	done := make(chan error, 1)
	go func() { done <- cmd.Wait() }()
	select {
	case err = <-done:
	case <-time.After(10 * time.Minute):
		_ = cmd.Process.Kill()
		<-done
		err = fmt.Errorf("child exceeded 10 min")
	}
	logf.Close()
	// a child that died leaves the unix sockets of its live agents behind
	for _, n := range []string{"d1", "d2", "d3"} {
		_ = os.Remove((&dag.DAG{Location: filepath.Join(dir, "w", "inst", "dags", n+".yaml")}).SockAddr())
	}
	var oc outcome
	if ob, rerr := os.ReadFile(of); rerr == nil && json.Unmarshal(ob, &oc) == nil {
		return oc, nil // the outcome was written before the agents were ended: a crash after that does not matter
	}
	tail, _ := os.ReadFile(filepath.Join(dir, "child.log"))
	if len(tail) > 1500 {
		tail = tail[:1500]
	}
	return outcome{}, fmt.Errorf("child process failed (%v): %s", err, tail)
}

func (c *checker) run(mb member) outcome {
	c.n++
	dir := filepath.Join(c.fl.Work, fmt.Sprintf("m%d", c.n))
	defer os.RemoveAll(dir)
	b, _ := baseByName(mb.Base)
	if !b.live() {
		return runMember(dir, mb)
	}
	var lastErr error
	for try, again := 0, 0; try < 3; try++ {
		oc, err := c.child(filepath.Join(dir, fmt.Sprintf("t%d-%d", try, again)), mb)
		if err == nil {
			if strings.HasPrefix(oc.CheckError, "setup: again") && again < 8 {
				// the live agent recorded its "running" status too early to show the running step: same member again
				again++
				try--
				c.res.Count("live_members_started_again(status_written_before_the_step_ran)", 1)
				continue
			}
			return oc
		}
		lastErr = err
		c.res.Count("child_process_crashes_retried", 1)
	}
	return outcome{CheckError: fmt.Sprintf("member [%s]: %v", mb, lastErr), Counters: map[string]int64{}}
}

func (c *checker) check(mb member, sample bool) {
	res := c.res
	res.Evaluations++
	oc := c.run(mb)
	for k, v := range oc.Counters {
		res.Count(k, v)
	}
	res.Transitions += int64(oc.Actions)
	res.Validated += int64(oc.Validated)
	for _, s := range oc.States {
		c.states[s] = true
	}
	if len(mb.Actions) > 0 {
		res.Nontrivial(vlib.Hash(mb.String()))
	}
	if sample {
		res.Sample(map[string]any{"base_state": mb.Base, "actions": mb.Actions, "observed": oc.Vec})
	}
	if oc.CheckError != "" {
		res.CheckError("%s", oc.CheckError)
		return
	}
	if oc.Sig == "" {
		return
	}
	// a counterexample is re-run twice before it is believed
	for i := 0; i < 2; i++ {
		o2 := c.run(mb)
		if o2.Sig != oc.Sig {
			res.CheckError("member [%s] is not reproducible: first %q, then %q %s", mb, oc.Sig, o2.Sig, o2.CheckError)
			return
		}
	}
	res.Violate(oc.Sig, oc.Detail, mb)
}

func main() {
	if filepath.Base(os.Args[0]) == stubName {
		stubMain()
	}
	fl := vlib.ParseFlags()
	if fl.Sub == "child" {
		var mb member
		b, err := os.ReadFile(fl.Replay)
		if err == nil {
			err = json.Unmarshal(b, &mb)
		}
		if err != nil {
			fmt.Fprintln(os.Stderr, "child:", err)
			os.Exit(2)
		}
		if os.Getenv("C20_SELFTEST_CHILD_CRASH") != "" {
			// self-test of the crash containment: die the way the agent's racing status writer would
			go func() { var p *int; _ = *p }()
			time.Sleep(time.Second)
		}
		// the outcome is complete before the live agents are ended (runMember's deferred shutdown comes after
		// the verdict): write it from a hook that runs first
		oc := runMemberChild(filepath.Join(fl.Work, "inst"), mb, fl.Out)
		_ = oc
		os.RemoveAll(fl.Work)
		os.Exit(0)
	}
	res := vlib.New("c20")
	c := &checker{res: res, fl: fl, states: map[string]bool{}}
	_ = os.MkdirAll(fl.Work, 0o755)
	cwd := filepath.Join(fl.Work, "cwd")
	_ = os.MkdirAll(cwd, 0o755)
	_ = os.Chdir(cwd)

	if fl.Replay != "" {
		var rp struct {
			Replay member `json:"replay"`
		}
		b, err := os.ReadFile(fl.Replay)
		if err == nil {
			err = json.Unmarshal(b, &rp)
		}
		if err != nil {
			fmt.Fprintln(os.Stderr, "replay:", err)
			os.Exit(2)
		}
		c.check(rp.Replay, true)
		fmt.Fprintf(os.Stderr, "replayed [%s]: %d violation(s)\n", rp.Replay, len(res.Violations))
		for _, v := range res.Violations {
			fmt.Fprintf(os.Stderr, "  %s\n  %s\n", v.Signature, v.Detail)
		}
		res.States = int64(len(c.states))
		res.Write(fl.Out)
		os.RemoveAll(fl.Work)
		return
	}

	// enumeration: depth 1 from every base state; depth 2 from the bases without a live agent (quick)
	// or from every base state (thorough)
	idx := 0
	only := os.Getenv("VERIF_C20_ONLY") // development aid: only the base states whose name contains this
	for _, b := range bases {
		if only != "" && !strings.Contains(b.Name, only) {
			continue
		}
		depth2 := fl.Thorough() || (!b.live() && !b.Depth1Quick)
		alph := alphabetOf(b)
		for _, a1 := range alph {
			idx++
			if fl.Mine(idx) {
				c.check(member{Base: b.Name, Actions: []string{a1.Key}}, idx%97 == 3)
			}
			if !depth2 {
				continue
			}
			for _, a2 := range alph {
				idx++
				if fl.Mine(idx) {
					c.check(member{Base: b.Name, Actions: []string{a1.Key, a2.Key}}, idx%1733 == 11)
				}
			}
		}
	}
	for s := range c.states {
		// every shard visits (nearly) every model state; a state is counted by the shard that owns its hash
		var h uint32
		for _, ch := range []byte(vlib.Hash(s)) {
			h = h*31 + uint32(ch)
		}
		if fl.Shards <= 1 || int(h%uint32(fl.Shards)) == fl.Shard {
			res.States++
		}
	}
	res.Bounds["actions_per_sequence_le"] = 2
	res.Bounds["depth_2_from_bases_with_a_live_run"] = fl.Thorough()
	res.Bounds["depth_2_from_bases_3-runs/{failed/ids-distinct-8,finished/ids-nested-rev,crashed/ids-shared-8}"] = fl.Thorough()
	res.Bounds["recorded_runs_per_dag_le"] = 3
	res.Bounds["request_id_families"] = []string{"distinct in the first 8 characters", "sharing the first 8 characters", "nested prefixes of 4 / 6 / 36 characters, shortest oldest", "the same, shortest newest"}
	res.Bounds["alphabet_size"] = len(alphabet)
	res.Bounds["status_edits_per_base_with_different_step_lists"] = "2 actions x every run x every step name of the union of the runs' step lists (12-24)"
	res.Bounds["base_states"] = len(bases)
	res.Rule = "member = (base state of the installation, sequence of <=2 API actions of the alphabet; the 3 actions addressing the middle run only from the bases with three runs of d1); every member is executed on a fresh real installation through the generated operation handlers; states = distinct (base, model state, digest of the dump) reached; non-trivial = at least one action"
	res.Assume("the executable spawned by start/retry is a recording stub: an accepted start does not lead to a real run")
	res.Assume("the running state is a live in-process agent.Run whose first step hangs in the scripted executor (real unix-socket server, real history writes)")
	res.Assume("today-dependent: recorded runs are dated a few seconds before the member starts; members are kept clear of the first seconds after 00:00 UTC")
	res.Write(fl.Out)
	os.RemoveAll(fl.Work)
}

// runMemberChild is runMember for the child process: the outcome file is written before the live agents are ended.
func runMemberChild(dir string, mb member, out string) outcome {
	childOut = out
	oc := runMember(dir, mb)
	writeOutcome(oc) // (no-op when the shutdown hook already wrote it)
	return oc
}

var (
	childOut     string
	childWritten bool
)

func writeOutcome(oc outcome) {
	if childOut == "" || childWritten {
		return
	}
	childWritten = true
	b, _ := json.Marshal(oc)
	tmp := childOut + ".tmp"
	if err := os.WriteFile(tmp, b, 0o644); err == nil {
		_ = os.Rename(tmp, childOut)
	}
}
