// Package vtime replaces "time" in instrumented files: the clock, sleeping and
// timers are virtual while an execution is in progress.
package vtime

import (
	"time"

	"github.com/ErdemOzgen/blackdagger/internal/zzverif/vrt"
)

func Now() Time { return vrt.Now() }

func Since(t Time) Duration { return vrt.Now().Sub(t) }

func Until(t Time) Duration { return t.Sub(vrt.Now()) }

func Sleep(d Duration) { vrt.Sleep(d) }

type Timer struct {
	C      <-chan Time
	c      chan Time
	fn     func()
	cancel func() bool
	real   *time.Timer
}

func (t *Timer) arm(d Duration) {
	if !vrt.Active() {
		if t.fn != nil {
			t.real = time.AfterFunc(d, t.fn)
		} else {
			c := t.c
			t.real = time.AfterFunc(d, func() {
				select {
				case c <- time.Now():
				default:
				}
			})
		}
		return
	}
	what := "timer " + d.String()
	t.cancel = vrt.AddTimer(d, what, func() {
		if t.fn != nil {
			vrt.Go(t.fn)
			return
		}
		select {
		case t.c <- vrt.Now():
		default:
		}
	})
}

func NewTimer(d Duration) *Timer {
	c := make(chan Time, 1)
	t := &Timer{C: c, c: c}
	t.arm(d)
	return t
}

func AfterFunc(d Duration, f func()) *Timer {
	t := &Timer{fn: f}
	t.arm(d)
	return t
}

func After(d Duration) <-chan Time { return NewTimer(d).C }

func (t *Timer) Stop() bool {
	if t.real != nil {
		return t.real.Stop()
	}
	if t.cancel != nil {
		return t.cancel()
	}
	return false
}

func (t *Timer) Reset(d Duration) bool {
	was := t.Stop()
	t.real, t.cancel = nil, nil
	t.arm(d)
	return was
}
