// C14 — only well-formed dependency graphs are admitted to execution.
//
// Exhaustive enumeration of dependency graphs, each handed to the real
// scheduler.NewExecutionGraph, compared with an independent reference
// (depth-first cycle search + name lookup).  Refused graphs on up to 3 steps
// additionally go through the real agent.Run: it must fail before any
// executor is created and leave no history and no socket behind.
package main

import (
	"context"
	"encoding/json"
	"fmt"
	"os"
	"strings"
	"time"

	"github.com/ErdemOzgen/blackdagger/internal/agent"
	"github.com/ErdemOzgen/blackdagger/internal/dag"
	"github.com/ErdemOzgen/blackdagger/internal/dag/scheduler"
	"github.com/ErdemOzgen/blackdagger/internal/zzverif/venv"
	"github.com/ErdemOzgen/blackdagger/internal/zzverif/vexec"
	"github.com/ErdemOzgen/blackdagger/internal/zzverif/vlib"
)

var names = []string{"s0", "s1", "s2", "s3", "s4"}

// graph: adj[i] = bitmask of j such that step i depends on step j.
type graph struct {
	N        int      `json:"n"`
	Adj      []uint64 `json:"adj"`
	Order    []int    `json:"order"`    // order in which steps are listed
	Dangling int      `json:"dangling"` // -1 or index of step that gets an unknown dependency name
	Dpos     int      `json:"dpos"`     // position of the dangling name inside that step's depends list
	Fam      string   `json:"fam"`
	Dup      []uint64 `json:"dup,omitempty"` // dup[i] bit j: step i lists its dependency on j twice
	DupAdj   bool     `json:"dupAdjacent,omitempty"`
}

func (g graph) steps() []dag.Step {
	steps := make([]dag.Step, 0, g.N)
	for _, i := range g.Order {
		var deps []string
		for j := 0; j < g.N; j++ {
			if g.Adj[i]>>uint(j)&1 == 1 {
				deps = append(deps, name(j))
			}
		}
		if g.Dup != nil {
			var out []string
			for j := 0; j < g.N; j++ {
				if g.Adj[i]>>uint(j)&1 == 1 {
					out = append(out, name(j))
					if g.DupAdj && g.Dup[i]>>uint(j)&1 == 1 {
						out = append(out, name(j))
					}
				}
			}
			if !g.DupAdj {
				for j := 0; j < g.N; j++ {
					if g.Adj[i]>>uint(j)&1 == 1 && g.Dup[i]>>uint(j)&1 == 1 {
						out = append(out, name(j))
					}
				}
			}
			deps = out
		}
		if g.Dangling == i {
			p := g.Dpos
			if p > len(deps) {
				p = len(deps)
			}
			deps = append(deps[:p], append([]string{"ghost"}, deps[p:]...)...)
		}
		steps = append(steps, vexec.Step(name(i), deps...))
	}
	return steps
}

func name(i int) string {
	if i < len(names) {
		return names[i]
	}
	return fmt.Sprintf("s%d", i)
}

func (g graph) String() string {
	var sb strings.Builder
	fmt.Fprintf(&sb, "%s n=%d order=%v", g.Fam, g.N, g.Order)
	for i := 0; i < g.N; i++ {
		var deps []string
		for j := 0; j < g.N; j++ {
			if g.Adj[i]>>uint(j)&1 == 1 {
				deps = append(deps, name(j))
			}
		}
		if g.Dangling == i {
			deps = append(deps, fmt.Sprintf("ghost@%d", g.Dpos))
		}
		if g.Dup != nil && g.Dup[i] != 0 {
			deps = append(deps, fmt.Sprintf("twice:%b/adj=%v", g.Dup[i], g.DupAdj))
		}
		if len(deps) > 0 {
			fmt.Fprintf(&sb, " %s<-[%s]", name(i), strings.Join(deps, ","))
		}
	}
	return sb.String()
}

// refCyclic: independent reference, iterative colouring DFS.
func (g graph) refCyclic() bool {
	color := make([]int8, g.N)
	var visit func(i int) bool
	visit = func(i int) bool {
		color[i] = 1
		for j := 0; j < g.N; j++ {
			if g.Adj[i]>>uint(j)&1 == 0 {
				continue
			}
			if color[j] == 1 {
				return true
			}
			if color[j] == 0 && visit(j) {
				return true
			}
		}
		color[i] = 2
		return false
	}
	for i := 0; i < g.N; i++ {
		if color[i] == 0 && visit(i) {
			return true
		}
	}
	return false
}

func ident(n int) []int {
	o := make([]int, n)
	for i := range o {
		o[i] = i
	}
	return o
}

func perms(n int) [][]int {
	var out [][]int
	var rec func(cur []int, used uint)
	rec = func(cur []int, used uint) {
		if len(cur) == n {
			out = append(out, append([]int(nil), cur...))
			return
		}
		for i := 0; i < n; i++ {
			if used>>uint(i)&1 == 0 {
				rec(append(cur, i), used|1<<uint(i))
			}
		}
	}
	rec(nil, 0)
	return out
}

type checker struct {
	res     *vlib.Result
	fl      *vlib.Flags
	idx     int
	env     *venv.Env
	agentN  int
	classes map[string]int64
}

func (c *checker) check(g graph) {
	c.idx++
	if !c.fl.Mine(c.idx) {
		return
	}
	res := c.res
	res.Evaluations++
	wantErr := g.Dangling >= 0 || g.refCyclic()
	_, err := scheduler.NewExecutionGraph(venv.Quiet, g.steps()...)
	gotErr := err != nil
	class := fmt.Sprintf("%s/n=%d/refused=%v/dangling=%v", g.Fam, g.N, wantErr, g.Dangling >= 0)
	c.classes[class]++
	edges := 0
	for _, a := range g.Adj {
		for ; a != 0; a &= a - 1 {
			edges++
		}
	}
	if edges > 0 || g.Dangling >= 0 {
		res.Nontrivial(vlib.Hash(g.String()))
	}
	if c.idx%50021 == 1 || (c.idx < 3000 && c.idx%577 == 0) {
		res.Sample(map[string]any{"graph": g.String(), "refused_by_reference": wantErr, "refused_by_NewExecutionGraph": gotErr})
	}
	if gotErr != wantErr {
		kind := "accepted-ill-formed"
		if gotErr {
			kind = "refused-well-formed"
		}
		why := "cycle"
		if g.Dangling >= 0 {
			why = "dangling"
		}
		if !wantErr {
			why = "acyclic"
		}
		res.Violate(fmt.Sprintf("C14/admission/%s/%s", kind, why),
			fmt.Sprintf("graph %s: reference says refused=%v, NewExecutionGraph returned err=%v", g, wantErr, err),
			map[string]any{"graph": g})
	}
}

// agentRun: a refused graph must be refused by the agent before anything executes.
func (c *checker) agentRun(g graph) {
	c.agentN++
	if !c.fl.Mine(c.agentN) {
		return
	}
	res := c.res
	res.Evaluations++
	res.Count("agent_runs", 1)
	w := vexec.NewWorld(map[string]*vexec.Script{})
	nm := fmt.Sprintf("g%d", c.agentN)
	d := c.env.DAG(nm, g.steps()...)
	d.HandlerOn = dag.HandlerOn{Exit: ptr(vexec.Step("onExit")), Failure: ptr(vexec.Step("onFailure"))}
	before := venv.Files(c.env.Data)
	a := c.env.Agent(fmt.Sprintf("req-%d", c.agentN), d, &agent.Options{})
	wantRefused := g.Dangling >= 0 || g.refCyclic()
	if _, gerr := scheduler.NewExecutionGraph(venv.Quiet, g.steps()...); gerr == nil && wantRefused {
		// running an admitted cyclic graph would never end; the admission violation is reported instead
		res.Violate("C14/agent-run/ill-formed-graph-admitted", fmt.Sprintf("graph %s admitted by NewExecutionGraph; agent.Run not attempted", g), map[string]any{"graph": g, "agent": true})
		return
	}
	errc := make(chan error, 1)
	if wantRefused {
		go func() { errc <- a.Run(context.Background()) }()
	} else {
		// positive control (the harness can see executions): the admitted graph is run by the real
		// step scheduler. agent.Run is not used for it: on the pinned tree its end-of-run status
		// writer races with historyStore.Close and can crash the process (see DESIGN.md, C08 notes).
		go func() {
			gr, gerr := scheduler.NewExecutionGraph(venv.Quiet, g.steps()...)
			if gerr != nil {
				errc <- gerr
				return
			}
			sc := scheduler.New(&scheduler.Config{LogDir: c.env.Logs, Logger: venv.Quiet, ReqID: "pc"})
			errc <- sc.Schedule(dag.NewContext(context.Background(), d, nil, "pc", ""), gr, nil)
		}()
	}
	var err error
	select {
	case err = <-errc:
	case <-time.After(60 * time.Second):
		res.Violate("C14/agent-run/hang", fmt.Sprintf("graph %s: run did not return within 60 s", g), map[string]any{"graph": g, "agent": true})
		return
	}
	ev := w.Snapshot()
	after := venv.Files(c.env.Data)
	_, sockErr := os.Stat(d.SockAddr())
	wantErr := g.Dangling >= 0 || g.refCyclic()
	res.Nontrivial(vlib.Hash("agent", g.String()))
	if wantErr {
		bad := ""
		switch {
		case err == nil:
			bad = "agent.Run returned nil"
		case len(ev) != 0:
			bad = fmt.Sprintf("executor events %v", ev)
		case len(after) != len(before):
			bad = fmt.Sprintf("files created: before=%v after=%v", before, after)
		case sockErr == nil:
			bad = "socket file exists"
		}
		if bad != "" {
			res.Violate("C14/agent-run/refused-graph-had-effects", fmt.Sprintf("graph %s: %s", g, bad), map[string]any{"graph": g, "agent": true})
		}
	} else {
		// positive control: the harness must be able to see executions
		if err != nil || len(ev) == 0 {
			res.Violate("C14/agent-run/well-formed-graph-not-run", fmt.Sprintf("graph %s: err=%v events=%v", g, err, ev), map[string]any{"graph": g, "agent": true})
		}
		res.Count("agent_positive_controls", 1)
	}
}

func ptr[T any](v T) *T { return &v }

func main() {
	fl := vlib.ParseFlags()
	res := vlib.New("c14")
	c := &checker{res: res, fl: fl, classes: map[string]int64{}}
	c.env = venv.New(fl.Work + "/env")
	if fl.Replay != "" {
		var rp struct {
			Replay struct {
				Graph graph `json:"graph"`
				Agent bool  `json:"agent"`
			} `json:"replay"`
		}
		b, err := os.ReadFile(fl.Replay)
		if err == nil {
			err = json.Unmarshal(b, &rp)
		}
		if err != nil {
			fmt.Fprintln(os.Stderr, "replay:", err)
			os.Exit(2)
		}
		if rp.Replay.Agent {
			c.agentRun(rp.Replay.Graph)
		} else {
			c.check(rp.Replay.Graph)
		}
		fmt.Fprintf(os.Stderr, "replayed %s: %d violation(s)\n", rp.Replay.Graph, len(res.Violations))
		res.Write(fl.Out)
		return
	}

	// (1) every digraph, self-loops included, on n <= 4 steps; with every step order for n <= 3;
	//     plus one dangling name at every (step, position).
	for n := 1; n <= 4; n++ {
		orders := [][]int{ident(n)}
		if n <= 3 {
			orders = perms(n)
		}
		total := uint64(1) << uint(n*n)
		for m := uint64(0); m < total; m++ {
			adj := make([]uint64, n)
			for i := 0; i < n; i++ {
				adj[i] = m >> uint(i*n) & (1<<uint(n) - 1)
			}
			for _, o := range orders {
				g := graph{N: n, Adj: adj, Order: o, Dangling: -1, Fam: "all-digraphs"}
				c.check(g)
				if n <= 3 || (fl.Thorough() || m%7 == 0) {
					for i := 0; i < n; i++ {
						nd := 0
						for a := adj[i]; a != 0; a &= a - 1 {
							nd++
						}
						for p := 0; p <= nd; p++ {
							gd := g
							gd.Dangling, gd.Dpos, gd.Fam = i, p, "all-digraphs+dangling"
							c.check(gd)
						}
					}
				}
			}
		}
	}
	// (1b) repeated entries inside one depends list: every digraph on n <= 3 steps with every subset of its edges listed twice
	//      (appended at the end of the list, and adjacent to the first occurrence)
	for n := 1; n <= 3; n++ {
		total := uint64(1) << uint(n*n)
		for m := uint64(0); m < total; m++ {
			adj := make([]uint64, n)
			for i := 0; i < n; i++ {
				adj[i] = m >> uint(i*n) & (1<<uint(n) - 1)
			}
			// every non-empty subset of the edge set
			for sub := m; sub > 0; sub = (sub - 1) & m {
				dup := make([]uint64, n)
				for i := 0; i < n; i++ {
					dup[i] = sub >> uint(i*n) & (1<<uint(n) - 1)
				}
				for _, adjacent := range []bool{false, true} {
					c.check(graph{N: n, Adj: adj, Order: ident(n), Dangling: -1, Fam: "repeated-depends-entries", Dup: dup, DupAdj: adjacent})
				}
			}
		}
	}
	res.Bounds["repeated_depends_entries_n_le"] = 3
	res.Bounds["all_digraphs_with_self_loops_n_le"] = 4
	res.Bounds["step_order_permuted_n_le"] = 3

	// (2) every loop-free edge set on 5 steps (2^20), thorough: each also with a dangling name on each step.
	{
		n := 5
		stride := uint64(1)
		if !fl.Thorough() {
			stride = 1 // the full 2^20 is cheap enough for the quick tier as well
		}
		for m := uint64(0); m < 1<<20; m += stride {
			adj := make([]uint64, n)
			bit := uint(0)
			for i := 0; i < n; i++ {
				for j := 0; j < n; j++ {
					if i == j {
						continue
					}
					if m>>bit&1 == 1 {
						adj[i] |= 1 << uint(j)
					}
					bit++
				}
			}
			g := graph{N: n, Adj: adj, Order: ident(n), Dangling: -1, Fam: "loopfree-5"}
			c.check(g)
			if fl.Thorough() {
				for i := 0; i < n; i++ {
					gd := g
					gd.Dangling, gd.Dpos, gd.Fam = i, 0, "loopfree-5+dangling"
					c.check(gd)
				}
			}
		}
		res.Bounds["all_loop_free_edge_sets_n"] = 5
	}

	// (3) structured families up to 40 steps (enumerated, not sampled): rings, ring+tail, two rings,
	//     layered DAG + one back edge at every position, chains, with/without a dangling name.
	for n := 6; n <= 40; n++ {
		if !fl.Thorough() && n > 12 && n%7 != 5 {
			continue
		}
		mk := func() []uint64 { return make([]uint64, n) }
		// chain: i depends on i-1
		chain := mk()
		for i := 1; i < n; i++ {
			chain[i] = 1 << uint(i-1)
		}
		c.check(graph{N: n, Adj: chain, Order: ident(n), Dangling: -1, Fam: "chain"})
		for i := 0; i < n; i++ {
			c.check(graph{N: n, Adj: chain, Order: ident(n), Dangling: i, Dpos: 0, Fam: "chain+dangling"})
		}
		// chain + one back edge (lo depends on hi) for every pair
		for lo := 0; lo < n; lo++ {
			for hi := lo; hi < n; hi++ {
				a := append([]uint64(nil), chain...)
				a[lo] |= 1 << uint(hi)
				c.check(graph{N: n, Adj: a, Order: ident(n), Dangling: -1, Fam: "chain+backedge"})
			}
		}
		// ring of size k on the first k nodes + tail hanging off it, for every k
		for k := 2; k <= n; k++ {
			a := mk()
			for i := 0; i < k; i++ {
				a[i] = 1 << uint((i+1)%k)
			}
			for i := k; i < n; i++ {
				a[i] = 1 << uint(i-1)
			}
			c.check(graph{N: n, Adj: a, Order: ident(n), Dangling: -1, Fam: "ring+tail"})
			// reversed listing order
			rev := ident(n)
			for i, j := 0, n-1; i < j; i, j = i+1, j-1 {
				rev[i], rev[j] = rev[j], rev[i]
			}
			c.check(graph{N: n, Adj: a, Order: rev, Dangling: -1, Fam: "ring+tail/rev"})
		}
		// two disjoint rings (sizes k and n-k)
		for k := 2; k <= n-2; k++ {
			a := mk()
			for i := 0; i < k; i++ {
				a[i] = 1 << uint((i+1)%k)
			}
			for i := k; i < n; i++ {
				a[i] = 1 << uint(k+(i-k+1)%(n-k))
			}
			c.check(graph{N: n, Adj: a, Order: ident(n), Dangling: -1, Fam: "two-rings"})
		}
		// layered DAG (width 3): every node depends on all nodes of the previous layer; + every single back edge
		lay := mk()
		for i := 3; i < n; i++ {
			l := i / 3
			for j := (l - 1) * 3; j < l*3; j++ {
				lay[i] |= 1 << uint(j)
			}
		}
		c.check(graph{N: n, Adj: lay, Order: ident(n), Dangling: -1, Fam: "layered"})
		for lo := 0; lo < n; lo++ {
			for hi := lo + 1; hi < n; hi++ {
				a := append([]uint64(nil), lay...)
				a[lo] |= 1 << uint(hi)
				c.check(graph{N: n, Adj: a, Order: ident(n), Dangling: -1, Fam: "layered+backedge"})
			}
		}
	}
	res.Bounds["structured_families_n_le"] = 40

	// (4) refused graphs on n <= 3 (all of them) through the real agent.Run; a few accepted ones as positive control.
	for n := 1; n <= 3; n++ {
		total := uint64(1) << uint(n*n)
		for m := uint64(0); m < total; m++ {
			adj := make([]uint64, n)
			for i := 0; i < n; i++ {
				adj[i] = m >> uint(i*n) & (1<<uint(n) - 1)
			}
			g := graph{N: n, Adj: adj, Order: ident(n), Dangling: -1, Fam: "agent"}
			if g.refCyclic() {
				c.agentRun(g)
			} else if n <= 2 {
				c.agentRun(g)
			}
			if n <= 2 || m%5 == 0 {
				for i := 0; i < n; i++ {
					gd := g
					gd.Dangling = i
					c.agentRun(gd)
				}
			}
		}
	}
	res.Bounds["agent_run_refused_graphs_n_le"] = 3

	for k, v := range c.classes {
		res.Counters["class:"+k] = v
	}
	res.States = int64(len(c.classes))
	res.Rule = "every member of the stated finite graph families is built as []dag.Step and handed to the real scheduler.NewExecutionGraph; distinct = distinct graph (edge set, listing order, dangling position); non-trivial = has at least one dependency edge or a dangling name"
	res.Assume("step names are distinct (as the property states)")
	res.Write(fl.Out)
	os.RemoveAll(fl.Work)
}
