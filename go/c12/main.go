// C12 — a finished step's log holds everything the step printed.
//
// Bounded-exhaustive enumeration of step configurations
//
//	{stdout file ±} x {stderr file ±} x {output variable ±} x {script | command}
//	x retries {0,1,2} x final state {finished, failed} x stream {stdout, stderr, both interleaved} x sizes
//
// Each member is built as a dag.Step the way the loader builds it, and run by
// the real scheduler (scheduler.New + NewExecutionGraph + Schedule) with a real
// `sh` child.  The child keeps an attempt counter in a file, fails its first k
// attempts (k = retry limit; in the "failed" variant attempt k+1 fails too) and writes, per attempt and stream, a counter pattern over an
// alphabet that is private to (attempt, stream) — so bytes of an earlier attempt
// or of the other stream can never stand in for the bytes that are looked for.
//
// A fourth stream mode, "both concurrent", writes stdout and stderr at the same
// time from two background loops (one short line per write, staged start); the
// interleaving inside os/exec cannot be scheduled, so such a member is repeated a
// fixed number of times, every repetition in a process of its own (runIsolated)
// under alternating runtime settings; a process that dies is a violation.
//
// Sizes straddle every buffer boundary on the path: the 4 KiB bufio writers,
// the 32 KiB io.Copy chunk, the 64 KiB capacity of the `output:` capture pipe
// (and of os/exec's pipe), 128 KiB (one pipe capacity queued behind another;
// MAX_ARG_STRLEN), 160 KiB (64 + 64 + 32), 1 MiB — for EVERY sink configuration
// {stdout file ±} x {stderr file ±} x {output variable ±}.  A member whose
// captured `output:` volume exceeds one pipe capacity runs in a process of its
// own (runIsolated, one execution): Node.Execute exports the captured text
// into the environment of the process that runs the step, and one environment
// string of 128 KiB or more makes every later execve of that process fail.
//
// Redirect-file families (redirectFamilies): the `stdout:` / `stderr:` files
// exist before the run with known content; `stdout:` and `stderr:` name the same
// file; two dependent steps share their redirect files.  The redirect files are
// opened for appending, so besides the last attempt's bytes they must hold what
// every execution of the child wrote (attempt after attempt, step after step)
// behind what they held before the run.
//
// Oracle, evaluated after Schedule returned (exactly the property): the file
// named by the node's final State().Log contains every byte the last attempt
// wrote to stdout and to stderr (stderr: in the `stderr:` file instead when one
// is configured) and the `stdout:` file contains every byte the last attempt
// wrote to stdout.  "Contains": the byte sequence of the last attempt on that
// stream appears in order in the file (bytes of earlier attempts may be there
// as well; they are over other alphabets and are ignored).
package main

import (
	"bytes"
	"context"
	"encoding/json"
	"fmt"
	"os"
	"os/exec"
	"path/filepath"
	"strconv"
	"strings"
	"sync"
	"syscall"
	"time"

	"github.com/ErdemOzgen/blackdagger/internal/dag"
	"github.com/ErdemOzgen/blackdagger/internal/dag/scheduler"
	"github.com/ErdemOzgen/blackdagger/internal/zzverif/venv"
	"github.com/ErdemOzgen/blackdagger/internal/zzverif/vlib"
)

const (
	streamOut  = 0
	streamErr  = 1
	streamBoth = 2
	streamConc = 3 // both streams at the same time, from two background writers, one short line per write

	pipeCap  = 65536 // capacity of the capture pipe of `output:` (Linux default)
	watchdog = 60 * time.Second
	nChunks  = 4
)

var streamName = []string{"stdout", "stderr", "both", "both-concurrent"}

// member is one configuration of the family (also the replay artefact).
type member struct {
	StdoutFile bool `json:"stdout_file"`
	StderrFile bool `json:"stderr_file"`
	Output     bool `json:"output"`
	Script     bool `json:"script"`
	Retries    int  `json:"retries"`    // retry limit; the first Retries attempts fail, attempt Retries+1 is the last
	FinalFail  bool `json:"final_fail"` // the last attempt fails as well (final state "failed") instead of succeeding
	Stream     int  `json:"stream"`     // 0 stdout, 1 stderr, 2 both interleaved, 3 both concurrent
	Size       int  `json:"size"`       // bytes per active stream and attempt; stream 3: lines per stream and attempt
	// redirect-file families (absent in older replay artefacts)
	Pre      int  `json:"pre,omitempty"`       // the redirect files exist before the run: 1 = with 37 bytes, 2 = with more bytes than the whole run prints
	SameFile bool `json:"same_file,omitempty"` // `stdout:` and `stderr:` name the same file
	TwoSteps bool `json:"two_steps,omitempty"` // two steps, the second depending on the first, with the same settings (same redirect files); retries apply to the second
}

func (m member) String() string {
	s := fmt.Sprintf("stdoutFile=%v stderrFile=%v output=%v script=%v retries=%d finalFail=%v stream=%s size=%d",
		m.StdoutFile, m.StderrFile, m.Output, m.Script, m.Retries, m.FinalFail, streamName[m.Stream], m.Size)
	if m.SameFile {
		s += " sameFile=true"
	}
	if m.TwoSteps {
		s += " twoSteps=true"
	}
	if m.Pre != 0 {
		s += fmt.Sprintf(" preexisting=%d", m.Pre)
	}
	return s
}

// skip: executions of the child before the step that carries the retry policy (the first step of a two-step member).
func (m member) skip() int {
	if m.TwoSteps {
		return 1
	}
	return 0
}

// execs: planned executions of the child.
func (m member) execs() int { return m.skip() + m.Retries + 1 }

// preLen: bytes a pre-existing redirect file holds before the run.
func (m member) preLen() int {
	switch m.Pre {
	case 1:
		return 37
	case 2:
		return 3*(m.outBytes()+m.errBytes()) + 4097
	}
	return 0
}

// suffix: class segments of the redirect-file families.
func (m member) suffix() string {
	c := ""
	if m.TwoSteps {
		c += "/two-steps"
	}
	if m.SameFile {
		c += "/same-file"
	}
	if m.Pre != 0 {
		c += "/preexisting-file"
	}
	return c
}

// outBytes / errBytes: pattern bytes the last attempt writes per stream (newlines of the concurrent writers not counted).
func (m member) outBytes() int {
	switch m.Stream {
	case streamErr:
		return 0
	case streamConc:
		return (m.Size + concPrologue) * (concWidth(m.Size) + 1)
	}
	return m.Size
}

func (m member) errBytes() int {
	switch m.Stream {
	case streamOut:
		return 0
	case streamConc:
		return (m.Size + concPrologue) * (concWidth(m.Size) + 1)
	}
	return m.Size
}

// captured: bytes per attempt that flow into the capture pipe of `output:`
// (stderr goes the same way as stdout unless a `stderr:` file is configured).
func (m member) captured() int {
	if !m.Output {
		return 0
	}
	n := m.outBytes()
	if !m.StderrFile {
		n += m.errBytes()
	}
	if m.Stream == streamConc {
		n += n / (concWidth(m.Size) + 1) // newlines
	}
	return n
}

// bigCapture: the captured volume exceeds one pipe capacity.  Node.Execute
// exports the captured text into the environment of the process it runs in, and
// one environment string above MAX_ARG_STRLEN (128 KiB) makes every later execve
// of that process fail with E2BIG — so such a member is executed in a process of
// its own (runIsolated) instead of next to the other members of the shard.
func (m member) bigCapture() bool { return m.captured() > pipeCap }

// want: the bytes attempt a writes to the stream (n = outBytes/errBytes).
func (m member) want(attempt, stream, n int) []byte {
	if m.Stream == streamConc {
		return concPattern(attempt, stream, m.Size)
	}
	return pattern(attempt, stream, n)
}

func (m member) wiring() string {
	switch {
	case m.StdoutFile && m.Output:
		return "stdout-file+output"
	case m.StdoutFile:
		return "stdout-file"
	case m.Output:
		return "output"
	}
	return "plain"
}

func (m member) retriesClass() string {
	if m.Retries == 0 {
		return "retries=0"
	}
	return "retries>=1"
}

// class: configuration class used in signatures.
func (m member) class() string {
	c := m.retriesClass() + "/" + m.wiring()
	if m.FinalFail {
		c += "/final-failed"
	}
	if m.Stream == streamConc {
		c += "/concurrent"
	}
	if m.bigCapture() {
		c += "/captured>64KiB"
	}
	return c + m.suffix()
}

func (m member) trivial() bool {
	return !m.StdoutFile && !m.StderrFile && !m.Output && !m.Script && m.Retries == 0 && !m.FinalFail
}

// ---- patterns ---------------------------------------------------------------

// alphabet of (attempt 1..3, stream 0|1): 11 printable characters, pairwise disjoint;
// "attempt" 4: the content a redirect file holds before the run (stream 0: stdout file, 1: stderr file).
func alphabet(attempt, stream int) []byte {
	j := (attempt-1)*2 + stream
	a := make([]byte, 11)
	for i := range a {
		a[i] = byte(33 + j*11 + i)
	}
	return a
}

// pattern: records of 7 "digits" + separator counting up, cut to n bytes.
func pattern(attempt, stream, n int) []byte {
	a := alphabet(attempt, stream)
	out := make([]byte, 0, n+8)
	for k := 0; len(out) < n; k++ {
		d := fmt.Sprintf("%07d", k)
		for i := 0; i < len(d); i++ {
			out = append(out, a[d[i]-'0'])
		}
		out = append(out, a[10])
	}
	return out[:n]
}

// project keeps the bytes of b that belong to the alphabet.
func project(b []byte, alpha []byte) []byte {
	var in [256]bool
	for _, c := range alpha {
		in[c] = true
	}
	out := make([]byte, 0, len(b))
	for _, c := range b {
		if in[c] {
			out = append(out, c)
		}
	}
	return out
}

// containsInOrder: want is a subsequence of have; returns the first offset of want that is missing.
func containsInOrder(have, want []byte) (bool, int) {
	j := 0
	for i := 0; i < len(have) && j < len(want); i++ {
		if have[i] == want[j] {
			j++
		}
	}
	return j == len(want), j
}

// ---- one member -------------------------------------------------------------

type outcome struct {
	m        member
	attempts int
	viol     []vlib.Violation
	checkErr string
	sample   map[string]any
	earlier  bool // the stdout file also held the earlier attempts' bytes
	rounds   int  // executions of the member (concurrent members are repeated)
	noExec   bool // the relaunch (retry) could not execve: the environment string of the captured output is too long
	stateOff bool // the node's final status is not what the last attempt's exit code says (counted, not a verdict)
}

// emitScript: the child. Executions skip+1 .. skip+failFirst end with exit 1, all others with exit 0.
func emitScript(dir string, skip, failFirst int, concurrent bool) string {
	if concurrent {
		// two writers side by side (p<attempt>.sh), one write(2) of one short line each time round the loop
		var sb strings.Builder
		fmt.Fprintf(&sb, "d=%s\n", dir)
		sb.WriteString("n=0; if [ -f $d/cnt ]; then read n < $d/cnt; fi\n") // builtins only: the first line goes out at once
		sb.WriteString("n=$((n+1))\n")
		sb.WriteString("echo $n > $d/cnt\n")
		sb.WriteString("echo $$ > $d/pid\n")
		sb.WriteString(". $d/p$n.sh\n")
		sb.WriteString("wait\n")
		fmt.Fprintf(&sb, "if [ $n -gt %d ] && [ $n -le %d ]; then exit 1; fi\n", skip, skip+failFirst)
		sb.WriteString("exit 0\n")
		return sb.String()
	}
	var sb strings.Builder
	fmt.Fprintf(&sb, "d=%s\n", dir)
	sb.WriteString("echo $$ > $d/pid\n")
	sb.WriteString("n=$(cat $d/cnt 2>/dev/null || echo 0)\n")
	sb.WriteString("n=$((n+1))\n")
	sb.WriteString("echo $n > $d/cnt\n")
	fmt.Fprintf(&sb, "for i in 0 1 2 3; do\n")
	sb.WriteString("  if [ -f $d/p$n.o.$i ]; then cat $d/p$n.o.$i; fi\n")
	sb.WriteString("  if [ -f $d/p$n.e.$i ]; then cat $d/p$n.e.$i >&2; fi\n")
	sb.WriteString("done\n")
	fmt.Fprintf(&sb, "if [ $n -gt %d ] && [ $n -le %d ]; then exit 1; fi\n", skip, skip+failFirst)
	sb.WriteString("exit 0\n")
	return sb.String()
}

// concWidth: digits per line of the concurrent writers; lines = f * 10^(width-1), f <= 10.
func concWidth(lines int) int {
	w := 1
	for p := 10; p < lines; p *= 10 {
		w++
	}
	return w
}

// concPattern: what one concurrent writer prints, without the newlines: for
// every line number its decimal digits (fixed width) over the private alphabet
// of (attempt, stream), followed by the alphabet's separator.
func concPattern(attempt, stream, lines int) []byte {
	a := alphabet(attempt, stream)
	w := concWidth(lines)
	out := make([]byte, 0, (lines+concPrologue)*(w+1))
	for i := 0; i < concPrologue; i++ {
		out = append(out, concPrologueLine(a, w)...)
	}
	for i := 0; i < lines; i++ {
		d := fmt.Sprintf("%0*d", w, i)
		for k := 0; k < len(d); k++ {
			out = append(out, a[d[k]-'0'])
		}
		out = append(out, a[10])
	}
	return out
}

// The writers start with concPrologue slow lines: stdout prints one at once and
// one 0.2 s later, stderr stays silent for 0.3 s and prints its prologue then;
// after that both run flat out.  (A reader that parked on the silent stream
// while the other stream's first line sat in a shared buffer is the situation
// in which unsynchronised sharing loses bytes.)
const concPrologue = 2

func concPrologueLine(a []byte, w int) []byte {
	l := bytes.Repeat([]byte{a[9]}, w)
	return append(l, a[10])
}

func shQuoteStr(b []byte) string {
	var sb strings.Builder
	for _, c := range b {
		sb.WriteString(shQuote(c))
	}
	return sb.String()
}

func shQuote(c byte) string {
	if c == '\'' {
		return `"'"`
	}
	return "'" + string(c) + "'"
}

// concLoops: nested `for` loops over the alphabet's digits that echo the lines
// of concPattern, one echo (one write) per line — no arithmetic, no reads.
func concLoops(attempt, stream, lines int) string {
	a := alphabet(attempt, stream)
	w := concWidth(lines)
	pow := 1
	for i := 1; i < w; i++ {
		pow *= 10
	}
	f := lines / pow
	if f*pow != lines || f > 10 {
		panic(fmt.Sprintf("concurrent line count %d is not f*10^k", lines))
	}
	list := func(n int) string {
		var q []string
		for i := 0; i < n; i++ {
			q = append(q, shQuote(a[i]))
		}
		return strings.Join(q, " ")
	}
	var sb strings.Builder
	fmt.Fprintf(&sb, "s=%s\n", shQuote(a[10]))
	vars := ""
	for k := 0; k < w; k++ {
		n := 10
		if k == 0 {
			n = f
		}
		fmt.Fprintf(&sb, "for d%d in %s; do ", k, list(n))
		vars += fmt.Sprintf("$d%d", k)
	}
	fmt.Fprintf(&sb, "printf '%%s\\n' \"%s$s\"; ", vars) // printf, not echo: the alphabets contain a backslash
	for k := 0; k < w; k++ {
		sb.WriteString("done; ")
	}
	return sb.String()
}

// writeConc: p<attempt>.sh starts the two writers side by side and waits for both.
func writeConc(dir string, attempt, lines int) error {
	w := concWidth(lines)
	po := shQuoteStr(concPrologueLine(alphabet(attempt, 0), w))
	pe := shQuoteStr(concPrologueLine(alphabet(attempt, 1), w))
	sh := fmt.Sprintf("( printf '%%s\\n' %s; sleep 0.2; printf '%%s\\n' %s; sleep 0.2; %s ) &\n( sleep 0.3; printf '%%s\\n' %s; printf '%%s\\n' %s; %s ) >&2 &\nwait\n",
		po, po, concLoops(attempt, 0, lines), pe, pe, concLoops(attempt, 1, lines))
	return os.WriteFile(filepath.Join(dir, fmt.Sprintf("p%d.sh", attempt)), []byte(sh), 0o644)
}

func writeChunks(dir string, attempt, stream int, tag string, n int) error {
	p := pattern(attempt, stream, n)
	for i := 0; i < nChunks; i++ {
		c := p[i*n/nChunks : (i+1)*n/nChunks]
		if len(c) == 0 {
			continue
		}
		if err := os.WriteFile(filepath.Join(dir, fmt.Sprintf("p%d.%s.%d", attempt, tag, i)), c, 0o644); err != nil {
			return err
		}
	}
	return nil
}

func runMember(m member, dir string, idx int) (oc outcome) {
	oc.m = m
	defer func() {
		if r := recover(); r != nil {
			oc.viol = append(oc.viol, vlib.Violation{Signature: "C12/panic/" + m.class(),
				Detail: fmt.Sprintf("%s: panic %v", m, r), Replay: m})
		}
	}()
	if err := os.MkdirAll(filepath.Join(dir, "logs"), 0o755); err != nil {
		oc.checkErr = err.Error()
		return
	}
	defer os.RemoveAll(dir)
	for a := 1; a <= m.execs(); a++ {
		if m.Stream == streamConc {
			if err := writeConc(dir, a, m.Size); err != nil {
				oc.checkErr = err.Error()
				return
			}
			continue
		}
		if err := writeChunks(dir, a, 0, "o", m.outBytes()); err != nil {
			oc.checkErr = err.Error()
			return
		}
		if err := writeChunks(dir, a, 1, "e", m.errBytes()); err != nil {
			oc.checkErr = err.Error()
			return
		}
	}
	failFirst := m.Retries
	if m.FinalFail {
		failFirst = m.Retries + 1
	}
	script := emitScript(dir, m.skip(), failFirst, m.Stream == streamConc)
	// the step, as internal/dag/builder.go leaves it for `command: sh <file>` resp. `command: sh` + `script:`
	step := dag.Step{Name: "emit", Dir: dir, Variables: []string{}, Depends: nil,
		ExecutorConfig: dag.ExecutorConfig{Config: map[string]any{}}, Preconditions: []dag.Condition{}}
	if m.Script {
		step.Script = script
		step.CmdWithArgs, step.Command, step.Args = "sh", "sh", []string{}
	} else {
		f := filepath.Join(dir, "emit.sh")
		if err := os.WriteFile(f, []byte(script), 0o755); err != nil {
			oc.checkErr = err.Error()
			return
		}
		step.CmdWithArgs, step.Command, step.Args = "sh "+f, "sh", []string{f}
	}
	if m.StdoutFile {
		step.Stdout = filepath.Join(dir, "out.txt")
	}
	if m.StderrFile {
		step.Stderr = filepath.Join(dir, "err.txt")
		if m.SameFile {
			step.Stderr = step.Stdout
		}
	}
	if m.Output {
		step.Output = "C12_OUT"
	}
	// redirect files that exist before the run, with known content over alphabets of their own
	var preOut, preErr []byte
	if m.Pre != 0 {
		if m.StdoutFile {
			preOut = pattern(4, 0, m.preLen())
			if err := os.WriteFile(step.Stdout, preOut, 0o644); err != nil {
				oc.checkErr = err.Error()
				return
			}
		}
		if m.StderrFile {
			if m.SameFile {
				preErr = preOut
			} else {
				preErr = pattern(4, 1, m.preLen())
				if err := os.WriteFile(step.Stderr, preErr, 0o644); err != nil {
					oc.checkErr = err.Error()
					return
				}
			}
		}
	}
	steps := []dag.Step{step}
	if m.TwoSteps {
		// the same settings again in a second step that waits for the first; the retry policy is the second step's
		step2 := step
		step2.Name, step2.Depends = "emit2", []string{"emit"}
		steps = append(steps, step2)
	}
	if m.Retries > 0 {
		steps[len(steps)-1].RetryPolicy = &dag.RetryPolicy{Limit: m.Retries, Interval: 0}
	}

	g, err := scheduler.NewExecutionGraph(venv.Quiet, steps...)
	if err != nil {
		oc.checkErr = "NewExecutionGraph: " + err.Error()
		return
	}
	reqID := fmt.Sprintf("c12m%05d", idx)
	sc := scheduler.New(&scheduler.Config{LogDir: filepath.Join(dir, "logs"), Logger: venv.Quiet, ReqID: reqID})
	d := &dag.DAG{Name: fmt.Sprintf("c12-%d", idx), Location: filepath.Join(dir, "dag.yaml"), Steps: steps}
	ctx, cancel := context.WithCancel(context.Background())
	defer cancel()
	ctx = dag.NewContext(ctx, d, nil, reqID, "")
	// like the agent: a done channel that is drained
	done := make(chan *scheduler.Node)
	stopDrain := make(chan struct{})
	go func() {
		for {
			select {
			case <-done:
			case <-stopDrain:
				return
			}
		}
	}()
	defer close(stopDrain)
	errc := make(chan error, 1)
	go func() {
		defer func() {
			if r := recover(); r != nil {
				errc <- fmt.Errorf("panic: %v", r)
			}
		}()
		errc <- sc.Schedule(ctx, g, done)
	}()
	var schedErr error
	select {
	case schedErr = <-errc:
	case <-time.After(watchdog):
		killChild(dir)
		sc.Cancel(g)
		cancel()
		oc.viol = append(oc.viol, vlib.Violation{Signature: "C12/hang/" + m.class(),
			Detail: fmt.Sprintf("%s: Schedule did not return within %s", m, watchdog), Replay: m})
		select {
		case <-errc:
		case <-time.After(5 * time.Second):
		}
		killChild(dir)
		return
	}
	if schedErr != nil && strings.HasPrefix(schedErr.Error(), "panic: ") {
		oc.viol = append(oc.viol, vlib.Violation{Signature: "C12/panic/" + m.class(),
			Detail: fmt.Sprintf("%s: %v", m, schedErr), Replay: m})
		return
	}

	cnt, _ := os.ReadFile(filepath.Join(dir, "cnt"))
	oc.attempts, _ = strconv.Atoi(strings.TrimSpace(string(cnt)))
	if oc.attempts < 1 || oc.attempts > 3 {
		oc.checkErr = fmt.Sprintf("%s: the child ran %d times (Schedule returned %v)", m, oc.attempts, schedErr)
		return
	}
	last := oc.attempts
	node := g.Nodes()[len(g.Nodes())-1] // the step that carries the retry policy
	st := node.State()
	// Only for captured volumes above one pipe capacity, with a retry: the first
	// attempt's captured text sits in this process's environment (os.Setenv in
	// Node.Execute); from 128 KiB on the relaunch cannot execve (E2BIG), so the
	// last attempt never ran and printed nothing — nothing to look for.
	if m.bigCapture() && m.Retries > 0 && oc.attempts < m.execs() && st.Error != nil &&
		strings.Contains(st.Error.Error(), syscall.E2BIG.Error()) {
		oc.noExec = true
		oc.sample = map[string]any{"member": m.String(), "attempts": oc.attempts, "node_status": st.Status.String(),
			"node_error": st.Error.Error(), "last_attempt_started": false}
		return
	}
	// informational (counted, no verdict): the final status against the exit code of the last attempt that ran
	wantStatus := scheduler.NodeStatusSuccess
	if last > m.skip() && last <= m.skip()+failFirst {
		wantStatus = scheduler.NodeStatusError
	}
	oc.stateOff = st.Status != wantStatus

	read := func(p string) ([]byte, string) {
		if p == "" {
			return nil, "no path"
		}
		b, err := os.ReadFile(p)
		if err != nil {
			return nil, "cannot read: " + err.Error()
		}
		return b, ""
	}
	// sigOf: "<what>" is log-missing-bytes, stdout-file-missing-bytes, ...; the stderr file's class has no wiring segment
	sigOf := func(file, what string) string {
		if file == "stderr-file" {
			sig := fmt.Sprintf("C12/%s-%s/%s", file, what, m.retriesClass())
			if m.FinalFail {
				sig += "/final-failed"
			}
			return sig + m.suffix()
		}
		return fmt.Sprintf("C12/%s-%s/%s", file, what, m.class())
	}
	// check: the file holds, in order, what execution a of the child wrote to the stream
	check := func(file, path string, stream, n, a int, nst scheduler.NodeState) bool {
		if n == 0 {
			return true
		}
		want := m.want(a, stream, n)
		b, why := read(path)
		got := project(b, alphabet(a, stream))
		ok, at := containsInOrder(got, want)
		if ok {
			return true
		}
		if why == "" {
			why = fmt.Sprintf("file has %d bytes, %d of them from attempt %d's %s", len(b), len(got), a, streamName[stream])
		}
		which := "the last"
		if a != last {
			which = "the first step's only one"
		}
		oc.viol = append(oc.viol, vlib.Violation{Signature: sigOf(file, "missing-bytes"),
			Detail: fmt.Sprintf("%s: attempt %d (%s; node status %q, error %q, retryCount %d) wrote %d bytes to %s; the %s %s lacks them from offset %d on (%s)",
				m, a, which, nst.Status, fmt.Sprint(nst.Error), nst.RetryCount, n, streamName[stream], file, filepath.Base(path), at, why),
			Replay: m})
		return false
	}
	// checkAll (redirect files): the file holds what EVERY execution of the child
	// (every attempt; both steps of a two-step member) wrote to the stream, one
	// execution after the other — the files are opened for appending.  Looked at
	// only when the last execution's bytes are there (else that is the finding).
	checkAll := func(file, path string, stream, n int) {
		if n == 0 || last < 2 {
			return
		}
		var want, alpha []byte
		for a := 1; a <= last; a++ {
			want = append(want, m.want(a, stream, n)...)
			alpha = append(alpha, alphabet(a, stream)...)
		}
		b, why := read(path)
		got := project(b, alpha)
		ok, at := containsInOrder(got, want)
		if file == "stdout-file" {
			oc.earlier = ok
		}
		if ok {
			return
		}
		if why == "" {
			why = fmt.Sprintf("file has %d bytes, %d of them from the %d executions' %s", len(b), len(got), last, streamName[stream])
		}
		oc.viol = append(oc.viol, vlib.Violation{Signature: sigOf(file, "missing-earlier-bytes"),
			Detail: fmt.Sprintf("%s: the child ran %d times (node status %q, error %q, retryCount %d) and wrote %d bytes to %s each time, over a different alphabet each time; the %s %s holds the last execution's bytes but lacks those of execution %d from offset %d on (%s)",
				m, last, st.Status, fmt.Sprint(st.Error), st.RetryCount, n, streamName[stream], file, filepath.Base(path), at/n+1, at%n, why),
			Replay: m})
	}
	// checkPre: what the redirect file held before the run is still there, in front of what the run appended
	checkPre := func(file, path string, pre []byte) {
		if len(pre) == 0 {
			return
		}
		b, why := read(path)
		if bytes.HasPrefix(b, pre) {
			return
		}
		k := 0
		for k < len(b) && k < len(pre) && b[k] == pre[k] {
			k++
		}
		if why == "" {
			why = fmt.Sprintf("file has %d bytes now, the first difference is at offset %d", len(b), k)
		}
		oc.viol = append(oc.viol, vlib.Violation{Signature: sigOf(file, "earlier-content-lost"),
			Detail: fmt.Sprintf("%s: the %s %s held %d bytes before the run (output of an earlier run); after the run it does not begin with them (%s)",
				m, file, filepath.Base(path), len(pre), why),
			Replay: m})
	}
	if m.TwoSteps {
		// the first step ran once (execution 1) and is finished: its log holds what it printed
		st1 := g.Nodes()[0].State()
		check("log", st1.Log, streamOut, m.outBytes(), 1, st1)
		if !m.StderrFile {
			check("log", st1.Log, streamErr, m.errBytes(), 1, st1)
		}
	}
	if !m.TwoSteps || last > 1 {
		check("log", st.Log, streamOut, m.outBytes(), last, st)
		if !m.StderrFile {
			check("log", st.Log, streamErr, m.errBytes(), last, st)
		}
	}
	if m.StderrFile {
		if check("stderr-file", step.Stderr, streamErr, m.errBytes(), last, st) {
			checkAll("stderr-file", step.Stderr, streamErr, m.errBytes())
		}
		checkPre("stderr-file", step.Stderr, preErr)
	}
	if m.StdoutFile {
		if check("stdout-file", step.Stdout, streamOut, m.outBytes(), last, st) {
			checkAll("stdout-file", step.Stdout, streamOut, m.outBytes())
		}
		if !(m.SameFile && m.StderrFile) {
			checkPre("stdout-file", step.Stdout, preOut)
		}
	}
	lb, _ := read(st.Log)
	oc.sample = map[string]any{"member": m.String(), "attempts": oc.attempts, "node_status": st.Status.String(),
		"log": filepath.Base(st.Log), "log_bytes": len(lb), "violations": len(oc.viol)}
	if st.Error != nil {
		oc.sample["node_error"] = st.Error.Error()
	}
	return
}

// killChild kills the process group of the member's child (the script records its pid).
func killChild(dir string) {
	b, err := os.ReadFile(filepath.Join(dir, "pid"))
	if err != nil {
		return
	}
	pid, err := strconv.Atoi(strings.TrimSpace(string(b)))
	if err != nil || pid <= 1 {
		return
	}
	_ = syscall.Kill(-pid, syscall.SIGKILL)
	_ = syscall.Kill(pid, syscall.SIGKILL)
}

// ---- enumeration ------------------------------------------------------------

func sizes(thorough bool) []int {
	if !thorough {
		// bufio (4096) and pipe (64 KiB) boundaries; 128 KiB, 200 KiB and 1 MiB: well above one pipe capacity
		return []int{0, 1, 4095, 4096, 4097, 65536, 65537, 131072, 200 << 10, 1 << 20}
	}
	// bufio (4096), io.Copy (32 KiB), pipe (64 KiB), 96 KiB (64 + 32), 128 KiB (two pipe capacities; MAX_ARG_STRLEN),
	// 160 KiB (64 + 64 + 32), 200 KiB, 256 KiB and 1 MiB boundaries
	return []int{0, 1, 2, 4095, 4096, 4097, 8191, 8192, 8193, 32767, 32768, 32769, 65535, 65536, 65537,
		98304, 131071, 131072, 131073, 163840, 163841, 200 << 10, 262144, 1<<20 - 1, 1 << 20, 1<<20 + 1}
}

func enumerate(thorough bool) (all []member) {
	b := []bool{false, true}
	for _, so := range b {
		for _, se := range b {
			for _, ov := range b {
				for _, scr := range b {
					for r := 0; r <= 2; r++ {
						for _, ff := range b {
							for s := 0; s <= 2; s++ {
								for _, n := range sizes(thorough) {
									m := member{StdoutFile: so, StderrFile: se, Output: ov, Script: scr, Retries: r, FinalFail: ff, Stream: s, Size: n}
									all = append(all, m)
								}
							}
						}
					}
				}
			}
		}
	}
	// both streams at the same time: the whole configuration product again
	// (quick: command only, retries 0/1, last attempt succeeds)
	for _, so := range b {
		for _, se := range b {
			for _, ov := range b {
				for _, scr := range b {
					for r := 0; r <= 2; r++ {
						for _, ff := range b {
							if !thorough && (scr || r == 2 || ff) {
								continue
							}
							for _, n := range concLines(thorough, ov) {
								m := member{StdoutFile: so, StderrFile: se, Output: ov, Script: scr, Retries: r, FinalFail: ff, Stream: streamConc, Size: n}
								all = append(all, m)
							}
						}
					}
				}
			}
		}
	}
	all = append(all, redirectFamilies(thorough)...)
	return
}

// redirectFamilies: members about the life of the `stdout:` / `stderr:` files
// beyond one execution into a fresh file.
//
//	E  the redirect files exist before the run (37 bytes / more bytes than the run prints)
//	F  `stdout:` and `stderr:` name the same file (fresh / pre-existing)
//	G  two steps, the second depending on the first, with the same redirect files (fresh / pre-existing)
//
// quick: command, retries {0,1}, last attempt succeeds; thorough: x {script | command} x retries {0,1,2} (G: {0,1}) x final state.
func redirectFamilies(thorough bool) (all []member) {
	b := []bool{false, true}
	szs := []int{1, 4097, 32769}
	if thorough {
		szs = []int{1, 4096, 4097, 32769, 65537}
	}
	for _, fam := range []string{"E", "F", "G"} {
		for _, so := range b {
			for _, se := range b {
				switch fam {
				case "E":
					if !so && !se {
						continue
					}
				case "F":
					if !so || !se {
						continue
					}
				case "G":
					if !so {
						continue
					}
				}
				for _, ov := range b {
					for _, scr := range b {
						for r := 0; r <= 2; r++ {
							for _, ff := range b {
								if !thorough && (scr || r == 2 || ff) {
									continue
								}
								if fam == "G" && r == 2 {
									continue // three executions at most: alphabets exist for three
								}
								for s := 0; s <= 2; s++ {
									for _, n := range szs {
										for pre := 0; pre <= 2; pre++ {
											if fam == "E" && pre == 0 {
												continue // the main product
											}
											if fam == "G" && pre == 2 && !thorough {
												continue
											}
											all = append(all, member{StdoutFile: so, StderrFile: se, Output: ov, Script: scr, Retries: r, FinalFail: ff,
												Stream: s, Size: n, Pre: pre, SameFile: fam == "F", TwoSteps: fam == "G"})
										}
									}
								}
							}
						}
					}
				}
			}
		}
	}
	return
}

// concLines: lines per stream of the concurrent writers. With `output:` the
// captured volume is below one pipe capacity with 4000 lines (both streams, 6
// bytes a line: 48 KiB) and well above it with 20000 (7 bytes a line: 137 KiB
// with a `stderr:` file, 273 KiB without).
func concLines(thorough, output bool) []int {
	switch {
	case output && thorough:
		return []int{4000, 20000, 30000}
	case output:
		return []int{4000, 20000}
	case thorough:
		return []int{2000, 20000, 30000}
	}
	return []int{20000}
}

func rounds(thorough bool) int {
	if thorough {
		return 5
	}
	return 3
}

var spinSink int

// childOut is what an isolated execution of one member reports back.
type childOut struct {
	Attempts int              `json:"attempts"`
	Viol     []vlib.Violation `json:"viol"`
	CheckErr string           `json:"check_err"`
	Sample   map[string]any   `json:"sample"`
	NoExec   bool             `json:"no_exec"`
	StateOff bool             `json:"state_off"`
	Earlier  bool             `json:"earlier"`
}

// runIsolated executes a member R times, each time in a process of its own.
// Concurrent members (vary: alternating runtime settings): the data race the
// mode is after lives in goroutines of os/exec, a panic there (bufio index out
// of range) cannot be recovered in this process.  Members with a captured
// `output:` volume above one pipe capacity (R = 1, default runtime settings):
// the captured text ends up in the environment of the process that ran the step.
func runIsolated(m member, dir string, idx, R int, vary bool) (oc outcome) {
	oc.m = m
	for r := 0; r < R; r++ {
		oc.rounds++
		wdir := fmt.Sprintf("%s-r%d", dir, r)
		mf, of := wdir+".member.json", wdir+".out.json"
		b, _ := json.Marshal(map[string]any{"replay": m})
		if err := os.WriteFile(mf, b, 0o644); err != nil {
			oc.checkErr = err.Error()
			return
		}
		cmd := exec.Command(os.Args[0], "-replay", mf, "-work", wdir, "-out", os.DevNull)
		cmd.Env = append(os.Environ(), "VERIF_C12_CHILD="+of, fmt.Sprintf("VERIF_C12_IDX=%d", idx))
		// rounds alternate between runtime settings of the process that runs the step:
		// 1 processor + one busy goroutine, 2 processors + two busy goroutines, all processors idle
		switch {
		case !vary:
		case r%3 == 0:
			cmd.Env = append(cmd.Env, "GOMAXPROCS=1", "VERIF_C12_SPIN=1")
		case r%3 == 1:
			cmd.Env = append(cmd.Env, "GOMAXPROCS=2", "VERIF_C12_SPIN=2")
		}
		cmd.SysProcAttr = &syscall.SysProcAttr{Setpgid: true}
		var buf bytes.Buffer
		cmd.Stdout, cmd.Stderr = &buf, &buf
		err := cmd.Start()
		if err != nil {
			oc.checkErr = err.Error()
			return
		}
		done := make(chan error, 1)
		go func() { done <- cmd.Wait() }()
		hung := false
		select {
		case err = <-done:
		case <-time.After(watchdog + 30*time.Second):
			hung = true
			_ = syscall.Kill(-cmd.Process.Pid, syscall.SIGKILL)
			<-done
		}
		var co childOut
		ob, rerr := os.ReadFile(of)
		if rerr == nil {
			rerr = json.Unmarshal(ob, &co)
		}
		killChild(wdir)
		_ = os.RemoveAll(wdir)
		_ = os.Remove(mf)
		_ = os.Remove(of)
		switch {
		case hung:
			oc.viol = append(oc.viol, vlib.Violation{Signature: "C12/hang/" + m.class(),
				Detail: fmt.Sprintf("%s: round %d: the isolated execution did not end", m, r), Replay: m})
			return
		case err != nil || rerr != nil:
			out := buf.String()
			if len(out) > 1200 {
				out = out[:1200]
			}
			oc.viol = append(oc.viol, vlib.Violation{Signature: "C12/crash/" + m.class(),
				Detail: fmt.Sprintf("%s: round %d: the process running the step died (%v): %s", m, r, err, out), Replay: m})
			return
		}
		oc.attempts, oc.sample = co.Attempts, co.Sample
		oc.noExec, oc.stateOff, oc.earlier = co.NoExec, co.StateOff, co.Earlier
		if co.CheckErr != "" {
			oc.checkErr = co.CheckErr
			return
		}
		if len(co.Viol) > 0 {
			for _, v := range co.Viol {
				v.Detail = fmt.Sprintf("round %d of %d: %s", r+1, R, v.Detail)
				v.Replay = m
				oc.viol = append(oc.viol, v)
			}
			return
		}
	}
	return
}

func main() {
	fl := vlib.ParseFlags()
	res := vlib.New("c12")
	_ = os.MkdirAll(fl.Work, 0o755)

	var mine []member
	var idxs []int
	if fl.Replay != "" {
		var rp struct {
			Replay member `json:"replay"`
		}
		b, err := os.ReadFile(fl.Replay)
		if err == nil {
			err = json.Unmarshal(b, &rp)
		}
		if err != nil {
			fmt.Fprintln(os.Stderr, "replay:", err)
			os.Exit(2)
		}
		mine, idxs = []member{rp.Replay}, []int{0}
		if of := os.Getenv("VERIF_C12_CHILD"); of != "" {
			// isolated single execution on behalf of runIsolated
			idx, _ := strconv.Atoi(os.Getenv("VERIF_C12_IDX"))
			if n, _ := strconv.Atoi(os.Getenv("VERIF_C12_SPIN")); n > 0 {
				for i := 0; i < n; i++ {
					go func() {
						for x := 0; ; x++ {
							spinSink = x
						}
					}()
				}
			}
			oc := runMember(rp.Replay, fl.Work, idx)
			b, _ := json.Marshal(childOut{Attempts: oc.attempts, Viol: oc.viol, CheckErr: oc.checkErr, Sample: oc.sample,
				NoExec: oc.noExec, StateOff: oc.stateOff, Earlier: oc.earlier})
			if err := os.WriteFile(of, b, 0o644); err != nil {
				fmt.Fprintln(os.Stderr, err)
				os.Exit(2)
			}
			os.Unsetenv("C12_OUT")
			os.RemoveAll(fl.Work)
			return
		}
	} else {
		all := enumerate(fl.Thorough())
		for i, m := range all {
			if fl.Mine(i) {
				mine = append(mine, m)
				idxs = append(idxs, i)
			}
		}
		res.Bounds["sizes"] = sizes(fl.Thorough())
		res.Bounds["retries_le"] = 2
		res.Bounds["concurrent_lines_per_stream"] = map[string]any{"without_output": concLines(fl.Thorough(), false), "with_output": concLines(fl.Thorough(), true)}
		res.Bounds["concurrent_rounds_per_member"] = rounds(fl.Thorough())
		res.Bounds["family_members"] = len(all)
		big := 0
		for _, m := range all {
			if m.bigCapture() {
				big++
			}
		}
		res.Bounds["members_with_output_capture_gt_64KiB"] = big
		res.Bounds["redirect_file_family_members(preexisting|same-file|two-steps)"] = len(redirectFamilies(fl.Thorough()))
	}

	workers := 4
	if v, err := strconv.Atoi(os.Getenv("VERIF_C12_WORKERS")); err == nil && v > 0 {
		workers = v
	}
	outs := make([]outcome, len(mine))
	var wg sync.WaitGroup
	next := make(chan int)
	for w := 0; w < workers; w++ {
		wg.Add(1)
		go func() {
			defer wg.Done()
			for k := range next {
				dir := filepath.Join(fl.Work, fmt.Sprintf("m%05d", idxs[k]))
				if mine[k].Stream == streamConc {
					R := rounds(fl.Thorough())
					if fl.Replay != "" {
						R = 5
					}
					outs[k] = runIsolated(mine[k], dir, idxs[k], R, true)
				} else if mine[k].bigCapture() {
					outs[k] = runIsolated(mine[k], dir, idxs[k], 1, false)
				} else {
					outs[k] = runMember(mine[k], dir, idxs[k])
					outs[k].rounds = 1
				}
			}
		}()
	}
	for k := range mine {
		next <- k
	}
	close(next)
	wg.Wait()

	// results in member order (deterministic)
	for k, oc := range outs {
		if oc.checkErr != "" {
			res.CheckError("%s", oc.checkErr)
			continue
		}
		res.Evaluations += int64(oc.rounds)
		if oc.m.Stream == streamConc {
			res.Count("concurrent_members", 1)
			res.Count("concurrent_executions", int64(oc.rounds))
		}
		if !oc.m.trivial() {
			res.Nontrivial(vlib.Hash(oc.m.String()))
		}
		if oc.attempts != 0 && oc.attempts != oc.m.execs() {
			res.Count("attempts_differ_from_plan", 1)
		}
		if oc.m.bigCapture() {
			res.Count("members_with_output_capture_gt_64KiB", 1)
		}
		if oc.noExec {
			res.Count("relaunch_could_not_exec_E2BIG(captured_output_in_environment)", 1)
		}
		if oc.stateOff {
			res.Count("final_status_differs_from_last_exit_code", 1)
		}
		if os.Getenv("VERIF_C12_DEBUG") != "" && (oc.stateOff || oc.noExec || (oc.attempts != 0 && oc.attempts != oc.m.Retries+1)) {
			fmt.Fprintf(os.Stderr, "debug: %s: attempts=%d noExec=%v stateOff=%v sample=%v\n", oc.m, oc.attempts, oc.noExec, oc.stateOff, oc.sample)
		}
		if oc.attempts > 1 {
			res.Count("members_with_a_relaunched_attempt", 1)
			if oc.m.StdoutFile && oc.m.outBytes() > 0 {
				if oc.earlier {
					res.Count("stdout_file_also_holds_first_attempt", 1)
				} else {
					res.Count("stdout_file_lacks_first_attempt", 1)
				}
			}
		}
		res.Count("class:"+oc.m.class(), 1)
		for _, v := range oc.viol {
			res.Violate(v.Signature, v.Detail, v.Replay)
		}
		if oc.sample != nil && (k%97 == 3 || (len(oc.viol) > 0 && k%11 == 0)) {
			res.Sample(oc.sample)
		}
		if fl.Replay != "" {
			fmt.Fprintf(os.Stderr, "replayed %s: %d violation(s)\n", oc.m, len(oc.viol))
			for _, v := range oc.viol {
				fmt.Fprintf(os.Stderr, "  %s: %s\n", v.Signature, v.Detail)
			}
		}
	}
	if len(res.Samples) == 0 {
		for _, oc := range outs {
			if oc.sample != nil {
				res.Sample(oc.sample)
			}
		}
	}
	res.Rule = "every member of the product is built as a dag.Step and run by the real scheduler.Schedule with a real sh child; distinct = distinct configuration; non-trivial = anything but {no redirect, no output variable, command, no retry}"
	res.Assume("the step's child writes with cat(1) from prepared pattern files in 4 chunks per stream, alternating stdout/stderr chunks when both streams are used; in the both-concurrent mode two background sh loops print one 6-7-byte line per write(2), one loop per stream, at the same time")
	res.Assume(fmt.Sprintf("OS-level interleaving inside os/exec (its copy goroutines) is not controlled; every both-concurrent member is repeated %d times, each time in a process of its own, and fails on the first lossy repetition", rounds(fl.Thorough())))
	res.Assume("a member whose captured `output:` volume exceeds one pipe capacity (64 KiB) is executed once in a process of its own (Node.Execute exports the captured text into the environment of the process that runs the step); with a retry and 128 KiB or more captured, the relaunch cannot execve (E2BIG): the last attempt then printed nothing and nothing is looked for (counted)")
	res.Assume("Schedule is given a drained done channel, as the agent does")
	res.Write(fl.Out)
	os.Unsetenv("C12_OUT")
	os.RemoveAll(fl.Work)
}
