// Package vctx replaces "context" in instrumented files: deadlines run on the
// virtual clock while an execution is in progress.
package vctx

import (
	"context"
	"time"

	"github.com/ErdemOzgen/blackdagger/internal/zzverif/vrt"
)

func WithTimeout(parent Context, d time.Duration) (Context, CancelFunc) {
	if !vrt.Active() {
		return context.WithTimeout(parent, d)
	}
	ctx, cancel := context.WithCancelCause(parent)
	stop := vrt.AddTimer(d, "context deadline "+d.String(), func() { cancel(context.DeadlineExceeded) })
	return ctx, func() { stop(); cancel(context.Canceled) }
}

func WithDeadline(parent Context, at time.Time) (Context, CancelFunc) {
	if !vrt.Active() {
		return context.WithDeadline(parent, at)
	}
	return WithTimeout(parent, at.Sub(vrt.Now()))
}

func WithTimeoutCause(parent Context, d time.Duration, cause error) (Context, CancelFunc) {
	return WithTimeout(parent, d)
}

func WithDeadlineCause(parent Context, at time.Time, cause error) (Context, CancelFunc) {
	return WithDeadline(parent, at)
}
