// c05real — the stop / timeout clauses of C05 with REAL child processes
// through the real commandExecutor (the schedule exploration of go/e1 models
// child processes with the scripted executor; this harness binds that model to
// the implementation for the part that lives in internal/dag/executor):
// {DAG timeout, stop request} x {step dies on SIGTERM, step ignores SIGTERM} x
// {command, script} x {signalOnStop unset, SIGINT}. Real time, generous
// watchdogs: a run that is still going 12 s after it should have ended is a
// violation (expected latency: the scheduler's 100 ms pause).
package main

import (
	"context"
	"fmt"
	"os"
	"path/filepath"
	"strconv"
	"strings"
	"syscall"
	"time"

	"github.com/ErdemOzgen/blackdagger/internal/agent"
	"github.com/ErdemOzgen/blackdagger/internal/dag"
	"github.com/ErdemOzgen/blackdagger/internal/dag/scheduler"
	"github.com/ErdemOzgen/blackdagger/internal/zzverif/venv"
	"github.com/ErdemOzgen/blackdagger/internal/zzverif/vlib"
)

type member struct {
	Scenario string `json:"scenario"` // timeout | stop
	Ignore   bool   `json:"ignoresTERM"`
	Script   bool   `json:"script"`
	SigStop  string `json:"signalOnStop,omitempty"`
	Parallel bool   `json:"parallel"` // a second, ordinary step runs next to it
}

func (m member) String() string {
	return fmt.Sprintf("%s ignoresTERM=%v script=%v signalOnStop=%q parallel=%v", m.Scenario, m.Ignore, m.Script, m.SigStop, m.Parallel)
}

func alive(pid int) bool { return pid > 0 && syscall.Kill(pid, 0) == nil }

func readPid(f string) int {
	b, err := os.ReadFile(f)
	if err != nil {
		return 0
	}
	n, _ := strconv.Atoi(strings.TrimSpace(string(b)))
	return n
}

// cleanUp: the DAG's maximum clean-up time in the stop scenario (a step that ignores the stop signal is
// force-killed once it has elapsed; the agent looks at its timers every 3 s)
const cleanUp = 3 * time.Second

func run(m member, work string, res *vlib.Result) {
	_ = os.MkdirAll(work, 0o755)
	pidf := filepath.Join(work, "pid")
	exitf := filepath.Join(work, "onexit")
	body := fmt.Sprintf(`echo $$ > %q; `, pidf)
	if m.Ignore {
		body += `trap "" TERM INT; `
	}
	body += `i=0; while [ $i -lt 600 ]; do sleep 0.1; i=$((i+1)); done`
	st := dag.Step{Name: "s", Dir: work, SignalOnStop: m.SigStop}
	if m.Script {
		st.Command, st.Script = "sh", body
	} else {
		st.Command, st.Args = "sh", []string{"-c", body}
	}
	steps := []dag.Step{st}
	if m.Parallel {
		steps = append(steps, dag.Step{Name: "p", Dir: work, Command: "sh", Args: []string{"-c", "sleep 0.3"}})
	}
	onExit := dag.Step{Name: "onExit", Dir: work, Command: "sh", Args: []string{"-c", fmt.Sprintf("echo ran > %q", exitf)}}
	g, err := scheduler.NewExecutionGraph(venv.Quiet, steps...)
	if err != nil {
		res.CheckError("graph: %v", err)
		return
	}
	cfg := &scheduler.Config{LogDir: filepath.Join(work, "logs"), Logger: venv.Quiet, OnExit: &onExit, ReqID: "req"}
	if m.Scenario == "timeout" {
		cfg.Timeout = time.Second
	}
	sc := scheduler.New(cfg)
	d := &dag.DAG{Name: "c05", Location: filepath.Join(work, "c05.yaml")}
	ctx := dag.NewContext(context.Background(), d, nil, "req", "")
	done := make(chan *scheduler.Node, 64)
	errc := make(chan error, 1)
	t0 := time.Now()
	// the stop scenario goes through a real agent (the escalation to SIGKILL after the DAG's maximum
	// clean-up time lives there), the timeout scenario through the scheduler alone
	var ag *agent.Agent
	if m.Scenario == "stop" {
		env := venv.New(filepath.Join(work, "inst"))
		ad := env.DAG("c05", steps...)
		ad.MaxCleanUpTime = cleanUp
		ad.HandlerOn.Exit = &onExit
		ag = env.Agent("req", ad, &agent.Options{})
		go func() { errc <- ag.Run(context.Background()) }()
	} else {
		go func() { errc <- sc.Schedule(ctx, g, done) }()
	}
	// wait for the process to exist
	for i := 0; i < 300 && readPid(pidf) == 0; i++ {
		time.Sleep(10 * time.Millisecond)
	}
	pid := readPid(pidf)
	if pid == 0 {
		res.CheckError("%s: step process never started", m)
		return
	}
	due := t0.Add(time.Second)
	if m.Scenario == "stop" {
		time.Sleep(200 * time.Millisecond)
		go ag.VerifStop() // what the /stop request does
		due = time.Now().Add(cleanUp)
	}
	rp := map[string]any{"member": m}
	select {
	case <-errc:
	case <-time.After(time.Until(due) + 12*time.Second):
		cls := "steps-exit-on-signal"
		if m.Ignore {
			cls = "step-ignores-SIGTERM"
		}
		res.Violate("C05/"+m.Scenario+"/no-termination(hang)/"+cls+"/real-process", fmt.Sprintf("%s: the run was still going 12 s after it had to end (process %d alive=%v)", m, pid, alive(pid)), rp)
		_ = syscall.Kill(-pid, syscall.SIGKILL) // clean up the process group
		select {
		case <-errc:
		case <-time.After(10 * time.Second):
		}
		return
	}
	took := time.Since(t0)
	// the process must be gone
	for i := 0; i < 200 && alive(pid); i++ {
		time.Sleep(10 * time.Millisecond)
	}
	if alive(pid) {
		res.Violate("C05/"+m.Scenario+"/step-process-survives-the-run/real-process", fmt.Sprintf("%s: run ended after %v but process %d is still alive", m, took, pid), rp)
		_ = syscall.Kill(-pid, syscall.SIGKILL)
	}
	if _, err := os.Stat(exitf); err != nil {
		res.Violate("C05/"+m.Scenario+"/exit-handler-not-executed/real-process", fmt.Sprintf("%s: onExit left no marker", m), rp)
	}
	res.Sample(map[string]any{"member": m.String(), "run_ended_after_ms": took.Milliseconds()})
}

func main() {
	fl := vlib.ParseFlags()
	res := vlib.New("c05real")
	k := 0
	for _, sc := range []string{"timeout", "stop"} {
		for _, ign := range []bool{false, true} {
			for _, script := range []bool{false, true} {
				for _, sig := range []string{"", "SIGINT"} {
					for _, par := range []bool{false, true} {
						if sc == "timeout" && sig != "" {
							continue
						}
						if !fl.Thorough() && par && script {
							continue
						}
						k++
						if !fl.Mine(k) {
							continue
						}
						m := member{Scenario: sc, Ignore: ign, Script: script, SigStop: sig, Parallel: par}
						res.Evaluations++
						res.Nontrivial(vlib.Hash(m.String()))
						run(m, filepath.Join(fl.Work, fmt.Sprintf("m%d", k)), res)
					}
				}
			}
		}
	}
	res.Rule = "full product {DAG timeout 1 s, stop request} x {step dies on SIGTERM, ignores SIGTERM/SIGINT} x {command, script} x {signalOnStop unset, SIGINT} x {alone, next to an ordinary step}, each run by the real scheduler with real sh processes; every member is non-trivial"
	res.Assume("real time; a run still going 12 s after its deadline (timeout scenario), resp. 12 s after the stop plus the DAG's maximum clean-up time of 3 s (stop scenario, through a real agent), is a violation")
	res.Write(fl.Out)
	os.RemoveAll(fl.Work)
}
