// Package vexec is the scripted executor: a model of child processes that is
// registered with the real executor registry (executor.Register("verif", …)).
// Steps select it with ExecutorConfig.Type = "verif"; what each attempt of a
// step does is looked up by step name in the current World.
//
// It records create / start / end / kill events, which is what the oracles
// of the scheduler properties are evaluated on.  Under the cooperative
// runtime (vrt) the hooks below are replaced so that "the process is
// running" is a visible wait point and time stamps are virtual.
package vexec

import (
	"context"
	"fmt"
	"io"
	"os"
	"sync"
	"syscall"
	"time"

	"github.com/ErdemOzgen/blackdagger/internal/dag"
	"github.com/ErdemOzgen/blackdagger/internal/dag/executor"
)

const Type = "verif"

// Script says what the attempts of one step do.
type Script struct {
	Fail       int  `json:"fail,omitempty"`       // the first Fail attempts fail (exit 1); -1 = always fail
	Hang       bool `json:"hang,omitempty"`       // an attempt ends only when signalled (per Ignore*) or its context is cancelled
	IgnoreTerm bool `json:"ignoreTerm,omitempty"` // only SIGKILL (or context cancel, which exec turns into SIGKILL) ends a hanging attempt
	CreateFail int  `json:"createFail,omitempty"` // the first CreateFail attempts fail before a process exists (executor creation fails)
	OutBytes   int  `json:"out,omitempty"`        // bytes written to stdout per attempt (pattern encodes step/attempt)
	ErrBytes   int  `json:"err,omitempty"`
	DurMs      int  `json:"dur,omitempty"` // an attempt takes this long (SleepHook) before it ends by itself
}

type Event struct {
	Kind    string `json:"k"` // create | start | end | kill | nostart
	Step    string `json:"s"`
	Attempt int    `json:"a,omitempty"`
	OK      bool   `json:"ok,omitempty"`
	Sig     int    `json:"sig,omitempty"`
	Why     string `json:"why,omitempty"`
	T       int64  `json:"t,omitempty"` // (virtual) milliseconds since world start
}

func (e Event) String() string {
	switch e.Kind {
	case "end":
		return fmt.Sprintf("end(%s#%d,%v,%s)@%d", e.Step, e.Attempt, e.OK, e.Why, e.T)
	case "kill":
		return fmt.Sprintf("kill(%s,%d)@%d", e.Step, e.Sig, e.T)
	default:
		return fmt.Sprintf("%s(%s#%d)@%d", e.Kind, e.Step, e.Attempt, e.T)
	}
}

// World is the environment of one execution.
type World struct {
	mu       sync.Mutex
	Scripts  map[string]*Script
	Events   []Event
	attempts map[string]int
	creates  map[string]int
	open     map[string]*proc // running attempt per step
	t0       time.Time
	OnEvent  func(Event) // called with mu released
}

type proc struct {
	step    string
	attempt int
	killed  bool // a signal that this script honours was delivered
	sigs    []int
	started bool
}

var (
	cur   *World
	curMu sync.Mutex

	// WaitHook blocks until cond() is true. may==false means the attempt is
	// not allowed to complete by itself (hanging script): only a state change
	// can enable it. The default polls in real time.
	WaitHook = func(step string, cond func() bool) {
		for !cond() {
			time.Sleep(200 * time.Microsecond)
		}
	}
	// NowHook gives event time stamps.
	NowHook = time.Now
	// SleepHook lets an attempt with a duration take (virtual or real) time.
	SleepHook = func(ms int) { time.Sleep(time.Duration(ms) * time.Millisecond) }
	// ClockMsHook, when set, gives event time stamps directly (virtual milliseconds).
	ClockMsHook func() int64
	// YieldHook is called where a real process could be observed from outside
	// (after create, before start). Default: nothing.
	YieldHook = func(what string) {}
)

func NewWorld(scripts map[string]*Script) *World {
	w := &World{Scripts: scripts, attempts: map[string]int{}, creates: map[string]int{}, open: map[string]*proc{}, t0: NowHook()}
	curMu.Lock()
	cur = w
	curMu.Unlock()
	return w
}

func Current() *World {
	curMu.Lock()
	defer curMu.Unlock()
	return cur
}

func (w *World) emit(e Event) {
	w.mu.Lock()
	if ClockMsHook != nil {
		e.T = ClockMsHook()
	} else {
		e.T = NowHook().Sub(w.t0).Milliseconds()
	}
	w.Events = append(w.Events, e)
	f := w.OnEvent
	w.mu.Unlock()
	if f != nil {
		f(e)
	}
}

func (w *World) Snapshot() []Event {
	w.mu.Lock()
	defer w.mu.Unlock()
	return append([]Event(nil), w.Events...)
}

// OpenCount is the number of attempts between start and end.
func (w *World) OpenCount() int {
	w.mu.Lock()
	defer w.mu.Unlock()
	n := 0
	for _, p := range w.open {
		if p != nil && p.started {
			n++
		}
	}
	return n
}

func (w *World) Attempts(step string) int {
	w.mu.Lock()
	defer w.mu.Unlock()
	return w.attempts[step]
}

type execImpl struct {
	w      *World
	ctx    context.Context
	step   dag.Step
	stdout io.Writer
	stderr io.Writer
	mu     sync.Mutex
	p      *proc
}

func create(ctx context.Context, step dag.Step) (executor.Executor, error) {
	w := Current()
	if w == nil {
		return nil, fmt.Errorf("vexec: no world")
	}
	w.mu.Lock()
	w.creates[step.Name]++
	nth := w.creates[step.Name]
	sc := w.Scripts[step.Name]
	w.mu.Unlock()
	if sc != nil && nth <= sc.CreateFail {
		// the attempt fails before anything is started (like a missing working directory, or a
		// docker / ssh / http executor that cannot be constructed)
		w.emit(Event{Kind: "createfail", Step: step.Name, Attempt: nth})
		return nil, fmt.Errorf("vexec: executor for %s cannot be created (attempt %d)", step.Name, nth)
	}
	w.emit(Event{Kind: "create", Step: step.Name})
	return &execImpl{w: w, ctx: ctx, step: step}, nil
}

func (e *execImpl) SetStdout(out io.Writer) { e.stdout = out }
func (e *execImpl) SetStderr(out io.Writer) { e.stderr = out }

func (e *execImpl) Kill(sig os.Signal) error {
	s, _ := sig.(syscall.Signal)
	e.w.mu.Lock()
	p := e.p
	sc := e.w.Scripts[e.step.Name]
	if p != nil && p.started {
		p.sigs = append(p.sigs, int(s))
		if s == syscall.SIGKILL || sc == nil || !sc.IgnoreTerm {
			p.killed = true
		}
	}
	e.w.mu.Unlock()
	if p == nil || !p.started {
		// like commandExecutor.Kill before Start: nothing to signal
		e.w.emit(Event{Kind: "kill", Step: e.step.Name, Sig: int(s), Why: "no-process"})
		return nil
	}
	e.w.emit(Event{Kind: "kill", Step: e.step.Name, Sig: int(s), Attempt: p.attempt})
	return nil
}

// pattern returns the bytes attempt a of a step writes to a stream.
func Pattern(step string, attempt int, stream string, n int) []byte {
	b := make([]byte, 0, n+32)
	i := 0
	for len(b) < n {
		b = append(b, fmt.Sprintf("[%s#%d:%s:%d]", step, attempt, stream, i)...)
		i++
	}
	return b[:n]
}

func (e *execImpl) Run() error {
	w := e.w
	name := e.step.Name
	// exec.Cmd.Start refuses to start when the context is already done.
	if err := e.ctx.Err(); err != nil {
		w.emit(Event{Kind: "nostart", Step: name, Why: "ctx"})
		return err
	}
	YieldHook("prestart:" + name)
	if err := e.ctx.Err(); err != nil {
		w.emit(Event{Kind: "nostart", Step: name, Why: "ctx"})
		return err
	}
	w.mu.Lock()
	w.attempts[name]++
	a := w.attempts[name]
	p := &proc{step: name, attempt: a, started: true}
	if old := w.open[name]; old != nil && old.started {
		// overlapping attempts of one step: recorded, the oracle decides
	}
	w.open[name] = p
	e.p = p
	sc := w.Scripts[name]
	if sc == nil {
		sc = &Script{}
	}
	w.mu.Unlock()
	w.emit(Event{Kind: "start", Step: name, Attempt: a})

	var werr error
	if sc.OutBytes > 0 && e.stdout != nil {
		_, werr = io.Copy(e.stdout, struct{ io.Reader }{bytesReader(Pattern(name, a, "out", sc.OutBytes))})
	}
	if sc.ErrBytes > 0 && e.stderr != nil {
		if _, err := io.Copy(e.stderr, struct{ io.Reader }{bytesReader(Pattern(name, a, "err", sc.ErrBytes))}); err != nil && werr == nil {
			werr = err
		}
	}

	if sc.DurMs > 0 {
		SleepHook(sc.DurMs)
	}
	cond := func() bool {
		if !sc.Hang {
			return true
		}
		w.mu.Lock()
		k := p.killed
		w.mu.Unlock()
		return k || e.ctx.Err() != nil
	}
	WaitHook(name, cond)

	w.mu.Lock()
	killed := p.killed
	p.started = false
	if w.open[name] == p {
		w.open[name] = nil
	}
	w.mu.Unlock()
	ok := true
	why := ""
	switch {
	case killed:
		ok, why = false, "signal"
	case e.ctx.Err() != nil && sc.Hang:
		ok, why = false, "ctx"
	case sc.Fail < 0 || a <= sc.Fail:
		ok, why = false, "exit1"
	case werr != nil:
		ok, why = false, "write:"+werr.Error()
	}
	w.emit(Event{Kind: "end", Step: name, Attempt: a, OK: ok, Why: why})
	if !ok {
		return fmt.Errorf("vexec: %s attempt %d: %s", name, a, why)
	}
	return nil
}

type breader struct {
	b []byte
}

func bytesReader(b []byte) io.Reader { return &breader{b} }
func (r *breader) Read(p []byte) (int, error) {
	if len(r.b) == 0 {
		return 0, io.EOF
	}
	n := copy(p, r.b)
	r.b = r.b[n:]
	return n, nil
}

func init() {
	executor.Register(Type, create)
}

// Step builds a dag.Step that runs under the scripted executor.
func Step(name string, depends ...string) dag.Step {
	return dag.Step{Name: name, Depends: depends, ExecutorConfig: dag.ExecutorConfig{Type: Type, Config: map[string]any{}}}
}
