// Package vsync replaces "sync" in instrumented files: Mutex, RWMutex and
// WaitGroup are virtual (owned by the cooperative runtime); everything else
// is re-exported from the real package by the generated file.
package vsync

import "github.com/ErdemOzgen/blackdagger/internal/zzverif/vrt"

type Mutex struct {
	held bool
}

func (m *Mutex) Lock() {
	if !vrt.Active() {
		return
	}
	vrt.Point(vrt.KLock, "", func() bool { return !m.held }, false)
	m.held = true
	vrt.Effect()
}

func (m *Mutex) TryLock() bool {
	if !vrt.Active() {
		return true
	}
	if m.held {
		return false
	}
	m.held = true
	vrt.Effect()
	return true
}

func (m *Mutex) Unlock() { m.held = false }

type RWMutex struct {
	w       bool
	readers int
}

func (m *RWMutex) Lock() {
	if !vrt.Active() {
		return
	}
	vrt.Point(vrt.KLock, "", func() bool { return !m.w && m.readers == 0 }, false)
	m.w = true
	vrt.Effect()
}

func (m *RWMutex) Unlock() { m.w = false }

func (m *RWMutex) RLock() {
	if !vrt.Active() {
		return
	}
	vrt.Point(vrt.KRLock, "", func() bool { return !m.w }, false)
	m.readers++
}

func (m *RWMutex) RUnlock() {
	if m.readers > 0 {
		m.readers--
	}
}

func (m *RWMutex) TryLock() bool {
	if !vrt.Active() {
		return true
	}
	if m.w || m.readers > 0 {
		return false
	}
	m.w = true
	vrt.Effect()
	return true
}

func (m *RWMutex) TryRLock() bool {
	if !vrt.Active() {
		return true
	}
	if m.w {
		return false
	}
	m.readers++
	return true
}

func (m *RWMutex) RLocker() Locker { return rlocker{m} }

type rlocker struct{ m *RWMutex }

func (r rlocker) Lock()   { r.m.RLock() }
func (r rlocker) Unlock() { r.m.RUnlock() }

type WaitGroup struct {
	n int
}

func (wg *WaitGroup) Add(d int) {
	if vrt.Active() {
		vrt.Point(vrt.KWg, "", nil, false)
		vrt.Effect()
	}
	wg.n += d
	if wg.n < 0 {
		panic("sync: negative WaitGroup counter")
	}
}

func (wg *WaitGroup) Done() { wg.Add(-1) }

func (wg *WaitGroup) Wait() {
	if !vrt.Active() {
		return
	}
	vrt.Point(vrt.KWgWait, "", func() bool { return wg.n == 0 }, false)
}
