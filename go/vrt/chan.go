package vrt

import (
	"reflect"
)

// Virtual channel operations. Managed threads never block for real: an
// unbuffered send is queued in a side table and its sender waits (at a
// scheduling point) until a receiver took the value; buffered channels and
// timer channels are used for real but only when the operation cannot block.

type pend struct {
	v     any
	taken bool
}

type vchan struct {
	q      []*pend
	closed bool
}

var chans = map[uintptr]*vchan{}

// ResetChans forgets all side tables (called between executions).
func ResetChans() { chans = map[uintptr]*vchan{} }

func side(ch any) *vchan {
	p := reflect.ValueOf(ch).Pointer()
	vc := chans[p]
	if vc == nil {
		vc = &vchan{}
		chans[p] = vc
	}
	return vc
}

// unwinding reports whether the current execution is being torn down: deferred
// calls of the code under test still run then, and must never block.
func unwinding() bool { return R != nil && R.aborting }

func Send[T any](ch chan<- T, v T) {
	if unwinding() {
		return
	}
	if !Active() {
		ch <- v
		return
	}
	if cap(ch) > 0 {
		Point(KSend, "", func() bool { return len(ch) < cap(ch) }, false)
		Effect()
		ch <- v
		return
	}
	vc := side(ch)
	if vc.closed {
		panic("send on closed channel")
	}
	p := &pend{v: v}
	vc.q = append(vc.q, p)
	Effect()
	Point(KSend, "", func() bool { return p.taken }, false)
}

func recvReady[T any](ch <-chan T, vc *vchan) bool {
	return len(vc.q) > 0 || len(ch) > 0 || vc.closed
}

func take[T any](ch <-chan T, vc *vchan) (T, bool) {
	if len(vc.q) > 0 {
		p := vc.q[0]
		vc.q = vc.q[1:]
		p.taken = true
		Effect()
		return p.v.(T), true
	}
	if len(ch) > 0 {
		Effect()
		v, ok := <-ch
		return v, ok
	}
	var zero T
	return zero, false // closed
}

func Recv2[T any](ch <-chan T) (T, bool) {
	if unwinding() {
		var zero T
		return zero, false
	}
	if !Active() {
		v, ok := <-ch
		return v, ok
	}
	vc := side(ch)
	Point(KRecv, "", func() bool { return recvReady(ch, vc) }, false)
	return take(ch, vc)
}

func Recv[T any](ch <-chan T) T {
	v, _ := Recv2(ch)
	return v
}

func Close[T any](ch chan T) {
	if unwinding() {
		return
	}
	if Active() {
		side(ch).closed = true
		Effect()
	}
	close(ch)
}

// Sel is one receive case of a select.
type Sel struct {
	ready func() bool
	take  func()
}

func Case[T any](ch <-chan T) Sel {
	return Sel{
		ready: func() bool { return recvReady(ch, side(ch)) },
		take:  func() { take(ch, side(ch)) },
	}
}

// Select models a select whose cases are receives that discard the value.
// Returns the index of the case taken, or -1 for default.
func Select(hasDefault bool, cases ...Sel) int {
	if unwinding() {
		return -1
	}
	if !Active() {
		panic("vrt.Select outside an execution")
	}
	Point(KSelect, "", func() bool {
		if hasDefault {
			return true
		}
		for _, c := range cases {
			if c.ready() {
				return true
			}
		}
		return false
	}, false)
	var ready []int
	for i, c := range cases {
		if c.ready() {
			ready = append(ready, i)
		}
	}
	if len(ready) == 0 {
		return -1
	}
	i := ready[Choose(len(ready), "select")]
	cases[i].take()
	return i
}
