// Package vrt is the cooperative runtime of the stateless model checker (E1).
//
// Code under test (machine-instrumented copies of the scheduler files) calls
// into it instead of sync / time / go statements / channel operations.
// Managed goroutines ("threads") run one at a time and hand a token to each
// other at scheduling points; which thread continues at a point is decided by
// a Chooser (the explorer), so an execution is a pure function of its choice
// list. Time is virtual.
//
// One algorithm serves all modes: at every point the menu of continuations is
//
//	[current thread if enabled] ++ other enabled threads (ascending id)
//	++ "advance the clock to the earliest timed item" options
//
// and each option has a cost in *preemptions*: leaving a current thread that
// could continue and is not at a free point (a point where a child process is
// running, or a sleep) costs 1; letting virtual time pass while some enabled
// thread is at a non-free point costs 1 (computation is instantaneous relative
// to timers unless we pay for the delay). The explorer enumerates all choice
// sequences whose total cost is <= its bound; bound 0 is the non-preemptive
// mode (all orders of blocking segments, process completions and timer
// expiries), bound k adds every placement of k context switches.
package vrt

import (
	"fmt"
	"runtime"
	"runtime/debug"
	"sort"
	"strings"
	"time"
)

type Kind uint8

const (
	KLock Kind = iota
	KRLock
	KWg
	KWgWait
	KSleep
	KGo
	KSend
	KRecv
	KSelect
	KWait // a child process is running: free point
	KYield
	KExit
	KChoose
)

var kindName = [...]string{"lock", "rlock", "wg", "wgwait", "sleep", "go", "send", "recv", "select", "wait", "yield", "exit", "choose"}

func (k Kind) String() string { return kindName[k] }

type Thread struct {
	ID    int
	Name  string
	wake  chan struct{}
	cond  func() bool
	kind  Kind
	label string
	free  bool
	done  bool
	live  bool // goroutine exists and has not finished

	sleeping bool
	wakeAt   int64

	parked    bool
	parkEpoch uint64
	sleepSite uintptr
	iterEpoch uint64
	// wokeOptional: the last wake-up from Sleep was a choice (a zero-cost sibling
	// continuation existed and the clock did not have to advance for it)
	wokeOptional bool
	forcedEpoch  uint64 // epoch at which this parked poller was last force-woken by the hang guard

	exited chan struct{}
}

type timer struct {
	at   int64
	seq  int
	fire func()
	dead bool
	what string
}

// Option is one entry of a decision menu.
type Option struct {
	T     *Thread // thread to run (nil for a timer)
	Tm    *timer
	Cost  int
	Clock int64 // clock value after taking it
}

// Decision is what the chooser sees.
type Decision struct {
	N     int   // menu size
	Costs []int // per option
	Desc  func() []string
}

// Chooser picks the continuation at branching points (menus of size > 1).
type Chooser interface {
	Choose(d Decision) int
}

type Status int

const (
	Finished Status = iota
	Hang
	Horizon
	Panicked
	Aborted
	Redundant // cut: an idle polling iteration was taken although another continuation was available (stutter-equivalent to a sibling execution)
)

func (s Status) String() string {
	return [...]string{"finished", "hang", "horizon", "panic", "aborted", "redundant"}[s]
}

type Outcome struct {
	Status   Status
	Detail   string // thread table for hang, panic value + stack for panic
	Points   int
	Branches int
	EndClock time.Duration
}

type Runtime struct {
	threads  []*Thread
	cur      *Thread
	now      int64
	epoch    uint64
	timers   []*timer
	tseq     int
	chooser  Chooser
	points   int
	branches int
	horizon  int
	aborting bool
	fin      chan struct{}
	out      Outcome
	finOnce  bool
	finisher *Thread
	oracle   bool

	// Budget is the preemption bound of this execution; options whose cost
	// exceeds what is left of it are not offered.
	Budget int
	spent  int
	costBuf []int

	// OnDecision, when set, is called at every decision (for state hashing).
	OnDecision func(r *Runtime)
	// Trace, when set, receives one line per scheduling decision.
	Trace func(string)
}

// R is the runtime of the execution in progress (nil outside executions).
var R *Runtime

// Epoch0 is the virtual wall clock at the start of every execution.
var Epoch0 = time.Date(2030, 1, 1, 0, 0, 0, 0, time.UTC)

// Now returns the virtual wall-clock time (real time outside executions).
func Now() time.Time {
	if r := R; r != nil {
		return Epoch0.Add(time.Duration(r.now))
	}
	return time.Now()
}

// Active reports whether an execution is in progress (and the caller is code
// under test, not an oracle callback).
func Active() bool { return R != nil && !R.aborting && !R.oracle }

// Oracle runs f with every shim passive (locks and channel operations are
// no-ops that never block or schedule), so that an oracle can read the state
// of the code under test through its ordinary accessors at a decision point.
func Oracle(f func()) {
	r := R
	if r == nil {
		f()
		return
	}
	old := r.oracle
	r.oracle = true
	defer func() { r.oracle = old }()
	f()
}

// Effect marks a visible state change (bumps the global epoch that idle
// pollers are parked on).
func Effect() {
	if r := R; r != nil {
		r.epoch++
	}
}

type abortSentinel struct{}

// BranchStats, when non-nil, counts zero-cost alternatives by (current point kind -> alternative kind).
var BranchStats map[string]int

// PruneIdle enables the stutter reduction described at Redundant.
var PruneIdle = true

// OnWake, when set, is called (in the woken thread) each time a thread
// returns from a virtual Sleep.
var OnWake func(thread int)

// Prepare creates the runtime of one execution.
func Prepare(c Chooser, horizon int) *Runtime {
	return &Runtime{chooser: c, horizon: horizon, fin: make(chan struct{})}
}

// Run executes body as thread 0 under chooser c and returns how it ended.
func Run(c Chooser, horizon int, body func()) Outcome { return Prepare(c, horizon).Run(body) }

// Run executes body as thread 0 and returns how the execution ended.
func (r *Runtime) Run(body func()) Outcome {
	R = r
	t0 := r.newThread("main")
	r.cur = t0
	go r.threadMain(t0, body)
	t0.wake <- struct{}{}
	watchdog := time.NewTimer(60 * time.Second)
	select {
	case <-r.fin:
		watchdog.Stop()
	case <-watchdog.C:
		buf := make([]byte, 1<<20)
		n := runtime.Stack(buf, true)
		r.out = Outcome{Status: Aborted, Detail: "real-time watchdog (60 s): an execution blocked outside the cooperative runtime\n" + string(buf[:n])}
		r.aborting = true
		R = nil
		return r.out
	}
	// reap the threads that are still blocked, one at a time (the finishing thread unwinds first)
	r.aborting = true
	if f := r.finisher; f != nil {
		select {
		case <-f.exited:
		case <-time.After(20 * time.Second):
		}
	}
	for _, t := range r.threads {
		if t.live {
			select {
			case t.wake <- struct{}{}:
			default:
			}
			select {
			case <-t.exited:
			case <-time.After(20 * time.Second):
			}
		}
	}
	r.out.Points = r.points
	r.out.Branches = r.branches
	r.out.EndClock = time.Duration(r.now)
	R = nil
	return r.out
}

func (r *Runtime) newThread(name string) *Thread {
	t := &Thread{ID: len(r.threads), Name: name, wake: make(chan struct{}, 1), exited: make(chan struct{}), live: true}
	r.threads = append(r.threads, t)
	return t
}

func (r *Runtime) threadMain(t *Thread, fn func()) {
	<-t.wake
	defer func() {
		t.live = false
		if v := recover(); v != nil {
			if _, ok := v.(abortSentinel); !ok && !r.aborting {
				r.finish(Outcome{Status: Panicked, Detail: fmt.Sprintf("panic in thread %d (%s): %v\n%s", t.ID, t.Name, v, trimStack(debug.Stack()))})
			}
		}
		close(t.exited)
	}()
	if r.aborting {
		return
	}
	fn()
	if r.aborting {
		return
	}
	// thread exit: hand the token on
	t.done = true
	r.epoch++
	r.scheduleFrom(t, true)
}

func trimStack(b []byte) string {
	lines := strings.Split(string(b), "\n")
	var keep []string
	for i := 0; i < len(lines); i++ {
		if strings.Contains(lines[i], "internal/zzverif/vrt") || strings.Contains(lines[i], "runtime/debug") || strings.Contains(lines[i], "runtime/panic") {
			i++
			continue
		}
		keep = append(keep, lines[i])
	}
	if len(keep) > 24 {
		keep = keep[:24]
	}
	return strings.Join(keep, "\n")
}

func (r *Runtime) finish(o Outcome) {
	if r.finOnce {
		return
	}
	r.finOnce = true
	r.aborting = true
	r.finisher = r.cur
	r.out = o
	close(r.fin)
}

// Go starts fn as a new managed thread.
func Go(fn func()) {
	r := R
	if r == nil || r.aborting {
		go fn()
		return
	}
	name := ""
	if _, file, line, ok := runtime.Caller(1); ok {
		name = fmt.Sprintf("%s:%d", shortFile(file), line)
	}
	child := r.newThread(name)
	go r.threadMain(child, fn)
	r.epoch++
	r.point(KGo, "go "+name, nil, false)
}

func shortFile(f string) string {
	if i := strings.LastIndex(f, "/"); i >= 0 {
		return f[i+1:]
	}
	return f
}

// Point is a scheduling point of the current thread: it continues when it is
// chosen and cond (nil = always) holds.
func Point(k Kind, label string, cond func() bool, free bool) {
	if r := R; r != nil && !r.aborting && !r.oracle {
		r.point(k, label, cond, free)
	}
}

func (r *Runtime) point(k Kind, label string, cond func() bool, free bool) {
	t := r.cur
	t.kind, t.label, t.cond, t.free = k, label, cond, free
	r.scheduleFrom(t, false)
	t.cond = nil
	t.free = false
}

func (t *Thread) enabled(r *Runtime) bool {
	if t.done || t.sleeping {
		return false
	}
	return t.cond == nil || t.cond()
}

// scheduleFrom: thread t is at a point (or has exited): decide who continues.
// Returns when t itself continues (never, for exiting threads).
func (r *Runtime) scheduleFrom(t *Thread, exiting bool) {
	for {
		if r.aborting {
			if exiting {
				return
			}
			runtime.Goexit()
		}
		r.points++
		if r.points > r.horizon {
			r.finish(Outcome{Status: Horizon, Detail: r.table()})
			continue
		}
		menu := r.menu(t, exiting)
		if left := r.Budget - r.spent; len(menu) > 1 {
			k := 0
			for _, o := range menu {
				if o.Cost <= left {
					menu[k] = o
					k++
				}
			}
			menu = menu[:k]
		}
		if len(menu) == 0 {
			// hang guard: before declaring a livelock, every parked poller gets one more iteration in the
			// current state; only if all of them are idle again (nothing changed) is it a real HANG
			forced := false
			for _, x := range r.threads {
				if !x.done && x.sleeping && x.parked && x.parkEpoch == r.epoch && x.forcedEpoch != r.epoch+1 {
					x.forcedEpoch = r.epoch + 1
					x.parked = false
					forced = true
				}
			}
			if forced {
				r.points--
				continue
			}
			alldone := true
			for _, x := range r.threads {
				if !x.done {
					alldone = false
				}
			}
			if alldone {
				r.finish(Outcome{Status: Finished})
			} else {
				r.finish(Outcome{Status: Hang, Detail: r.table()})
			}
			continue
		}
		idx := 0
		if len(menu) > 1 {
			r.branches++
			if r.OnDecision != nil {
				r.OnDecision(r)
			}
			costs := r.costBuf[:0]
			for _, o := range menu {
				costs = append(costs, o.Cost)
			}
			r.costBuf = costs
			if BranchStats != nil {
				for i, o := range menu {
					if i > 0 && o.Cost == 0 {
						k := t.kind.String() + "->"
						switch {
						case o.Tm != nil:
							k += "timer"
						case o.T.sleeping:
							k += "wake:" + o.T.label
						default:
							k += o.T.kind.String()
						}
						BranchStats[k]++
					}
				}
			}
			idx = r.chooser.Choose(Decision{N: len(menu), Costs: costs, Desc: func() []string { return r.describe(menu) }})
			if idx < 0 || idx >= len(menu) {
				r.finish(Outcome{Status: Aborted, Detail: fmt.Sprintf("chooser returned %d for a menu of %d (replay divergence)\n%s", idx, len(menu), strings.Join(r.describe(menu), "\n"))})
				continue
			}
		}
		o := menu[idx]
		r.spent += o.Cost
		if r.Trace != nil {
			r.Trace(fmt.Sprintf("t=%d cur=%d@%s(%s) pick %d/%d -> %s", r.now/1e6, t.ID, t.kind, t.label, idx, len(menu), r.describe(menu)[idx]))
		}
		advanced := o.Clock > r.now
		if advanced {
			r.now = o.Clock
		}
		if o.Tm != nil {
			o.Tm.dead = true
			r.epoch++
			o.Tm.fire()
			continue // decide again with the timer's effect visible
		}
		nt := o.T
		if nt.sleeping {
			nt.sleeping = false
			nt.parked = false
			nt.iterEpoch = r.epoch
			nt.wokeOptional = false
			if !advanced {
				for i, alt := range menu {
					if i != idx && alt.Cost == 0 {
						nt.wokeOptional = true
					}
				}
			}
		}
		if nt == t {
			return
		}
		r.cur = nt
		nt.wake <- struct{}{}
		if exiting {
			return
		}
		<-t.wake
		if r.aborting {
			runtime.Goexit()
		}
		// chosen by another thread's decision: its menu said we are enabled
		if t.sleeping {
			t.sleeping = false
		}
		return
	}
}

func (r *Runtime) menu(t *Thread, exiting bool) []Option {
	var menu []Option
	curEnabled := !exiting && t.enabled(r)
	nonFreeRunnable := false // some enabled thread sits at a non-free point
	if curEnabled {
		menu = append(menu, Option{T: t})
		if !t.free {
			nonFreeRunnable = true
		}
	}
	switchCost := 0
	if curEnabled && !t.free {
		switchCost = 1
	}
	for _, x := range r.threads {
		if x == t || !x.enabled(r) {
			continue
		}
		menu = append(menu, Option{T: x, Cost: switchCost})
		if !x.free {
			nonFreeRunnable = true
		}
	}
	// timed items: sleepers (not parked) and timers. Due ones (at <= now) behave like runnable threads.
	type item struct {
		at  int64
		t   *Thread
		tm  *timer
		ord int
	}
	var items []item
	for _, x := range r.threads {
		if x.sleeping && !x.done && x != t {
			if x.parked && x.parkEpoch == r.epoch {
				continue
			}
			items = append(items, item{at: x.wakeAt, t: x, ord: x.ID})
		}
	}
	if !exiting && t.sleeping {
		if !(t.parked && t.parkEpoch == r.epoch) {
			items = append(items, item{at: t.wakeAt, t: t, ord: t.ID})
		}
	}
	live := r.timers[:0]
	for _, tm := range r.timers {
		if !tm.dead {
			live = append(live, tm)
		}
	}
	r.timers = live
	for _, tm := range r.timers {
		items = append(items, item{at: tm.at, tm: tm, ord: 1000 + tm.seq})
	}
	if len(items) == 0 {
		return menu
	}
	sort.Slice(items, func(i, j int) bool {
		if items[i].at != items[j].at {
			return items[i].at < items[j].at
		}
		return items[i].ord < items[j].ord
	})
	min := items[0].at
	for _, it := range items {
		due := it.at <= r.now
		if !due && it.at != min {
			break
		}
		if !due && min <= r.now {
			break
		}
		cost := 0
		if due {
			// a woken sleeper / expired timer is just another runnable entity
			cost = switchCost
		} else if nonFreeRunnable {
			cost = 1
		}
		clock := it.at
		if clock < r.now {
			clock = r.now
		}
		menu = append(menu, Option{T: it.t, Tm: it.tm, Cost: cost, Clock: clock})
	}
	return menu
}

func (r *Runtime) describe(menu []Option) []string {
	out := make([]string, len(menu))
	for i, o := range menu {
		switch {
		case o.Tm != nil:
			out[i] = fmt.Sprintf("timer(%s)@%dms cost=%d", o.Tm.what, o.Clock/1e6, o.Cost)
		case o.T.sleeping:
			out[i] = fmt.Sprintf("wake T%d(%s)@%dms cost=%d", o.T.ID, o.T.label, o.Clock/1e6, o.Cost)
		default:
			out[i] = fmt.Sprintf("T%d@%s(%s) cost=%d", o.T.ID, o.T.kind, o.T.label, o.Cost)
		}
	}
	return out
}

func (r *Runtime) table() string {
	var sb strings.Builder
	fmt.Fprintf(&sb, "virtual time %v, epoch %d, points %d\n", time.Duration(r.now), r.epoch, r.points)
	for _, t := range r.threads {
		st := "runnable"
		switch {
		case t.done:
			st = "done"
		case t.sleeping && t.parked && t.parkEpoch == r.epoch:
			st = "parked-poller"
		case t.sleeping:
			st = fmt.Sprintf("sleeping until %v", time.Duration(t.wakeAt))
		case t.cond != nil && !t.cond():
			st = "blocked"
		}
		fmt.Fprintf(&sb, "  T%d %-22s %-14s at %s(%s)\n", t.ID, t.Name, st, t.kind, t.label)
	}
	return sb.String()
}

// StateHash is a cheap canonical hash of the thread table (FNV-1a).
func (r *Runtime) StateHash() uint64 {
	h := uint64(1469598103934665603)
	mix := func(b byte) { h = (h ^ uint64(b)) * 1099511628211 }
	for _, t := range r.threads {
		c := byte('r')
		switch {
		case t.done:
			c = 'd'
		case t.sleeping && t.parked && t.parkEpoch == r.epoch:
			c = 'p'
		case t.sleeping:
			c = 's'
		case t.cond != nil && !t.cond():
			c = 'b'
		}
		mix(c)
		mix(byte(t.kind))
		for i := 0; i < len(t.label); i++ {
			mix(t.label[i])
		}
		mix(0)
	}
	return h
}

// ThreadStates is a canonical summary used for state hashing.
func (r *Runtime) ThreadStates() string {
	var sb strings.Builder
	for _, t := range r.threads {
		c := 'r'
		switch {
		case t.done:
			c = 'd'
		case t.sleeping && t.parked && t.parkEpoch == r.epoch:
			c = 'p'
		case t.sleeping:
			c = 's'
		case t.cond != nil && !t.cond():
			c = 'b'
		}
		fmt.Fprintf(&sb, "%c%d:%s;", c, t.kind, t.label)
	}
	return sb.String()
}

// Sleep is time.Sleep on the virtual clock. An idle polling iteration (same
// call site, nothing happened since the thread last woke up) parks the thread
// until some thread makes a visible change.
func Sleep(d time.Duration) {
	r := R
	if r == nil || r.aborting || r.oracle {
		if r == nil {
			time.Sleep(d)
		}
		return
	}
	if d <= 0 {
		return
	}
	t := r.cur
	var pcs [1]uintptr
	runtime.Callers(3, pcs[:])
	site := pcs[0]
	if t.sleepSite == site && t.iterEpoch == r.epoch {
		if t.wokeOptional && PruneIdle {
			// this iteration changed nothing and need not have been scheduled: the
			// sibling execution that did not schedule it covers every continuation
			r.finish(Outcome{Status: Redundant})
			runtime.Goexit()
		}
		t.parked = true
		t.parkEpoch = r.epoch
	} else {
		t.parked = false
	}
	t.sleepSite = site
	t.sleeping = true
	t.wakeAt = r.now + int64(d)
	r.point(KSleep, fmt.Sprintf("sleep %v", d), nil, true)
	t.sleeping = false
	t.parked = false
	t.iterEpoch = r.epoch
	if OnWake != nil {
		OnWake(t.ID)
	}
}

// AddTimer registers fire to run (in the deciding thread's context, so it must
// not block) when the virtual clock reaches now+d. Returns a cancel function.
func AddTimer(d time.Duration, what string, fire func()) (cancel func() bool) {
	r := R
	if r == nil || r.aborting {
		return func() bool { return false }
	}
	if d < 0 {
		d = 0
	}
	r.tseq++
	tm := &timer{at: r.now + int64(d), seq: r.tseq, fire: fire, what: what}
	r.timers = append(r.timers, tm)
	return func() bool {
		was := !tm.dead
		tm.dead = true
		return was
	}
}

// Choose is a data choice of the environment (n alternatives, all free).
func Choose(n int, what string) int {
	r := R
	if r == nil || r.aborting || n <= 1 {
		return 0
	}
	r.branches++
	costs := make([]int, n)
	idx := r.chooser.Choose(Decision{N: n, Costs: costs, Desc: func() []string {
		out := make([]string, n)
		for i := range out {
			out[i] = fmt.Sprintf("%s=%d", what, i)
		}
		return out
	}})
	if idx < 0 || idx >= n {
		r.finish(Outcome{Status: Aborted, Detail: "chooser out of range at data choice " + what})
		runtime.Goexit()
	}
	return idx
}

// CurID returns the id of the running thread (-1 outside executions).
func CurID() int {
	if r := R; r != nil && r.cur != nil {
		return r.cur.ID
	}
	return -1
}

// Clock is the virtual time since the start of the execution.
func Clock() time.Duration {
	if r := R; r != nil {
		return time.Duration(r.now)
	}
	return 0
}
