// Package vlib holds what every verification harness shares: the result
// record a harness hands back to the orchestrator (bin/vcheck), violation
// signatures, and small deterministic helpers.
package vlib

import (
	"crypto/sha1"
	"encoding/hex"
	"encoding/json"
	"flag"
	"fmt"
	"os"
	"sort"
	"strings"
	"time"
)

// Violation is one failing member (input / schedule / history / crash point).
type Violation struct {
	Signature string `json:"signature"` // canonical, input-specific key used for triage
	Detail    string `json:"detail"`
	Replay    any    `json:"replay,omitempty"` // enough to re-run exactly this member
}

// Result is what one harness process (one shard) reports.
type Result struct {
	Harness     string           `json:"harness"`
	Evaluations int64            `json:"evaluations"`
	States      int64            `json:"states"`
	Transitions int64            `json:"transitions"`
	Validated   int64            `json:"traces_validated_against_impl"`
	Distinct    []string         `json:"distinct_keys,omitempty"` // hashes of distinct non-trivial cases (merged by the orchestrator)
	DistinctN   int64            `json:"distinct_nontrivial"`     // used when keys are too many to ship
	Rule        string           `json:"rule"`
	Samples     []any            `json:"samples"`
	Exhaustive  bool             `json:"exhaustive"`
	Bounds      map[string]any   `json:"bounds"`
	Caps        []string         `json:"caps_hit"`
	Assumptions []string         `json:"assumptions"`
	Counters    map[string]int64 `json:"counters"`
	Violations  []Violation      `json:"violations"`
	CheckErrors []string         `json:"check_errors"`
	WallS       float64          `json:"wall_s"`

	distinct map[string]struct{}
	vioSeen  map[string]int
	start    time.Time
	maxVio   int
}

func New(harness string) *Result {
	return &Result{Harness: harness, Exhaustive: true, Bounds: map[string]any{}, Counters: map[string]int64{},
		distinct: map[string]struct{}{}, vioSeen: map[string]int{}, start: time.Now(), maxVio: 3}
}

func Hash(parts ...any) string {
	h := sha1.New()
	for _, p := range parts {
		fmt.Fprintf(h, "%v\x00", p)
	}
	return hex.EncodeToString(h.Sum(nil))[:16]
}

// Nontrivial records a distinct non-trivial case by key.
func (r *Result) Nontrivial(key string) {
	if _, ok := r.distinct[key]; !ok {
		r.distinct[key] = struct{}{}
	}
}

func (r *Result) Count(name string, d int64) { r.Counters[name] += d }

func (r *Result) Sample(s any) {
	if len(r.Samples) < 6 {
		r.Samples = append(r.Samples, s)
	}
}

// Violate records a violation; at most maxVio replays are kept per signature
// (the count of further hits is kept in Counters["vio:"+sig]).
func (r *Result) Violate(sig, detail string, replay any) {
	r.Counters["vio:"+sig]++
	r.vioSeen[sig]++
	if r.vioSeen[sig] > r.maxVio {
		return
	}
	r.Violations = append(r.Violations, Violation{Signature: sig, Detail: detail, Replay: replay})
}

func (r *Result) CheckError(format string, a ...any) {
	if len(r.CheckErrors) < 20 {
		r.CheckErrors = append(r.CheckErrors, fmt.Sprintf(format, a...))
	}
}

func (r *Result) Cap(what string) {
	r.Exhaustive = false
	for _, c := range r.Caps {
		if c == what {
			return
		}
	}
	r.Caps = append(r.Caps, what)
}

func (r *Result) Assume(s string) { r.Assumptions = append(r.Assumptions, s) }

func (r *Result) Write(path string) {
	r.WallS = time.Since(r.start).Seconds()
	keys := make([]string, 0, len(r.distinct))
	for k := range r.distinct {
		keys = append(keys, k)
	}
	sort.Strings(keys)
	if len(keys) <= 200000 {
		r.Distinct = keys
	}
	r.DistinctN = int64(len(keys))
	if r.Samples == nil {
		r.Samples = []any{}
	}
	if r.Violations == nil {
		r.Violations = []Violation{}
	}
	b, err := json.Marshal(r)
	if err != nil {
		fmt.Fprintln(os.Stderr, "vlib: cannot marshal result:", err)
		os.Exit(2)
	}
	if path == "" || path == "-" {
		os.Stdout.Write(b)
		return
	}
	if err := os.WriteFile(path, b, 0o644); err != nil {
		fmt.Fprintln(os.Stderr, "vlib:", err)
		os.Exit(2)
	}
}

// Common flags of every harness.
type Flags struct {
	Tier   string
	Out    string
	Shard  int
	Shards int
	Work   string
	Replay string
	Seed   int64
	Sub    string
}

func ParseFlags() *Flags {
	f := &Flags{}
	flag.StringVar(&f.Tier, "tier", "quick", "quick|thorough")
	flag.StringVar(&f.Out, "out", "-", "result file")
	flag.IntVar(&f.Shard, "shard", 0, "shard index")
	flag.IntVar(&f.Shards, "shards", 1, "number of shards")
	flag.StringVar(&f.Work, "work", "", "scratch directory (tmpfs)")
	flag.StringVar(&f.Replay, "replay", "", "replay artefact to re-run")
	flag.Int64Var(&f.Seed, "seed", 0, "orders shards only")
	flag.StringVar(&f.Sub, "sub", "", "sub-check / property selector")
	flag.Parse()
	if f.Work == "" {
		d, err := os.MkdirTemp("/dev/shm", "verif-")
		if err != nil {
			d, _ = os.MkdirTemp("", "verif-")
		}
		f.Work = d
	}
	return f
}

func (f *Flags) Thorough() bool { return f.Tier == "thorough" }

// Mine reports whether item i belongs to this shard.
func (f *Flags) Mine(i int) bool { return f.Shards <= 1 || i%f.Shards == f.Shard }

func Short(s string, n int) string {
	s = strings.ReplaceAll(s, "\n", "\\n")
	if len(s) > n {
		return s[:n] + "…"
	}
	return s
}
