package main

// Interleaving family: ONE preemption of a reading process at every
// system-call boundary of a cached history query, with a write to the queried
// run's file completed in the gap.
//
// The breadth-first search executes every operation to completion before the
// next one starts, so it cannot see a reader and a writer overlapping on one
// history file.  Here a READER child process (this binary in a child role:
// one goroutine on a locked OS thread, a long-lived jsondb store) performs a
// query Q1 under the ptrace supervisor vtrace (--with-stat: the file cache
// decides by stat, so stat-family calls are pause points too).  For every
// relevant call K of Q1 the reader's thread is held at the ENTRY of call K;
// the parent then performs the WRITER operation W with its own store instance
// (the server's Update, or the run's own process writing its next status,
// optionally followed by Close with compaction), lets it return, releases the
// reader, lets Q1 finish and asks the reader for the same query again (Q2).
//
// Oracle (the property): Q2 is issued after the write was acknowledged and no
// other write follows, so it must return the last status recorded.  Q1
// overlaps the write: the old and the new status of that run are both
// accepted (the query takes effect before or after the write); a status that
// was never recorded, or an answer that is neither (e.g. an empty list while
// the file is being replaced by its compacted copy), is a violation.

import (
	"context"
	"encoding/json"
	"fmt"
	"io"
	"log"
	"os"
	"os/exec"
	"path/filepath"
	"regexp"
	"runtime"
	"strconv"
	"strings"
	"time"

	"github.com/ErdemOzgen/blackdagger/internal/persistence/jsondb"
	"github.com/ErdemOzgen/blackdagger/internal/zzverif/vlib"
)

const ilWatchdog = 60 * time.Second

// ---- reader child ---------------------------------------------------------

type readerSpec struct {
	Root string `json:"root"` // traced root: <root>/data is the store, marker paths live directly under it
	Dag  string `json:"dag"`  // DAG file path
	Q    string `json:"q"`    // recent | today
	Warm bool   `json:"warm"` // perform the query once before Q1 (cache entry present)
	Obs  string `json:"obs"`  // directory outside the traced root: go1, go2, out
	ID   string `json:"id"`   // request id of the queried run (for the uncached lookup printed last)
}

func waitFile(p string) {
	for {
		if _, err := os.Stat(p); err == nil {
			return
		}
		time.Sleep(2 * time.Millisecond)
	}
}

func readerMain(specPath string) {
	runtime.LockOSThread()
	log.SetOutput(io.Discard)
	time.Local = time.UTC
	var sp readerSpec
	b, err := os.ReadFile(specPath)
	if err == nil {
		err = json.Unmarshal(b, &sp)
	}
	if err != nil {
		fmt.Fprintln(os.Stderr, "c06 reader:", err)
		os.Exit(4)
	}
	out, err := os.OpenFile(filepath.Join(sp.Obs, "out"), os.O_CREATE|os.O_WRONLY|os.O_APPEND, 0o644)
	if err != nil {
		fmt.Fprintln(os.Stderr, "c06 reader:", err)
		os.Exit(4)
	}
	db := jsondb.New(filepath.Join(sp.Root, "data"), true)
	query := func(tag string) {
		k := "latest"
		if sp.Q == "recent" {
			k = "recent"
		}
		g := ask(db, sp.Dag, Query{Kind: k, Dag: sp.Dag, Today: true, N: 1})
		fmt.Fprintf(out, "%s %s\n", tag, encodeGot(g))
	}
	if sp.Warm {
		query("Q0")
	}
	waitFile(filepath.Join(sp.Obs, "go1"))
	_, _ = os.Stat(filepath.Join(sp.Root, "MARK-Q1-begin")) // visible in the trace: Q1's calls lie between the two marks
	query("Q1")
	_, _ = os.Stat(filepath.Join(sp.Root, "MARK-Q1-end"))
	waitFile(filepath.Join(sp.Obs, "go2"))
	query("Q2")
	g := ask(db, sp.Dag, Query{Kind: "find", Dag: sp.Dag, ID: sp.ID})
	fmt.Fprintf(out, "FIND %s\n", encodeGot(g))
	fmt.Fprintf(out, "DONE\n")
	os.Exit(0)
}

func encodeGot(g Got) string {
	b, _ := json.Marshal(g)
	return string(b)
}

// ---- parent ---------------------------------------------------------------

type ilGroup struct {
	Cache string `json:"cache"` // cold | warm | stale (entry present, file written again before Q1)
	Q     string `json:"q"`     // recent | today
	W     string `json:"w"`     // update | write | write+close
}

func (g ilGroup) String() string { return fmt.Sprintf("cache=%s Q=%s W=%s", g.Cache, g.Q, g.W) }

type ilReplay struct {
	Group ilGroup `json:"group"`
	K     int     `json:"k"`
	Class string  `json:"class"` // call class of K ...
	Occ   int     `json:"occ"`   // ... and which occurrence of that class inside Q1 (survives renumbering)
}

func ilGroups() []ilGroup {
	var gs []ilGroup
	for _, q := range []string{"recent", "today"} {
		for _, w := range []string{"update", "write", "write+close"} {
			for _, c := range []string{"cold", "warm", "stale"} {
				gs = append(gs, ilGroup{Cache: c, Q: q, W: w})
			}
		}
	}
	return gs
}

// scene: one prepared installation with the parent's store instances.
type ilScene struct {
	dir, root, obs, dag string
	server, agent       *jsondb.JSONDB
	target              string // request id of the run the query returns and W writes to
	last                string // payload key last recorded for target
	old                 string // payload recorded before W
}

func (c *checker) ilPrepare(g ilGroup) (*ilScene, error) {
	c.seq++
	sc := &ilScene{dir: filepath.Join(c.fl.Work, fmt.Sprintf("il%d", c.seq))}
	sc.root, sc.obs = filepath.Join(sc.dir, "root"), filepath.Join(sc.dir, "obs")
	sc.dag = filepath.Join(sc.root, "dags", "a.yaml")
	for _, d := range []string{filepath.Join(sc.root, "data"), filepath.Join(sc.root, "dags"), sc.obs} {
		if err := os.MkdirAll(d, 0o755); err != nil {
			return nil, err
		}
	}
	sc.server = jsondb.New(filepath.Join(sc.root, "data"), true)
	sc.agent = jsondb.New(filepath.Join(sc.root, "data"), true)
	// prior state: one completed run and one open run with one write; the run that W writes to is the newest
	tDone, tOpen := tT0, tT3
	if g.W == "update" {
		tDone, tOpen = tT3, tT0
	}
	idDone, idOpen := reqID("a.yaml", tDone), reqID("a.yaml", tOpen)
	if err := sc.agent.Open(sc.dag, times[tOpen].At(c.today), idOpen); err != nil {
		return nil, err
	}
	if err := sc.agent.Write(mkStatus(idOpen, "run-A")); err != nil {
		return nil, err
	}
	if err := sc.server.Open(sc.dag, times[tDone].At(c.today), idDone); err != nil {
		return nil, err
	}
	if err := sc.server.Write(mkStatus(idDone, "done")); err != nil {
		return nil, err
	}
	if err := sc.server.Close(); err != nil {
		return nil, err
	}
	if g.W == "update" {
		sc.target, sc.last = idDone, "done"
	} else {
		sc.target, sc.last = idOpen, "run-A"
	}
	return sc, nil
}

func (sc *ilScene) end() {
	func() {
		defer func() { _ = recover() }()
		_ = sc.agent.Close()
	}()
	sc.agent.VerifC06Stop()
	sc.server.VerifC06Stop()
	_ = os.RemoveAll(sc.dir)
}

// write performs one write to the target run with the parent's instances and returns when it is acknowledged.
func (sc *ilScene) write(kind string) error {
	switch kind {
	case "update":
		p := toggle(sc.last, "upd-A", "upd-B", "")
		if err := sc.server.Update(sc.dag, sc.target, mkStatus(sc.target, p)); err != nil {
			return err
		}
		sc.last = p
	case "write", "write+close":
		p := toggle(sc.last, "run-A", "run-B", "")
		if err := sc.agent.Write(mkStatus(sc.target, p)); err != nil {
			return err
		}
		sc.last = p
		if kind == "write+close" {
			return sc.agent.Close()
		}
	}
	return nil
}

func touch(p string) { _ = os.WriteFile(p, nil, 0o644) }

func exists(p string) bool { _, err := os.Stat(p); return err == nil }

// ilCall is one line of a vtrace log, reduced to its class.
type ilCall struct {
	K     int
	Name  string
	Path  string // relative to the traced root
	Class string // <call>(<file kind>)
	Done  bool
}

var reMd5 = regexp.MustCompile(`-[0-9a-f]{32}`)
var reRunFile = regexp.MustCompile(`\.\d{8}\.\d{2}:\d{2}:\d{2}\.\d{3}\.[0-9a-f]{8}(_c)?\.dat$`)

func fileKind(rel string) string {
	switch {
	case strings.HasPrefix(rel, "MARK-"):
		return rel
	case rel == "data":
		return "data-dir"
	case reRunFile.MatchString(rel):
		if strings.HasSuffix(rel, "_c.dat") {
			return "compacted-run-file"
		}
		return "run-file"
	case strings.HasPrefix(rel, "data/") && strings.Count(rel, "/") == 1:
		return "dag-history-dir"
	}
	return "other"
}

func unescPath(s string) string {
	var sb strings.Builder
	for i := 0; i < len(s); i++ {
		if s[i] == '\\' && i+3 < len(s) && s[i+1] == 'x' {
			if v, err := strconv.ParseUint(s[i+2:i+4], 16, 8); err == nil {
				sb.WriteByte(byte(v))
				i += 3
				continue
			}
		}
		sb.WriteByte(s[i])
	}
	return sb.String()
}

func parseIlTrace(path, root string) ([]ilCall, string, error) {
	b, err := os.ReadFile(path)
	if err != nil {
		return nil, "", err
	}
	var calls []ilCall
	end := ""
	for _, line := range strings.Split(strings.TrimRight(string(b), "\n"), "\n") {
		if strings.HasPrefix(line, "# end ") {
			end = strings.TrimPrefix(line, "# end ")
			continue
		}
		f := strings.Fields(line)
		if len(f) < 4 {
			continue
		}
		k, err := strconv.Atoi(f[0])
		if err != nil || k != len(calls)+1 {
			return nil, "", fmt.Errorf("trace numbering broken at %q", line)
		}
		cl := ilCall{K: k, Name: f[2]}
		for _, tok := range f[3:] {
			switch {
			case strings.HasPrefix(tok, "ret="):
				cl.Done = tok != "ret=?"
			case strings.HasPrefix(tok, "len="), strings.HasPrefix(tok, "flags="), strings.HasPrefix(tok, "off="):
			default:
				if cl.Path != "" {
					continue
				}
				p := tok
				if i := strings.Index(tok, "->"); i > 0 {
					if _, err := strconv.Atoi(tok[:i]); err == nil {
						p = tok[i+2:]
					}
				}
				p = unescPath(p)
				if p == root {
					p = "."
				} else if strings.HasPrefix(p, root+"/") {
					p = p[len(root)+1:]
				}
				cl.Path = reMd5.ReplaceAllString(p, "-<md5-of-dag-path>") // the directory name carries the md5 of the scene's own path
			}
		}
		cl.Class = cl.Name + "(" + fileKind(cl.Path) + ")"
		calls = append(calls, cl)
	}
	if end == "" {
		return nil, "", fmt.Errorf("trace %s has no end line", path)
	}
	return calls, end, nil
}

type ilOutcome struct {
	calls      []ilCall
	q0, q1, q2 *Got
	find       *Got
	done       bool
	exit       int
	held       bool
	wErr       error
	output     string
}

// ilRun runs the reader once. k == 0: not paused (baseline); the writer operation is then performed
// BEFORE the reader starts Q1 only for cache=stale (its preparatory write), never in the gap.
func (c *checker) ilRun(g ilGroup, k int) (*ilOutcome, *ilScene, error) {
	sc, err := c.ilPrepare(g)
	if err != nil {
		return nil, nil, err
	}
	spec := readerSpec{Root: sc.root, Dag: sc.dag, Q: g.Q, Warm: g.Cache != "cold", Obs: sc.obs, ID: sc.target}
	sb, _ := json.Marshal(spec)
	specPath := filepath.Join(sc.obs, "spec.json")
	if err := os.WriteFile(specPath, sb, 0o644); err != nil {
		return nil, sc, err
	}
	tracePath := filepath.Join(sc.obs, "trace")
	args := []string{"--with-stat", "--root", sc.root, "--log", tracePath}
	if k > 0 {
		args = append(args, "--pause-at", strconv.Itoa(k), "--ready", filepath.Join(sc.obs, "F"), "--resume", filepath.Join(sc.obs, "G"))
	}
	args = append(args, "--", c.self)
	ctx, cancel := context.WithTimeout(context.Background(), ilWatchdog)
	defer cancel()
	cmd := exec.CommandContext(ctx, c.vtrace, args...)
	cmd.Env = append(os.Environ(), "C06_READER="+specPath, "TZ=UTC", "GOMAXPROCS=1", "GOGC=off")
	var stderr strings.Builder
	cmd.Stdout, cmd.Stderr = io.Discard, &stderr
	if err := cmd.Start(); err != nil {
		return nil, sc, fmt.Errorf("cannot start vtrace: %v", err)
	}
	exited := make(chan error, 1)
	go func() { exited <- cmd.Wait() }()
	o := &ilOutcome{}
	outPath := filepath.Join(sc.obs, "out")
	hasLine := func(tag string) bool {
		b, _ := os.ReadFile(outPath)
		return strings.Contains("\n"+string(b), "\n"+tag+" ")
	}
	waitFor := func(cond func() bool) (ok, ended bool) {
		for {
			if cond() {
				return true, false
			}
			select {
			case err := <-exited:
				exited <- err
				return cond(), true
			case <-time.After(2 * time.Millisecond):
			}
		}
	}
	// cache=stale: the file is written once more after the reader's first query and before Q1
	if g.Cache == "stale" {
		if ok, _ := waitFor(func() bool { return hasLine("Q0") }); ok {
			if err := sc.write(strings.TrimSuffix(g.W, "+close")); err != nil {
				o.wErr = err
			}
		}
	}
	sc.old = sc.last
	touch(filepath.Join(sc.obs, "go1"))
	if k > 0 {
		held, _ := waitFor(func() bool { return exists(filepath.Join(sc.obs, "F")) })
		o.held = held
		if held {
			// the trace written at the pause point: K calls, the last one pending
			if calls, _, err := parseIlTrace(tracePath, sc.root); err == nil {
				o.calls = calls
			}
			if err := sc.write(g.W); err != nil { // returns = acknowledged
				o.wErr = err
			}
			touch(filepath.Join(sc.obs, "G"))
		}
	}
	touch(filepath.Join(sc.obs, "go2"))
	werr := <-exited
	if ctx.Err() != nil {
		return nil, sc, fmt.Errorf("watchdog: reader under vtrace did not end within %s (%s K=%d)", ilWatchdog, g, k)
	}
	if werr != nil {
		if ee, ok := werr.(*exec.ExitError); ok {
			o.exit = ee.ExitCode()
		} else {
			return nil, sc, fmt.Errorf("cannot run vtrace: %v", werr)
		}
	}
	if k == 0 || o.calls == nil {
		calls, _, err := parseIlTrace(tracePath, sc.root)
		if err != nil {
			return nil, sc, fmt.Errorf("vtrace exit %d: %v; stderr: %s", o.exit, err, stderr.String())
		}
		if k == 0 {
			o.calls = calls
		}
	}
	b, _ := os.ReadFile(outPath)
	o.output = string(b)
	for _, l := range strings.Split(o.output, "\n") {
		tag, rest, ok := strings.Cut(l, " ")
		if l == "DONE" {
			o.done = true
		}
		if !ok {
			continue
		}
		var gt Got
		if json.Unmarshal([]byte(rest), &gt) != nil {
			continue
		}
		switch tag {
		case "Q0":
			o.q0 = &gt
		case "Q1":
			o.q1 = &gt
		case "Q2":
			o.q2 = &gt
		case "FIND":
			o.find = &gt
		}
	}
	return o, sc, nil
}

func gotStr(g *Got) string {
	if g == nil {
		return "<no answer>"
	}
	return gotString(*g)
}

func isItem(g *Got, id, payload string) bool {
	return g != nil && g.Panic == "" && len(g.Items) == 1 && g.Items[0] == Item{id, payload}
}

// q1Window: the calls of Q1 in a baseline trace (strictly between the two marks).
func q1Window(calls []ilCall) (lo, hi int, ok bool) {
	for _, cl := range calls {
		if cl.Class == "newfstatat(MARK-Q1-begin)" || strings.HasSuffix(cl.Class, "(MARK-Q1-begin)") {
			lo = cl.K
		}
		if strings.HasSuffix(cl.Class, "(MARK-Q1-end)") {
			hi = cl.K
		}
	}
	return lo, hi, lo > 0 && hi > lo
}

func classOcc(calls []ilCall, lo, k int) (string, int) {
	occ := 0
	for _, cl := range calls {
		if cl.K > lo && cl.K <= k && cl.Class == calls[k-1].Class {
			occ++
		}
	}
	return calls[k-1].Class, occ
}

// ilMember: reader held at call K of Q1, W in the gap.
func (c *checker) ilMember(g ilGroup, base []ilCall, lo, k int) {
	res := c.res
	class, occ := classOcc(base, lo, k)
	o, sc, err := c.ilRun(g, k)
	if sc != nil {
		defer sc.end()
	}
	res.Evaluations++
	res.Count("interleaved_members", 1)
	res.Count("interleaved_members:"+g.String(), 1)
	if err != nil {
		res.CheckError("interleaved %s K=%d: %v", g, k, err)
		return
	}
	rp := map[string]any{"interleaved": ilReplay{Group: g, K: k, Class: class, Occ: occ}}
	where := fmt.Sprintf("reader (%s, cache %s) held at the entry of call %d of its process = %s, occurrence %d inside the query", queryName(g.Q), g.Cache, k, class, occ)
	if c.verbose != nil {
		fmt.Fprintf(c.verbose, "%s; writer: %s (error: %v)\n  status before the write: %s, recorded by the write: %s\n  Q1 (overlapping) = %s\n  Q2 (after the write was acknowledged) = %s\n  FindByRequestID (uncached) = %s\n",
			where, g.W, o.wErr, sc.old, sc.last, gotStr(o.q1), gotStr(o.q2), gotStr(o.find))
	}
	if !o.held || !o.done || o.wErr != nil {
		res.CheckError("interleaved %s K=%d (%s): reader held=%v finished=%v writer error=%v vtrace exit=%d output=%q", g, k, class, o.held, o.done, o.wErr, o.exit, vlibShort(o.output))
		return
	}
	// determinism: the execution up to the pause point is the baseline's, call by call
	if len(o.calls) != k || o.calls[k-1].Done {
		res.CheckError("interleaved %s K=%d: the trace at the pause point has %d calls (want %d, the last one pending)", g, k, len(o.calls), k)
		return
	}
	for i := 0; i < k; i++ {
		if o.calls[i].Class != base[i].Class || o.calls[i].Path != base[i].Path {
			res.CheckError("interleaved %s K=%d: scenario not deterministic, call %d is %s %s, baseline has %s %s", g, k, i+1, o.calls[i].Name, o.calls[i].Path, base[i].Name, base[i].Path)
			return
		}
	}
	res.Nontrivial(vlib.Hash("il", g.String(), class, occ))
	pos := fmt.Sprintf("Q=%s/W=%s/reader-held-at=%s", g.Q, g.W, class)
	detail := func(what string) string {
		return fmt.Sprintf("%s; the writer then performed %s on run %s (status before: %s, recorded and acknowledged: %s) and the reader was released. %s. Q1 (overlapping the write) returned %s; Q2 (same query, issued after the acknowledgement, no further write) returned %s; FindByRequestID through the same reader instance returned %s.",
			where, g.W, sc.target, sc.old, sc.last, what, gotStr(o.q1), gotStr(o.q2), gotStr(o.find))
	}
	ok := true
	switch {
	case o.q2 != nil && o.q2.Panic != "":
		ok = false
		res.Violate("C06/interleaved/panic/"+pos, detail("Q2 panicked"), rp)
	case !isItem(o.q2, sc.target, sc.last):
		ok = false
		kind := "wrong-after-write"
		if isItem(o.q2, sc.target, sc.old) {
			kind = "stale-after-write"
		}
		res.Violate("C06/interleaved/"+kind+"/"+pos, detail("Q2 must return the last status recorded, "+sc.target+"="+sc.last), rp)
	}
	if !isItem(o.find, sc.target, sc.last) {
		ok = false
		res.Violate("C06/interleaved/lookup-wrong-after-write/"+pos, detail("FindByRequestID must return the last status recorded"), rp)
	}
	switch {
	case o.q1 != nil && o.q1.Panic != "":
		ok = false
		res.Violate("C06/interleaved/panic-in-overlapping-query/"+pos, detail("Q1 panicked"), rp)
	case isItem(o.q1, sc.target, sc.old):
		res.Count("interleaved_q1_old", 1)
	case isItem(o.q1, sc.target, sc.last):
		res.Count("interleaved_q1_new", 1)
	case o.q1 != nil && len(o.q1.Items) > 0 && strings.HasPrefix(o.q1.Items[0].Payload, "?"):
		ok = false
		res.Violate("C06/interleaved/unrecorded-status-in-overlapping-query/"+pos, detail("Q1 returned a status that was never recorded"), rp)
	default:
		// neither what was recorded before W nor after it (e.g. nothing at all while the file is being
		// replaced by its compacted copy): the answer corresponds to no position in the sequence of
		// recorded operations
		ok = false
		res.Violate("C06/interleaved/overlapping-query-neither-old-nor-new/"+pos, detail("Q1 returned neither the status recorded before W nor the one after it"), rp)
	}
	if ok {
		res.Validated++
	}
}

func queryName(q string) string {
	if q == "recent" {
		return "ReadStatusRecent(1)"
	}
	return "ReadStatusToday"
}

func vlibShort(s string) string {
	s = strings.ReplaceAll(s, "\n", "\\n")
	if len(s) > 400 {
		return s[:400] + "…"
	}
	return s
}

// ilBaseline: the un-paused reader; its trace gives the calls of Q1.
func (c *checker) ilBaseline(g ilGroup) (base []ilCall, lo, hi int, ok bool) {
	o, sc, err := c.ilRun(g, 0)
	if sc != nil {
		defer sc.end()
	}
	if err != nil {
		c.res.CheckError("interleaved %s baseline: %v", g, err)
		return nil, 0, 0, false
	}
	lo, hi, found := q1Window(o.calls)
	if !found || !o.done {
		c.res.CheckError("interleaved %s baseline: marks not found in the trace (%d calls) or reader did not finish: %q", g, len(o.calls), vlibShort(o.output))
		return nil, 0, 0, false
	}
	// sanity of the scene: without interleaving both queries return the current status
	if !isItem(o.q1, sc.target, sc.last) || !isItem(o.q2, sc.target, sc.last) || !isItem(o.find, sc.target, sc.last) {
		c.res.Violate("C06/interleaved/baseline-wrong/Q="+g.Q+"/cache="+g.Cache, fmt.Sprintf("%s without any interleaving: last recorded %s=%s, Q1 %s, Q2 %s, FindByRequestID %s", g, sc.target, sc.last, gotStr(o.q1), gotStr(o.q2), gotStr(o.find)),
			map[string]any{"interleaved": ilReplay{Group: g, K: 0}})
		return nil, 0, 0, false
	}
	return o.calls, lo, hi, true
}

// interleavings runs the family; groups are dealt to shards.
func (c *checker) interleavings() {
	c.vtrace = os.Getenv("VERIF_VTRACE")
	self, err := os.Executable()
	if c.vtrace == "" || err != nil {
		c.res.CheckError("interleaving family not run: VERIF_VTRACE is not set (needs_vtrace) or os.Executable failed: %v", err)
		return
	}
	c.self = self
	for _, g := range ilGroups() {
		c.k++
		if !c.fl.Mine(c.k) {
			continue
		}
		base, lo, hi, ok := c.ilBaseline(g)
		if !ok {
			continue
		}
		c.res.Count("interleaved_groups", 1)
		c.res.Count("interleaved_pause_points_K", int64(hi-lo-1))
		var classes []string
		for k := lo + 1; k < hi; k++ {
			classes = append(classes, base[k-1].Class)
			c.ilMember(g, base, lo, k)
		}
		c.res.Sample(map[string]any{"interleaved": g.String(), "calls_of_Q1": classes})
	}
}

// ilReplayRun re-runs one member; the pause point is found by (class, occurrence) in a fresh baseline.
func (c *checker) ilReplayRun(rp ilReplay) {
	c.vtrace = os.Getenv("VERIF_VTRACE")
	self, err := os.Executable()
	if c.vtrace == "" || err != nil {
		c.res.CheckError("replay needs VERIF_VTRACE")
		return
	}
	c.self = self
	base, lo, hi, ok := c.ilBaseline(rp.Group)
	if !ok {
		return
	}
	fmt.Printf("replaying interleaving %s; calls of Q1 in the baseline run:\n", rp.Group)
	k := 0
	for i := lo + 1; i < hi; i++ {
		cl, occ := classOcc(base, lo, i)
		fmt.Printf("  K=%d %s %s\n", i, base[i-1].Name, base[i-1].Path)
		if rp.Class != "" && cl == rp.Class && occ == rp.Occ {
			k = i
		}
	}
	if k == 0 && rp.K > lo && rp.K < hi {
		k = rp.K
	}
	if k == 0 {
		c.res.CheckError("replay: pause point %s #%d (K=%d) does not exist in this tree's query", rp.Class, rp.Occ, rp.K)
		return
	}
	c.ilMember(rp.Group, base, lo, k)
}
